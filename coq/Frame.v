(* Frame.v — model of Frame / CloseFrame in src/protocol/frame/frame.rs *)
From TungModel Require Export Base Coding Mask Header.

Record frame := mkFrame { f_hdr : header; f_payload : bytes }.

Definition default_header : header := mkHeader true false false false (OCtl Close) None.

(* Frame::len *)
Definition frame_len (f : frame) : N := header_len (f_hdr f) (blen (f_payload f)) + blen (f_payload f).

(* Frame::format (copy, then mask) *)
Definition frame_format (f : frame) : bytes :=
  header_format (f_hdr f) (blen (f_payload f))
  ++ (match h_mask (f_hdr f) with Some k => apply_mask k (f_payload f) | None => f_payload f end).

(* Frame::format_into_buf: append header, append payload, mask the appended range in place *)
Definition frame_format_into_buf (buf : bytes) (f : frame) : bytes :=
  let buf1 := buf ++ header_format (f_hdr f) (blen (f_payload f)) in
  let len := blen buf1 in
  let buf2 := buf1 ++ f_payload f in
  match h_mask (f_hdr f) with
  | Some k => takeN len buf2 ++ apply_mask k (dropN len buf2)
  | None => buf2
  end.

(* Frame::message / ping / pong *)
Definition frame_message (data : bytes) (opc : opcode) (fin : bool) : frame :=
  mkFrame (mkHeader fin false false false opc None) data.
Definition frame_ping (data : bytes) : frame := mkFrame (mkHeader true false false false (OCtl Ping) None) data.
Definition frame_pong (data : bytes) : frame := mkFrame (mkHeader true false false false (OCtl Pong) None) data.

(* CloseFrame { code, reason } *)
Definition close_frame := (close_code * bytes)%type.

(* Frame::close *)
Definition frame_close (msg : option close_frame) : frame :=
  mkFrame default_header
    (match msg with
     | Some (code, reason) => to_be 2 (close_to_u16 code) ++ reason
     | None => []
     end).
