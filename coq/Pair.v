(* Pair.v — two endpoints of the library (a client and a server, Protocol.v) joined by two reliable,
   ordered byte channels, driven by a scheduler. Used for C04 (and the joined form of C01).
   The channel is the property's stated assumption ("reliable ordered transport"): bytes accepted from
   one side are appended to the other side's inbox, nothing is lost, duplicated or reordered; when a side
   has dropped the transport the other side reads EOF once its inbox is empty. *)
From TungModel Require Export Protocol.

Record endpoint := mkEndpoint {
  e_ctx : ctx;
  e_inbox : bytes;          (* bytes in flight towards this endpoint *)
  e_dropped : bool;         (* this endpoint has dropped the transport *)
  e_told : bool;            (* some call on this endpoint returned ConnectionClosed *)
  e_keys : list key }.

Record pair := mkPair { p_client : endpoint; p_server : endpoint }.

Inductive paction :=
| PDo (sd : role) (o : op) (chunks : list N) (wrs : list wr_out) (fls : list fl_out)
      (* run o on side sd; its reads may return the inbox cut into `chunks` (sizes), then block;
         its writes/flushes behave as wrs/fls say, then block *)
| PDrop (sd : role).        (* sd drops the transport; allowed only after it was told ConnectionClosed *)

(* cut a prefix of the inbox into the scheduled chunk sizes *)
Fixpoint chunks_of (inbox : bytes) (sizes : list N) : list rd_out * bytes :=
  match sizes with
  | [] => ([], inbox)
  | n :: r =>
      match inbox with
      | [] => ([], inbox)
      | _ :: _ =>
          if n =? 0 then chunks_of inbox r else
          let n' := N.min n (blen inbox) in      (* a size above what is in flight means "everything" *)
          let c := takeN n' inbox in
          let '(cs, rest) := chunks_of (dropN n' inbox) r in
          (RdData c :: cs, rest)
      end
  end.

Fixpoint rd_total (rds : list rd_out) : N :=
  match rds with
  | [] => 0
  | RdData bs :: r => blen bs + rd_total r
  | _ :: r => rd_total r
  end.

Definition is_closed_res (r : op_result) : bool :=
  match r with
  | ResMsg (RErr EConnectionClosed) | ResUnit (RErr EConnectionClosed) => true
  | _ => false
  end.

(* one scheduled call on endpoint `me` whose peer is `pe`; returns the result and both endpoints *)
Definition do_on (me pe : endpoint) (o : op) (chunks : list N) (wrs : list wr_out) (fls : list fl_out)
  : op_result * endpoint * endpoint * list event :=
  let '(data_rds, rest) := chunks_of (e_inbox me) chunks in
  let rds := data_rds ++ (match rest with [] => if e_dropped pe then [RdEof] else [] | _ => [] end) in
  let w := mkWorld rds wrs fls (e_keys me) [] in
  let '(res, x', w') := run_op (e_ctx me) o w in
  let consumed := rd_total rds - rd_total (w_rds w') in
  let written := wire (w_log w') in
  let me' := mkEndpoint x' (dropN consumed (e_inbox me)) (e_dropped me)
                        (e_told me || is_closed_res res) (w_keys w') in
  let pe' := if e_dropped pe then pe
             else mkEndpoint (e_ctx pe) (e_inbox pe ++ written) (e_dropped pe) (e_told pe) (e_keys pe) in
  (res, me', pe', w_log w').

Inductive pres_item :=
| PRes (sd : role) (o : op) (r : op_result)
| PDropped (sd : role)
| PSkipped (sd : role).       (* action on a dropped endpoint / drop before being told closed: ignored *)

Definition pstep (p : pair) (a : paction) : pres_item * pair :=
  match a with
  | PDo Client o ch wrs fls =>
      if e_dropped (p_client p) then (PSkipped Client, p) else
      let '(r, me, pe, _) := do_on (p_client p) (p_server p) o ch wrs fls in (PRes Client o r, mkPair me pe)
  | PDo Server o ch wrs fls =>
      if e_dropped (p_server p) then (PSkipped Server, p) else
      let '(r, me, pe, _) := do_on (p_server p) (p_client p) o ch wrs fls in (PRes Server o r, mkPair pe me)
  | PDrop Client =>
      let c := p_client p in
      if e_told c then (PDropped Client, mkPair (mkEndpoint (e_ctx c) (e_inbox c) true (e_told c) (e_keys c)) (p_server p))
      else (PSkipped Client, p)
  | PDrop Server =>
      let s := p_server p in
      if e_told s then (PDropped Server, mkPair (p_client p) (mkEndpoint (e_ctx s) (e_inbox s) true (e_told s) (e_keys s)))
      else (PSkipped Server, p)
  end.

Fixpoint prun (p : pair) (acts : list paction) : list pres_item * pair :=
  match acts with
  | [] => ([], p)
  | a :: r => let '(i, p1) := pstep p a in let '(is, p2) := prun p1 r in (i :: is, p2)
  end.

Definition pair_init (cfg_c cfg_s : config) (keys : list key) : option pair :=
  match ctx_new Client [] cfg_c, ctx_new Server [] cfg_s with
  | Some xc, Some xs => Some (mkPair (mkEndpoint xc [] false false keys) (mkEndpoint xs [] false false []))
  | _, _ => None
  end.

(* a "fair round" for one side: flush on an accepting transport, then read everything that is in flight
   (one read per action; the scheduler repeats reads), dropping the transport once told closed *)
Definition accept_all : list wr_out := repeat (WrAccept u64_max) 4.
Definition fair_flush (sd : role) : paction := PDo sd OpFlush [] accept_all [FlOk; FlOk].
Definition fair_read (sd : role) : paction := PDo sd OpRead [u64_max] accept_all [FlOk; FlOk].
