(* Utf8.v — model of std::str::from_utf8 (valid_up_to / error_len), utf8::decode and
   utf8::Incomplete::try_complete (utf-8 0.7.6), and StringCollector (src/protocol/message.rs). *)
From TungModel Require Export Base.

Definition inr (lo hi b : N) : bool := (lo <=? b) && (b <=? hi).
Definition cont := inr 0x80 0xBF.
Definition ok3 (b0 b1 : N) : bool :=
  ((b0 =? 0xE0) && inr 0xA0 0xBF b1) || (inr 0xE1 0xEC b0 && cont b1) ||
  ((b0 =? 0xED) && inr 0x80 0x9F b1) || (inr 0xEE 0xEF b0 && cont b1).
Definition ok4 (b0 b1 : N) : bool :=
  ((b0 =? 0xF0) && inr 0x90 0xBF b1) || (inr 0xF1 0xF3 b0 && cont b1) || ((b0 =? 0xF4) && inr 0x80 0x8F b1).

Inductive sres := SEmpty | SChar (n : nat) | SInvalid (n : nat) | SIncomplete.

(* one step of std's run_utf8_validation at the head of bs *)
Definition step (bs : bytes) : sres :=
  match bs with
  | [] => SEmpty
  | b0 :: r =>
    if b0 <? 0x80 then SChar 1
    else if b0 <? 0xC2 then SInvalid 1
    else if b0 <? 0xE0 then
      match r with [] => SIncomplete | b1 :: _ => if cont b1 then SChar 2 else SInvalid 1 end
    else if b0 <? 0xF0 then
      match r with [] => SIncomplete | b1 :: r1 =>
        if ok3 b0 b1 then match r1 with [] => SIncomplete | b2 :: _ => if cont b2 then SChar 3 else SInvalid 2 end
        else SInvalid 1 end
    else if b0 <? 0xF5 then
      match r with [] => SIncomplete | b1 :: r1 =>
        if ok4 b0 b1 then
          match r1 with [] => SIncomplete | b2 :: r2 =>
            if cont b2 then match r2 with [] => SIncomplete | b3 :: _ => if cont b3 then SChar 4 else SInvalid 3 end
            else SInvalid 2 end
        else SInvalid 1 end
    else SInvalid 1
  end.

(* Result<&str, Utf8Error{valid_up_to, error_len}> *)
Inductive ures := UOk | UErr (valid_up_to : N) (error_len : option N).

Fixpoint from_utf8_aux (fuel : nat) (pos : N) (bs : bytes) : ures :=
  match fuel with
  | O => UOk (* unreachable with fuel = S (length bs) *)
  | S f =>
    match step bs with
    | SEmpty => UOk
    | SChar n => from_utf8_aux f (pos + N.of_nat n) (skipn n bs)
    | SInvalid n => UErr pos (Some (N.of_nat n))
    | SIncomplete => UErr pos None
    end
  end.
Definition from_utf8 (bs : bytes) : ures := from_utf8_aux (S (length bs)) 0 bs.
Definition is_utf8 (bs : bytes) : bool := match from_utf8 bs with UOk => true | _ => false end.

(* utf8::decode *)
Inductive dres :=
| DOk
| DIncomplete (valid_prefix : bytes) (suffix : bytes)
| DInvalid (valid_prefix : bytes)
| DPanic.                       (* Incomplete::new's copy_from_slice on > 4 bytes *)
Definition utf8_decode (input : bytes) : dres :=
  match from_utf8 input with
  | UOk => DOk
  | UErr v (Some _) => DInvalid (takeN v input)
  | UErr v None =>
      let after := dropN v input in
      if 4 <? blen after then DPanic else DIncomplete (takeN v input) after
  end.

(* Incomplete::try_complete. inc = buffer[..buffer_len].
   TStill inc'            : None (still incomplete, buffer now inc')
   TDone ok bytes rest    : Some((Ok/Err(result_bytes), remaining_input))
   TPanic                 : one of the two checked_sub(..).unwrap() sites *)
Inductive tres := TStill (inc : bytes) | TDone (ok : bool) (result : bytes) (rest : bytes) | TPanic.
Definition try_complete (inc input : bytes) : tres :=
  let initial := blen inc in
  let copied := N.min (4 - initial) (blen input) in
  let spliced := inc ++ takeN copied input in
  match from_utf8 spliced with
  | UOk => TDone true spliced (dropN copied input)
  | UErr v el =>
      if 0 <? v then
        if v <? initial then TPanic
        else TDone true (takeN v spliced) (dropN (v - initial) input)
      else
        match el with
        | Some l => if l <? initial then TPanic else TDone false (takeN l spliced) (dropN (l - initial) input)
        | None => TStill spliced
        end
  end.

(* StringCollector *)
Record collector := mkCollector { sc_data : bytes; sc_inc : option bytes }.
Definition collector_new : collector := mkCollector [] None.
Definition collector_len (c : collector) : N :=
  blen (sc_data c) + match sc_inc c with Some i => blen i | None => 0 end.

Inductive cres := COk (c : collector) | CErrUtf8 (c : collector) | CPanic.

Definition collector_decode_rest (data : bytes) (inc : option bytes) (input : bytes) : cres :=
  match input with
  | [] => COk (mkCollector data inc)
  | _ =>
    match utf8_decode input with
    | DOk => COk (mkCollector (data ++ input) inc)
    | DIncomplete vp suf => COk (mkCollector (data ++ vp) (Some suf))
    | DInvalid vp => CErrUtf8 (mkCollector (data ++ vp) inc)
    | DPanic => CPanic
    end
  end.

(* StringCollector::extend *)
Definition collector_extend (c : collector) (tail : bytes) : cres :=
  match sc_inc c with
  | Some inc =>
      match try_complete inc tail with
      | TDone true text rest => collector_decode_rest (sc_data c ++ text) None rest
      | TDone false _ _ => CErrUtf8 (mkCollector (sc_data c) None)
      | TStill inc' => COk (mkCollector (sc_data c) (Some inc'))
      | TPanic => CPanic
      end
  | None => collector_decode_rest (sc_data c) None tail
  end.

(* StringCollector::into_string *)
Definition collector_into_string (c : collector) : option bytes :=
  match sc_inc c with Some _ => None | None => Some (sc_data c) end.
