(* Protocol.v — model of WebSocketContext in src/protocol/mod.rs *)
From TungModel Require Export World Message Codec.

Inductive role := Server | Client.
Definition role_eqb (a b : role) : bool := match a, b with Server, Server | Client, Client => true | _, _ => false end.

Inductive ws_state := Active | ClosedByUs | ClosedByPeer | CloseAcknowledged | Terminated.

Record config := mkConfig {
  cfg_write_buffer_size : N;
  cfg_max_write_buffer_size : N;
  cfg_max_message_size : option N;
  cfg_max_frame_size : option N;
  cfg_accept_unmasked : bool }.

Record ctx := mkCtx {
  x_role : role;
  x_codec : codec;
  x_state : ws_state;
  x_incomplete : option incmsg;
  x_additional : option frame;          (* additional_send *)
  x_unflushed : bool;                   (* unflushed_additional *)
  x_cfg : config }.

Definition set_codec (x : ctx) (c : codec) : ctx :=
  mkCtx (x_role x) c (x_state x) (x_incomplete x) (x_additional x) (x_unflushed x) (x_cfg x).
Definition set_state (x : ctx) (s : ws_state) : ctx :=
  mkCtx (x_role x) (x_codec x) s (x_incomplete x) (x_additional x) (x_unflushed x) (x_cfg x).
Definition set_incomplete (x : ctx) (i : option incmsg) : ctx :=
  mkCtx (x_role x) (x_codec x) (x_state x) i (x_additional x) (x_unflushed x) (x_cfg x).
Definition set_additional_raw (x : ctx) (a : option frame) : ctx :=
  mkCtx (x_role x) (x_codec x) (x_state x) (x_incomplete x) a (x_unflushed x) (x_cfg x).
Definition set_unflushed (x : ctx) (b : bool) : ctx :=
  mkCtx (x_role x) (x_codec x) (x_state x) (x_incomplete x) (x_additional x) b (x_cfg x).

(* WebSocketState::is_active / can_read *)
Definition is_active (s : ws_state) : bool := match s with Active => true | _ => false end.
Definition can_read (s : ws_state) : bool := match s with Active | ClosedByUs => true | _ => false end.
Definition is_terminated (s : ws_state) : bool := match s with Terminated => true | _ => false end.
(* a Close was received and the connection has not been torn down yet *)
Definition closing_done (s : ws_state) : bool :=
  match s with ClosedByPeer | CloseAcknowledged => true | _ => false end.

(* WebSocketConfig::assert_valid *)
Definition config_valid (c : config) : bool := cfg_write_buffer_size c <? cfg_max_write_buffer_size c.

(* WebSocketContext::new / from_partially_read (None = the documented assert_valid panic) *)
Definition ctx_new (r : role) (part : bytes) (cfg : config) : option ctx :=
  if config_valid cfg then
    Some (mkCtx r (set_limits (codec_new part) (cfg_max_write_buffer_size cfg) (cfg_write_buffer_size cfg))
                Active None None false cfg)
  else None.

(* CheckConnectionReset::check_connection_reset *)
Definition check_connection_reset {A} (r : res A) (s : ws_state) : res A * ws_state :=
  match r with
  | RErr (EIo ConnReset) => if closing_done s then (RErr EConnectionClosed, Terminated) else (r, s)
  | _ => (r, s)
  end.

(* set_additional: replace additional_send if it is empty or a Pong *)
Definition set_additional (x : ctx) (add : frame) : ctx :=
  match x_additional x with
  | None => set_additional_raw x (Some add)
  | Some f => if opcode_eqb (h_opcode (f_hdr f)) (OCtl Pong) then set_additional_raw x (Some add) else x
  end.

(* WebSocketContext::buffer_frame *)
Definition buffer_frame (x : ctx) (f : frame) (w : world) : res unit * ctx * world :=
  let '(f1, w1) :=
    match x_role x with
    | Server => (f, w)
    | Client =>
        let '(k, w') := w_next_key w in
        (mkFrame (mkHeader (h_fin (f_hdr f)) (h_rsv1 (f_hdr f)) (h_rsv2 (f_hdr f)) (h_rsv3 (f_hdr f))
                           (h_opcode (f_hdr f)) (Some k)) (f_payload f), w')
    end in
  let '(r, c', w2) := codec_buffer_frame (x_codec x) f1 w1 in
  let '(r', s') := check_connection_reset r (x_state x) in
  (r', set_state (set_codec x c') s', w2).

(* WebSocketContext::_write; returns should_flush *)
Definition write_ (x : ctx) (data : option frame) (w : world) : res bool * ctx * world :=
  let '(r0, x0, w0) :=
    match data with
    | Some f => buffer_frame x f w
    | None => (ROk tt, x, w)
    end in
  match r0 with
  | RErr e => (RErr e, x0, w0)
  | RPanic s => (RPanic s, x0, w0)
  | ROutOfFuel => (ROutOfFuel, x0, w0)
  | ROk _ =>
      let '(r1, x1, w1) :=
        match x_additional x0 with
        | Some msg =>
            let xa := set_additional_raw x0 None in
            let '(rb, xb, wb) := buffer_frame xa msg w0 in
            match rb with
            | RErr (EWriteBufferFull f') => (ROk false, set_additional xb f', wb)
            | RErr e => (RErr e, set_unflushed xb true, wb)
            | RPanic s => (RPanic s, xb, wb)
            | ROutOfFuel => (ROutOfFuel, xb, wb)
            | ROk _ => (ROk true, set_unflushed xb true, wb)
            end
        | None => (ROk (x_unflushed x0), x0, w0)
        end in
      match r1 with
      | ROk should_flush =>
          if role_eqb (x_role x1) Server && closing_done (x_state x1)
             && (match x_additional x1 with None => true | Some _ => false end) then
            let '(rw, c', w2) := write_out_buffer (x_codec x1) w1 in
            match rw with
            | ROk _ => (RErr EConnectionClosed, set_state (set_codec x1 c') Terminated, w2)
            | RErr e => (RErr e, set_codec x1 c', w2)
            | RPanic s => (RPanic s, set_codec x1 c', w2)
            | ROutOfFuel => (ROutOfFuel, set_codec x1 c', w2)
            end
          else (ROk should_flush, x1, w1)
      | _ => (r1, x1, w1)
      end
  end.

(* WebSocketContext::flush *)
Definition flush (x : ctx) (w : world) : res unit * ctx * world :=
  let '(r0, x0, w0) := write_ x None w in
  match r0 with
  | ROk _ =>
      let '(r1, c1, w1) := write_out_buffer (x_codec x0) w0 in
      let x1 := set_codec x0 c1 in
      match r1 with
      | ROk _ =>
          let '(r2, w2) := w_flush w1 in
          match r2 with
          | ROk _ => (ROk tt, set_unflushed x1 false, w2)
          | _ => (r2, x1, w2)
          end
      | _ => (r1, x1, w1)
      end
  | RErr e => (RErr e, x0, w0)
  | RPanic s => (RPanic s, x0, w0)
  | ROutOfFuel => (ROutOfFuel, x0, w0)
  end.

(* WebSocketContext::close *)
Definition close (x : ctx) (code : option close_frame) (w : world) : res unit * ctx * world :=
  match x_state x with
  | Active => flush (set_additional_raw (set_state x ClosedByUs) (Some (frame_close code))) w
  | _ => flush x w
  end.

(* WebSocketContext::write *)
Definition write (x : ctx) (m : message) (w : world) : res unit * ctx * world :=
  if is_terminated (x_state x) then (RErr EAlreadyClosed, x, w) else
  if negb (is_active (x_state x)) then (RErr (EProtocol SendAfterClosing), x, w) else
  let data (f : frame) :=
    let '(r, x1, w1) := write_ x (Some f) w in
    match r with
    | ROk true => flush x1 w1
    | ROk false => (ROk tt, x1, w1)
    | RErr e => (RErr e, x1, w1)
    | RPanic s => (RPanic s, x1, w1)
    | ROutOfFuel => (ROutOfFuel, x1, w1)
    end in
  match m with
  | MText d => data (frame_message d (OData Text) true)
  | MBinary d => data (frame_message d (OData Binary) true)
  | MPing d => data (frame_ping d)
  | MPong d =>
      let '(r, x1, w1) := write_ (set_additional x (frame_pong d)) None w in
      match r with
      | ROk _ => (ROk tt, x1, w1)
      | RErr e => (RErr e, x1, w1)
      | RPanic s => (RPanic s, x1, w1)
      | ROutOfFuel => (ROutOfFuel, x1, w1)
      end
  | MClose code => close x code w
  | MFrame f => data f
  end.

(* WebSocketContext::do_close: Some(x) = report Close(x) to the user *)
Definition do_close (x : ctx) (cl : option close_frame) : res (option (option close_frame)) * ctx :=
  match x_state x with
  | Active =>
      let x1 := set_state x ClosedByPeer in
      let cl' := match cl with
                 | Some (code, reason) =>
                     if close_allowed code then Some (code, reason)
                     else Some (CProtocol, [80; 114; 111; 116; 111; 99; 111; 108; 32; 118; 105; 111; 108; 97; 116; 105; 111; 110])
                 | None => None
                 end in
      (ROk (Some cl'), set_additional x1 (frame_close cl'))
  | ClosedByPeer | CloseAcknowledged => (ROk None, x)
  | ClosedByUs => (ROk (Some cl), set_state x CloseAcknowledged)
  | Terminated => (RPanic site_do_close_unreachable, x)
  end.

(* WebSocketContext::read_message_frame *)
Definition read_message_frame (x : ctx) (w : world) : res (option message) * ctx * world :=
  let '(r0, c1, w1) := read_frame (cfg_max_frame_size (x_cfg x)) (role_eqb (x_role x) Server)
                                  (cfg_accept_unmasked (x_cfg x)) (x_codec x) w in
  let '(r0', s1) := check_connection_reset r0 (x_state x) in
  let x1 := set_state (set_codec x c1) s1 in
  match r0' with
  | RErr e => (RErr e, x1, w1)
  | RPanic s => (RPanic s, x1, w1)
  | ROutOfFuel => (ROutOfFuel, x1, w1)
  | ROk None =>
      (* Connection closed by peer *)
      let x2 := set_state x1 Terminated in
      match x_state x1 with
      | ClosedByPeer | CloseAcknowledged => (RErr EConnectionClosed, x2, w1)
      | _ => (RErr (EProtocol ResetWithoutClosingHandshake), x2, w1)
      end
  | ROk (Some f) =>
      let h := f_hdr f in
      if negb (can_read (x_state x1)) then (RErr (EProtocol ReceivedAfterClosing), x1, w1) else
      if h_rsv1 h || h_rsv2 h || h_rsv3 h then (RErr (EProtocol NonZeroReservedBits), x1, w1) else
      if role_eqb (x_role x1) Client && (match h_mask h with Some _ => true | None => false end)
      then (RErr (EProtocol MaskedFrameFromServer), x1, w1) else
      match h_opcode h with
      | OCtl ctl =>
          if negb (h_fin h) then (RErr (EProtocol FragmentedControlFrame), x1, w1) else
          if 125 <? blen (f_payload f) then (RErr (EProtocol ControlFrameTooBig), x1, w1) else
          match ctl with
          | Close =>
              match frame_into_close (f_payload f) with
              | ROk cl =>
                  let '(r, x2) := do_close x1 cl in
                  match r with
                  | ROk (Some c) => (ROk (Some (MClose c)), x2, w1)
                  | ROk None => (ROk None, x2, w1)
                  | RErr e => (RErr e, x2, w1)
                  | RPanic s => (RPanic s, x2, w1)
                  | ROutOfFuel => (ROutOfFuel, x2, w1)
                  end
              | RErr e => (RErr e, x1, w1)
              | RPanic s => (RPanic s, x1, w1)
              | ROutOfFuel => (ROutOfFuel, x1, w1)
              end
          | CReserved i => (RErr (EProtocol (UnknownControlFrameType i)), x1, w1)
          | Ping =>
              let x2 := if is_active (x_state x1) then set_additional x1 (frame_pong (f_payload f)) else x1 in
              (ROk (Some (MPing (f_payload f))), x2, w1)
          | Pong => (ROk (Some (MPong (f_payload f))), x1, w1)
          end
      | OData d =>
          let fin := h_fin h in
          match d with
          | Continue =>
              match x_incomplete x1 with
              | Some msg =>
                  let '(r, msg') := incmsg_extend msg (f_payload f) (cfg_max_message_size (x_cfg x1)) in
                  let x2 := set_incomplete x1 (Some msg') in
                  match r with
                  | ROk _ =>
                      if fin then
                        match incmsg_complete msg' with
                        | ROk m => (ROk (Some m), set_incomplete x2 None, w1)
                        | RErr e => (RErr e, set_incomplete x2 None, w1)
                        | RPanic s => (RPanic s, x2, w1)
                        | ROutOfFuel => (ROutOfFuel, x2, w1)
                        end
                      else (ROk None, x2, w1)
                  | RErr e => (RErr e, x2, w1)
                  | RPanic s => (RPanic s, x2, w1)
                  | ROutOfFuel => (ROutOfFuel, x2, w1)
                  end
              | None => (RErr (EProtocol UnexpectedContinueFrame), x1, w1)
              end
          | _ =>
              match x_incomplete x1 with
              | Some _ => (RErr (EProtocol (ExpectedFragment d)), x1, w1)
              | None =>
                  match d with
                  | DReserved i => (RErr (EProtocol (UnknownDataFrameType i)), x1, w1)
                  | Continue => (RPanic site_not_text_nor_binary, x1, w1)
                  | Text | Binary =>
                      if fin then
                        match check_max_size (blen (f_payload f)) (cfg_max_message_size (x_cfg x1)) with
                        | ROk _ =>
                            match d with
                            | Text => if is_utf8 (f_payload f) then (ROk (Some (MText (f_payload f))), x1, w1)
                                      else (RErr EUtf8, x1, w1)
                            | _ => (ROk (Some (MBinary (f_payload f))), x1, w1)
                            end
                        | RErr e => (RErr e, x1, w1)
                        | RPanic s => (RPanic s, x1, w1)
                        | ROutOfFuel => (ROutOfFuel, x1, w1)
                        end
                      else
                        let inc0 := match d with Text => ITxt collector_new | _ => IBin [] end in
                        let '(r, inc1) := incmsg_extend inc0 (f_payload f) (cfg_max_message_size (x_cfg x1)) in
                        match r with
                        | ROk _ => (ROk None, set_incomplete x1 (Some inc1), w1)
                        | RErr e => (RErr e, x1, w1)
                        | RPanic s => (RPanic s, x1, w1)
                        | ROutOfFuel => (ROutOfFuel, x1, w1)
                        end
                  end
              end
          end
      end
  end.

(* total number of bytes the read oracle can still deliver *)
Fixpoint rd_bytes (rds : list rd_out) : nat :=
  match rds with
  | [] => O
  | RdData bs :: r => length bs + rd_bytes r
  | _ :: r => rd_bytes r
  end.

(* the loop of WebSocketContext::read *)
Fixpoint read_loop (fuel : nat) (x : ctx) (w : world) : res message * ctx * world :=
  match fuel with
  | O => (ROutOfFuel, x, w)
  | S fuel' =>
      let '(r0, x0, w0) :=
        if (match x_additional x with Some _ => true | None => false end) || x_unflushed x then
          let '(r, x', w') := flush x w in
          match r with
          | ROk _ => (ROk tt, x', w')
          | RErr (EIo WouldBlock) => (ROk tt, set_unflushed x' true, w')
          | _ => (r, x', w')
          end
        else if role_eqb (x_role x) Server && negb (can_read (x_state x)) then
          let '(rw, c', w') := write_out_buffer (x_codec x) w in
          match rw with
          | ROk _ => (RErr EConnectionClosed, set_state (set_codec x c') Terminated, w')
          | _ => (rw, set_codec x c', w')
          end
        else (ROk tt, x, w) in
      match r0 with
      | ROk _ =>
          let '(r1, x1, w1) := read_message_frame x0 w0 in
          match r1 with
          | ROk (Some m) => (ROk m, x1, w1)
          | ROk None => read_loop fuel' x1 w1
          | RErr e => (RErr e, x1, w1)
          | RPanic s => (RPanic s, x1, w1)
          | ROutOfFuel => (ROutOfFuel, x1, w1)
          end
      | RErr e => (RErr e, x0, w0)
      | RPanic s => (RPanic s, x0, w0)
      | ROutOfFuel => (ROutOfFuel, x0, w0)
      end
  end.

(* WebSocketContext::read *)
Definition read (x : ctx) (w : world) : res message * ctx * world :=
  if is_terminated (x_state x) then (RErr EAlreadyClosed, x, w) else
  read_loop (S (length (c_in (x_codec x)) + rd_bytes (w_rds w))) x w.

(* ---- the API as operations (engine E2) ---- *)
Inductive op :=
| OpRead | OpWrite (m : message) | OpFlush | OpClose (c : option close_frame)
| OpCanRead | OpCanWrite | OpSetBuf (wbs max : N).

Inductive op_result :=
| ResMsg (r : res message) | ResUnit (r : res unit) | ResBool (b : bool).

Definition run_op (x : ctx) (o : op) (w : world) : op_result * ctx * world :=
  match o with
  | OpRead => let '(r, x', w') := read x w in (ResMsg r, x', w')
  | OpWrite m => let '(r, x', w') := write x m w in (ResUnit r, x', w')
  | OpFlush => let '(r, x', w') := flush x w in (ResUnit r, x', w')
  | OpClose c => let '(r, x', w') := close x c w in (ResUnit r, x', w')
  | OpCanRead => (ResBool (can_read (x_state x)), x, w)
  | OpCanWrite => (ResBool (is_active (x_state x)), x, w)
  | OpSetBuf wbs max =>
      let cfg := x_cfg x in
      let cfg' := mkConfig wbs max (cfg_max_message_size cfg) (cfg_max_frame_size cfg) (cfg_accept_unmasked cfg) in
      if config_valid cfg' then
        (ResUnit (ROk tt),
         mkCtx (x_role x) (set_limits (x_codec x) max wbs) (x_state x) (x_incomplete x) (x_additional x)
               (x_unflushed x) cfg', w)
      else (ResUnit (RPanic site_config_invalid), x, w)
  end.

(* run a list of ops; per op: the result and the log length after it (events of op i are the slice) *)
Fixpoint run_ops (x : ctx) (ops : list op) (w : world) : list (op_result * N) * ctx * world :=
  match ops with
  | [] => ([], x, w)
  | o :: r =>
      let '(res1, x1, w1) := run_op x o w in
      let '(rs, x2, w2) := run_ops x1 r w1 in
      ((res1, blen (w_log w1)) :: rs, x2, w2)
  end.
