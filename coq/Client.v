(* Client.v — model of ClientRequestBuilder::into_client_request (src/client.rs): the request built from a
   URL plus user-supplied extra headers and subprotocols. Header names are lower-case (HeaderName). *)
From Coq Require Import String Ascii.
From TungModel Require Export Handshake.
Open Scope N_scope.

Fixpoint join_with (sep : bytes) (l : list bytes) : bytes :=
  match l with
  | [] => []
  | [x] => x
  | x :: r => x ++ sep ++ join_with sep r
  end.

(* headers.append for every (k, v) of additional_headers, then Sec-WebSocket-Protocol: subprotocols.join(", ") *)
Definition builder_request (authority : option bytes) (key : bytes) (extra : headers) (subprotocols : list bytes)
  : hres headers :=
  match into_client_request authority key with
  | HErr e => HErr e
  | HOk hs =>
      HOk (hs ++ extra ++
           match subprotocols with
           | [] => []
           | _ => [(B"sec-websocket-protocol", join_with B", " subprotocols)]
           end)
  end.

(* the bytes the client handshake will send for such a request *)
Definition builder_request_bytes (authority : option bytes) (path : option bytes) (key : bytes) (extra : headers)
           (subprotocols : list bytes) : hres (bytes * bytes) :=
  match builder_request authority key extra subprotocols with
  | HErr e => HErr e
  | HOk hs => generate_request path hs
  end.
