(* proofs/HandshakeP.v — lemmas about the handshake model (Handshake.v): server decision
   (create_parts), response/request serialisers, verify_response, IntoClientRequest for Uri, and
   the round machine (hs_loop) decomposed into its reading / writing / flushing stages.
   Used by props/C15.v and props/C16.v. *)
From Coq Require Import String Ascii Arith Lia ZifyBool ZifyNat ZifyN Permutation.
From TungModel Require Import Base Coding Mask Header Frame Utf8 World Message Codec Protocol Sha1 Handshake.
Open Scope N_scope.

Arguments N.add : simpl never.
Arguments N.mul : simpl never.
Arguments N.sub : simpl never.
Arguments N.min : simpl never.
Arguments N.div : simpl never.
Arguments N.modulo : simpl never.

(* ------------------------------------------------------------------------------------------ *)
(** * Byte-string equality *)

Lemma bytes_eqb_eq : forall a b : bytes, bytes_eqb a b = true <-> a = b.
Proof.
  unfold bytes_eqb. induction a as [|x a IH]; intros [|y b]; cbn [list_eqb]; split; intro H;
    try reflexivity; try discriminate.
  - apply andb_true_iff in H. destruct H as [H1 H2]. apply N.eqb_eq in H1. apply IH in H2. congruence.
  - inversion H; subst. apply andb_true_iff. split; [apply N.eqb_refl | apply IH; reflexivity].
Qed.

Lemma bytes_eqb_refl : forall a : bytes, bytes_eqb a a = true.
Proof. intro a. apply bytes_eqb_eq. reflexivity. Qed.

Lemma bytes_eqb_neq : forall a b : bytes, bytes_eqb a b = false <-> a <> b.
Proof.
  intros a b. split.
  - intros H E. apply bytes_eqb_eq in E. congruence.
  - intro H. destruct (bytes_eqb a b) eqn:E; [|reflexivity]. apply bytes_eqb_eq in E. contradiction.
Qed.

Lemma bytes_eqb_sym : forall a b : bytes, bytes_eqb a b = bytes_eqb b a.
Proof.
  intros a b. destruct (bytes_eqb a b) eqn:E1, (bytes_eqb b a) eqn:E2; try reflexivity.
  - apply bytes_eqb_eq in E1. subst. rewrite bytes_eqb_refl in E2. discriminate.
  - apply bytes_eqb_eq in E2. subst. rewrite bytes_eqb_refl in E1. discriminate.
Qed.

(* ------------------------------------------------------------------------------------------ *)
(** * ASCII case folding *)

Lemma lower_idem : forall b, lower (lower b) = lower b.
Proof. intro b. unfold lower. destruct ((65 <=? b) && (b <=? 90)) eqn:E; [|rewrite E; reflexivity].
  destruct ((65 <=? b + 32) && (b + 32 <=? 90)) eqn:E2; lia. Qed.

Lemma lower_visible : forall a b, lower a = lower b -> visible a = visible b.
Proof.
  intros a b. unfold lower, visible.
  destruct ((65 <=? a) && (a <=? 90)) eqn:Ea; destruct ((65 <=? b) && (b <=? 90)) eqn:Eb; intro H; lia.
Qed.

Lemma lower_sep : forall b, ((lower b =? 32) || (lower b =? 44)) = ((b =? 32) || (b =? 44)).
Proof. intro b. unfold lower. destruct ((65 <=? b) && (b <=? 90)) eqn:E; lia. Qed.

Lemma eq_ic_iff : forall a b, eq_ic a b = true <-> map lower a = map lower b.
Proof. intros a b. unfold eq_ic. apply bytes_eqb_eq. Qed.

Lemma eq_ic_refl : forall a, eq_ic a a = true.
Proof. intro a. apply eq_ic_iff. reflexivity. Qed.

Lemma eq_ic_sym : forall a b, eq_ic a b = eq_ic b a.
Proof. intros a b. unfold eq_ic. apply bytes_eqb_sym. Qed.

Lemma eq_ic_trans : forall a b c, eq_ic a b = true -> eq_ic b c = true -> eq_ic a c = true.
Proof. intros a b c H1 H2. apply eq_ic_iff in H1. apply eq_ic_iff in H2. apply eq_ic_iff. congruence. Qed.

(* the comparison only looks at the case-folded strings *)
Lemma eq_ic_congr : forall a a' b, map lower a = map lower a' -> eq_ic a b = eq_ic a' b.
Proof. intros a a' b H. unfold eq_ic. rewrite H. reflexivity. Qed.

Lemma map_lower_visible : forall a b, map lower a = map lower b -> forallb visible a = forallb visible b.
Proof.
  induction a as [|x a IH]; intros [|y b] H; try discriminate; [reflexivity|].
  cbn [map] in H. inversion H as [[H1 H2]]. cbn [forallb].
  rewrite (lower_visible _ _ H1), (IH _ H2). reflexivity.
Qed.

Lemma to_str_some : forall v s, to_str v = Some s <-> forallb visible v = true /\ s = v.
Proof.
  intros v s. unfold to_str. destruct (forallb visible v); split; intro H.
  - inversion H. auto.
  - destruct H as [_ H]. subst. reflexivity.
  - discriminate.
  - destruct H. discriminate.
Qed.

Lemma to_str_none : forall v, to_str v = None <-> forallb visible v = false.
Proof. intro v. unfold to_str. destruct (forallb visible v); split; intro H; congruence. Qed.

(* a value that equals a visible string up to case is visible: to_str never fails on it *)
Lemma eq_ic_visible : forall a b, eq_ic a b = true -> forallb visible b = true -> forallb visible a = true.
Proof. intros a b H Hb. apply eq_ic_iff in H. rewrite (map_lower_visible _ _ H). exact Hb. Qed.

(* ------------------------------------------------------------------------------------------ *)
(** * split_on and the Connection token test *)

Definition conn_sep (b : N) : bool := (b =? 32) || (b =? 44).

Lemma has_upgrade_token_unfold : forall v,
  has_upgrade_token v = existsb (fun p => eq_ic p B"Upgrade") (split_on conn_sep v []).
Proof. reflexivity. Qed.

Lemma split_on_map_lower : forall sep, (forall b, sep (lower b) = sep b) ->
  forall s cur, split_on sep (map lower s) (map lower cur) = map (map lower) (split_on sep s cur).
Proof.
  intros sep Hsep. induction s as [|b r IH]; intro cur; cbn [split_on map].
  - rewrite map_rev. reflexivity.
  - rewrite Hsep. destruct (sep b).
    + cbn [map]. rewrite map_rev. f_equal. apply (IH []).
    + apply (IH (b :: cur)).
Qed.

Lemma existsb_eq_ic_map : forall t l,
  existsb (fun p => eq_ic p t) l = existsb (fun q => bytes_eqb q (map lower t)) (map (map lower) l).
Proof. intros t l. induction l as [|p l IH]; [reflexivity|]. cbn [existsb map]. rewrite IH. reflexivity. Qed.

Lemma has_upgrade_token_lower : forall v, has_upgrade_token v = has_upgrade_token (map lower v).
Proof.
  intro v. rewrite !has_upgrade_token_unfold, !existsb_eq_ic_map.
  rewrite <- (split_on_map_lower conn_sep lower_sep (map lower v) []).
  rewrite <- (split_on_map_lower conn_sep lower_sep v []).
  rewrite map_map. f_equal. f_equal. apply map_ext. intro b. symmetry. apply lower_idem.
Qed.

(* the Connection test is insensitive to the case of the value *)
Lemma has_upgrade_token_congr : forall v v', map lower v = map lower v' ->
  has_upgrade_token v = has_upgrade_token v'.
Proof. intros v v' H. rewrite (has_upgrade_token_lower v), (has_upgrade_token_lower v'), H. reflexivity. Qed.

(* ------------------------------------------------------------------------------------------ *)
(** * Header lists: hget, counting, permutation, insertion, filtering *)

Definition hmatch (name : bytes) (nv : bytes * bytes) : bool := bytes_eqb (fst nv) name.
Definition hcount (name : bytes) (hs : headers) : nat := List.length (filter (hmatch name) hs).

Lemma hget_cons : forall name n v r,
  hget name ((n, v) :: r) = if bytes_eqb n name then Some v else hget name r.
Proof. reflexivity. Qed.

Lemma hget_app : forall name hs1 hs2,
  hget name (hs1 ++ hs2) = match hget name hs1 with Some v => Some v | None => hget name hs2 end.
Proof.
  intros name hs1 hs2. induction hs1 as [|[n v] r IH]; [reflexivity|].
  cbn [app]. rewrite !hget_cons. destruct (bytes_eqb n name); [reflexivity | exact IH].
Qed.

Lemma hget_some_in : forall name hs v, hget name hs = Some v -> In (name, v) hs.
Proof.
  intros name hs v. induction hs as [|[n x] r IH]; [discriminate|].
  rewrite hget_cons. destruct (bytes_eqb n name) eqn:E.
  - intro H. inversion H; subst. apply bytes_eqb_eq in E. subst. left. reflexivity.
  - intro H. right. apply IH. exact H.
Qed.

Lemma hget_none_iff : forall name hs, hget name hs = None <-> forall v, ~ In (name, v) hs.
Proof.
  intros name hs. induction hs as [|[n x] r IH].
  - split; [intros _ v [] | reflexivity].
  - rewrite hget_cons. destruct (bytes_eqb n name) eqn:E.
    + apply bytes_eqb_eq in E. subst. split; [discriminate|]. intro H. exfalso. apply (H x). left. reflexivity.
    + apply bytes_eqb_neq in E. rewrite IH. split; intros H v.
      * intros [H1|H1]; [inversion H1; congruence | exact (H v H1)].
      * intro H1. apply (H v). right. exact H1.
Qed.

Lemma hcount_cons : forall name nv r,
  hcount name (nv :: r) = if hmatch name nv then S (hcount name r) else hcount name r.
Proof. intros. unfold hcount. cbn [filter]. destruct (hmatch name nv); reflexivity. Qed.

Lemma hcount_zero_hget : forall name hs, hcount name hs = 0%nat -> hget name hs = None.
Proof.
  intros name hs. induction hs as [|[n x] r IH]; [reflexivity|].
  rewrite hcount_cons, hget_cons. unfold hmatch. cbn [fst]. destruct (bytes_eqb n name); [discriminate | exact IH].
Qed.

Lemma hcount_perm : forall name hs hs', Permutation hs hs' -> hcount name hs = hcount name hs'.
Proof.
  intros name hs hs' H. induction H as [|x l l' H IH|x y l|l l' l'' H1 IH1 H2 IH2].
  - reflexivity.
  - rewrite !hcount_cons, IH. reflexivity.
  - rewrite !hcount_cons. destruct (hmatch name x), (hmatch name y); reflexivity.
  - congruence.
Qed.

(* a name that occurs at most once has the same (first) value in every ordering of the list *)
Lemma hget_perm : forall name hs hs', Permutation hs hs' -> (hcount name hs <= 1)%nat ->
  hget name hs = hget name hs'.
Proof.
  intros name hs hs' H. induction H as [|[n v] l l' H IH|[n1 v1] [n2 v2] l|l l' l'' H1 IH1 H2 IH2]; intro Hc.
  - reflexivity.
  - rewrite !hget_cons. rewrite hcount_cons in Hc. unfold hmatch in Hc. cbn [fst] in Hc.
    destruct (bytes_eqb n name); [reflexivity|]. apply IH. exact Hc.
  - rewrite !hget_cons. rewrite !hcount_cons in Hc. unfold hmatch in Hc. cbn [fst] in Hc.
    destruct (bytes_eqb n1 name), (bytes_eqb n2 name); try reflexivity. lia.
  - rewrite IH1 by exact Hc. apply IH2. rewrite <- (hcount_perm name _ _ H1). exact Hc.
Qed.

(* inserting a header with another name does not change the lookup *)
Lemma hget_insert : forall name hs1 n v hs2, n <> name ->
  hget name (hs1 ++ (n, v) :: hs2) = hget name (hs1 ++ hs2).
Proof.
  intros name hs1 n v hs2 Hn. rewrite !hget_app, hget_cons.
  apply bytes_eqb_neq in Hn. rewrite Hn. reflexivity.
Qed.

(* the lookup only sees the headers kept by a filter that keeps the looked-up name *)
Lemma hget_filter : forall (keep : bytes -> bool) name hs, keep name = true ->
  hget name (filter (fun nv => keep (fst nv)) hs) = hget name hs.
Proof.
  intros keep name hs Hk. induction hs as [|[n v] r IH]; [reflexivity|].
  cbn [filter fst]. destruct (keep n) eqn:E.
  - rewrite !hget_cons, IH. reflexivity.
  - rewrite hget_cons, IH. destruct (bytes_eqb n name) eqn:E2; [|reflexivity].
    apply bytes_eqb_eq in E2. congruence.
Qed.

Lemma hget_hremove_same : forall name hs, hget name (hremove name hs) = None.
Proof.
  intros name hs. induction hs as [|[n v] r IH]; [reflexivity|].
  unfold hremove in *. cbn [filter fst]. destruct (bytes_eqb n name) eqn:E; cbn [negb]; [exact IH|].
  rewrite hget_cons, E. exact IH.
Qed.

Lemma hget_hremove_other : forall name other hs, other <> name ->
  hget name (hremove other hs) = hget name hs.
Proof.
  intros name other hs Hn. induction hs as [|[n v] r IH]; [reflexivity|].
  unfold hremove in *. cbn [filter fst]. destruct (bytes_eqb n other) eqn:E; cbn [negb].
  - rewrite hget_cons. apply bytes_eqb_eq in E. subst n.
    apply bytes_eqb_neq in Hn. rewrite Hn. exact IH.
  - rewrite !hget_cons, IH. reflexivity.
Qed.

(* ------------------------------------------------------------------------------------------ *)
(** * Server decision: create_parts *)

Definition hs_conn_okb (hs : headers) : bool :=
  match hget B"connection" hs with
  | Some h => match to_str h with Some s => has_upgrade_token s | None => false end
  | None => false end.
Definition hs_upg_okb (hs : headers) : bool :=
  match hget B"upgrade" hs with
  | Some h => match to_str h with Some s => eq_ic s B"websocket" | None => false end
  | None => false end.
Definition hs_ver_okb (hs : headers) : bool :=
  match hget B"sec-websocket-version" hs with Some h => bytes_eqb h B"13" | None => false end.

Definition accept_headers (key : bytes) : headers :=
  [(B"connection", B"Upgrade"); (B"upgrade", B"websocket"); (B"sec-websocket-accept", derive_accept_key key)].

Lemma create_parts_unfold : forall mg v hs,
  create_parts mg v hs =
  if negb mg then HErr (HEProto WrongHttpMethod) else
  if negb v then HErr (HEProto WrongHttpVersion) else
  if negb (hs_conn_okb hs) then HErr (HEProto MissingConnectionUpgradeHeader) else
  if negb (hs_upg_okb hs) then HErr (HEProto MissingUpgradeWebSocketHeader) else
  if negb (hs_ver_okb hs) then HErr (HEProto MissingSecWebSocketVersionHeader) else
  match hget B"sec-websocket-key" hs with
  | None => HErr (HEProto MissingSecWebSocketKey)
  | Some key => HOk (accept_headers key)
  end.
Proof. reflexivity. Qed.

(* Prop-level reading of the three header tests *)
Definition conn_ok (hs : headers) : Prop :=
  exists c, hget B"connection" hs = Some c /\ forallb visible c = true /\ has_upgrade_token c = true.
Definition upg_ok (hs : headers) : Prop :=
  exists u, hget B"upgrade" hs = Some u /\ eq_ic u B"websocket" = true.
Definition ver_ok (hs : headers) : Prop := hget B"sec-websocket-version" hs = Some B"13".

Lemma hs_conn_okb_iff : forall hs, hs_conn_okb hs = true <-> conn_ok hs.
Proof.
  intro hs. unfold hs_conn_okb, conn_ok. destruct (hget B"connection" hs) as [c|]; split.
  - intro H. exists c. unfold to_str in H. destruct (forallb visible c); [auto | discriminate].
  - intros [c' [H1 [H2 H3]]]. inversion H1; subst c'. unfold to_str. rewrite H2. exact H3.
  - discriminate.
  - intros [c' [H1 _]]. discriminate.
Qed.

Lemma websocket_visible : forallb visible B"websocket" = true.
Proof. reflexivity. Qed.

Lemma hs_upg_okb_iff : forall hs, hs_upg_okb hs = true <-> upg_ok hs.
Proof.
  intro hs. unfold hs_upg_okb, upg_ok. destruct (hget B"upgrade" hs) as [u|]; split.
  - intro H. exists u. unfold to_str in H. destruct (forallb visible u); [auto | discriminate].
  - intros [u' [H1 H2]]. inversion H1; subst u'. unfold to_str.
    rewrite (eq_ic_visible _ _ H2 websocket_visible). exact H2.
  - discriminate.
  - intros [u' [H1 _]]. discriminate.
Qed.

Lemma hs_ver_okb_iff : forall hs, hs_ver_okb hs = true <-> ver_ok hs.
Proof.
  intro hs. unfold hs_ver_okb, ver_ok. destruct (hget B"sec-websocket-version" hs) as [u|]; split.
  - intro H. apply bytes_eqb_eq in H. congruence.
  - intro H. inversion H. apply bytes_eqb_refl.
  - discriminate.
  - discriminate.
Qed.

(* the decision: accepted iff the six conditions hold, and then the response headers are fixed *)
Lemma create_parts_ok_iff : forall mg v hs r,
  create_parts mg v hs = HOk r <->
  mg = true /\ v = true /\ conn_ok hs /\ upg_ok hs /\ ver_ok hs /\
  exists key, hget B"sec-websocket-key" hs = Some key /\ r = accept_headers key.
Proof.
  intros mg v hs r. rewrite create_parts_unfold.
  rewrite <- hs_conn_okb_iff, <- hs_upg_okb_iff, <- hs_ver_okb_iff.
  destruct mg, v; cbn [negb]; try (split; [discriminate | intros [H1 [H2 _]]; discriminate]).
  destruct (hs_conn_okb hs); cbn [negb]; [|split; [discriminate | intros [_ [_ [H _]]]; discriminate]].
  destruct (hs_upg_okb hs); cbn [negb]; [|split; [discriminate | intros [_ [_ [_ [H _]]]]; discriminate]].
  destruct (hs_ver_okb hs); cbn [negb]; [|split; [discriminate | intros [_ [_ [_ [_ [H _]]]]]; discriminate]].
  destruct (hget B"sec-websocket-key" hs) as [key|]; split.
  - intro H. inversion H. repeat (split; [reflexivity|]). exists key. auto.
  - intros [_ [_ [_ [_ [_ [key' [H1 H2]]]]]]]. inversion H1; subst. reflexivity.
  - discriminate.
  - intros [_ [_ [_ [_ [_ [key' [H1 _]]]]]]]. discriminate.
Qed.

(* which error: the first failing test, in the order of the code *)
Lemma create_parts_err : forall mg v hs,
  create_parts mg v hs =
  if negb mg then HErr (HEProto WrongHttpMethod) else
  if negb v then HErr (HEProto WrongHttpVersion) else
  if negb (hs_conn_okb hs) then HErr (HEProto MissingConnectionUpgradeHeader) else
  if negb (hs_upg_okb hs) then HErr (HEProto MissingUpgradeWebSocketHeader) else
  if negb (hs_ver_okb hs) then HErr (HEProto MissingSecWebSocketVersionHeader) else
  match hget B"sec-websocket-key" hs with
  | None => HErr (HEProto MissingSecWebSocketKey)
  | Some key => HOk (accept_headers key)
  end.
Proof. exact create_parts_unfold. Qed.

(* the result depends on the header list only through the first values of the four names *)
Definition decision_names : list bytes :=
  [B"connection"; B"upgrade"; B"sec-websocket-version"; B"sec-websocket-key"].
Definition is_decision_name (n : bytes) : bool := existsb (bytes_eqb n) decision_names.

Lemma create_parts_ext : forall mg v hs hs',
  (forall name, In name decision_names -> hget name hs = hget name hs') ->
  create_parts mg v hs = create_parts mg v hs'.
Proof.
  intros mg v hs hs' H. rewrite !create_parts_unfold. unfold hs_conn_okb, hs_upg_okb, hs_ver_okb.
  rewrite (H B"connection"), (H B"upgrade"), (H B"sec-websocket-version"), (H B"sec-websocket-key");
    [reflexivity | | | |]; unfold decision_names; cbn [In]; auto.
Qed.

Definition once_each (hs : headers) : Prop :=
  forall name, In name decision_names -> (hcount name hs <= 1)%nat.

Lemma create_parts_perm : forall mg v hs hs', once_each hs -> Permutation hs hs' ->
  create_parts mg v hs = create_parts mg v hs'.
Proof.
  intros mg v hs hs' Ho Hp. apply create_parts_ext. intros name Hn.
  apply hget_perm; [exact Hp | apply Ho; exact Hn].
Qed.

Lemma is_decision_name_false : forall n, is_decision_name n = false ->
  forall name, In name decision_names -> n <> name.
Proof.
  intros n H name Hn E. subst n. unfold is_decision_name in H.
  assert (existsb (bytes_eqb name) decision_names = true) as H1.
  { apply existsb_exists. exists name. split; [exact Hn | apply bytes_eqb_refl]. }
  congruence.
Qed.

Lemma is_decision_name_true : forall name, In name decision_names -> is_decision_name name = true.
Proof.
  intros name Hn. unfold is_decision_name. apply existsb_exists. exists name.
  split; [exact Hn | apply bytes_eqb_refl].
Qed.

Lemma create_parts_insert : forall mg v hs1 n x hs2, is_decision_name n = false ->
  create_parts mg v (hs1 ++ (n, x) :: hs2) = create_parts mg v (hs1 ++ hs2).
Proof.
  intros mg v hs1 n x hs2 Hn. apply create_parts_ext. intros name Hname.
  apply hget_insert. exact (is_decision_name_false n Hn name Hname).
Qed.

(* any number of headers with other names, anywhere: only the sub-list of decision headers matters *)
Lemma create_parts_filter : forall mg v hs,
  create_parts mg v hs = create_parts mg v (filter (fun nv => is_decision_name (fst nv)) hs).
Proof.
  intros mg v hs. apply create_parts_ext. intros name Hname. symmetry.
  apply (hget_filter is_decision_name). apply is_decision_name_true. exact Hname.
Qed.

(* case changes of the Connection / Upgrade values *)
Definition ic_name (n : bytes) : bool := bytes_eqb n B"connection" || bytes_eqb n B"upgrade".
Definition hdr_case_eq (a b : bytes * bytes) : Prop :=
  fst a = fst b /\ (if ic_name (fst a) then eq_ic (snd a) (snd b) = true else snd a = snd b).

Lemma hget_case_eq_other : forall name hs hs', Forall2 hdr_case_eq hs hs' -> ic_name name = false ->
  hget name hs = hget name hs'.
Proof.
  intros name hs hs' H Hn. induction H as [|[n v] [n' v'] l l' [H1 H2] H IH]; [reflexivity|].
  cbn [fst snd] in H1, H2. subst n'. rewrite !hget_cons. destruct (bytes_eqb n name) eqn:E; [|exact IH].
  apply bytes_eqb_eq in E. subst n. rewrite Hn in H2. congruence.
Qed.

Lemma hget_case_eq_ic : forall name hs hs', Forall2 hdr_case_eq hs hs' -> ic_name name = true ->
  match hget name hs, hget name hs' with
  | Some a, Some b => map lower a = map lower b
  | None, None => True
  | _, _ => False
  end.
Proof.
  intros name hs hs' H Hn. induction H as [|[n v] [n' v'] l l' [H1 H2] H IH]; [exact I|].
  cbn [fst snd] in H1, H2. subst n'. rewrite !hget_cons. destruct (bytes_eqb n name) eqn:E; [|exact IH].
  apply bytes_eqb_eq in E. subst n. rewrite Hn in H2. apply eq_ic_iff. exact H2.
Qed.

Lemma create_parts_case : forall mg v hs hs', Forall2 hdr_case_eq hs hs' ->
  create_parts mg v hs = create_parts mg v hs'.
Proof.
  intros mg v hs hs' H. rewrite !create_parts_unfold.
  assert (hs_conn_okb hs = hs_conn_okb hs') as Hc.
  { unfold hs_conn_okb. pose proof (hget_case_eq_ic B"connection" hs hs' H eq_refl) as H1.
    destruct (hget B"connection" hs) as [a|], (hget B"connection" hs') as [b|]; try contradiction; [|reflexivity].
    unfold to_str. rewrite (map_lower_visible _ _ H1). destruct (forallb visible b); [|reflexivity].
    apply has_upgrade_token_congr. exact H1. }
  assert (hs_upg_okb hs = hs_upg_okb hs') as Hu.
  { unfold hs_upg_okb. pose proof (hget_case_eq_ic B"upgrade" hs hs' H eq_refl) as H1.
    destruct (hget B"upgrade" hs) as [a|], (hget B"upgrade" hs') as [b|]; try contradiction; [|reflexivity].
    unfold to_str. rewrite (map_lower_visible _ _ H1). destruct (forallb visible b); [|reflexivity].
    apply eq_ic_congr. exact H1. }
  assert (hs_ver_okb hs = hs_ver_okb hs') as Hv.
  { unfold hs_ver_okb. rewrite (hget_case_eq_other B"sec-websocket-version" hs hs' H eq_refl). reflexivity. }
  rewrite Hc, Hu, Hv, (hget_case_eq_other B"sec-websocket-key" hs hs' H eq_refl). reflexivity.
Qed.

(* ------------------------------------------------------------------------------------------ *)
(** * Base64 output, derive_accept_key *)

Lemma b64_char_visible : forall v, visible (b64_char v) = true.
Proof.
  intro v. unfold b64_char, visible.
  destruct (v <? 26) eqn:E1; [lia|]. destruct (v <? 52) eqn:E2; [lia|].
  destruct (v <? 62) eqn:E3; [lia|]. destruct (v =? 62) eqn:E4; reflexivity.
Qed.

Lemma base64_aux_visible : forall fuel bs, forallb visible (base64_aux fuel bs) = true.
Proof.
  induction fuel as [|f IH]; intro bs; [reflexivity|].
  cbn [base64_aux]. destruct bs as [|a [|b [|c r]]]; [reflexivity | | |];
    cbn [forallb]; rewrite ?b64_char_visible, ?IH; reflexivity.
Qed.

Lemma base64_visible : forall bs, forallb visible (base64 bs) = true.
Proof. intro bs. apply base64_aux_visible. Qed.

Lemma base64_aux_length : forall fuel bs, (List.length bs < fuel)%nat ->
  List.length (base64_aux fuel bs) = (4 * Nat.div (List.length bs + 2) 3)%nat.
Proof.
  induction fuel as [|f IH]; intros bs Hf; [lia|].
  cbn [base64_aux]. destruct bs as [|a [|b [|c r]]]; try reflexivity.
  cbn [List.length] in *. rewrite IH by lia.
  replace (S (S (S (List.length r))) + 2)%nat with ((List.length r + 2) + 1 * 3)%nat by lia.
  rewrite Nat.div_add by lia. lia.
Qed.

Lemma base64_length : forall bs, List.length (base64 bs) = (4 * Nat.div (List.length bs + 2) 3)%nat.
Proof. intro bs. apply base64_aux_length. lia. Qed.

(* generate_key: 16 random bytes give a 24-character visible key *)
Lemma base64_key_shape : forall rnd, List.length rnd = 16%nat ->
  List.length (base64 rnd) = 24%nat /\ forallb visible (base64 rnd) = true.
Proof. intros rnd H. split; [rewrite base64_length, H; reflexivity | apply base64_visible]. Qed.

Lemma derive_accept_key_def : forall key, derive_accept_key key = base64 (sha1 (key ++ ws_guid)).
Proof. reflexivity. Qed.

Lemma ws_guid_text : ws_guid = B"258EAFA5-E914-47DA-95CA-C5AB0DC85B11".
Proof. reflexivity. Qed.

Lemma sha1_length : forall msg, List.length (sha1 msg) = 20%nat.
Proof.
  intro msg. unfold sha1.
  destruct (sha1_blocks _ _ _) as [[[[a b] c] d] e].
  rewrite !app_length. reflexivity.
Qed.

Lemma derive_accept_key_shape : forall key,
  List.length (derive_accept_key key) = 28%nat /\ forallb visible (derive_accept_key key) = true.
Proof.
  intro key. unfold derive_accept_key. split; [|apply base64_visible].
  rewrite base64_length, sha1_length. reflexivity.
Qed.

(* ------------------------------------------------------------------------------------------ *)
(** * write_response *)

Definition header_line (nv : bytes * bytes) : bytes := fst nv ++ B": " ++ snd nv ++ crlf.
Definition header_lines (hs : headers) : bytes := concat (map header_line hs).
Definition values_visible (hs : headers) : bool := forallb (fun nv => forallb visible (snd nv)) hs.

Lemma header_lines_cons : forall n v r,
  header_lines ((n, v) :: r) = n ++ B": " ++ v ++ crlf ++ header_lines r.
Proof.
  intros n v r. unfold header_lines. cbn [map concat]. unfold header_line at 1. cbn [fst snd].
  rewrite <- !app_assoc. reflexivity.
Qed.

Lemma write_headers_spec : forall hs,
  write_headers hs = if values_visible hs then Some (header_lines hs) else None.
Proof.
  induction hs as [|[n v] r IH]; [reflexivity|].
  cbn [write_headers values_visible forallb snd]. rewrite IH. unfold to_str.
  destruct (forallb visible v); [|reflexivity]. cbn [andb].
  fold (values_visible r). destruct (values_visible r); [|reflexivity].
  rewrite header_lines_cons. reflexivity.
Qed.

Lemma values_visible_app : forall a b, values_visible (a ++ b) = values_visible a && values_visible b.
Proof. intros a b. unfold values_visible. apply forallb_app. Qed.

Lemma header_lines_app : forall a b, header_lines (a ++ b) = header_lines a ++ header_lines b.
Proof. intros a b. unfold header_lines. rewrite map_app, concat_app. reflexivity. Qed.

Lemma write_response_spec : forall status hs,
  write_response status hs =
  if values_visible hs then Some (B"HTTP/1.1 " ++ status_text status ++ crlf ++ header_lines hs ++ crlf) else None.
Proof. intros status hs. unfold write_response. rewrite write_headers_spec. destruct (values_visible hs); reflexivity. Qed.

Lemma accept_headers_visible : forall key, values_visible (accept_headers key) = true.
Proof.
  intro key. unfold accept_headers, values_visible. cbn [forallb snd].
  rewrite (proj2 (derive_accept_key_shape key)). reflexivity.
Qed.

Definition response_101 (key : bytes) (extra : headers) : bytes :=
  B"HTTP/1.1 101 Switching Protocols" ++ crlf ++
  B"connection: Upgrade" ++ crlf ++
  B"upgrade: websocket" ++ crlf ++
  B"sec-websocket-accept: " ++ derive_accept_key key ++ crlf ++
  header_lines extra ++ crlf.

Lemma write_response_101 : forall key extra,
  write_response 101 (accept_headers key ++ extra) =
  if values_visible extra then Some (response_101 key extra) else None.
Proof.
  intros key extra. rewrite write_response_spec, values_visible_app, accept_headers_visible. cbn [andb].
  destruct (values_visible extra); [|reflexivity]. f_equal.
  rewrite header_lines_app. unfold response_101, accept_headers. rewrite !header_lines_cons.
  change (header_lines []) with (@nil N). change (status_text 101) with B"101 Switching Protocols".
  generalize (derive_accept_key key) as k. generalize (header_lines extra) as e. intros e k.
  rewrite <- !app_assoc. reflexivity.
Qed.

Lemma write_response_101_none : forall key,
  write_response 101 (accept_headers key) = Some (response_101 key []).
Proof.
  intro key. pose proof (write_response_101 key []) as H. rewrite app_nil_r in H. exact H.
Qed.

(* ------------------------------------------------------------------------------------------ *)
(** * The round machine, stage by stage
   The three stages as plain list recursions over their own oracle list (no fuel, no world):
   result, unconsumed oracle entries, events appended to the handshake log. *)

Inductive fl_res := FBlocked | FFail (k : io_kind) | FOk.
Fixpoint fl_stage (fls : list fl_out) : fl_res * list fl_out * list hs_event :=
  match fls with
  | [] => (FBlocked, [], [])
  | FlOk :: r => (FOk, r, [HsEv (EvFlush FlOk)])
  | FlErr k :: r =>
      match k with
      | WouldBlock => let '(o, r', ev) := fl_stage r in
                      (o, r', HsEv (EvFlush (FlErr WouldBlock)) :: HsInterrupted :: ev)
      | _ => (FFail k, r, [HsEv (EvFlush (FlErr k))])
      end
  end.

Inductive wr_res := WBlocked | WFail (e : hs_error) | WPanic | WDone.
Fixpoint wr_stage (wrs : list wr_out) (rest : bytes) : wr_res * list wr_out * list hs_event :=
  match rest with
  | [] => (WPanic, wrs, [])
  | _ :: _ =>
    match wrs with
    | [] => (WBlocked, [], [])
    | WrErr k :: r =>
        match k with
        | WouldBlock => let '(o, r', ev) := wr_stage r rest in
                        (o, r', HsEv (EvWriteErr (blen rest) WouldBlock) :: HsInterrupted :: ev)
        | _ => (WFail (HEIo k), r, [HsEv (EvWriteErr (blen rest) k)])
        end
    | WrAccept n :: r =>
        let n' := N.min n (blen rest) in
        let e := HsEv (EvWrite (blen rest) (takeN n' rest)) in
        if n' =? 0 then (WFail (HEIo ConnReset), r, [e])
        else match dropN n' rest with
             | [] => (WDone, r, [e])
             | rest' => let '(o, r', ev) := wr_stage r rest' in (o, r', e :: ev)
             end
    end
  end.

Inductive rd_res (A : Type) := RBlocked | RFail (e : hs_error) | RDone (n : N) (a : A) (buf : bytes).
Arguments RBlocked {A}. Arguments RFail {A} e. Arguments RDone {A} n a buf.

Fixpoint rd_stage {A : Type} (parse : bytes -> parsed A) (rds : list rd_out) (buf : bytes) (p b : N)
  : rd_res A * list rd_out * list hs_event :=
  match rds with
  | [] => (RBlocked, [], [])
  | RdErr k :: r =>
      match k with
      | WouldBlock => let '(o, r', ev) := rd_stage parse r buf p b in
                      (o, r', HsEv (EvRead (RdErr WouldBlock)) :: HsInterrupted :: ev)
      | _ => (RFail (HEIo k), r, [HsEv (EvRead (RdErr k))])
      end
  | RdEof :: r => (RFail (HEProto HandshakeIncomplete), r, [HsEv (EvRead RdEof)])
  | RdData [] :: r => (RFail (HEProto HandshakeIncomplete), r, [HsEv (EvRead RdEof)])
  | RdData bs :: r =>
      let e := HsEv (EvRead (RdData bs)) in
      match attack_check p b (blen bs) with
      | None => (RFail HEAttack, r, [e])
      | Some (p', b') =>
          match parse (buf ++ bs) with
          | PPartial => let '(o, r', ev) := rd_stage parse r (buf ++ bs) p' b' in (o, r', e :: ev)
          | PFail err => (RFail err, r, [e])
          | PComplete n a => (RDone n a (buf ++ bs), r, [e])
          end
      end
  end.

Lemma fl_stage_length : forall fls, (List.length (snd (fst (fl_stage fls))) <= List.length fls)%nat.
Proof.
  induction fls as [|a r IH]; [cbn; lia|].
  cbn [fl_stage]. destruct a as [|k]; [cbn; lia|]. destruct k; try (cbn; lia).
  destruct (fl_stage r) as [[o r'] ev]. cbn in *. lia.
Qed.

Lemma wr_stage_length : forall wrs rest, (List.length (snd (fst (wr_stage wrs rest))) <= List.length wrs)%nat.
Proof.
  induction wrs as [|a r IH]; intro rest; destruct rest as [|x xs]; try (cbn; lia).
  cbn [wr_stage]. destruct a as [n|k].
  - cbv zeta. destruct (N.min n (blen (x :: xs)) =? 0); [cbn; lia|].
    destruct (dropN (N.min n (blen (x :: xs))) (x :: xs)) as [|y ys] eqn:E; [cbn; lia|].
    specialize (IH (y :: ys)). destruct (wr_stage r (y :: ys)) as [[o r'] ev]. cbn in *. lia.
  - destruct k; try (cbn; lia).
    specialize (IH (x :: xs)). destruct (wr_stage r (x :: xs)) as [[o r'] ev]. cbn in *. lia.
Qed.

Section MachineP.
  Variable oracle_req : bytes -> oracle_out raw_req.
  Variable oracle_resp : bytes -> oracle_out raw_resp.

  Definition req_parser (buf : bytes) : parsed request := try_parse_request (oracle_req buf).
  Definition resp_parser (buf : bytes) : parsed response := try_parse_response (oracle_resp buf).

  Notation loop := (hs_loop oracle_req oracle_resp).

  (* ---- flushing ---- *)
  Lemma loop_flush : forall fls fuel rd rds wrs keys log hlog, (List.length fls < fuel)%nat ->
    loop fuel rd HFlushing (mkWorld rds wrs fls keys log) hlog =
    let '(o, fls', ev) := fl_stage fls in
    let w' := mkWorld rds wrs fls' keys log in
    match o with
    | FBlocked => (HsBlocked, w', hlog ++ ev)
    | FFail k => (HsFail (HEIo k), w', hlog ++ ev)
    | FOk =>
        match rd with
        | RServer _ (Some (status, body)) => (HsFail (HEHttp status body), w', hlog ++ ev)
        | RServer _ None => (HsDone Server [], w', hlog ++ ev)
        | RClient _ _ =>
            loop (fuel - (List.length fls - List.length fls'))%nat rd (HReading [] 0 0) w' (hlog ++ ev)
        end
    end.
  Proof.
    induction fls as [|a r IH]; intros fuel rd rds wrs keys log hlog Hf;
      (destruct fuel as [|f]; [lia|]); cbn [hs_loop w_fls].
    - cbn [fl_stage]. rewrite app_nil_r. reflexivity.
    - destruct a as [|k].
      + unfold w_set_fls; cbn [fl_stage w_rds w_wrs w_keys w_log List.length].
        replace (S f - (S (List.length r) - List.length r))%nat with f by lia.
        destruct rd as [cb [[s b]|]|]; reflexivity.
      + destruct k; unfold w_set_fls; cbn [fl_stage w_rds w_wrs w_keys w_log]; try reflexivity.
        cbn [List.length] in Hf. rewrite IH by lia.
        pose proof (fl_stage_length r) as Hl.
        destruct (fl_stage r) as [[o r'] ev]. cbn [fst snd] in Hl.
        rewrite <- !app_assoc. cbn [app List.length].
        replace (S f - (S (List.length r) - List.length r'))%nat with (f - (List.length r - List.length r'))%nat by lia.
        reflexivity.
  Qed.

  (* ---- writing ---- *)
  Lemma loop_write : forall wrs fuel rd rest rds fls keys log hlog, (List.length wrs < fuel)%nat ->
    loop fuel rd (HWriting rest) (mkWorld rds wrs fls keys log) hlog =
    let '(o, wrs', ev) := wr_stage wrs rest in
    let w' := mkWorld rds wrs' fls keys log in
    match o with
    | WBlocked => (HsBlocked, w', hlog ++ ev)
    | WFail e => (HsFail e, w', hlog ++ ev)
    | WPanic => (HsPanic site_hs_write_nothing, w', hlog ++ ev)
    | WDone => loop (fuel - (List.length wrs - List.length wrs'))%nat rd HFlushing w' (hlog ++ ev)
    end.
  Proof.
    induction wrs as [|a r IH]; intros fuel rd rest rds fls keys log hlog Hf;
      (destruct fuel as [|f]; [lia|]); cbn [hs_loop w_wrs]; destruct rest as [|x xs];
      try (cbn [wr_stage]; rewrite app_nil_r; reflexivity).
    destruct a as [n|k].
    - unfold w_set_wrs; cbn [wr_stage w_rds w_fls w_keys w_log]. cbv zeta.
      destruct (N.min n (blen (x :: xs)) =? 0); [reflexivity|].
      destruct (dropN (N.min n (blen (x :: xs))) (x :: xs)) as [|y ys] eqn:E.
      + cbn [List.length]. replace (S f - (S (List.length r) - List.length r))%nat with f by lia. reflexivity.
      + cbn [List.length] in Hf. rewrite IH by lia.
        pose proof (wr_stage_length r (y :: ys)) as Hl.
        destruct (wr_stage r (y :: ys)) as [[o r'] ev]. cbn [fst snd] in Hl.
        rewrite <- !app_assoc. cbn [app List.length].
        replace (S f - (S (List.length r) - List.length r'))%nat with (f - (List.length r - List.length r'))%nat by lia.
        reflexivity.
    - destruct k; unfold w_set_wrs; cbn [wr_stage w_rds w_fls w_keys w_log]; try reflexivity.
      cbn [List.length] in Hf. rewrite IH by lia.
      pose proof (wr_stage_length r (x :: xs)) as Hl.
      destruct (wr_stage r (x :: xs)) as [[o r'] ev]. cbn [fst snd] in Hl.
      rewrite <- !app_assoc. cbn [app List.length].
      replace (S f - (S (List.length r) - List.length r'))%nat with (f - (List.length r - List.length r'))%nat by lia.
      reflexivity.
  Qed.

  Lemma rd_stage_length : forall (A : Type) (parse : bytes -> parsed A) rds buf p b,
    (List.length (snd (fst (rd_stage parse rds buf p b))) <= List.length rds)%nat.
  Proof.
    intros A parse. induction rds as [|a r IH]; intros buf p b; [cbn; lia|].
    cbn [rd_stage]. destruct a as [bs| |k].
    - destruct bs as [|x xs]; [cbn; lia|]. cbv zeta.
      destruct (attack_check p b (blen (x :: xs))) as [[p' b']|]; [|cbn; lia].
      destruct (parse (buf ++ x :: xs)); try (cbn; lia).
      specialize (IH (buf ++ x :: xs) p' b'). destruct (rd_stage parse r (buf ++ x :: xs) p' b') as [[o r'] ev].
      cbn in *. lia.
    - cbn; lia.
    - destruct k; try (cbn; lia).
      specialize (IH buf p b). destruct (rd_stage parse r buf p b) as [[o r'] ev]. cbn in *. lia.
  Qed.

  (* ---- reading, server ---- *)
  Lemma loop_read_server : forall rds fuel cb pend buf p b wrs fls keys log hlog,
    (List.length rds < fuel)%nat ->
    loop fuel (RServer cb pend) (HReading buf p b) (mkWorld rds wrs fls keys log) hlog =
    let '(o, rds', ev) := rd_stage req_parser rds buf p b in
    let w' := mkWorld rds' wrs fls keys log in
    match o with
    | RBlocked => (HsBlocked, w', hlog ++ ev)
    | RFail e => (HsFail e, w', hlog ++ ev)
    | RDone n req buf' =>
        match server_done_reading cb req (dropN n buf') with
        | HErr e => (HsFail e, w', hlog ++ ev)
        | HOk (out, pend') =>
            loop (fuel - (List.length rds - List.length rds'))%nat (RServer cb pend') (HWriting out) w' (hlog ++ ev)
        end
    end.
  Proof.
    induction rds as [|a r IH]; intros fuel cb pend buf p b wrs fls keys log hlog Hf;
      (destruct fuel as [|f]; [lia|]); cbn [hs_loop w_rds].
    - cbn [rd_stage]. rewrite app_nil_r. reflexivity.
    - destruct a as [bs| |k].
      + destruct bs as [|x xs]; [reflexivity|].
        unfold w_set_rds; cbn [rd_stage w_wrs w_fls w_keys w_log]. cbv zeta.
        destruct (attack_check p b (blen (x :: xs))) as [[p' b']|]; [|reflexivity].
        unfold req_parser at 1.
        destruct (try_parse_request (oracle_req (buf ++ x :: xs))) as [|n req|e]; [| |reflexivity].
        * cbn [List.length] in Hf. rewrite IH by lia.
          pose proof (rd_stage_length _ req_parser r (buf ++ x :: xs) p' b') as Hl.
          destruct (rd_stage req_parser r (buf ++ x :: xs) p' b') as [[o r'] ev]. cbn [fst snd] in Hl.
          rewrite <- !app_assoc. cbn [app List.length].
          replace (S f - (S (List.length r) - List.length r'))%nat with (f - (List.length r - List.length r'))%nat by lia.
          reflexivity.
        * cbn [List.length]. replace (S f - (S (List.length r) - List.length r))%nat with f by lia.
          destruct (server_done_reading cb req (dropN n (buf ++ x :: xs))) as [[out pend']|e]; reflexivity.
      + reflexivity.
      + destruct k; unfold w_set_rds; cbn [rd_stage w_wrs w_fls w_keys w_log]; try reflexivity.
        cbn [List.length] in Hf. rewrite IH by lia.
        pose proof (rd_stage_length _ req_parser r buf p b) as Hl.
        destruct (rd_stage req_parser r buf p b) as [[o r'] ev]. cbn [fst snd] in Hl.
        rewrite <- !app_assoc. cbn [app List.length].
        replace (S f - (S (List.length r) - List.length r'))%nat with (f - (List.length r - List.length r'))%nat by lia.
        reflexivity.
  Qed.

  (* ---- reading, client (last stage of a client handshake) ---- *)
  Definition client_read_result (accept_key : bytes) (subs : option (list bytes)) (o : rd_res response)
    : hs_result :=
    match o with
    | RBlocked => HsBlocked
    | RFail e => HsFail e
    | RDone n resp buf =>
        let tail := dropN n buf in
        match verify_response accept_key subs resp with
        | HErr (HEHttp s _) => HsFail (HEHttp s (Some tail))
        | HErr e => HsFail e
        | HOk _ => HsDone Client tail
        end
    end.

  Lemma loop_read_client : forall rds fuel akey subs buf p b wrs fls keys log hlog,
    (List.length rds < fuel)%nat ->
    loop fuel (RClient akey subs) (HReading buf p b) (mkWorld rds wrs fls keys log) hlog =
    let '(o, rds', ev) := rd_stage resp_parser rds buf p b in
    (client_read_result akey subs o, mkWorld rds' wrs fls keys log, hlog ++ ev).
  Proof.
    induction rds as [|a r IH]; intros fuel akey subs buf p b wrs fls keys log hlog Hf;
      (destruct fuel as [|f]; [lia|]); cbn [hs_loop w_rds].
    - cbn [rd_stage client_read_result]. rewrite app_nil_r. reflexivity.
    - destruct a as [bs| |k].
      + destruct bs as [|x xs]; [reflexivity|].
        unfold w_set_rds; cbn [rd_stage w_wrs w_fls w_keys w_log]. cbv zeta.
        destruct (attack_check p b (blen (x :: xs))) as [[p' b']|]; [|reflexivity].
        unfold resp_parser at 1.
        destruct (try_parse_response (oracle_resp (buf ++ x :: xs))) as [|n resp|e]; [| |reflexivity].
        * cbn [List.length] in Hf. rewrite IH by lia.
          destruct (rd_stage resp_parser r (buf ++ x :: xs) p' b') as [[o r'] ev].
          rewrite <- !app_assoc. reflexivity.
        * cbn [client_read_result]. cbv zeta.
          destruct (verify_response akey subs resp) as [resp'|e]; [reflexivity|].
          destruct e; reflexivity.
      + reflexivity.
      + destruct k; unfold w_set_rds; cbn [rd_stage w_wrs w_fls w_keys w_log]; try reflexivity.
        cbn [List.length] in Hf. rewrite IH by lia.
        destruct (rd_stage resp_parser r buf p b) as [[o r'] ev].
        rewrite <- !app_assoc. reflexivity.
  Qed.

  (* ---- whole handshakes as compositions of the stages ---- *)
  Definition flush_result (pend : option (N * option bytes)) (o : fl_res) : hs_result :=
    match o with
    | FBlocked => HsBlocked
    | FFail k => HsFail (HEIo k)
    | FOk => match pend with Some (s, b) => HsFail (HEHttp s b) | None => HsDone Server [] end
    end.

  Definition server_run (cb : callback) (w : world) : hs_result * world * list hs_event :=
    let '(o1, rds', ev1) := rd_stage req_parser (w_rds w) [] 0 0 in
    let w1 := w_set_rds w rds' in
    match o1 with
    | RBlocked => (HsBlocked, w1, ev1)
    | RFail e => (HsFail e, w1, ev1)
    | RDone n req buf =>
        match server_done_reading cb req (dropN n buf) with
        | HErr e => (HsFail e, w1, ev1)
        | HOk (out, pend) =>
            let '(o2, wrs', ev2) := wr_stage (w_wrs w) out in
            let w2 := w_set_wrs w1 wrs' in
            match o2 with
            | WBlocked => (HsBlocked, w2, ev1 ++ ev2)
            | WFail e => (HsFail e, w2, ev1 ++ ev2)
            | WPanic => (HsPanic site_hs_write_nothing, w2, ev1 ++ ev2)
            | WDone =>
                let '(o3, fls', ev3) := fl_stage (w_fls w) in
                (flush_result pend o3, w_set_fls w2 fls', ev1 ++ ev2 ++ ev3)
            end
        end
    end.

  Theorem server_handshake_run : forall cb w,
    server_handshake oracle_req oracle_resp cb w = server_run cb w.
  Proof.
    intros cb [rds wrs fls keys log]. unfold server_handshake, hs_fuel, server_run.
    cbn [w_rds w_wrs w_fls]. rewrite loop_read_server by lia.
    pose proof (rd_stage_length _ req_parser rds [] 0 0) as Hl1.
    destruct (rd_stage req_parser rds [] 0 0) as [[o1 rds'] ev1]. cbn [fst snd] in Hl1.
    cbv zeta. cbn [app]. unfold w_set_rds, w_set_wrs, w_set_fls. cbn [w_rds w_wrs w_fls w_keys w_log].
    destruct o1 as [|e|n req buf]; try reflexivity.
    destruct (server_done_reading cb req (dropN n buf)) as [[out pend]|e]; [|reflexivity].
    rewrite loop_write by lia.
    pose proof (wr_stage_length wrs out) as Hl2.
    destruct (wr_stage wrs out) as [[o2 wrs'] ev2]. cbn [fst snd] in Hl2. cbv zeta.
    destruct o2; try reflexivity.
    rewrite loop_flush by lia.
    destruct (fl_stage fls) as [[o3 fls'] ev3]. cbv zeta. rewrite <- app_assoc.
    destruct o3; try reflexivity. cbn [flush_result]. destruct pend as [[s b]|]; reflexivity.
  Qed.

  Definition client_run (scheme_ok : bool) (path : option bytes) (hs : headers) (w : world)
    : hs_result * world * list hs_event :=
    if negb scheme_ok then (HsFail HEUrlScheme, w, []) else
    match extract_subprotocols hs with
    | HErr e => (HsFail e, w, [])
    | HOk subs =>
        match generate_request path hs with
        | HErr e => (HsFail e, w, [])
        | HOk (req, key) =>
            let '(o1, wrs', ev1) := wr_stage (w_wrs w) req in
            let w1 := w_set_wrs w wrs' in
            match o1 with
            | WBlocked => (HsBlocked, w1, ev1)
            | WFail e => (HsFail e, w1, ev1)
            | WPanic => (HsPanic site_hs_write_nothing, w1, ev1)
            | WDone =>
                let '(o2, fls', ev2) := fl_stage (w_fls w) in
                let w2 := w_set_fls w1 fls' in
                match o2 with
                | FBlocked => (HsBlocked, w2, ev1 ++ ev2)
                | FFail k => (HsFail (HEIo k), w2, ev1 ++ ev2)
                | FOk =>
                    let '(o3, rds', ev3) := rd_stage resp_parser (w_rds w) [] 0 0 in
                    (client_read_result (derive_accept_key key) subs o3, w_set_rds w2 rds', ev1 ++ ev2 ++ ev3)
                end
            end
        end
    end.

  Theorem client_handshake_run : forall scheme_ok path hs w,
    client_handshake oracle_req oracle_resp scheme_ok path hs w = client_run scheme_ok path hs w.
  Proof.
    intros scheme_ok path hs [rds wrs fls keys log]. unfold client_handshake, client_run.
    destruct (negb scheme_ok); [reflexivity|].
    destruct (extract_subprotocols hs) as [subs|e]; [|reflexivity].
    destruct (generate_request path hs) as [[req key]|e]; [|reflexivity].
    unfold hs_fuel. cbn [w_rds w_wrs w_fls]. rewrite loop_write by lia.
    pose proof (wr_stage_length wrs req) as Hl1.
    destruct (wr_stage wrs req) as [[o1 wrs'] ev1]. cbn [fst snd] in Hl1. cbv zeta. cbn [app].
    unfold w_set_rds, w_set_wrs, w_set_fls. cbn [w_rds w_wrs w_fls w_keys w_log].
    destruct o1; try reflexivity.
    rewrite loop_flush by lia.
    pose proof (fl_stage_length fls) as Hl2.
    destruct (fl_stage fls) as [[o2 fls'] ev2]. cbn [fst snd] in Hl2. cbv zeta.
    destruct o2; try reflexivity.
    rewrite loop_read_client by lia.
    destruct (rd_stage resp_parser rds [] 0 0) as [[o3 rds'] ev3]. rewrite <- app_assoc. reflexivity.
  Qed.
End MachineP.

(* ------------------------------------------------------------------------------------------ *)
(** * Observations on handshake logs *)

Definition hs_events (l : list hs_event) : list event :=
  flat_map (fun e => match e with HsEv x => [x] | HsInterrupted => [] end) l.

(* bytes accepted by the transport during the handshake *)
Fixpoint hs_wire (l : list hs_event) : bytes :=
  match l with
  | [] => []
  | HsEv (EvWrite _ acc) :: r => acc ++ hs_wire r
  | _ :: r => hs_wire r
  end.

(* bytes delivered by the transport during the handshake *)
Fixpoint hs_data_read (l : list hs_event) : bytes :=
  match l with
  | [] => []
  | HsEv (EvRead (RdData bs)) :: r => bs ++ hs_data_read r
  | _ :: r => hs_data_read r
  end.

Definition is_write_ev (e : hs_event) : bool :=
  match e with HsEv (EvWrite _ _) | HsEv (EvWriteErr _ _) => true | _ => false end.
Definition is_flush_ev (e : hs_event) : bool :=
  match e with HsEv (EvFlush _) => true | _ => false end.
Definition is_read_ev (e : hs_event) : bool :=
  match e with HsEv (EvRead _) => true | _ => false end.
Definition has_write_ev (l : list hs_event) : bool := existsb is_write_ev l.
Definition has_flush_ev (l : list hs_event) : bool := existsb is_flush_ev l.
Definition has_read_ev (l : list hs_event) : bool := existsb is_read_ev l.

Lemma hs_wire_is_wire : forall l, hs_wire l = wire (hs_events l).
Proof.
  induction l as [|e r IH]; [reflexivity|].
  destruct e as [x|]; [|exact IH]. unfold hs_events in *. cbn [flat_map app hs_wire wire].
  destruct x; cbn [wire]; rewrite IH; reflexivity.
Qed.

Lemma hs_wire_app : forall a b, hs_wire (a ++ b) = hs_wire a ++ hs_wire b.
Proof.
  induction a as [|e r IH]; intro b; [reflexivity|].
  cbn [app hs_wire]. destruct e as [x|]; [|apply IH]. destruct x; try apply IH.
  rewrite IH, app_assoc. reflexivity.
Qed.

Lemma hs_data_read_app : forall a b, hs_data_read (a ++ b) = hs_data_read a ++ hs_data_read b.
Proof.
  induction a as [|e r IH]; intro b; [reflexivity|].
  cbn [app hs_data_read]. destruct e as [x|]; [|apply IH]. destruct x as [rd| | | | |]; try apply IH.
  destruct rd; try apply IH. rewrite IH, app_assoc. reflexivity.
Qed.

Lemma has_write_ev_app : forall a b, has_write_ev (a ++ b) = has_write_ev a || has_write_ev b.
Proof. intros. apply existsb_app. Qed.
Lemma has_flush_ev_app : forall a b, has_flush_ev (a ++ b) = has_flush_ev a || has_flush_ev b.
Proof. intros. apply existsb_app. Qed.
Lemma has_read_ev_app : forall a b, has_read_ev (a ++ b) = has_read_ev a || has_read_ev b.
Proof. intros. apply existsb_app. Qed.

Lemma no_write_ev_wire : forall l, has_write_ev l = false -> hs_wire l = [].
Proof.
  induction l as [|e r IH]; [reflexivity|]. unfold has_write_ev in *. cbn [existsb hs_wire].
  intro H. apply orb_false_iff in H. destruct H as [H1 H2].
  destruct e as [x|]; [|exact (IH H2)]. destruct x; try exact (IH H2). discriminate.
Qed.

Lemma no_read_ev_data : forall l, has_read_ev l = false -> hs_data_read l = [].
Proof.
  induction l as [|e r IH]; [reflexivity|]. unfold has_read_ev in *. cbn [existsb hs_data_read].
  intro H. apply orb_false_iff in H. destruct H as [H1 H2].
  destruct e as [x|]; [|exact (IH H2)]. destruct x; try exact (IH H2). discriminate.
Qed.

(* ---- what each stage logs ---- *)
Lemma fl_stage_events : forall fls o fls' ev, fl_stage fls = (o, fls', ev) ->
  has_write_ev ev = false /\ has_read_ev ev = false /\
  (o = FOk -> exists pre, ev = pre ++ [HsEv (EvFlush FlOk)]) /\
  (exists used, fls = used ++ fls').
Proof.
  induction fls as [|a r IH]; intros o fls' ev H; cbn [fl_stage] in H.
  - inversion H; subst. repeat split; try reflexivity; [discriminate | exists []; reflexivity].
  - destruct a as [|k].
    + inversion H; subst. repeat split; try reflexivity; [intros _; exists []; reflexivity | exists [FlOk]; reflexivity].
    + destruct k; try (inversion H; subst; repeat split; try reflexivity; [discriminate | eexists [_]; reflexivity]).
      destruct (fl_stage r) as [[o1 r1] ev1]. inversion H; subst.
      destruct (IH _ _ _ eq_refl) as [H1 [H2 [H3 [used H4]]]].
      repeat split.
      * exact H1.
      * exact H2.
      * intro Ho. destruct (H3 Ho) as [pre Hp]. rewrite Hp.
        exists (HsEv (EvFlush (FlErr WouldBlock)) :: HsInterrupted :: pre). reflexivity.
      * exists (FlErr WouldBlock :: used). rewrite H4. reflexivity.
Qed.

Lemma wr_stage_events : forall wrs rest o wrs' ev, wr_stage wrs rest = (o, wrs', ev) ->
  has_read_ev ev = false /\ has_flush_ev ev = false /\
  (exists remaining, rest = hs_wire ev ++ remaining /\ (o = WDone -> remaining = [])) /\
  (o = WDone -> rest <> []) /\
  (forall e, o = WFail e -> exists k, e = HEIo k) /\
  (exists used, wrs = used ++ wrs').
Proof.
  induction wrs as [|a r IH]; intros rest o wrs' ev H; destruct rest as [|x xs]; cbn [wr_stage] in H.
  - inversion H; subst. repeat split; try reflexivity; try discriminate; [exists []; split; [reflexivity | discriminate] | exists []; reflexivity].
  - inversion H; subst. repeat split; try reflexivity; try discriminate; [exists (x :: xs); split; [reflexivity | discriminate] | exists []; reflexivity].
  - inversion H; subst. repeat split; try reflexivity; try discriminate; [exists []; split; [reflexivity | discriminate] | exists []; reflexivity].
  - destruct a as [n|k].
    + cbv zeta in H. set (n' := N.min n (blen (x :: xs))) in *.
      destruct (n' =? 0) eqn:En.
      * inversion H; subst. repeat split; try reflexivity; try discriminate.
        -- exists (dropN n' (x :: xs)). split; [|discriminate]. cbn [hs_wire]. rewrite app_nil_r.
           unfold takeN, dropN. symmetry. apply firstn_skipn.
        -- intros e He. inversion He. exists ConnReset. reflexivity.
        -- exists [WrAccept n]. reflexivity.
      * destruct (dropN n' (x :: xs)) as [|y ys] eqn:Ed.
        -- inversion H; subst. repeat split; try reflexivity; try discriminate.
           ++ exists []. split; [|reflexivity]. cbn [hs_wire]. rewrite !app_nil_r.
              unfold takeN, dropN in *. rewrite <- (firstn_skipn (N.to_nat n') (x :: xs)) at 1.
              rewrite Ed, app_nil_r. reflexivity.
           ++ exists [WrAccept n]. reflexivity.
        -- destruct (wr_stage r (y :: ys)) as [[o1 r1] ev1] eqn:Er. inversion H; subst.
           destruct (IH _ _ _ _ Er) as [H1 [H2 [[rem [H3 H3']] [H4 [H5 [used H6]]]]]].
           repeat split.
           ++ exact H1.
           ++ exact H2.
           ++ exists rem. split; [|exact H3']. cbn [hs_wire]. rewrite <- app_assoc, <- H3, <- Ed.
              unfold takeN, dropN. symmetry. apply firstn_skipn.
           ++ discriminate.
           ++ exact H5.
           ++ exists (WrAccept n :: used). rewrite H6. reflexivity.
    + destruct k; try (inversion H; subst; repeat split; try reflexivity; try discriminate;
        [exists (x :: xs); split; [reflexivity | discriminate] | intros e He; inversion He; eexists; reflexivity | eexists [_]; reflexivity]).
      destruct (wr_stage r (x :: xs)) as [[o1 r1] ev1] eqn:Er. inversion H; subst.
      destruct (IH _ _ _ _ Er) as [H1 [H2 [[rem [H3 H3']] [H4 [H5 [used H6]]]]]].
      repeat split.
      * exact H1.
      * exact H2.
      * exists rem. split; [exact H3 | exact H3'].
      * discriminate.
      * exact H5.
      * exists (WrErr WouldBlock :: used). rewrite H6. reflexivity.
Qed.

Lemma rd_stage_events : forall (A : Type) (parse : bytes -> parsed A) rds buf p b o rds' ev,
  rd_stage parse rds buf p b = (o, rds', ev) ->
  has_write_ev ev = false /\ has_flush_ev ev = false /\
  (forall n a buf', o = RDone n a buf' -> buf' = buf ++ hs_data_read ev /\ parse buf' = PComplete n a) /\
  (exists used, rds = used ++ rds').
Proof.
  intros A parse. induction rds as [|a r IH]; intros buf p b o rds' ev H; cbn [rd_stage] in H.
  - inversion H; subst. repeat split; try reflexivity; try discriminate. exists []; reflexivity.
  - destruct a as [bs| |k].
    + destruct bs as [|x xs].
      * inversion H; subst. repeat split; try reflexivity; try discriminate. eexists [_]; reflexivity.
      * cbv zeta in H. destruct (attack_check p b (blen (x :: xs))) as [[p' b']|].
        -- destruct (parse (buf ++ x :: xs)) as [|n a|e] eqn:Ep.
           ++ destruct (rd_stage parse r (buf ++ x :: xs) p' b') as [[o1 r1] ev1] eqn:Er. inversion H; subst.
              destruct (IH _ _ _ _ _ _ Er) as [H1 [H2 [H3 [used H4]]]].
              repeat split.
              ** exact H1.
              ** exact H2.
              ** destruct (H3 _ _ _ H0) as [H5 _]. rewrite H5. cbn [hs_data_read]. rewrite <- app_assoc. reflexivity.
              ** destruct (H3 _ _ _ H0) as [_ H5]. exact H5.
              ** exists (RdData (x :: xs) :: used). rewrite H4. reflexivity.
           ++ inversion H; subst. repeat split; try reflexivity; try discriminate.
              ** inversion H0; subst. cbn [hs_data_read]. rewrite app_nil_r. reflexivity.
              ** inversion H0; subst. exact Ep.
              ** eexists [_]; reflexivity.
           ++ inversion H; subst. repeat split; try reflexivity; try discriminate. eexists [_]; reflexivity.
        -- inversion H; subst. repeat split; try reflexivity; try discriminate. eexists [_]; reflexivity.
    + inversion H; subst. repeat split; try reflexivity; try discriminate. eexists [_]; reflexivity.
    + destruct k; try (inversion H; subst; repeat split; try reflexivity; try discriminate; eexists [_]; reflexivity).
      destruct (rd_stage parse r buf p b) as [[o1 r1] ev1] eqn:Er. inversion H; subst.
      destruct (IH _ _ _ _ _ _ Er) as [H1 [H2 [H3 [used H4]]]].
      repeat split.
      * exact H1.
      * exact H2.
      * destruct (H3 _ _ _ H0) as [H5 _]. exact H5.
      * destruct (H3 _ _ _ H0) as [_ H5]. exact H5.
      * exists (RdErr WouldBlock :: used). rewrite H4. reflexivity.
Qed.

(* ------------------------------------------------------------------------------------------ *)
(** * Parsing wrappers and the server's DoneReading step *)

Lemma try_parse_request_complete : forall o n req,
  try_parse_request o = PComplete n req <->
  exists raw, o = OComplete n raw /\ rq_method raw = B"GET" /\ 1 <= rq_version raw /\
              rq_fmt_ok raw = true /\ req = mkRequest (rq_path raw) (rq_headers raw).
Proof.
  intros o n req. split.
  - destruct o as [|m raw| |]; cbn [try_parse_request]; try discriminate.
    destruct (bytes_eqb (rq_method raw) B"GET") eqn:Em; cbn [negb]; [|discriminate].
    destruct (rq_version raw <? 1) eqn:Ev; [discriminate|].
    destruct (rq_fmt_ok raw) eqn:Ef; cbn [negb]; [|discriminate].
    intro H. inversion H; subst. exists raw. apply bytes_eqb_eq in Em.
    repeat split; try assumption; try reflexivity. lia.
  - intros [raw [Ho [Hm [Hv [Hf Hr]]]]]. subst o req. cbn [try_parse_request].
    rewrite Hm, bytes_eqb_refl, Hf. cbn [negb]. destruct (rq_version raw <? 1) eqn:Ev; [lia | reflexivity].
Qed.

Definition parse_fail_class (e : hs_error) : Prop :=
  e = HEHttparse \/ e = HETooManyHeaders \/ e = HEHttpFormat \/
  e = HEProto WrongHttpMethod \/ e = HEProto WrongHttpVersion.

Lemma try_parse_request_fail : forall o e, try_parse_request o = PFail e -> parse_fail_class e.
Proof.
  intros o e. unfold parse_fail_class. destruct o as [|m raw| |]; cbn [try_parse_request]; try discriminate.
  - destruct (negb (bytes_eqb (rq_method raw) B"GET")); [intro H; inversion H; auto 6|].
    destruct (rq_version raw <? 1); [intro H; inversion H; auto 6|].
    destruct (negb (rq_fmt_ok raw)); [intro H; inversion H; auto 6 | discriminate].
  - intro H; inversion H; auto.
  - intro H; inversion H; auto.
Qed.

Lemma try_parse_response_complete : forall o n resp,
  try_parse_response o = PComplete n resp <->
  exists raw, o = OComplete n raw /\ 1 <= rs_version raw /\ rs_fmt_ok raw = true /\
              resp = mkResponse (rs_code raw) (rs_headers raw).
Proof.
  intros o n resp. split.
  - destruct o as [|m raw| |]; cbn [try_parse_response]; try discriminate.
    destruct (rs_version raw <? 1) eqn:Ev; [discriminate|].
    destruct (rs_fmt_ok raw) eqn:Ef; cbn [negb]; [|discriminate].
    intro H. inversion H; subst. exists raw. repeat split; try assumption; try reflexivity. lia.
  - intros [raw [Ho [Hv [Hf Hr]]]]. subst o resp. cbn [try_parse_response].
    rewrite Hf. cbn [negb]. destruct (rs_version raw <? 1) eqn:Ev; [lia | reflexivity].
Qed.

Lemma try_parse_response_fail : forall o e, try_parse_response o = PFail e -> parse_fail_class e.
Proof.
  intros o e. unfold parse_fail_class. destruct o as [|m raw| |]; cbn [try_parse_response]; try discriminate.
  - destruct (rs_version raw <? 1); [intro H; inversion H; auto 6|].
    destruct (negb (rs_fmt_ok raw)); [intro H; inversion H; auto 6 | discriminate].
  - intro H; inversion H; auto.
  - intro H; inversion H; auto.
Qed.

(* failures of the reading stage: transport error, EOF, DoS guard, or the parser's verdict on the
   bytes read so far *)
Lemma rd_stage_fail : forall (A : Type) (parse : bytes -> parsed A) rds buf p b e rds' ev,
  rd_stage parse rds buf p b = (RFail e, rds', ev) ->
  (exists k, e = HEIo k) \/ e = HEProto HandshakeIncomplete \/ e = HEAttack \/
  parse (buf ++ hs_data_read ev) = PFail e.
Proof.
  intros A parse. induction rds as [|a r IH]; intros buf p b e rds' ev H; cbn [rd_stage] in H.
  - inversion H.
  - destruct a as [bs| |k].
    + destruct bs as [|x xs]; [inversion H; auto|].
      cbv zeta in H. destruct (attack_check p b (blen (x :: xs))) as [[p' b']|]; [|inversion H; auto].
      destruct (parse (buf ++ x :: xs)) as [|n a|e1] eqn:Ep.
      * destruct (rd_stage parse r (buf ++ x :: xs) p' b') as [[o1 r1] ev1] eqn:Er. inversion H; subst.
        destruct (IH _ _ _ _ _ _ Er) as [H1|[H1|[H1|H1]]]; auto.
        right. right. right. cbn [hs_data_read]. rewrite <- app_assoc in H1. exact H1.
      * inversion H.
      * inversion H; subst. right. right. right. cbn [hs_data_read]. rewrite app_nil_r. exact Ep.
    + inversion H; auto.
    + destruct k; try (inversion H; subst; left; eexists; reflexivity).
      destruct (rd_stage parse r buf p b) as [[o1 r1] ev1] eqn:Er. inversion H; subst.
      destruct (IH _ _ _ _ _ _ Er) as [H1|[H1|[H1|H1]]]; auto.
Qed.

Definition body_bytes (b : option bytes) : bytes := match b with Some x => x | None => [] end.
Definition is_2xx (status : N) : bool := (200 <=? status) && (status <? 300).

(* the DoneReading step as one equation over the decision *)
Lemma server_done_reading_spec : forall cb req tail,
  server_done_reading cb req tail =
  match tail with
  | _ :: _ => HErr (HEProto JunkAfterRequest)
  | [] =>
      match create_parts true true (req_headers req) with
      | HErr e => HErr e
      | HOk rh =>
          match cb with
          | CbNone => match write_response 101 rh with Some out => HOk (out, None) | None => HErr HEUtf8 end
          | CbAdd extra =>
              match write_response 101 (rh ++ extra) with Some out => HOk (out, None) | None => HErr HEUtf8 end
          | CbReject status hs body =>
              if is_2xx status then HErr (HEProto CustomResponseSuccessful) else
              match write_response status hs with
              | Some out => HOk (out ++ body_bytes body, Some (status, body))
              | None => HErr HEUtf8
              end
          end
      end
  end.
Proof. reflexivity. Qed.

Definition cb_outcome (cb : callback) (key : bytes) (out : bytes) (pend : option (N * option bytes)) : Prop :=
  match cb with
  | CbNone => out = response_101 key [] /\ pend = None
  | CbAdd extra => values_visible extra = true /\ out = response_101 key extra /\ pend = None
  | CbReject status hs body =>
      is_2xx status = false /\ values_visible hs = true /\
      out = (B"HTTP/1.1 " ++ status_text status ++ crlf ++ header_lines hs ++ crlf) ++ body_bytes body /\
      pend = Some (status, body)
  end.

Lemma server_done_reading_ok : forall cb req tail out pend,
  server_done_reading cb req tail = HOk (out, pend) <->
  tail = [] /\ exists key, create_parts true true (req_headers req) = HOk (accept_headers key) /\
                           hget B"sec-websocket-key" (req_headers req) = Some key /\
                           cb_outcome cb key out pend.
Proof.
  intros cb req tail out pend. rewrite server_done_reading_spec. split.
  - destruct tail as [|x xs]; [|discriminate].
    destruct (create_parts true true (req_headers req)) as [rh|e] eqn:Ec; [|discriminate].
    pose proof (proj1 (create_parts_ok_iff _ _ _ _) Ec) as [_ [_ [_ [_ [_ [key [Hk Hr]]]]]]]. subst rh.
    intro H. split; [reflexivity|]. exists key. split; [reflexivity|]. split; [exact Hk|].
    destruct cb as [|extra|status hs body]; cbn [cb_outcome].
    + rewrite write_response_101_none in H. inversion H. auto.
    + rewrite write_response_101 in H. destruct (values_visible extra); [|discriminate]. inversion H. auto.
    + destruct (is_2xx status); [discriminate|]. rewrite write_response_spec in H.
      destruct (values_visible hs); [|discriminate]. inversion H. auto.
  - intros [Ht [key [Hc [Hk Hcb]]]]. subst tail. rewrite Hc.
    destruct cb as [|extra|status hs body]; cbn [cb_outcome] in Hcb.
    + destruct Hcb as [H1 H2]. subst. rewrite write_response_101_none. reflexivity.
    + destruct Hcb as [H0 [H1 H2]]. subst. rewrite write_response_101, H0. reflexivity.
    + destruct Hcb as [H0 [H1 [H2 H3]]]. subst. rewrite H0, write_response_spec, H1. reflexivity.
Qed.

Lemma create_parts_err_class : forall hs e, create_parts true true hs = HErr e ->
  e = HEProto MissingConnectionUpgradeHeader \/ e = HEProto MissingUpgradeWebSocketHeader \/
  e = HEProto MissingSecWebSocketVersionHeader \/ e = HEProto MissingSecWebSocketKey.
Proof.
  intros hs e. rewrite create_parts_unfold. cbn [negb].
  destruct (negb (hs_conn_okb hs)); [intro H; inversion H; auto|].
  destruct (negb (hs_upg_okb hs)); [intro H; inversion H; auto|].
  destruct (negb (hs_ver_okb hs)); [intro H; inversion H; auto|].
  destruct (hget B"sec-websocket-key" hs); [discriminate | intro H; inversion H; auto].
Qed.

(* why a complete head is refused *)
Lemma server_done_reading_err : forall cb req tail e,
  server_done_reading cb req tail = HErr e ->
  (tail <> [] /\ e = HEProto JunkAfterRequest) \/
  (tail = [] /\ create_parts true true (req_headers req) = HErr e) \/
  (tail = [] /\ (exists rh, create_parts true true (req_headers req) = HOk rh) /\
   ((e = HEProto CustomResponseSuccessful /\ exists status hs body, cb = CbReject status hs body /\ is_2xx status = true) \/
    (e = HEUtf8 /\ match cb with
                   | CbNone => False
                   | CbAdd extra => values_visible extra = false
                   | CbReject status hs _ => is_2xx status = false /\ values_visible hs = false
                   end))).
Proof.
  intros cb req tail e. rewrite server_done_reading_spec.
  destruct tail as [|x xs]; [|intro H; inversion H; left; split; [discriminate | reflexivity]].
  destruct (create_parts true true (req_headers req)) as [rh|e1] eqn:Ec;
    [|intro H; inversion H; subst; right; left; auto].
  pose proof (proj1 (create_parts_ok_iff _ _ _ _) Ec) as [_ [_ [_ [_ [_ [key [Hk Hr]]]]]]]. subst rh.
  intro H. right. right. split; [reflexivity|]. split; [eexists; reflexivity|].
  destruct cb as [|extra|status hs body].
  - rewrite write_response_101_none in H. discriminate.
  - rewrite write_response_101 in H. destruct (values_visible extra); [discriminate|]. inversion H. auto.
  - destruct (is_2xx status) eqn:E2.
    + inversion H. left. split; [reflexivity|]. exists status, hs, body. auto.
    + rewrite write_response_spec in H. destruct (values_visible hs); [discriminate|]. inversion H. auto.
Qed.

Lemma wr_stage_panic : forall wrs rest wrs' ev, wr_stage wrs rest = (WPanic, wrs', ev) -> rest = [].
Proof.
  induction wrs as [|a r IH]; intros rest wrs' ev H; destruct rest as [|x xs]; try reflexivity;
    cbn [wr_stage] in H; [discriminate|]. exfalso.
  destruct a as [n|k].
  - cbv zeta in H. destruct (N.min n (blen (x :: xs)) =? 0); [discriminate|].
    destruct (dropN (N.min n (blen (x :: xs))) (x :: xs)) as [|y ys]; [discriminate|].
    destruct (wr_stage r (y :: ys)) as [[o1 r1] ev1] eqn:Er. inversion H; subst.
    apply IH in Er. discriminate.
  - destruct k; try discriminate.
    destruct (wr_stage r (x :: xs)) as [[o1 r1] ev1] eqn:Er. inversion H; subst.
    apply IH in Er. discriminate.
Qed.

Lemma cb_outcome_nonempty : forall cb key out pend, cb_outcome cb key out pend -> out <> [].
Proof.
  intros cb key out pend H E. subst out.
  destruct cb; cbn [cb_outcome] in H;
    [destruct H as [H _] | destruct H as [_ [H _]] | destruct H as [_ [_ [H _]]]]; discriminate.
Qed.

(* ------------------------------------------------------------------------------------------ *)
(** * Server handshake: outcomes *)

Section ServerP.
  Variable oracle_req : bytes -> oracle_out raw_req.
  Variable oracle_resp : bytes -> oracle_out raw_resp.
  Notation rparse := (req_parser oracle_req).
  Notation srun := (server_run oracle_req).

  (* every run of the server handshake falls in exactly one of three classes *)
  Definition srv_reading_failed (res : hs_result) (hlog : list hs_event) : Prop :=
    has_write_ev hlog = false /\ has_flush_ev hlog = false /\
    (res = HsBlocked \/
     exists e, res = HsFail e /\
       ((exists k, e = HEIo k) \/ e = HEProto HandshakeIncomplete \/ e = HEAttack \/
        rparse (hs_data_read hlog) = PFail e)).

  Definition srv_head_refused (cb : callback) (res : hs_result) (hlog : list hs_event) : Prop :=
    has_write_ev hlog = false /\ has_flush_ev hlog = false /\
    exists n req e, rparse (hs_data_read hlog) = PComplete n req /\
      server_done_reading cb req (dropN n (hs_data_read hlog)) = HErr e /\ res = HsFail e.

  Definition srv_responding (cb : callback) (res : hs_result) (hlog : list hs_event) : Prop :=
    exists n req out pend rem,
      rparse (hs_data_read hlog) = PComplete n req /\
      server_done_reading cb req (dropN n (hs_data_read hlog)) = HOk (out, pend) /\
      out = hs_wire hlog ++ rem /\
      (res = HsBlocked \/ (exists k, res = HsFail (HEIo k)) \/
       (rem = [] /\ (exists pre, hlog = pre ++ [HsEv (EvFlush FlOk)]) /\
        res = match pend with Some (s, b) => HsFail (HEHttp s b) | None => HsDone Server [] end)).

  Lemma server_run_cases : forall cb w res w' hlog, srun cb w = (res, w', hlog) ->
    srv_reading_failed res hlog \/ srv_head_refused cb res hlog \/ srv_responding cb res hlog.
  Proof.
    intros cb w res w' hlog. unfold server_run.
    destruct (rd_stage rparse (w_rds w) [] 0 0) as [[o1 rds'] ev1] eqn:E1.
    destruct (rd_stage_events _ _ _ _ _ _ _ _ _ E1) as [Hw1 [Hf1 [Hd1 _]]].
    destruct o1 as [|e|n req buf].
    - intro H. inversion H; subst. left. repeat split; auto.
    - intro H. inversion H; subst. left. repeat split; auto. right. exists e. split; [reflexivity|].
      exact (rd_stage_fail _ _ _ _ _ _ _ _ _ E1).
    - destruct (Hd1 _ _ _ eq_refl) as [Hbuf Hparse]. cbn [app] in Hbuf.
      destruct (server_done_reading cb req (dropN n buf)) as [[out pend]|e] eqn:Ed.
      + destruct (wr_stage (w_wrs w) out) as [[o2 wrs'] ev2] eqn:E2.
        destruct (wr_stage_events _ _ _ _ _ E2) as [Hr2 [Hf2 [[rem [Hrem Hrem']] [Hne [Hio _]]]]].
        assert (hs_data_read (ev1 ++ ev2) = buf) as Hdata.
        { rewrite hs_data_read_app, (no_read_ev_data ev2 Hr2), app_nil_r. symmetry. exact Hbuf. }
        assert (hs_wire (ev1 ++ ev2) = hs_wire ev2) as Hwire.
        { rewrite hs_wire_app, (no_write_ev_wire ev1 Hw1). reflexivity. }
        destruct o2.
        * intro H. inversion H; subst res w' hlog. right. right.
          exists n, req, out, pend, rem. rewrite Hdata, Hwire. auto.
        * intro H. inversion H; subst res w' hlog. right. right.
          exists n, req, out, pend, rem. rewrite Hdata, Hwire. destruct (Hio e eq_refl) as [k Hk]. subst e.
          repeat split; auto. right. left. exists k. reflexivity.
        * (* WPanic: the queued response is never empty *)
          exfalso. apply server_done_reading_ok in Ed. destruct Ed as [_ [key [_ [_ Hcb]]]].
          apply (cb_outcome_nonempty _ _ _ _ Hcb). exact (wr_stage_panic _ _ _ _ E2).
        * destruct (fl_stage (w_fls w)) as [[o3 fls'] ev3] eqn:E3.
          destruct (fl_stage_events _ _ _ _ E3) as [Hw3 [Hr3 [Hlast _]]].
          intro H. inversion H; subst res w' hlog. right. right.
          exists n, req, out, pend, rem.
          rewrite !hs_data_read_app, (no_read_ev_data ev2 Hr2), (no_read_ev_data ev3 Hr3), !app_nil_r.
          rewrite !hs_wire_app, (no_write_ev_wire ev1 Hw1), (no_write_ev_wire ev3 Hw3), app_nil_r. cbn [app].
          rewrite <- Hbuf. repeat split; auto.
          destruct o3; cbn [flush_result]; auto.
          -- right. left. exists k. reflexivity.
          -- right. right. split; [apply Hrem'; reflexivity|]. split; [|reflexivity].
             destruct (Hlast eq_refl) as [pre Hpre]. exists (ev1 ++ ev2 ++ pre). rewrite Hpre, <- !app_assoc. reflexivity.
      + intro H. inversion H; subst res w' hlog. right. left. repeat split; auto.
        exists n, req, e. rewrite <- Hbuf. auto.
  Qed.
End ServerP.

(* ------------------------------------------------------------------------------------------ *)
(** * Stages that run to completion (transport accepts everything, possibly in pieces) *)

Definition wr_friendly (o : wr_out) : Prop :=
  match o with WrAccept n => 0 < n | WrErr k => k = WouldBlock end.
Definition wr_capacity (l : list wr_out) : N :=
  sumN (map (fun o => match o with WrAccept n => n | WrErr _ => 0 end) l).

Lemma blen_dropN : forall (n : N) (l : bytes), blen (dropN n l) = blen l - n.
Proof. intros n l. unfold blen, dropN. rewrite skipn_length. lia. Qed.

Lemma take_drop : forall (n : N) (l : bytes), takeN n l ++ dropN n l = l.
Proof. intros n l. unfold takeN, dropN. apply firstn_skipn. Qed.

Lemma wr_stage_complete : forall pre post rest, rest <> [] -> Forall wr_friendly pre ->
  blen rest <= wr_capacity pre ->
  exists wrs' ev, wr_stage (pre ++ post) rest = (WDone, wrs', ev) /\ hs_wire ev = rest.
Proof.
  induction pre as [|a r IH]; intros post rest Hne Hfr Hcap.
  - exfalso. destruct rest as [|x xs]; [contradiction|]. unfold wr_capacity, blen in Hcap. cbn in Hcap. lia.
  - destruct rest as [|x xs]; [contradiction|]. inversion Hfr as [|a' r' Ha Hr]; subst.
    cbn [app wr_stage]. destruct a as [n|k]; cbn [wr_friendly] in Ha.
    + cbv zeta. set (rest := x :: xs) in *. set (n' := N.min n (blen rest)).
      assert (0 < blen rest) as Hpos by (unfold rest, blen; cbn [List.length]; lia).
      destruct (n' =? 0) eqn:En; [lia|].
      pose proof (take_drop n' rest) as Htd. pose proof (blen_dropN n' rest) as Hbl.
      destruct (dropN n' rest) as [|y ys] eqn:Ed.
      * eexists _, _. split; [reflexivity|]. cbn [hs_wire]. rewrite app_nil_r in *. exact Htd.
      * assert (blen (y :: ys) <= wr_capacity r) as Hcap'.
        { unfold wr_capacity in *. cbn [map sumN] in Hcap.
          assert (0 < blen (y :: ys)) by (unfold blen; cbn [List.length]; lia). lia. }
        destruct (IH post (y :: ys) ltac:(discriminate) Hr Hcap') as [wrs' [ev [H1 H2]]].
        rewrite H1. eexists _, _. split; [reflexivity|]. cbn [hs_wire]. rewrite H2. exact Htd.
    + subst k. assert (blen (x :: xs) <= wr_capacity r) as Hcap'.
      { unfold wr_capacity in *. cbn [map sumN] in Hcap. lia. }
      destruct (IH post (x :: xs) Hne Hr Hcap') as [wrs' [ev [H1 H2]]].
      rewrite H1. eexists _, _. split; [reflexivity|]. exact H2.
Qed.

Lemma fl_stage_complete : forall j post,
  exists ev, fl_stage (repeat (FlErr WouldBlock) j ++ FlOk :: post) = (FOk, post, ev).
Proof.
  induction j as [|j IH]; intro post; cbn [repeat app fl_stage].
  - eexists. reflexivity.
  - destruct (IH post) as [ev H]. rewrite H. eexists. reflexivity.
Qed.

(* ------------------------------------------------------------------------------------------ *)
(** * Server handshake: the C15 theorems about the machine *)

Definition valid_upgrade_request (raw : raw_req) : Prop :=
  rq_method raw = B"GET" /\ 1 <= rq_version raw /\ rq_fmt_ok raw = true /\
  exists key, hget B"sec-websocket-key" (rq_headers raw) = Some key /\
              create_parts true true (rq_headers raw) = HOk (accept_headers key).

Definition reject_bytes (status : N) (hs : headers) (body : option bytes) : bytes :=
  (B"HTTP/1.1 " ++ status_text status ++ crlf ++ header_lines hs ++ crlf) ++ body_bytes body.

Definition cb_extra (cb : callback) : option headers :=
  match cb with CbNone => Some [] | CbAdd extra => Some extra | CbReject _ _ _ => None end.

Section ServerThms.
  Variable oracle_req : bytes -> oracle_out raw_req.
  Variable oracle_resp : bytes -> oracle_out raw_resp.
  Notation rparse := (req_parser oracle_req).
  Notation shake := (server_handshake oracle_req oracle_resp).

  Lemma shake_cases : forall cb w res w' hlog, shake cb w = (res, w', hlog) ->
    srv_reading_failed oracle_req res hlog \/ srv_head_refused oracle_req cb res hlog \/
    srv_responding oracle_req cb res hlog.
  Proof. intros cb w res w' hlog H. rewrite server_handshake_run in H. exact (server_run_cases _ _ _ _ _ _ H). Qed.

  Lemma responding_valid : forall cb res hlog, srv_responding oracle_req cb res hlog ->
    exists n raw key out pend,
      oracle_req (hs_data_read hlog) = OComplete n raw /\ dropN n (hs_data_read hlog) = [] /\
      rq_method raw = B"GET" /\ 1 <= rq_version raw /\ rq_fmt_ok raw = true /\
      hget B"sec-websocket-key" (rq_headers raw) = Some key /\
      create_parts true true (rq_headers raw) = HOk (accept_headers key) /\
      cb_outcome cb key out pend /\
      exists rem, out = hs_wire hlog ++ rem /\
        (res = HsBlocked \/ (exists k, res = HsFail (HEIo k)) \/
         (rem = [] /\ (exists pre, hlog = pre ++ [HsEv (EvFlush FlOk)]) /\
          res = match pend with Some (s, b) => HsFail (HEHttp s b) | None => HsDone Server [] end)).
  Proof.
    intros cb res hlog [n [req [out [pend [rem [Hp [Hd [Hw Hres]]]]]]]].
    unfold req_parser in Hp. apply try_parse_request_complete in Hp.
    destruct Hp as [raw [Ho [Hm [Hv [Hf Hreq]]]]]. subst req.
    apply server_done_reading_ok in Hd. cbn [req_headers] in Hd.
    destruct Hd as [Ht [key [Hc [Hk Hcb]]]].
    exists n, raw, key, out, pend. repeat split; auto. exists rem. auto.
  Qed.

  Lemma reading_failed_not_http : forall res hlog, srv_reading_failed oracle_req res hlog ->
    (forall s b, res <> HsFail (HEHttp s b)) /\ (forall r t, res <> HsDone r t).
  Proof.
    intros res hlog [_ [_ Hc]]. destruct Hc as [Hc|[e [Hc Hcl]]]; subst res; split; intros; try discriminate.
    intro E. inversion E; subst e. destruct Hcl as [[k Hk]|[Hk|[Hk|Hk]]]; try discriminate.
    apply try_parse_request_fail in Hk. destruct Hk as [Hk|[Hk|[Hk|[Hk|Hk]]]]; discriminate.
  Qed.

  Lemma head_refused_not_http : forall cb res hlog, srv_head_refused oracle_req cb res hlog ->
    (forall s b, res <> HsFail (HEHttp s b)) /\ (forall r t, res <> HsDone r t).
  Proof.
    intros cb res hlog [_ [_ [n [req [e [_ [Hd Hres]]]]]]]. subst res. split; intros; try discriminate.
    intro E. inversion E; subst e.
    destruct (server_done_reading_err _ _ _ _ Hd) as [[_ Hc]|[[_ Hc]|[_ [_ [[Hc _]|[Hc _]]]]]]; try discriminate.
    apply create_parts_err_class in Hc. destruct Hc as [Hc|[Hc|[Hc|Hc]]]; discriminate.
  Qed.

  (* C15_no_101_when_invalid: anything offered to the transport implies a valid, complete,
     junk-free upgrade request (and a callback that did not answer 2xx) *)
  Theorem server_write_implies_valid : forall cb w res w' hlog, shake cb w = (res, w', hlog) ->
    has_write_ev hlog = true \/ has_flush_ev hlog = true \/ hs_wire hlog <> [] ->
    exists n raw, oracle_req (hs_data_read hlog) = OComplete n raw /\
                  dropN n (hs_data_read hlog) = [] /\ valid_upgrade_request raw /\
                  (forall status hs body, cb = CbReject status hs body -> is_2xx status = false).
  Proof.
    intros cb w res w' hlog H Hev.
    assert (~ (has_write_ev hlog = false /\ has_flush_ev hlog = false)) as Hno.
    { intros [H1 H2]. destruct Hev as [Hev|[Hev|Hev]]; try congruence.
      apply Hev. apply no_write_ev_wire. exact H1. }
    destruct (shake_cases _ _ _ _ _ H) as [[H1 [H2 _]]|[[H1 [H2 _]]|Hr]]; try solve [exfalso; apply Hno; auto].
    destruct (responding_valid _ _ _ Hr) as [n [raw [key [out [pend [Ho [Hd [Hm [Hv [Hf [Hk [Hc [Hcb _]]]]]]]]]]]]].
    exists n, raw. split; [exact Ho|]. split; [exact Hd|]. split.
    - unfold valid_upgrade_request. split; [exact Hm|]. split; [exact Hv|]. split; [exact Hf|]. exists key. auto.
    - intros status hs body Ecb. subst cb. cbn [cb_outcome] in Hcb. tauto.
  Qed.

  (* the same read the other way round *)
  Theorem server_invalid_no_write : forall cb w res w' hlog, shake cb w = (res, w', hlog) ->
    (forall n raw, oracle_req (hs_data_read hlog) = OComplete n raw ->
       ~ (valid_upgrade_request raw /\ dropN n (hs_data_read hlog) = [])) ->
    has_write_ev hlog = false /\ has_flush_ev hlog = false /\ hs_wire hlog = [] /\
    (forall r t, res <> HsDone r t).
  Proof.
    intros cb w res w' hlog H Hinv.
    destruct (has_write_ev hlog) eqn:E1.
    { exfalso. destruct (server_write_implies_valid _ _ _ _ _ H (or_introl E1)) as [n [raw [Ho [Hd [Hv _]]]]].
      apply (Hinv n raw Ho). auto. }
    destruct (has_flush_ev hlog) eqn:E2.
    { exfalso. destruct (server_write_implies_valid _ _ _ _ _ H (or_intror (or_introl E2))) as [n [raw [Ho [Hd [Hv _]]]]].
      apply (Hinv n raw Ho). auto. }
    repeat split; [apply no_write_ev_wire; exact E1|].
    intros r t Hres. subst res.
    destruct (shake_cases _ _ _ _ _ H) as [[_ [_ Hc]]|[[_ [_ Hc]]|Hr]].
    - destruct Hc as [Hc|[e [Hc _]]]; discriminate.
    - destruct Hc as [n [req [e [_ [_ Hc]]]]]. discriminate.
    - destruct (responding_valid _ _ _ Hr) as [n [raw [key [out [pend [Ho [Hd [Hm [Hv [Hf [Hk [Hc _]]]]]]]]]]]].
      apply (Hinv n raw Ho). split; [|exact Hd]. unfold valid_upgrade_request.
      split; [exact Hm|]. split; [exact Hv|]. split; [exact Hf|]. exists key. auto.
  Qed.

  (* every failure other than a transport error or the reported HTTP rejection left nothing on the wire *)
  Theorem server_fail_no_write : forall cb w e w' hlog, shake cb w = (HsFail e, w', hlog) ->
    (forall k, e <> HEIo k) -> (forall s b, e <> HEHttp s b) ->
    has_write_ev hlog = false /\ has_flush_ev hlog = false /\ hs_wire hlog = [].
  Proof.
    intros cb w e w' hlog H Hio Hhttp.
    destruct (shake_cases _ _ _ _ _ H) as [[H1 [H2 _]]|[[H1 [H2 _]]|Hr]];
      try (repeat split; auto; apply no_write_ev_wire; assumption).
    exfalso. destruct Hr as [n [req [out [pend [rem [_ [_ [_ Hres]]]]]]]].
    destruct Hres as [Hres|[[k Hres]|[_ [_ Hres]]]].
    - discriminate.
    - inversion Hres. exact (Hio k H1).
    - destruct pend as [[s b]|]; [|discriminate]. inversion Hres. exact (Hhttp s b H1).
  Qed.

  (* C15_success_shape *)
  Theorem server_success_shape : forall cb w r tail w' hlog, shake cb w = (HsDone r tail, w', hlog) ->
    r = Server /\ tail = [] /\
    exists n raw key extra,
      oracle_req (hs_data_read hlog) = OComplete n raw /\ dropN n (hs_data_read hlog) = [] /\
      rq_method raw = B"GET" /\ 1 <= rq_version raw /\ rq_fmt_ok raw = true /\
      hget B"sec-websocket-key" (rq_headers raw) = Some key /\
      create_parts true true (rq_headers raw) = HOk (accept_headers key) /\
      cb_extra cb = Some extra /\ values_visible extra = true /\
      hs_wire hlog = response_101 key extra /\
      exists pre, hlog = pre ++ [HsEv (EvFlush FlOk)].
  Proof.
    intros cb w r tail w' hlog H.
    destruct (shake_cases _ _ _ _ _ H) as [[_ [_ Hc]]|[[_ [_ Hc]]|Hr]].
    - destruct Hc as [Hc|[e [Hc _]]]; discriminate.
    - destruct Hc as [n [req [e [_ [_ Hc]]]]]. discriminate.
    - destruct (responding_valid _ _ _ Hr) as [n [raw [key [out [pend [Ho [Hd [Hm [Hv [Hf [Hk [Hc [Hcb [rem [Hw Hres]]]]]]]]]]]]]]].
      destruct Hres as [Hres|[[k Hres]|[Hrem [Hlast Hres]]]]; try discriminate.
      destruct pend as [[s b]|]; [discriminate|]. inversion Hres; subst r tail rem.
      rewrite app_nil_r in Hw. split; [reflexivity|]. split; [reflexivity|].
      destruct cb as [|extra|status hs body]; cbn [cb_outcome] in Hcb.
      + destruct Hcb as [Hout _]. exists n, raw, key, []. repeat split; auto. congruence.
      + destruct Hcb as [Hvis [Hout _]]. exists n, raw, key, extra. repeat split; auto. congruence.
      + destruct Hcb as [_ [_ [_ Hp]]]. discriminate.
  Qed.

  (* C15_junk, both directions *)
  Theorem server_junk : forall cb w n req buf rds' ev,
    rd_stage rparse (w_rds w) [] 0 0 = (RDone n req buf, rds', ev) -> dropN n buf <> [] ->
    shake cb w = (HsFail (HEProto JunkAfterRequest), w_set_rds w rds', ev) /\
    has_write_ev ev = false /\ has_flush_ev ev = false /\ buf = hs_data_read ev.
  Proof.
    intros cb w n req buf rds' ev Hrd Hj. rewrite server_handshake_run. unfold server_run. rewrite Hrd.
    destruct (rd_stage_events _ _ _ _ _ _ _ _ _ Hrd) as [Hw [Hf [Hd _]]].
    destruct (Hd _ _ _ eq_refl) as [Hbuf _]. rewrite server_done_reading_spec.
    destruct (dropN n buf); [contradiction|]. auto.
  Qed.

  Theorem server_junk_inv : forall cb w w' hlog,
    shake cb w = (HsFail (HEProto JunkAfterRequest), w', hlog) ->
    has_write_ev hlog = false /\ has_flush_ev hlog = false /\
    exists n raw, oracle_req (hs_data_read hlog) = OComplete n raw /\
                  rq_method raw = B"GET" /\ 1 <= rq_version raw /\ rq_fmt_ok raw = true /\
                  dropN n (hs_data_read hlog) <> [].
  Proof.
    intros cb w w' hlog H.
    destruct (shake_cases _ _ _ _ _ H) as [[H1 [H2 Hc]]|[[H1 [H2 Hc]]|Hr]].
    - exfalso. destruct Hc as [Hc|[e [Hc Hcl]]]; [discriminate|]. inversion Hc; subst e.
      destruct Hcl as [[k Hk]|[Hk|[Hk|Hk]]]; try discriminate.
      apply try_parse_request_fail in Hk. unfold parse_fail_class in Hk.
      destruct Hk as [Hk|[Hk|[Hk|[Hk|Hk]]]]; discriminate.
    - split; [exact H1|]. split; [exact H2|].
      destruct Hc as [n [req [e [Hp [Hd He]]]]]. inversion He; subst e.
      unfold req_parser in Hp. apply try_parse_request_complete in Hp.
      destruct Hp as [raw [Ho [Hm [Hv [Hf Hreq]]]]].
      exists n, raw. repeat split; auto.
      destruct (server_done_reading_err _ _ _ _ Hd) as [[Hne _]|[[_ Hc]|[_ [_ [[Hc _]|[Hc _]]]]]]; try discriminate.
      + exact Hne.
      + exfalso. apply create_parts_err_class in Hc. destruct Hc as [Hc|[Hc|[Hc|Hc]]]; discriminate.
    - exfalso. destruct Hr as [n [req [out [pend [rem [_ [_ [_ Hres]]]]]]]].
      destruct Hres as [Hres|[[k Hres]|[_ [_ Hres]]]]; try discriminate.
      destruct pend as [[s b]|]; discriminate.
  Qed.

  (* C15_callback_reject: soundness — whatever reaches the wire is a prefix of head ++ body, and the
     HTTP error is reported only after all of it was accepted and flushed *)
  Theorem server_reject_sound : forall status hs body w res w' hlog,
    shake (CbReject status hs body) w = (res, w', hlog) ->
    (forall r t, res <> HsDone r t) /\
    (is_2xx status = true -> has_write_ev hlog = false /\ has_flush_ev hlog = false /\ hs_wire hlog = []) /\
    (exists rem, hs_wire hlog ++ rem = reject_bytes status hs body) /\
    (forall s b, res = HsFail (HEHttp s b) ->
       s = status /\ b = body /\ is_2xx status = false /\ values_visible hs = true /\
       hs_wire hlog = reject_bytes status hs body /\ exists pre, hlog = pre ++ [HsEv (EvFlush FlOk)]).
  Proof.
    intros status hs body w res w' hlog H.
    destruct (shake_cases _ _ _ _ _ H) as [Hc|[Hc|Hr]].
    - destruct (reading_failed_not_http _ _ Hc) as [Hnh Hnd]. destruct Hc as [H1 [H2 _]].
      pose proof (no_write_ev_wire _ H1) as Hw. rewrite Hw.
      split; [exact Hnd|]. split; [auto|]. split; [eexists; reflexivity|].
      intros s b Hres. exfalso. exact (Hnh s b Hres).
    - destruct (head_refused_not_http _ _ _ Hc) as [Hnh Hnd]. destruct Hc as [H1 [H2 _]].
      pose proof (no_write_ev_wire _ H1) as Hw. rewrite Hw.
      split; [exact Hnd|]. split; [auto|]. split; [eexists; reflexivity|].
      intros s b Hres. exfalso. exact (Hnh s b Hres).
    - destruct (responding_valid _ _ _ Hr) as [n [raw [key [out [pend [_ [_ [_ [_ [_ [_ [_ [Hcb [rem [Hw Hres]]]]]]]]]]]]]]].
      cbn [cb_outcome] in Hcb. destruct Hcb as [H2xx [Hvis [Hout Hpend]]]. subst pend.
      fold (reject_bytes status hs body) in Hout. subst out.
      split.
      { intros r t E. destruct Hres as [Hres|[[k Hres]|[_ [_ Hres]]]]; congruence. }
      split; [intro E; congruence|].
      split; [exists rem; auto|].
      intros s b E. destruct Hres as [Hres|[[k Hres]|[Hrem [Hlast Hres]]]]; try congruence.
      rewrite E in Hres. inversion Hres; subst s b rem. rewrite app_nil_r in Hw. auto 7.
  Qed.

  (* ---- runs that go through: a complete, accepted head and a transport that takes everything ---- *)
  Lemma server_run_complete : forall cb w n req buf rds' ev1 out pend pre post j fpost,
    rd_stage rparse (w_rds w) [] 0 0 = (RDone n req buf, rds', ev1) ->
    server_done_reading cb req (dropN n buf) = HOk (out, pend) ->
    w_wrs w = pre ++ post -> Forall wr_friendly pre -> blen out <= wr_capacity pre ->
    w_fls w = repeat (FlErr WouldBlock) j ++ FlOk :: fpost ->
    exists w' hlog,
      shake cb w = (match pend with Some (s, b) => HsFail (HEHttp s b) | None => HsDone Server [] end, w', hlog) /\
      hs_wire hlog = out /\ hs_data_read hlog = buf /\ w_fls w' = fpost /\ w_rds w' = rds'.
  Proof.
    intros cb w n req buf rds' ev1 out pend pre post j fpost Hrd Hdone Hwrs Hfr Hcap Hfls.
    rewrite server_handshake_run. unfold server_run. rewrite Hrd, Hdone.
    assert (out <> []) as Hne.
    { pose proof (proj1 (server_done_reading_ok _ _ _ _ _) Hdone) as [_ [key [_ [_ Hcb]]]].
      exact (cb_outcome_nonempty _ _ _ _ Hcb). }
    destruct (wr_stage_complete pre post out Hne Hfr Hcap) as [wrs' [ev2 [Hwr Hwire]]].
    rewrite Hwrs, Hwr. destruct (fl_stage_complete j fpost) as [ev3 Hfl]. rewrite Hfls, Hfl.
    destruct (rd_stage_events _ _ _ _ _ _ _ _ _ Hrd) as [Hw1 [_ [Hd1 _]]].
    destruct (Hd1 _ _ _ eq_refl) as [Hbuf _]. cbn [app] in Hbuf.
    destruct (wr_stage_events _ _ _ _ _ Hwr) as [Hr2 _].
    destruct (fl_stage_events _ _ _ _ Hfl) as [Hw3 [Hr3 _]].
    eexists _, _. split; [cbn [flush_result]; reflexivity|].
    rewrite !hs_wire_app, !hs_data_read_app, (no_write_ev_wire _ Hw1), (no_write_ev_wire _ Hw3),
      (no_read_ev_data _ Hr2), (no_read_ev_data _ Hr3), !app_nil_r. cbn [app].
    repeat split; auto.
  Qed.

  (* every complete junk-free head that passes create_parts is answered 101 and accepted *)
  Theorem server_accepts : forall cb extra w n req buf rds' ev1 rh pre post j fpost,
    rd_stage rparse (w_rds w) [] 0 0 = (RDone n req buf, rds', ev1) -> dropN n buf = [] ->
    create_parts true true (req_headers req) = HOk rh ->
    cb_extra cb = Some extra -> values_visible extra = true ->
    w_wrs w = pre ++ post -> Forall wr_friendly pre ->
    w_fls w = repeat (FlErr WouldBlock) j ++ FlOk :: fpost ->
    exists key, hget B"sec-websocket-key" (req_headers req) = Some key /\
      (blen (response_101 key extra) <= wr_capacity pre ->
       exists w' hlog, shake cb w = (HsDone Server [], w', hlog) /\ hs_wire hlog = response_101 key extra).
  Proof.
    intros cb extra w n req buf rds' ev1 rh pre post j fpost Hrd Htail Hc Hcb Hvis Hwrs Hfr Hfls.
    pose proof (proj1 (create_parts_ok_iff _ _ _ _) Hc) as [_ [_ [_ [_ [_ [key [Hk Hr]]]]]]]. subst rh.
    exists key. split; [exact Hk|]. intro Hcap.
    assert (server_done_reading cb req (dropN n buf) = HOk (response_101 key extra, None)) as Hdone.
    { apply server_done_reading_ok. split; [exact Htail|]. exists key. split; [exact Hc|]. split; [exact Hk|].
      destruct cb; cbn [cb_extra] in Hcb; inversion Hcb; subst; cbn [cb_outcome]; auto. }
    destruct (server_run_complete _ _ _ _ _ _ _ _ _ _ _ _ _ Hrd Hdone Hwrs Hfr Hcap Hfls) as [w' [hlog [H1 [H2 _]]]].
    exists w', hlog. auto.
  Qed.

  (* C15_callback_reject, completeness: the rejection is written in full (head ++ body) under any
     partial-write pattern, then reported *)
  Theorem server_reject_complete : forall status hs body w n req buf rds' ev1 rh pre post j fpost,
    rd_stage rparse (w_rds w) [] 0 0 = (RDone n req buf, rds', ev1) -> dropN n buf = [] ->
    create_parts true true (req_headers req) = HOk rh ->
    is_2xx status = false -> values_visible hs = true ->
    w_wrs w = pre ++ post -> Forall wr_friendly pre -> blen (reject_bytes status hs body) <= wr_capacity pre ->
    w_fls w = repeat (FlErr WouldBlock) j ++ FlOk :: fpost ->
    exists w' hlog, shake (CbReject status hs body) w = (HsFail (HEHttp status body), w', hlog) /\
                    hs_wire hlog = reject_bytes status hs body.
  Proof.
    intros status hs body w n req buf rds' ev1 rh pre post j fpost Hrd Htail Hc H2xx Hvis Hwrs Hfr Hcap Hfls.
    pose proof (proj1 (create_parts_ok_iff _ _ _ _) Hc) as [_ [_ [_ [_ [_ [key [Hk Hr]]]]]]]. subst rh.
    assert (server_done_reading (CbReject status hs body) req (dropN n buf)
            = HOk (reject_bytes status hs body, Some (status, body))) as Hdone.
    { apply server_done_reading_ok. split; [exact Htail|]. exists key. split; [exact Hc|]. split; [exact Hk|].
      cbn [cb_outcome]. auto. }
    destruct (server_run_complete _ _ _ _ _ _ _ _ _ _ _ _ _ Hrd Hdone Hwrs Hfr Hcap Hfls) as [w' [hlog [H1 [H2 _]]]].
    exists w', hlog. auto.
  Qed.

  (* a "successful" rejection: nothing is written, CustomResponseSuccessful *)
  Theorem server_reject_2xx : forall status hs body w n req buf rds' ev1 rh,
    rd_stage rparse (w_rds w) [] 0 0 = (RDone n req buf, rds', ev1) -> dropN n buf = [] ->
    create_parts true true (req_headers req) = HOk rh -> is_2xx status = true ->
    shake (CbReject status hs body) w = (HsFail (HEProto CustomResponseSuccessful), w_set_rds w rds', ev1) /\
    has_write_ev ev1 = false /\ has_flush_ev ev1 = false /\ hs_wire ev1 = [].
  Proof.
    intros status hs body w n req buf rds' ev1 rh Hrd Htail Hc H2xx.
    rewrite server_handshake_run. unfold server_run. rewrite Hrd, server_done_reading_spec, Htail, Hc, H2xx.
    destruct (rd_stage_events _ _ _ _ _ _ _ _ _ Hrd) as [Hw [Hf _]].
    repeat split; auto. apply no_write_ev_wire. exact Hw.
  Qed.

  (* a head refused by create_parts: the error is create_parts' error, nothing is written *)
  Theorem server_refuses : forall cb w n req buf rds' ev1 e,
    rd_stage rparse (w_rds w) [] 0 0 = (RDone n req buf, rds', ev1) -> dropN n buf = [] ->
    create_parts true true (req_headers req) = HErr e ->
    shake cb w = (HsFail e, w_set_rds w rds', ev1) /\
    has_write_ev ev1 = false /\ has_flush_ev ev1 = false /\ hs_wire ev1 = [].
  Proof.
    intros cb w n req buf rds' ev1 e Hrd Htail Hc.
    rewrite server_handshake_run. unfold server_run. rewrite Hrd, server_done_reading_spec, Htail, Hc.
    destruct (rd_stage_events _ _ _ _ _ _ _ _ _ Hrd) as [Hw [Hf _]].
    repeat split; auto. apply no_write_ev_wire. exact Hw.
  Qed.
End ServerThms.

(* the whole head in one read *)
Lemma rd_stage_one_chunk : forall (A : Type) (parse : bytes -> parsed A) bs r n a,
  bs <> [] -> blen bs <= 65536 -> parse bs = PComplete n a ->
  rd_stage parse (RdData bs :: r) [] 0 0 = (RDone n a bs, r, [HsEv (EvRead (RdData bs))]).
Proof.
  intros A parse bs r n a Hne Hlen Hp. destruct bs as [|x xs]; [contradiction|].
  cbn [rd_stage]. cbv zeta. unfold attack_check.
  destruct (65536 <? 0 + blen (x :: xs)) eqn:E1; [lia|].
  destruct (512 <? 0 + 1) eqn:E2; [lia|].
  destruct ((64 <? 0 + 1) && (0 + blen (x :: xs) <? (0 + 1) * 128)) eqn:E3; [lia|].
  cbn [app]. rewrite Hp. reflexivity.
Qed.

(* ------------------------------------------------------------------------------------------ *)
(** * split_on against a grammar: v = p0 x1 p1 ... xk pk, separators xi, separator-free pieces pi *)

Inductive tok_split (sep : N -> bool) : bytes -> list bytes -> Prop :=
| ts_last : forall p, Forall (fun b => sep b = false) p -> tok_split sep p [p]
| ts_cons : forall p x s ps, Forall (fun b => sep b = false) p -> sep x = true ->
            tok_split sep s ps -> tok_split sep (p ++ x :: s) (p :: ps).

Lemma split_on_nosep : forall sep p cur, Forall (fun b => sep b = false) p ->
  split_on sep p cur = [rev cur ++ p].
Proof.
  intros sep. induction p as [|b r IH]; intros cur H; cbn [split_on].
  - rewrite app_nil_r. reflexivity.
  - inversion H as [|b' r' Hb Hr]; subst. rewrite Hb, (IH (b :: cur) Hr). cbn [rev].
    rewrite <- app_assoc. reflexivity.
Qed.

Lemma split_on_app_sep : forall sep p x s cur, Forall (fun b => sep b = false) p -> sep x = true ->
  split_on sep (p ++ x :: s) cur = (rev cur ++ p) :: split_on sep s [].
Proof.
  intros sep. induction p as [|b r IH]; intros x s cur H Hx; cbn [split_on app].
  - rewrite Hx, app_nil_r. reflexivity.
  - inversion H as [|b' r' Hb Hr]; subst. rewrite Hb, (IH x s (b :: cur) Hr Hx). cbn [rev].
    rewrite <- app_assoc. reflexivity.
Qed.

Lemma tok_split_split_on : forall sep s ps, tok_split sep s ps -> split_on sep s [] = ps.
Proof.
  intros sep s ps H. induction H as [p Hp|p x s ps Hp Hx H IH].
  - rewrite (split_on_nosep sep p [] Hp). reflexivity.
  - rewrite (split_on_app_sep sep p x s [] Hp Hx), IH. reflexivity.
Qed.

Lemma tok_split_exists : forall sep s, exists ps, tok_split sep s ps.
Proof.
  intros sep. induction s as [|b r IH].
  - exists [[]]. apply ts_last. constructor.
  - destruct IH as [ps H]. destruct (sep b) eqn:Eb.
    + exists ([] :: ps). apply (ts_cons sep [] b r ps); [constructor | exact Eb | exact H].
    + inversion H as [p Hp|p x s ps' Hp Hx H']; subst.
      * exists [b :: r]. apply ts_last. constructor; assumption.
      * exists ((b :: p) :: ps'). apply (ts_cons sep (b :: p) x s ps'); [constructor; assumption | exact Hx | exact H'].
Qed.

Lemma split_on_iff_tok_split : forall sep s ps, split_on sep s [] = ps <-> tok_split sep s ps.
Proof.
  intros sep s ps. split; [|apply tok_split_split_on].
  intro H. destruct (tok_split_exists sep s) as [ps' H']. rewrite (tok_split_split_on _ _ _ H') in H.
  subst ps'. exact H'.
Qed.

(* the Connection test: some piece of the value, cut at spaces and commas, equals "upgrade" up to case *)
Lemma has_upgrade_token_spec : forall v,
  has_upgrade_token v = true <->
  exists ps, tok_split conn_sep v ps /\ exists p, In p ps /\ eq_ic p B"Upgrade" = true.
Proof.
  intro v. rewrite has_upgrade_token_unfold, existsb_exists. split.
  - intros [p [Hin Hp]]. exists (split_on conn_sep v []). split; [apply split_on_iff_tok_split; reflexivity|].
    exists p. auto.
  - intros [ps [Hs [p [Hin Hp]]]]. apply tok_split_split_on in Hs. rewrite Hs. exists p. auto.
Qed.

(* ------------------------------------------------------------------------------------------ *)
(** * The server decision on the head as the parser reports it *)

Lemma server_decide_iff : forall n raw,
  (exists req rh, try_parse_request (OComplete n raw) = PComplete n req /\
                  create_parts true true (req_headers req) = HOk rh) <->
  rq_method raw = B"GET" /\ 1 <= rq_version raw /\ rq_fmt_ok raw = true /\
  conn_ok (rq_headers raw) /\ upg_ok (rq_headers raw) /\ ver_ok (rq_headers raw) /\
  exists key, hget B"sec-websocket-key" (rq_headers raw) = Some key.
Proof.
  intros n raw. split.
  - intros [req [rh [Hp Hc]]]. apply try_parse_request_complete in Hp.
    destruct Hp as [raw' [Ho [Hm [Hv [Hf Hreq]]]]]. inversion Ho; subst raw' req. cbn [req_headers] in Hc.
    apply create_parts_ok_iff in Hc. destruct Hc as [_ [_ [H1 [H2 [H3 [key [H4 _]]]]]]].
    repeat (split; [assumption|]). exists key. exact H4.
  - intros [Hm [Hv [Hf [H1 [H2 [H3 [key H4]]]]]]].
    exists (mkRequest (rq_path raw) (rq_headers raw)), (accept_headers key). split.
    + apply try_parse_request_complete. exists raw. auto.
    + cbn [req_headers]. apply create_parts_ok_iff. repeat (split; [assumption || reflexivity|]).
      exists key. auto.
Qed.

(* all three invariances of the decision in one statement *)
Lemma create_parts_invariance : forall mg v hs,
  (forall hs', once_each hs -> Permutation hs hs' -> create_parts mg v hs' = create_parts mg v hs) /\
  (forall hs1 hs2 n x, hs = hs1 ++ hs2 -> is_decision_name n = false ->
     create_parts mg v (hs1 ++ (n, x) :: hs2) = create_parts mg v hs) /\
  (forall hs', Forall2 hdr_case_eq hs hs' -> create_parts mg v hs' = create_parts mg v hs) /\
  create_parts mg v (filter (fun nv => is_decision_name (fst nv)) hs) = create_parts mg v hs.
Proof.
  intros mg v hs. split; [|split; [|split]].
  - intros hs' Ho Hp. symmetry. apply create_parts_perm; assumption.
  - intros hs1 hs2 n x E Hn. subst hs. apply create_parts_insert. exact Hn.
  - intros hs' H. symmetry. apply create_parts_case. exact H.
  - symmetry. apply create_parts_filter.
Qed.

(* the 101 response of an accepted head *)
Lemma create_parts_response : forall mg v hs rh, create_parts mg v hs = HOk rh ->
  exists key, hget B"sec-websocket-key" hs = Some key /\ rh = accept_headers key /\
    forall extra, write_response 101 (rh ++ extra) =
                  if values_visible extra then Some (response_101 key extra) else None.
Proof.
  intros mg v hs rh H. apply create_parts_ok_iff in H. destruct H as [_ [_ [_ [_ [_ [key [Hk Hr]]]]]]].
  exists key. split; [exact Hk|]. split; [exact Hr|]. intro extra. subst rh. apply write_response_101.
Qed.

(* ------------------------------------------------------------------------------------------ *)
(** * Client: generate_request *)

Definition required_names : list bytes := map fst required_headers.
Definition is_required (n : bytes) : bool := existsb (fun q => bytes_eqb (fst q) n) required_headers.
(* the headers of the request that are not one of the five, in list order *)
Definition extra_headers (hs : headers) : headers := filter (fun nv => negb (is_required (fst nv))) hs.
Definition extra_line (nv : bytes * bytes) : bytes := fix_name (fst nv) ++ B": " ++ snd nv ++ crlf.
Definition extra_lines (hs : headers) : bytes := concat (map extra_line hs).
Definition first_value (name : bytes) (hs : headers) : bytes :=
  match hget name hs with Some v => v | None => [] end.

Fixpoint req_lines (req : list (bytes * bytes)) (hs : headers) : bytes :=
  match req with
  | [] => []
  | (l, wn) :: r => wn ++ B": " ++ first_value l hs ++ crlf ++ req_lines r hs
  end.

(* first problem met while writing the required headers, in order *)
Fixpoint req_check (req : list (bytes * bytes)) (hs : headers) : option hs_error :=
  match req with
  | [] => None
  | (l, _) :: r =>
      match hget l hs with
      | None => Some (HEProto (InvalidHeader l))
      | Some v => if forallb visible v then req_check r hs else Some HEUtf8
      end
  end.

Fixpoint hremove_all (names : list bytes) (hs : headers) : headers :=
  match names with [] => hs | n :: r => hremove_all r (hremove n hs) end.

Lemma req_check_hremove : forall req l hs, ~ In l (map fst req) ->
  req_check req (hremove l hs) = req_check req hs.
Proof.
  induction req as [|[l' wn] r IH]; intros l hs Hn; [reflexivity|].
  cbn [req_check map fst In] in *. rewrite hget_hremove_other by (intro E; apply Hn; left; congruence).
  destruct (hget l' hs) as [v|]; [|reflexivity]. destruct (forallb visible v); [|reflexivity].
  apply IH. intro H. apply Hn. right. exact H.
Qed.

Lemma req_lines_hremove : forall req l hs, ~ In l (map fst req) ->
  req_lines req (hremove l hs) = req_lines req hs.
Proof.
  induction req as [|[l' wn] r IH]; intros l hs Hn; [reflexivity|].
  cbn [req_lines map fst In] in *. unfold first_value.
  rewrite hget_hremove_other by (intro E; apply Hn; left; congruence).
  rewrite IH by (intro H; apply Hn; right; exact H). reflexivity.
Qed.

Lemma write_required_spec : forall req hs, NoDup (map fst req) ->
  write_required req hs =
  match req_check req hs with
  | Some e => HErr e
  | None => HOk (req_lines req hs, hremove_all (map fst req) hs)
  end.
Proof.
  induction req as [|[l wn] r IH]; intros hs Hnd; [reflexivity|].
  cbn [map fst] in Hnd. inversion Hnd as [|x xs Hnotin Hnd']; subst.
  cbn [write_required req_check req_lines map fst hremove_all].
  destruct (hget l hs) as [v|] eqn:Eg; [|reflexivity].
  unfold to_str. destruct (forallb visible v); [|reflexivity].
  rewrite (IH (hremove l hs) Hnd'), (req_check_hremove r l hs Hnotin).
  destruct (req_check r hs); [reflexivity|].
  rewrite (req_lines_hremove r l hs Hnotin). unfold first_value. rewrite Eg. reflexivity.
Qed.

Lemma filter_filter : forall (A : Type) (f g : A -> bool) l,
  filter f (filter g l) = filter (fun x => g x && f x) l.
Proof.
  intros A f g. induction l as [|x l IH]; [reflexivity|].
  cbn [filter]. destruct (g x); cbn [filter andb]; [destruct (f x)|]; rewrite IH; reflexivity.
Qed.

Lemma hremove_all_filter : forall names hs,
  hremove_all names hs = filter (fun nv => negb (existsb (bytes_eqb (fst nv)) names)) hs.
Proof.
  induction names as [|n r IH]; intro hs; cbn [hremove_all existsb].
  - symmetry. cbn [negb]. induction hs as [|x hs IHh]; [reflexivity|]. cbn [filter]. rewrite IHh. reflexivity.
  - rewrite IH. unfold hremove. rewrite filter_filter. apply filter_ext. intro nv.
    rewrite negb_orb. reflexivity.
Qed.

Lemma hremove_all_required : forall hs, hremove_all required_names hs = extra_headers hs.
Proof.
  intro hs. rewrite hremove_all_filter. unfold extra_headers. apply filter_ext. intro nv.
  f_equal. unfold is_required, required_names, required_headers. cbn [map fst existsb].
  rewrite !(bytes_eqb_sym (fst nv)). reflexivity.
Qed.

Lemma required_names_nodup : NoDup required_names.
Proof.
  unfold required_names, required_headers. cbn [map fst].
  repeat constructor; cbn [In]; intro H; repeat (destruct H as [H|H]; [discriminate|]); exact H.
Qed.

Lemma extra_headers_not_required : forall hs, Forall (fun nv => is_required (fst nv) = false) (extra_headers hs).
Proof.
  intro hs. apply Forall_forall. intros nv H. unfold extra_headers in H. apply filter_In in H.
  destruct H as [_ H]. apply negb_true_iff in H. exact H.
Qed.

Lemma extra_lines_cons : forall n v r,
  extra_lines ((n, v) :: r) = fix_name n ++ B": " ++ v ++ crlf ++ extra_lines r.
Proof.
  intros n v r. unfold extra_lines. cbn [map concat]. unfold extra_line at 1. cbn [fst snd].
  rewrite <- !app_assoc. reflexivity.
Qed.

Lemma write_extra_spec : forall rest, Forall (fun nv => is_required (fst nv) = false) rest ->
  write_extra rest = if values_visible rest then HOk (extra_lines rest) else HErr HEUtf8.
Proof.
  induction rest as [|[n v] r IH]; intro H; [reflexivity|].
  inversion H as [|x xs Hn Hr]; subst. cbn [fst] in Hn. cbn [write_extra].
  fold (is_required n). rewrite Hn. unfold to_str. cbn [values_visible forallb snd].
  destruct (forallb visible v); [|reflexivity]. cbn [andb]. fold (values_visible r).
  rewrite (IH Hr). destruct (values_visible r); [|reflexivity].
  rewrite extra_lines_cons. reflexivity.
Qed.

(* generate_request as one equation *)
Lemma generate_request_spec : forall p hs,
  generate_request (Some p) hs =
  match hget B"sec-websocket-key" hs with
  | None => HErr (HEProto (InvalidHeader B"sec-websocket-key"))
  | Some kv =>
      if forallb visible kv then
        match req_check required_headers hs with
        | Some e => HErr e
        | None =>
            if values_visible (extra_headers hs)
            then HOk (B"GET " ++ p ++ B" HTTP/1.1" ++ crlf ++ req_lines required_headers hs ++
                      extra_lines (extra_headers hs) ++ crlf, kv)
            else HErr HEUtf8
        end
      else HErr HEUtf8
  end.
Proof.
  intros p hs. unfold generate_request.
  destruct (hget B"sec-websocket-key" hs) as [kv|]; [|reflexivity].
  unfold to_str. destruct (forallb visible kv); [|reflexivity].
  rewrite (write_required_spec required_headers hs required_names_nodup).
  destruct (req_check required_headers hs); [reflexivity|].
  fold required_names. rewrite hremove_all_required.
  rewrite (write_extra_spec _ (extra_headers_not_required hs)).
  destruct (values_visible (extra_headers hs)); reflexivity.
Qed.

Lemma generate_request_no_path : forall hs, generate_request None hs = HErr HEUrlNoPath.
Proof. reflexivity. Qed.

Definition request_bytes (p vh vc vu vv vk : bytes) (extra : headers) : bytes :=
  B"GET " ++ p ++ B" HTTP/1.1" ++ crlf ++
  B"Host: " ++ vh ++ crlf ++
  B"Connection: " ++ vc ++ crlf ++
  B"Upgrade: " ++ vu ++ crlf ++
  B"Sec-WebSocket-Version: " ++ vv ++ crlf ++
  B"Sec-WebSocket-Key: " ++ vk ++ crlf ++
  extra_lines extra ++ crlf.

Lemma req_check_none : forall req hs, req_check req hs = None <->
  forall l, In l (map fst req) -> exists v, hget l hs = Some v /\ forallb visible v = true.
Proof.
  induction req as [|[l wn] r IH]; intro hs; cbn [req_check map fst In].
  - split; [intros _ l [] | reflexivity].
  - destruct (hget l hs) as [v|] eqn:Eg.
    + destruct (forallb visible v) eqn:Ev.
      * rewrite IH. split.
        -- intros H l' [Hl|Hl]; [subst l'; exists v; auto | apply H; exact Hl].
        -- intros H l' Hl. apply H. right. exact Hl.
      * split; [discriminate|]. intro H. destruct (H l (or_introl eq_refl)) as [v' [H1 H2]]. congruence.
    + split; [discriminate|]. intro H. destruct (H l (or_introl eq_refl)) as [v' [H1 H2]]. congruence.
Qed.

Lemma req_check_some : forall req hs e, req_check req hs = Some e ->
  (e = HEUtf8 /\ exists l v, In l (map fst req) /\ hget l hs = Some v /\ forallb visible v = false) \/
  (exists l, In l (map fst req) /\ hget l hs = None /\ e = HEProto (InvalidHeader l)).
Proof.
  induction req as [|[l wn] r IH]; intros hs e; cbn [req_check map fst In]; [discriminate|].
  destruct (hget l hs) as [v|] eqn:Eg.
  - destruct (forallb visible v) eqn:Ev.
    + intro H. destruct (IH hs e H) as [[H1 [l' [v' [H2 H3]]]]|[l' [H1 H2]]].
      * left. split; [exact H1|]. exists l', v'. auto.
      * right. exists l'. auto.
    + intro H. inversion H. left. split; [reflexivity|]. exists l, v. auto.
  - intro H. inversion H. right. exists l. auto.
Qed.

Lemma hok_pair_inj : forall (A C : Type) (a c : A) (b d : C),
  @HOk (A * C) (a, b) = HOk (c, d) -> a = c /\ b = d.
Proof. intros A C a c b d H. inversion H. auto. Qed.

(* C16_request_shape *)
Lemma generate_request_ok_iff : forall p hs bytes key,
  generate_request (Some p) hs = HOk (bytes, key) <->
  exists vh vc vu vv,
    hget B"host" hs = Some vh /\ hget B"connection" hs = Some vc /\ hget B"upgrade" hs = Some vu /\
    hget B"sec-websocket-version" hs = Some vv /\ hget B"sec-websocket-key" hs = Some key /\
    forallb visible vh = true /\ forallb visible vc = true /\ forallb visible vu = true /\
    forallb visible vv = true /\ forallb visible key = true /\
    values_visible (extra_headers hs) = true /\
    bytes = request_bytes p vh vc vu vv key (extra_headers hs).
Proof.
  intros p hs bytes key. rewrite generate_request_spec. split.
  - destruct (hget B"sec-websocket-key" hs) as [kv|] eqn:Ek; [|discriminate].
    destruct (forallb visible kv) eqn:Evk; [|discriminate].
    destruct (req_check required_headers hs) as [e|] eqn:Ec; [discriminate|].
    destruct (values_visible (extra_headers hs)) eqn:Eex; [|discriminate].
    intro H. apply hok_pair_inj in H. destruct H as [Hb Hkey]. subst key bytes.
    pose proof (proj1 (req_check_none _ _) Ec) as Hall.
    unfold required_headers in Hall. cbn [map fst In] in Hall.
    destruct (Hall B"host" ltac:(auto)) as [vh [Hh Hvh]].
    destruct (Hall B"connection" ltac:(auto)) as [vc [Hc Hvc]].
    destruct (Hall B"upgrade" ltac:(auto)) as [vu [Hu Hvu]].
    destruct (Hall B"sec-websocket-version" ltac:(auto)) as [vv [Hv Hvv]].
    exists vh, vc, vu, vv. repeat (split; [first [assumption | reflexivity]|]).
    unfold request_bytes, required_headers. cbn [req_lines]. unfold first_value.
    rewrite Hh, Hc, Hu, Hv, Ek. rewrite <- !app_assoc. reflexivity.
  - intros [vh [vc [vu [vv [Hh [Hc [Hu [Hv [Hk [Hvh [Hvc [Hvu [Hvv [Hvk [Hex Hb]]]]]]]]]]]]]]].
    rewrite Hk, Hvk.
    assert (req_check required_headers hs = None) as Ec.
    { unfold required_headers. cbn [req_check]. rewrite Hh, Hvh, Hc, Hvc, Hu, Hvu, Hv, Hvv, Hk, Hvk. reflexivity. }
    rewrite Ec, Hex. subst bytes. f_equal. f_equal.
    unfold request_bytes, required_headers. cbn [req_lines]. unfold first_value.
    rewrite Hh, Hc, Hu, Hv, Hk. rewrite <- !app_assoc. reflexivity.
Qed.

(* a missing required header is reported as InvalidHeader (unless a non-ASCII value is met first) *)
Lemma generate_request_missing : forall p hs l, In l required_names -> hget l hs = None ->
  exists e, generate_request (Some p) hs = HErr e /\
    (e = HEUtf8 \/ exists l', In l' required_names /\ hget l' hs = None /\ e = HEProto (InvalidHeader l')).
Proof.
  intros p hs l Hl Hnone. rewrite generate_request_spec.
  destruct (hget B"sec-websocket-key" hs) as [kv|] eqn:Ek.
  - destruct (forallb visible kv); [|exists HEUtf8; auto].
    destruct (req_check required_headers hs) as [e|] eqn:Ec.
    + exists e. split; [reflexivity|]. destruct (req_check_some _ _ _ Ec) as [[H1 _]|[l' [H1 [H2 H3]]]]; [auto|].
      right. exists l'. auto.
    + exfalso. destruct (proj1 (req_check_none _ _) Ec l Hl) as [v [Hv _]]. congruence.
  - exists (HEProto (InvalidHeader B"sec-websocket-key")). split; [reflexivity|]. right.
    exists B"sec-websocket-key". split; [|auto]. unfold required_names, required_headers. cbn [map fst In]. auto 6.
Qed.

(* with ASCII values the error is exactly InvalidHeader of a missing name *)
Lemma generate_request_missing_ascii : forall p hs l, In l required_names -> hget l hs = None ->
  values_visible hs = true ->
  exists l', In l' required_names /\ hget l' hs = None /\
             generate_request (Some p) hs = HErr (HEProto (InvalidHeader l')).
Proof.
  intros p hs l Hl Hnone Hvis.
  assert (forall n v, hget n hs = Some v -> forallb visible v = true) as Hv.
  { intros n v Hg. apply hget_some_in in Hg. unfold values_visible in Hvis.
    rewrite forallb_forall in Hvis. exact (Hvis _ Hg). }
  rewrite generate_request_spec.
  destruct (hget B"sec-websocket-key" hs) as [kv|] eqn:Ek.
  - rewrite (Hv _ _ Ek).
    destruct (req_check required_headers hs) as [e|] eqn:Ec.
    + destruct (req_check_some _ _ _ Ec) as [[_ [l' [v [_ [H2 H3]]]]]|[l' [H1 [H2 H3]]]].
      * rewrite (Hv _ _ H2) in H3. discriminate.
      * exists l'. subst e. auto.
    + exfalso. destruct (proj1 (req_check_none _ _) Ec l Hl) as [v [Hv' _]]. congruence.
  - exists B"sec-websocket-key". split; [|auto]. unfold required_names, required_headers. cbn [map fst In]. auto 6.
Qed.

(* the lines after the five required ones never carry a required name (names are lower-case in the model) *)
Lemma eq_ic_fix_name : forall n, eq_ic (fix_name n) n = true.
Proof.
  intro n. unfold fix_name.
  destruct (bytes_eqb n B"sec-websocket-protocol") eqn:E1; [apply bytes_eqb_eq in E1; subst; reflexivity|].
  destruct (bytes_eqb n B"origin") eqn:E2; [apply bytes_eqb_eq in E2; subst; reflexivity|].
  apply eq_ic_refl.
Qed.

Lemma extra_name_not_required : forall n, map lower n = n -> is_required n = false ->
  forall q, In q required_headers -> eq_ic (fix_name n) (snd q) = false.
Proof.
  intros n Hlow Hreq q Hq. destruct (eq_ic (fix_name n) (snd q)) eqn:E; [|reflexivity]. exfalso.
  assert (eq_ic n (snd q) = true) as E'.
  { apply (eq_ic_trans _ (fix_name n)); [rewrite eq_ic_sym; apply eq_ic_fix_name | exact E]. }
  apply eq_ic_iff in E'. rewrite Hlow in E'.
  assert (is_required n = true) as Ht.
  { unfold is_required. apply existsb_exists. exists q. split; [exact Hq|].
    apply bytes_eqb_eq. subst n. unfold required_headers in Hq. cbn [In] in Hq.
    destruct Hq as [Hq|[Hq|[Hq|[Hq|[Hq|[]]]]]]; subst q; reflexivity. }
  congruence.
Qed.

(* ------------------------------------------------------------------------------------------ *)
(** * Client: IntoClientRequest for Uri *)

Lemma after_last_at_spec : forall s acc,
  (~ In 64 s /\ after_last_at s acc = acc) \/
  (exists pre, s = pre ++ 64 :: after_last_at s acc /\ ~ In 64 (after_last_at s acc)).
Proof.
  induction s as [|b r IH]; intro acc; cbn [after_last_at].
  - left. split; [intros [] | reflexivity].
  - destruct (b =? 64) eqn:Eb.
    + apply N.eqb_eq in Eb. subst b. right. destruct (IH r) as [[Hno Hr]|[pre [Hr Hno]]].
      * exists []. rewrite Hr. split; [reflexivity | exact Hno].
      * exists (64 :: pre). split; [cbn [app]; f_equal; exact Hr | exact Hno].
    + apply N.eqb_neq in Eb. destruct (IH acc) as [[Hno Hr]|[pre [Hr Hno]]].
      * left. split; [|exact Hr]. intros [H|H]; [congruence | exact (Hno H)].
      * right. exists (b :: pre). split; [cbn [app]; f_equal; exact Hr | exact Hno].
Qed.

(* Host = the authority after its LAST '@' (the whole authority when there is none) *)
Lemma host_of_authority_spec : forall a,
  ~ In 64 (host_of_authority a) /\
  ((~ In 64 a /\ host_of_authority a = a) \/ exists userinfo, a = userinfo ++ 64 :: host_of_authority a).
Proof.
  intro a. unfold host_of_authority. destruct (after_last_at_spec a a) as [[Hno Hr]|[pre [Hr Hno]]].
  - rewrite Hr. split; [exact Hno|]. left. auto.
  - split; [exact Hno|]. right. exists pre. exact Hr.
Qed.

(* ... and that determines it *)
Lemma host_of_authority_unique : forall userinfo host,
  ~ In 64 host -> host_of_authority (userinfo ++ 64 :: host) = host.
Proof.
  intros userinfo host Hno.
  destruct (host_of_authority_spec (userinfo ++ 64 :: host)) as [Hno' [[Hin _]|[u' Hu]]].
  - exfalso. apply Hin. apply in_or_app. right. left. reflexivity.
  - set (h := host_of_authority (userinfo ++ 64 :: host)) in *.
    (* two decompositions at an '@' followed by an '@'-free suffix coincide *)
    clearbody h. revert u' Hu. induction userinfo as [|x u IH]; intros u' Hu.
    + destruct u' as [|y u'']; cbn [app] in Hu.
      * inversion Hu. reflexivity.
      * inversion Hu; subst. exfalso. apply Hno. apply in_or_app. right. left. reflexivity.
    + destruct u' as [|y u'']; cbn [app] in Hu.
      * inversion Hu; subst. exfalso. apply Hno'. apply in_or_app. right. left. reflexivity.
      * inversion Hu; subst. apply (IH u''). assumption.
Qed.

Definition client_headers (host key : bytes) : headers :=
  [(B"host", host); (B"connection", B"Upgrade"); (B"upgrade", B"websocket");
   (B"sec-websocket-version", B"13"); (B"sec-websocket-key", key)].

Lemma into_client_request_spec : forall authority key,
  into_client_request authority key =
  match authority with
  | None => HErr HEUrlNoHost
  | Some a => if match host_of_authority a with [] => true | _ => false end
              then HErr HEUrlEmptyHost else HOk (client_headers (host_of_authority a) key)
  end.
Proof.
  intros [a|] key; [|reflexivity]. unfold into_client_request.
  destruct (host_of_authority a); reflexivity.
Qed.

Lemma into_client_request_ok_iff : forall authority key hs,
  into_client_request authority key = HOk hs <->
  exists a, authority = Some a /\ host_of_authority a <> [] /\ hs = client_headers (host_of_authority a) key.
Proof.
  intros authority key hs. rewrite into_client_request_spec. split.
  - destruct authority as [a|]; [|discriminate]. destruct (host_of_authority a) as [|x xs] eqn:E; [discriminate|].
    intro H. inversion H. exists a. split; [reflexivity|]. rewrite E. split; [discriminate | reflexivity].
  - intros [a [Ha [Hne Hhs]]]. subst. destruct (host_of_authority a); [contradiction | reflexivity].
Qed.

(* C16_self_accept: the header set produced from a URI passes the server's create_parts *)
Lemma client_headers_accepted : forall host key,
  create_parts true true (client_headers host key) = HOk (accept_headers key).
Proof. intros host key. reflexivity. Qed.

(* ... and it serialises: the request for a URI *)
Lemma generate_request_client_headers : forall p host key,
  forallb visible host = true -> forallb visible key = true ->
  generate_request (Some p) (client_headers host key) =
  HOk (request_bytes p host B"Upgrade" B"websocket" B"13" key [], key).
Proof.
  intros p host key Hh Hk. apply generate_request_ok_iff.
  exists host, B"Upgrade", B"websocket", B"13". repeat (split; [first [assumption | reflexivity]|]). reflexivity.
Qed.

(* ------------------------------------------------------------------------------------------ *)
(** * Client: verify_response *)

Definition resp_conn_ok (hs : headers) : Prop :=
  exists c, hget B"connection" hs = Some c /\ eq_ic c B"Upgrade" = true.
Definition resp_subproto_ok (hs : headers) (subs : option (list bytes)) : Prop :=
  match hget B"sec-websocket-protocol" hs, subs with
  | None, None => True
  | Some ret, Some offered => forallb visible ret = true /\ In ret offered
  | _, _ => False
  end.

Definition resp_upg_okb (hs : headers) : bool := hs_upg_okb hs.
Definition resp_conn_okb (hs : headers) : bool :=
  match hget B"connection" hs with
  | Some h => match to_str h with Some s => eq_ic s B"Upgrade" | None => false end
  | None => false end.
Definition resp_accept_okb (akey : bytes) (hs : headers) : bool :=
  match hget B"sec-websocket-accept" hs with Some h => bytes_eqb h akey | None => false end.

Lemma verify_response_unfold : forall akey subs r,
  verify_response akey subs r =
  if negb (resp_status r =? 101) then HErr (HEHttp (resp_status r) None) else
  if negb (resp_upg_okb (resp_headers r)) then HErr (HEProto MissingUpgradeWebSocketHeader) else
  if negb (resp_conn_okb (resp_headers r)) then HErr (HEProto MissingConnectionUpgradeHeader) else
  if negb (resp_accept_okb akey (resp_headers r)) then HErr (HEProto SecWebSocketAcceptKeyMismatch) else
  match hget B"sec-websocket-protocol" (resp_headers r), subs with
  | None, Some _ => HErr (HEProto SubNoSubProtocol)
  | Some _, None => HErr (HEProto SubServerSentNoneRequested)
  | Some ret, Some offered =>
      match to_str ret with
      | None => HErr HEUtf8
      | Some s => if existsb (bytes_eqb s) offered then HOk r else HErr (HEProto SubInvalidSubProtocol)
      end
  | None, None => HOk r
  end.
Proof. reflexivity. Qed.

Lemma upgrade_visible : forallb visible B"Upgrade" = true.
Proof. reflexivity. Qed.

Lemma resp_conn_okb_iff : forall hs, resp_conn_okb hs = true <-> resp_conn_ok hs.
Proof.
  intro hs. unfold resp_conn_okb, resp_conn_ok. destruct (hget B"connection" hs) as [c|]; split.
  - intro H. exists c. unfold to_str in H. destruct (forallb visible c); [auto | discriminate].
  - intros [c' [H1 H2]]. inversion H1; subst c'. unfold to_str.
    rewrite (eq_ic_visible _ _ H2 upgrade_visible). exact H2.
  - discriminate.
  - intros [c' [H1 _]]. discriminate.
Qed.

Lemma existsb_bytes_eqb_in : forall s l, existsb (bytes_eqb s) l = true <-> In s l.
Proof.
  intros s l. rewrite existsb_exists. split.
  - intros [x [Hin He]]. apply bytes_eqb_eq in He. subst. exact Hin.
  - intro H. exists s. split; [exact H | apply bytes_eqb_refl].
Qed.

(* C16_verify_iff *)
Lemma verify_response_ok_iff : forall akey subs r r',
  verify_response akey subs r = HOk r' <->
  r' = r /\ resp_status r = 101 /\ upg_ok (resp_headers r) /\ resp_conn_ok (resp_headers r) /\
  hget B"sec-websocket-accept" (resp_headers r) = Some akey /\
  resp_subproto_ok (resp_headers r) subs.
Proof.
  intros akey subs r r'. rewrite verify_response_unfold.
  rewrite <- resp_conn_okb_iff, <- hs_upg_okb_iff. unfold resp_upg_okb, resp_accept_okb, resp_subproto_ok.
  destruct (resp_status r =? 101) eqn:Es; cbn [negb].
  2:{ split; [discriminate|]. intros [_ [H _]]. apply N.eqb_neq in Es. contradiction. }
  apply N.eqb_eq in Es.
  destruct (hs_upg_okb (resp_headers r)); cbn [negb]; [|split; [discriminate | intros [_ [_ [H _]]]; discriminate]].
  destruct (resp_conn_okb (resp_headers r)); cbn [negb]; [|split; [discriminate | intros [_ [_ [_ [H _]]]]; discriminate]].
  destruct (hget B"sec-websocket-accept" (resp_headers r)) as [a|]; cbn [negb].
  2:{ split; [discriminate | intros [_ [_ [_ [_ [H _]]]]]; discriminate]. }
  destruct (bytes_eqb a akey) eqn:Ea; cbn [negb].
  2:{ split; [discriminate|]. intros [_ [_ [_ [_ [H _]]]]]. inversion H; subst. rewrite bytes_eqb_refl in Ea. discriminate. }
  apply bytes_eqb_eq in Ea. subst a.
  destruct (hget B"sec-websocket-protocol" (resp_headers r)) as [ret|], subs as [offered|].
  - unfold to_str. destruct (forallb visible ret) eqn:Ev.
    + destruct (existsb (bytes_eqb ret) offered) eqn:Ei.
      * apply existsb_bytes_eqb_in in Ei. split; [intro H; inversion H; subst; repeat split; auto | intros [H _]; subst; reflexivity].
      * split; [discriminate|]. intros [_ [_ [_ [_ [_ [_ H]]]]]]. apply existsb_bytes_eqb_in in H. congruence.
    + split; [discriminate|]. intros [_ [_ [_ [_ [_ [H _]]]]]]. discriminate.
  - split; [discriminate | intros [_ [_ [_ [_ [_ []]]]]]].
  - split; [discriminate | intros [_ [_ [_ [_ [_ []]]]]]].
  - split; [intro H; inversion H; subst; repeat split; auto | intros [H _]; subst; reflexivity].
Qed.

(* an accept value that differs from the expected one in any way is refused *)
Lemma verify_response_accept_mismatch : forall akey subs r v,
  hget B"sec-websocket-accept" (resp_headers r) = Some v -> v <> akey ->
  exists e, verify_response akey subs r = HErr e /\
    (resp_status r = 101 -> upg_ok (resp_headers r) -> resp_conn_ok (resp_headers r) ->
     e = HEProto SecWebSocketAcceptKeyMismatch).
Proof.
  intros akey subs r v Hv Hne. rewrite verify_response_unfold.
  destruct (resp_status r =? 101) eqn:Es; cbn [negb].
  2:{ eexists. split; [reflexivity|]. intro H. apply N.eqb_neq in Es. contradiction. }
  destruct (resp_upg_okb (resp_headers r)) eqn:Eu; cbn [negb].
  2:{ eexists. split; [reflexivity|]. intros _ H. apply hs_upg_okb_iff in H. unfold resp_upg_okb in Eu. congruence. }
  destruct (resp_conn_okb (resp_headers r)) eqn:Ec; cbn [negb].
  2:{ eexists. split; [reflexivity|]. intros _ _ H. apply resp_conn_okb_iff in H. congruence. }
  unfold resp_accept_okb. rewrite Hv. apply bytes_eqb_neq in Hne. rewrite Hne. cbn [negb].
  eexists. split; reflexivity.
Qed.

(* single-character changes are a special case: same length, one position differs *)
Lemma single_char_change_neq : forall (pre post : bytes) (c c' : N),
  c <> c' -> pre ++ c' :: post <> pre ++ c :: post.
Proof. intros pre post c c' Hc E. apply app_inv_head in E. inversion E. congruence. Qed.

Lemma verify_response_err_class : forall akey subs r e, verify_response akey subs r = HErr e ->
  e = HEHttp (resp_status r) None \/ e = HEUtf8 \/
  exists p, e = HEProto p /\
    (p = MissingUpgradeWebSocketHeader \/ p = MissingConnectionUpgradeHeader \/ p = SecWebSocketAcceptKeyMismatch \/
     p = SubNoSubProtocol \/ p = SubServerSentNoneRequested \/ p = SubInvalidSubProtocol).
Proof.
  intros akey subs r e. rewrite verify_response_unfold.
  destruct (negb (resp_status r =? 101)); [intro H; inversion H; auto|].
  destruct (negb (resp_upg_okb (resp_headers r))); [intro H; inversion H; right; right; eexists; split; [reflexivity | auto]|].
  destruct (negb (resp_conn_okb (resp_headers r))); [intro H; inversion H; right; right; eexists; split; [reflexivity | auto]|].
  destruct (negb (resp_accept_okb akey (resp_headers r))); [intro H; inversion H; right; right; eexists; split; [reflexivity | auto]|].
  destruct (hget B"sec-websocket-protocol" (resp_headers r)) as [ret|], subs as [offered|].
  - destruct (to_str ret); [|intro H; inversion H; auto].
    destruct (existsb (bytes_eqb b) offered); [discriminate|].
    intro H; inversion H; right; right; eexists; split; [reflexivity | auto 8].
  - intro H; inversion H; right; right; eexists; split; [reflexivity | auto 8].
  - intro H; inversion H; right; right; eexists; split; [reflexivity | auto 8].
  - discriminate.
Qed.

(* ------------------------------------------------------------------------------------------ *)
(** * Client handshake: outcomes *)

Lemma generate_request_nonempty : forall path hs req key,
  generate_request path hs = HOk (req, key) -> req <> [].
Proof.
  intros [p|] hs req key; [|discriminate]. rewrite generate_request_spec.
  destruct (hget B"sec-websocket-key" hs) as [kv|]; [|discriminate].
  destruct (forallb visible kv); [|discriminate].
  destruct (req_check required_headers hs); [discriminate|].
  destruct (values_visible (extra_headers hs)); [|discriminate].
  intro H. apply hok_pair_inj in H. destruct H as [H _]. subst req. discriminate.
Qed.

Section ClientThms.
  Variable oracle_req : bytes -> oracle_out raw_req.
  Variable oracle_resp : bytes -> oracle_out raw_resp.
  Notation pparse := (resp_parser oracle_resp).
  Notation chake := (client_handshake oracle_req oracle_resp).

  (* how the reading stage of a client can end, given all the bytes it read *)
  Definition cli_reading_outcome (akey : bytes) (subs : option (list bytes)) (res : hs_result) (data : bytes) : Prop :=
    res = HsBlocked \/
    (exists e, res = HsFail e /\
       ((exists k, e = HEIo k) \/ e = HEProto HandshakeIncomplete \/ e = HEAttack \/ pparse data = PFail e)) \/
    (exists n resp, pparse data = PComplete n resp /\ res = client_read_result akey subs (RDone n resp data)).

  Definition cli_not_started (scheme_ok : bool) (path : option bytes) (hs : headers) (res : hs_result) : Prop :=
    (scheme_ok = false /\ res = HsFail HEUrlScheme) \/
    (scheme_ok = true /\ exists e, extract_subprotocols hs = HErr e /\ res = HsFail e) \/
    (scheme_ok = true /\ (exists subs, extract_subprotocols hs = HOk subs) /\
     exists e, generate_request path hs = HErr e /\ res = HsFail e).

  Lemma client_cases : forall scheme_ok path hs w res w' hlog, chake scheme_ok path hs w = (res, w', hlog) ->
    (hlog = [] /\ w' = w /\ cli_not_started scheme_ok path hs res) \/
    exists subs req key rem,
      scheme_ok = true /\ extract_subprotocols hs = HOk subs /\ generate_request path hs = HOk (req, key) /\
      req = hs_wire hlog ++ rem /\
      ((has_read_ev hlog = false /\ (res = HsBlocked \/ exists k, res = HsFail (HEIo k))) \/
       (rem = [] /\ has_flush_ev hlog = true /\
        cli_reading_outcome (derive_accept_key key) subs res (hs_data_read hlog))).
  Proof.
    intros scheme_ok path hs w res w' hlog. rewrite client_handshake_run. unfold client_run.
    destruct scheme_ok; cbn [negb].
    2:{ intro H. inversion H. left. unfold cli_not_started. auto. }
    destruct (extract_subprotocols hs) as [subs|e] eqn:Es.
    2:{ intro H. inversion H. left. unfold cli_not_started. split; [reflexivity|]. split; [reflexivity|].
        right. left. split; [reflexivity|]. exists e. auto. }
    destruct (generate_request path hs) as [[req key]|e] eqn:Eg.
    2:{ intro H. inversion H. left. unfold cli_not_started. split; [reflexivity|]. split; [reflexivity|].
        right. right. split; [reflexivity|]. split; [exists subs; exact Es|]. exists e. auto. }
    destruct (wr_stage (w_wrs w) req) as [[o1 wrs'] ev1] eqn:E1.
    destruct (wr_stage_events _ _ _ _ _ E1) as [Hr1 [Hf1 [[rem [Hrem Hrem']] [_ [Hio _]]]]].
    intro H. right. exists subs, req, key.
    destruct o1.
    - inversion H; subst res w' hlog. exists rem. repeat (split; [first [reflexivity | assumption]|]). left. auto.
    - inversion H; subst res w' hlog. exists rem. repeat (split; [first [reflexivity | assumption]|]). left.
      split; [exact Hr1|]. right. destruct (Hio e eq_refl) as [k Hk]. exists k. congruence.
    - exfalso. apply (generate_request_nonempty _ _ _ _ Eg). exact (wr_stage_panic _ _ _ _ E1).
    - destruct (fl_stage (w_fls w)) as [[o2 fls'] ev2] eqn:E2.
      destruct (fl_stage_events _ _ _ _ E2) as [Hw2 [Hr2 [Hlast2 _]]].
      assert (hs_wire (ev1 ++ ev2) = hs_wire ev1) as Hwire12.
      { rewrite hs_wire_app, (no_write_ev_wire _ Hw2), app_nil_r. reflexivity. }
      assert (has_read_ev (ev1 ++ ev2) = false) as Hread12.
      { rewrite has_read_ev_app, Hr1, Hr2. reflexivity. }
      destruct o2.
      + inversion H; subst res w' hlog. exists rem. rewrite Hwire12.
        repeat (split; [first [reflexivity | assumption]|]). left. auto.
      + inversion H; subst res w' hlog. exists rem. rewrite Hwire12.
        repeat (split; [first [reflexivity | assumption]|]). left. split; [exact Hread12|]. right. exists k. reflexivity.
      + destruct (rd_stage pparse (w_rds w) [] 0 0) as [[o3 rds'] ev3] eqn:E3.
        destruct (rd_stage_events _ _ _ _ _ _ _ _ _ E3) as [Hw3 [Hf3 [Hd3 _]]].
        inversion H; subst res w' hlog. exists rem.
        rewrite !hs_wire_app, (no_write_ev_wire _ Hw2), (no_write_ev_wire _ Hw3), !app_nil_r.
        repeat (split; [first [reflexivity | assumption]|]). right.
        split; [apply Hrem'; reflexivity|]. split.
        { rewrite !has_flush_ev_app. destruct (Hlast2 eq_refl) as [pre Hpre]. rewrite Hpre, has_flush_ev_app.
          cbn. rewrite !orb_true_r. reflexivity. }
        rewrite !hs_data_read_app, (no_read_ev_data _ Hr1), (no_read_ev_data _ Hr2). cbn [app].
        unfold cli_reading_outcome. destruct o3 as [|e|n resp buf].
        * left. reflexivity.
        * right. left. exists e. split; [reflexivity|]. exact (rd_stage_fail _ _ _ _ _ _ _ _ _ E3).
        * right. right. destruct (Hd3 _ _ _ eq_refl) as [Hbuf Hp]. cbn [app] in Hbuf. subst buf.
          exists n, resp. auto.
  Qed.

  Lemma client_read_result_done : forall akey subs o r tail,
    client_read_result akey subs o = HsDone r tail ->
    exists n resp buf r', o = RDone n resp buf /\ r = Client /\ tail = dropN n buf /\
                          verify_response akey subs resp = HOk r'.
  Proof.
    intros akey subs o r tail. destruct o as [|e|n resp buf]; cbn [client_read_result]; try discriminate.
    cbv zeta. destruct (verify_response akey subs resp) as [r'|e] eqn:Ev.
    - intro H. inversion H. exists n, resp, buf, r'. auto.
    - destruct e; discriminate.
  Qed.

  (* C16_tail (and what a successful client handshake means) *)
  Theorem client_done_shape : forall scheme_ok path hs w r tail w' hlog,
    chake scheme_ok path hs w = (HsDone r tail, w', hlog) ->
    r = Client /\ scheme_ok = true /\
    exists subs req key n raw,
      extract_subprotocols hs = HOk subs /\ generate_request path hs = HOk (req, key) /\
      hs_wire hlog = req /\ has_flush_ev hlog = true /\
      oracle_resp (hs_data_read hlog) = OComplete n raw /\ 1 <= rs_version raw /\ rs_fmt_ok raw = true /\
      verify_response (derive_accept_key key) subs (mkResponse (rs_code raw) (rs_headers raw))
        = HOk (mkResponse (rs_code raw) (rs_headers raw)) /\
      tail = dropN n (hs_data_read hlog) /\
      hs_data_read hlog = takeN n (hs_data_read hlog) ++ tail.
  Proof.
    intros scheme_ok path hs w r tail w' hlog H.
    destruct (client_cases _ _ _ _ _ _ _ H) as [[_ [_ Hns]]|[subs [req [key [rem [Hs [Hsub [Hgen [Hw Hcases]]]]]]]]].
    - exfalso. destruct Hns as [[_ Hc]|[[_ [e [_ Hc]]]|[_ [_ [e [_ Hc]]]]]]; discriminate.
    - destruct Hcases as [[_ [Hc|[k Hc]]]|[Hrem [Hfl Hout]]]; try discriminate.
      subst rem. rewrite app_nil_r in Hw.
      destruct Hout as [Hc|[[e [Hc _]]|[n [resp [Hp Hres]]]]]; try discriminate.
      symmetry in Hres. apply client_read_result_done in Hres.
      destruct Hres as [n' [resp' [buf' [r' [Ho [Hr [Ht Hv]]]]]]]. inversion Ho; subst n' resp' buf'.
      unfold resp_parser in Hp. apply try_parse_response_complete in Hp.
      destruct Hp as [raw [Horacle [Hver [Hfmt Hresp]]]]. subst resp.
      split; [exact Hr|]. split; [exact Hs|].
      exists subs, req, key, n, raw.
      assert (r' = mkResponse (rs_code raw) (rs_headers raw)) as Hr'.
      { apply verify_response_ok_iff in Hv. tauto. }
      subst r'. repeat (split; [first [assumption | reflexivity | symmetry; assumption]|]).
      subst tail. symmetry. apply take_drop.
  Qed.

  (* whatever happens, the bytes on the wire are a prefix of the one request, and the client reads
     nothing before the whole request was accepted and flushed *)
  Theorem client_wire_prefix : forall scheme_ok path hs w res w' hlog,
    chake scheme_ok path hs w = (res, w', hlog) ->
    (forall e, generate_request path hs = HErr e -> hlog = []) /\
    (forall req key, generate_request path hs = HOk (req, key) ->
       (exists rem, hs_wire hlog ++ rem = req) /\
       (has_read_ev hlog = true -> hs_wire hlog = req /\ has_flush_ev hlog = true)).
  Proof.
    intros scheme_ok path hs w res w' hlog H.
    destruct (client_cases _ _ _ _ _ _ _ H) as [[Hl _]|[subs [req [key [rem [Hs [Hsub [Hgen [Hw Hcases]]]]]]]]].
    - subst hlog. split; [reflexivity|]. intros req key _. split; [exists req; reflexivity | discriminate].
    - split; [intros e He; congruence|]. intros req' key' Hg. rewrite Hgen in Hg.
      apply hok_pair_inj in Hg. destruct Hg as [Hreq Hkey]. subst req' key'.
      split; [exists rem; auto|]. intro Hrd.
      destruct Hcases as [[Hno _]|[Hrem [Hfl _]]]; [congruence|]. subst rem. rewrite app_nil_r in Hw. auto.
  Qed.

  (* the run that goes through: request accepted by the transport (any partial-write pattern), flushed,
     then the result is decided by the reading stage and verify_response alone *)
  Theorem client_completes : forall path hs w subs req key pre post j fpost o rds' ev3,
    extract_subprotocols hs = HOk subs -> generate_request path hs = HOk (req, key) ->
    w_wrs w = pre ++ post -> Forall wr_friendly pre -> blen req <= wr_capacity pre ->
    w_fls w = repeat (FlErr WouldBlock) j ++ FlOk :: fpost ->
    rd_stage pparse (w_rds w) [] 0 0 = (o, rds', ev3) ->
    exists w' hlog,
      chake true path hs w = (client_read_result (derive_accept_key key) subs o, w', hlog) /\
      hs_wire hlog = req /\ hs_data_read hlog = hs_data_read ev3 /\ w_rds w' = rds'.
  Proof.
    intros path hs w subs req key pre post j fpost o rds' ev3 Hsub Hgen Hwrs Hfr Hcap Hfls Hrd.
    rewrite client_handshake_run. unfold client_run. cbn [negb]. rewrite Hsub, Hgen.
    destruct (wr_stage_complete pre post req (generate_request_nonempty _ _ _ _ Hgen) Hfr Hcap) as [wrs' [ev1 [Hwr Hwire]]].
    rewrite Hwrs, Hwr. destruct (fl_stage_complete j fpost) as [ev2 Hfl]. rewrite Hfls, Hfl, Hrd.
    destruct (wr_stage_events _ _ _ _ _ Hwr) as [Hr1 _].
    destruct (fl_stage_events _ _ _ _ Hfl) as [Hw2 [Hr2 _]].
    destruct (rd_stage_events _ _ _ _ _ _ _ _ _ Hrd) as [Hw3 _].
    eexists _, _. split; [reflexivity|].
    rewrite !hs_wire_app, !hs_data_read_app, (no_write_ev_wire _ Hw2), (no_write_ev_wire _ Hw3),
      (no_read_ev_data _ Hr1), (no_read_ev_data _ Hr2), !app_nil_r. cbn [app].
    repeat split; auto.
  Qed.

  (* with a complete response head in the reading stage: WebSocket iff verify_response accepts; the
     tail handed to the new socket is the cumulative buffer after the head *)
  Lemma client_read_result_complete : forall akey subs n resp buf,
    (forall r', verify_response akey subs resp = HOk r' ->
       client_read_result akey subs (RDone n resp buf) = HsDone Client (dropN n buf)) /\
    (forall e, verify_response akey subs resp = HErr e ->
       exists e', client_read_result akey subs (RDone n resp buf) = HsFail e' /\
                  ((forall s b, e <> HEHttp s b) -> e' = e) /\
                  (forall s b, e = HEHttp s b -> e' = HEHttp s (Some (dropN n buf)))).
  Proof.
    intros akey subs n resp buf. cbn [client_read_result]. cbv zeta. split.
    - intros r' H. rewrite H. reflexivity.
    - intros e H. rewrite H. destruct e; try (eexists; split; [reflexivity|]; split; [reflexivity | discriminate]).
      eexists. split; [reflexivity|]. split.
      + intro Hn. exfalso. exact (Hn _ _ eq_refl).
      + intros s b E. inversion E. reflexivity.
  Qed.
End ClientThms.

(* ------------------------------------------------------------------------------------------ *)
(** * Summary lemmas for C16 *)

(* C16_from_uri in one statement *)
Lemma into_client_request_shape : forall authority key hs,
  into_client_request authority key = HOk hs ->
  exists a host, authority = Some a /\ host = host_of_authority a /\ host <> [] /\ ~ In 64 host /\
    ((~ In 64 a /\ host = a) \/ exists userinfo, a = userinfo ++ 64 :: host) /\
    hs = [(B"host", host); (B"connection", B"Upgrade"); (B"upgrade", B"websocket");
          (B"sec-websocket-version", B"13"); (B"sec-websocket-key", key)].
Proof.
  intros authority key hs H. apply into_client_request_ok_iff in H. destruct H as [a [Ha [Hne Hhs]]].
  destruct (host_of_authority_spec a) as [Hno Hdec].
  exists a, (host_of_authority a). repeat (split; [first [assumption | reflexivity]|]). exact Hhs.
Qed.

Lemma into_client_request_errors : forall authority key,
  (authority = None -> into_client_request authority key = HErr HEUrlNoHost) /\
  (forall a, authority = Some a -> host_of_authority a = [] -> into_client_request authority key = HErr HEUrlEmptyHost).
Proof.
  intros authority key. split.
  - intro H. subst. reflexivity.
  - intros a H Hh. subst. unfold into_client_request. rewrite Hh. reflexivity.
Qed.

(* C16_self_accept *)
Lemma into_client_request_accepted : forall authority key hs,
  into_client_request authority key = HOk hs ->
  create_parts true true hs = HOk (accept_headers key) /\
  (forall p, forallb visible key = true -> forallb visible (first_value B"host" hs) = true ->
     generate_request (Some p) hs =
     HOk (request_bytes p (first_value B"host" hs) B"Upgrade" B"websocket" B"13" key [], key)).
Proof.
  intros authority key hs H. apply into_client_request_ok_iff in H. destruct H as [a [Ha [Hne Hhs]]]. subst hs.
  split; [apply client_headers_accepted|].
  intros p Hk Hh. apply generate_request_client_headers; assumption.
Qed.

Lemma verify_response_single_char : forall akey subs r (pre post : bytes) (c c' : N),
  akey = pre ++ c :: post -> c' <> c ->
  hget B"sec-websocket-accept" (resp_headers r) = Some (pre ++ c' :: post) ->
  exists e, verify_response akey subs r = HErr e /\
    (resp_status r = 101 -> upg_ok (resp_headers r) -> resp_conn_ok (resp_headers r) ->
     e = HEProto SecWebSocketAcceptKeyMismatch).
Proof.
  intros akey subs r pre post c c' Hk Hc Hg. apply (verify_response_accept_mismatch akey subs r _ Hg).
  subst akey. apply single_char_change_neq. congruence.
Qed.

(* ------------------------------------------------------------------------------------------ *)
(** * A reference reader for request heads (lines end in CRLF; name/value cut at the first ':')
   and the round trip  generate_request -> reader *)

Fixpoint cut_crlf (s : bytes) : option (bytes * bytes) :=
  match s with
  | [] => None
  | b :: r =>
      if (b =? 13) && (match r with c :: _ => c =? 10 | [] => false end) then Some ([], tl r)
      else match cut_crlf r with Some (l, rest) => Some (b :: l, rest) | None => None end
  end.

Fixpoint cut_at (c : N) (s : bytes) : option (bytes * bytes) :=
  match s with
  | [] => None
  | b :: r => if b =? c then Some ([], r)
              else match cut_at c r with Some (l, rest) => Some (b :: l, rest) | None => None end
  end.

Definition parse_header_line (l : bytes) : option (bytes * bytes) :=
  match cut_at 58 l with
  | Some (n, v) => Some (n, match v with b :: v' => if b =? 32 then v' else v | [] => [] end)
  | None => None
  end.

Definition parse_request_line (l : bytes) : option (bytes * bytes * bytes) :=
  match cut_at 32 l with
  | Some (m, r) => match cut_at 32 r with Some (p, v) => Some (m, p, v) | None => None end
  | None => None
  end.

Fixpoint parse_headers (fuel : nat) (s : bytes) : option (list (bytes * bytes) * bytes) :=
  match fuel with
  | O => None
  | S f =>
      match cut_crlf s with
      | None => None
      | Some ([], rest) => Some ([], rest)
      | Some (l, rest) =>
          match parse_header_line l, parse_headers f rest with
          | Some nv, Some (hs, tail) => Some (nv :: hs, tail)
          | _, _ => None
          end
      end
  end.

(* (method, target, version, header lines as written, bytes after the blank line) *)
Definition spec_parse_request (s : bytes) : option (bytes * bytes * bytes * list (bytes * bytes) * bytes) :=
  match cut_crlf s with
  | Some (l, rest) =>
      match parse_request_line l, parse_headers (S (List.length rest)) rest with
      | Some (m, p, v), Some (hs, tail) => Some (m, p, v, hs, tail)
      | _, _ => None
      end
  | None => None
  end.

Lemma cut_crlf_line : forall l rest, ~ In 13 l -> cut_crlf (l ++ crlf ++ rest) = Some (l, rest).
Proof.
  induction l as [|b l IH]; intros rest Hn.
  - reflexivity.
  - cbn [app cut_crlf]. assert (b <> 13) as Hb by (intro E; apply Hn; left; auto).
    apply N.eqb_neq in Hb. rewrite Hb. cbn [andb]. rewrite IH; [reflexivity|].
    intro H. apply Hn. right. exact H.
Qed.

Lemma cut_at_app : forall c l rest, ~ In c l -> cut_at c (l ++ c :: rest) = Some (l, rest).
Proof.
  intros c. induction l as [|b l IH]; intros rest Hn; cbn [app cut_at].
  - rewrite N.eqb_refl. reflexivity.
  - assert (b <> c) as Hb by (intro E; apply Hn; left; auto).
    apply N.eqb_neq in Hb. rewrite Hb, IH; [reflexivity|]. intro H. apply Hn. right. exact H.
Qed.

Lemma parse_header_line_ok : forall n v, ~ In 58 n -> parse_header_line (n ++ B": " ++ v) = Some (n, v).
Proof.
  intros n v Hn. unfold parse_header_line. change (n ++ B": " ++ v) with (n ++ 58 :: 32 :: v).
  rewrite (cut_at_app 58 n (32 :: v) Hn). reflexivity.
Qed.

Lemma parse_request_line_ok : forall p, ~ In 32 p ->
  parse_request_line (B"GET " ++ p ++ B" HTTP/1.1") = Some (B"GET", p, B"HTTP/1.1").
Proof.
  intros p Hp. unfold parse_request_line.
  change (B"GET " ++ p ++ B" HTTP/1.1") with (B"GET" ++ 32 :: (p ++ 32 :: B"HTTP/1.1")).
  rewrite (cut_at_app 32 B"GET"); [|cbn; intros [H|[H|[H|[]]]]; discriminate].
  rewrite (cut_at_app 32 p _ Hp). reflexivity.
Qed.

Definition hdr_wire_ok (nv : bytes * bytes) : Prop :=
  ~ In 58 (fst nv) /\ ~ In 13 (fst nv) /\ ~ In 13 (snd nv).

Lemma header_lines_length : forall L, (List.length L <= List.length (header_lines L))%nat.
Proof.
  induction L as [|[n v] L IH]; [cbn; lia|]. rewrite header_lines_cons. rewrite !app_length.
  change (List.length B": ") with 2%nat. change (List.length crlf) with 2%nat. cbn [List.length] in *. lia.
Qed.

Lemma parse_headers_lines : forall L tail fuel, Forall hdr_wire_ok L -> (List.length L < fuel)%nat ->
  parse_headers fuel (header_lines L ++ crlf ++ tail) = Some (L, tail).
Proof.
  induction L as [|[n v] L IH]; intros tail fuel Hok Hf; (destruct fuel as [|f]; [lia|]); cbn [parse_headers].
  - change (header_lines [] ++ crlf ++ tail) with ([] ++ crlf ++ tail).
    rewrite (cut_crlf_line [] tail) by (intros []). reflexivity.
  - inversion Hok as [|x xs [H58 [H13n H13v]] Hok']; subst. cbn [fst snd] in *.
    rewrite header_lines_cons.
    replace ((n ++ B": " ++ v ++ crlf ++ header_lines L) ++ crlf ++ tail)
      with ((n ++ B": " ++ v) ++ crlf ++ (header_lines L ++ crlf ++ tail)) by (rewrite <- !app_assoc; reflexivity).
    rewrite cut_crlf_line.
    2:{ intro H. apply in_app_or in H. destruct H as [H|H]; [exact (H13n H)|].
        apply in_app_or in H. destruct H as [H|H]; [|exact (H13v H)].
        cbn in H. destruct H as [H|[H|[]]]; discriminate. }
    destruct (n ++ B": " ++ v) as [|y ys] eqn:El.
    { exfalso. destruct n; discriminate. }
    rewrite <- El, (parse_header_line_ok n v H58). cbn [List.length] in Hf.
    rewrite (IH tail f Hok') by lia. reflexivity.
Qed.

(* the header lines of a generated request, names as written *)
Definition written_headers (vh vc vu vv vk : bytes) (extra : headers) : list (bytes * bytes) :=
  [(B"Host", vh); (B"Connection", vc); (B"Upgrade", vu); (B"Sec-WebSocket-Version", vv);
   (B"Sec-WebSocket-Key", vk)] ++ map (fun nv => (fix_name (fst nv), snd nv)) extra.

Lemma extra_lines_header_lines : forall extra,
  extra_lines extra = header_lines (map (fun nv => (fix_name (fst nv), snd nv)) extra).
Proof.
  induction extra as [|[n v] r IH]; [reflexivity|].
  cbn [map fst snd]. rewrite extra_lines_cons, header_lines_cons, IH. reflexivity.
Qed.

Lemma request_bytes_lines : forall p vh vc vu vv vk extra,
  request_bytes p vh vc vu vv vk extra =
  (B"GET " ++ p ++ B" HTTP/1.1") ++ crlf ++ header_lines (written_headers vh vc vu vv vk extra) ++ crlf.
Proof.
  intros. unfold request_bytes, written_headers. rewrite header_lines_app, !header_lines_cons, extra_lines_header_lines.
  change (header_lines []) with (@nil N). rewrite <- !app_assoc. reflexivity.
Qed.

Lemma visible_no_cr : forall v, forallb visible v = true -> ~ In 13 v.
Proof.
  intros v Hv Hin. rewrite forallb_forall in Hv. specialize (Hv 13 Hin). discriminate.
Qed.

Definition name_wire_ok (n : bytes) : Prop := ~ In 58 n /\ ~ In 13 n.

Lemma fix_name_wire_ok : forall n, name_wire_ok n -> name_wire_ok (fix_name n).
Proof.
  intros n H. unfold fix_name.
  destruct (bytes_eqb n B"sec-websocket-protocol").
  { split; cbn; intro Hin; repeat (destruct Hin as [Hin|Hin]; [discriminate|]); exact Hin. }
  destruct (bytes_eqb n B"origin"); [|exact H].
  split; cbn; intro Hin; repeat (destruct Hin as [Hin|Hin]; [discriminate|]); exact Hin.
Qed.

(* the reader gets back exactly the request line and the header lines that were written *)
Lemma spec_parse_request_bytes : forall p vh vc vu vv vk extra tail,
  ~ In 32 p -> ~ In 13 p ->
  forallb visible vh = true -> forallb visible vc = true -> forallb visible vu = true ->
  forallb visible vv = true -> forallb visible vk = true -> values_visible extra = true ->
  Forall (fun nv => name_wire_ok (fst nv)) extra ->
  spec_parse_request (request_bytes p vh vc vu vv vk extra ++ tail) =
  Some (B"GET", p, B"HTTP/1.1", written_headers vh vc vu vv vk extra, tail).
Proof.
  intros p vh vc vu vv vk extra tail Hp32 Hp13 Hvh Hvc Hvu Hvv Hvk Hex Hnames.
  rewrite request_bytes_lines. unfold spec_parse_request.
  replace (((B"GET " ++ p ++ B" HTTP/1.1") ++ crlf ++ header_lines (written_headers vh vc vu vv vk extra) ++ crlf) ++ tail)
    with ((B"GET " ++ p ++ B" HTTP/1.1") ++ crlf ++ (header_lines (written_headers vh vc vu vv vk extra) ++ crlf ++ tail))
    by (rewrite <- !app_assoc; reflexivity).
  rewrite cut_crlf_line.
  2:{ intro H. apply in_app_or in H. destruct H as [H|H].
      - cbn in H. repeat (destruct H as [H|H]; [discriminate|]). exact H.
      - apply in_app_or in H. destruct H as [H|H]; [exact (Hp13 H)|].
        cbn in H. repeat (destruct H as [H|H]; [discriminate|]). exact H. }
  rewrite (parse_request_line_ok p Hp32).
  rewrite parse_headers_lines; [reflexivity | |].
  - unfold written_headers. apply Forall_app. split.
    + repeat constructor; cbn [fst snd]; try (apply visible_no_cr; assumption);
        cbn; intro Hin; repeat (destruct Hin as [Hin|Hin]; [discriminate|]); exact Hin.
    + apply Forall_forall. intros [n v] Hin. apply in_map_iff in Hin.
      destruct Hin as [[n0 v0] [Heq Hin0]]. cbn [fst snd] in Heq. inversion Heq; subst n v.
      rewrite Forall_forall in Hnames. destruct (fix_name_wire_ok n0 (Hnames _ Hin0)) as [H1 H2].
      unfold hdr_wire_ok. cbn [fst snd]. split; [exact H1|]. split; [exact H2|].
      apply visible_no_cr. unfold values_visible in Hex. rewrite forallb_forall in Hex. exact (Hex _ Hin0).
  - rewrite !app_length. pose proof (header_lines_length (written_headers vh vc vu vv vk extra)). lia.
Qed.

(* C16_self_accept through the bytes: the request built for a URI, read back by the reference reader
   and with names lower-cased as HeaderMap does, passes the server's create_parts *)
Definition lower_names (L : list (bytes * bytes)) : headers := map (fun nv => (map lower (fst nv), snd nv)) L.

Lemma uri_request_self_accept : forall (p host key req k tail : bytes),
  ~ In 32 p -> ~ In 13 p -> forallb visible host = true -> forallb visible key = true ->
  generate_request (Some p) (client_headers host key) = HOk (req, k) ->
  k = key /\
  exists L, spec_parse_request (req ++ tail) = Some (B"GET", p, B"HTTP/1.1", L, tail) /\
            lower_names L = client_headers host key /\
            create_parts true true (lower_names L) = HOk (accept_headers key).
Proof.
  intros p host key req k tail Hp32 Hp13 Hh Hk Hgen.
  rewrite (generate_request_client_headers p host key Hh Hk) in Hgen.
  apply hok_pair_inj in Hgen. destruct Hgen as [Hreq Hkey]. subst req k. split; [reflexivity|].
  exists (written_headers host B"Upgrade" B"websocket" B"13" key []). split.
  - apply spec_parse_request_bytes; auto.
  - split; [reflexivity|]. apply client_headers_accepted.
Qed.

(* any generated request reads back as: GET, the path, HTTP/1.1, the five required lines (first value
   of each name) in the fixed order, then the other headers in list order *)
Lemma generate_request_reads_back : forall (p : bytes) (hs : headers) (req key tail : bytes),
  ~ In 32 p -> ~ In 13 p -> Forall (fun nv => name_wire_ok (fst nv)) hs ->
  generate_request (Some p) hs = HOk (req, key) ->
  exists vh vc vu vv,
    hget B"host" hs = Some vh /\ hget B"connection" hs = Some vc /\ hget B"upgrade" hs = Some vu /\
    hget B"sec-websocket-version" hs = Some vv /\ hget B"sec-websocket-key" hs = Some key /\
    spec_parse_request (req ++ tail) =
    Some (B"GET", p, B"HTTP/1.1", written_headers vh vc vu vv key (extra_headers hs), tail).
Proof.
  intros p hs req key tail Hp32 Hp13 Hnames Hgen. apply generate_request_ok_iff in Hgen.
  destruct Hgen as [vh [vc [vu [vv [Hh [Hc [Hu [Hv [Hk [Hvh [Hvc [Hvu [Hvv [Hvk [Hex Hb]]]]]]]]]]]]]]].
  exists vh, vc, vu, vv. repeat (split; [assumption|]). subst req.
  apply spec_parse_request_bytes; auto.
  apply Forall_forall. intros nv Hin. unfold extra_headers in Hin. apply filter_In in Hin.
  rewrite Forall_forall in Hnames. apply Hnames. tauto.
Qed.

(* each required header occurs exactly once among the written lines: the five fixed ones, and no
   other line has a name equal to one of them ignoring case (names lower-case, as HeaderMap keeps them) *)
Lemma written_extras_not_required : forall hs,
  Forall (fun nv => map lower (fst nv) = fst nv) hs ->
  Forall (fun nv => forall q, In q required_headers -> eq_ic (fst nv) (snd q) = false)
         (map (fun nv => (fix_name (fst nv), snd nv)) (extra_headers hs)).
Proof.
  intros hs Hlow. apply Forall_forall. intros [n v] Hin. apply in_map_iff in Hin.
  destruct Hin as [[n0 v0] [Heq Hin0]]. cbn [fst snd] in Heq. inversion Heq; subst n v. cbn [fst].
  unfold extra_headers in Hin0. apply filter_In in Hin0. destruct Hin0 as [Hin0 Hnr].
  apply negb_true_iff in Hnr. cbn [fst] in Hnr.
  rewrite Forall_forall in Hlow. apply extra_name_not_required; [exact (Hlow _ Hin0) | exact Hnr].
Qed.

(* ------------------------------------------------------------------------------------------ *)
(** * Acceptance stated on membership: the four headers, each name once, anywhere in the list *)

Lemma hget_in_once : forall name v hs, In (name, v) hs -> (hcount name hs <= 1)%nat -> hget name hs = Some v.
Proof.
  intros name v hs. induction hs as [|[n x] r IH]; intros Hin Hc; [contradiction|].
  rewrite hget_cons. rewrite hcount_cons in Hc. unfold hmatch in Hc. cbn [fst] in Hc.
  destruct Hin as [Hin|Hin].
  - inversion Hin; subst. rewrite bytes_eqb_refl. reflexivity.
  - destruct (bytes_eqb n name) eqn:E.
    + exfalso. assert (hcount name r = 0%nat) as Hz by lia.
      apply hcount_zero_hget in Hz. apply hget_none_iff with (v := v) in Hz. contradiction.
    + apply IH; assumption.
Qed.

Lemma create_parts_accepts_members : forall hs c u key,
  once_each hs ->
  In (B"connection", c) hs -> forallb visible c = true -> has_upgrade_token c = true ->
  In (B"upgrade", u) hs -> eq_ic u B"websocket" = true ->
  In (B"sec-websocket-version", B"13") hs ->
  In (B"sec-websocket-key", key) hs ->
  create_parts true true hs = HOk (accept_headers key).
Proof.
  intros hs c u key Ho Hc Hcv Hct Hu Hue Hv Hk.
  assert (forall name, In name decision_names -> (hcount name hs <= 1)%nat) as Ho' by exact Ho.
  apply create_parts_ok_iff. split; [reflexivity|]. split; [reflexivity|].
  split; [exists c; split; [apply hget_in_once; [exact Hc | apply Ho'; cbn; auto] | auto]|].
  split; [exists u; split; [apply hget_in_once; [exact Hu | apply Ho'; cbn; auto] | auto]|].
  split; [apply hget_in_once; [exact Hv | apply Ho'; cbn; auto]|].
  exists key. split; [apply hget_in_once; [exact Hk | apply Ho'; cbn; auto 6] | reflexivity].
Qed.

(* ------------------------------------------------------------------------------------------ *)
(** * The tail of a client handshake against the byte stream, under the parser hypotheses
   P1 (the consumed length lies inside the buffer) and P2 (a complete head stays the same head
   when more bytes follow) *)

Lemma dropN_app_le : forall (n : N) (a x : bytes), n <= blen a -> dropN n (a ++ x) = dropN n a ++ x.
Proof.
  intros n a x H. unfold dropN, blen in *. rewrite skipn_app.
  replace (N.to_nat n - List.length a)%nat with 0%nat by lia. reflexivity.
Qed.

Section ClientTail.
  Variable oracle_req : bytes -> oracle_out raw_req.
  Variable oracle_resp : bytes -> oracle_out raw_resp.
  Hypothesis P1 : forall buf n a, oracle_resp buf = OComplete n a -> n <= blen buf.
  Hypothesis P2 : forall buf more n a, oracle_resp buf = OComplete n a -> oracle_resp (buf ++ more) = OComplete n a.
  Notation chake := (client_handshake oracle_req oracle_resp).

  (* nothing that followed the head is lost: tail ++ whatever comes later = the stream minus the head *)
  Theorem client_tail_stream : forall scheme_ok path hs w tail w' hlog,
    chake scheme_ok path hs w = (HsDone Client tail, w', hlog) ->
    exists n raw, oracle_resp (hs_data_read hlog) = OComplete n raw /\ n <= blen (hs_data_read hlog) /\
      forall later, tail ++ later = dropN n (hs_data_read hlog ++ later).
  Proof.
    intros scheme_ok path hs w tail w' hlog H.
    destruct (client_done_shape _ _ _ _ _ _ _ _ _ _ H)
      as (_ & _ & subs & req & key & n & raw & _ & _ & _ & _ & Ho & _ & _ & _ & Ht & _).
    exists n, raw. pose proof (P1 _ _ _ Ho) as Hn. split; [exact Ho|]. split; [exact Hn|].
    intro later. subst tail. symmetry. apply dropN_app_le. exact Hn.
  Qed.

  (* two handshakes over two segmentations of the same stream hand the same bytes to the new socket *)
  Theorem client_tail_segmentation : forall s1 s2 path1 path2 hs1 hs2 w1 w2 tail1 tail2 w1' w2' hlog1 hlog2 later1 later2,
    chake s1 path1 hs1 w1 = (HsDone Client tail1, w1', hlog1) ->
    chake s2 path2 hs2 w2 = (HsDone Client tail2, w2', hlog2) ->
    hs_data_read hlog1 ++ later1 = hs_data_read hlog2 ++ later2 ->
    tail1 ++ later1 = tail2 ++ later2.
  Proof.
    intros s1 s2 path1 path2 hs1 hs2 w1 w2 tail1 tail2 w1' w2' hlog1 hlog2 later1 later2 H1 H2 Hs.
    destruct (client_tail_stream _ _ _ _ _ _ _ H1) as [n1 [raw1 [Ho1 [Hn1 Ht1]]]].
    destruct (client_tail_stream _ _ _ _ _ _ _ H2) as [n2 [raw2 [Ho2 [Hn2 Ht2]]]].
    rewrite Ht1, Ht2, Hs. f_equal.
    apply app_eq_app in Hs. destruct Hs as [l [[Ha _]|[Ha _]]].
    - rewrite Ha in Ho1. rewrite (P2 _ l _ _ Ho2) in Ho1. inversion Ho1. reflexivity.
    - rewrite Ha in Ho2. rewrite (P2 _ l _ _ Ho1) in Ho2. inversion Ho2. reflexivity.
  Qed.
End ClientTail.

(* a parser oracle satisfying P1 and P2 (used for non-vacuity): complete exactly when the buffer
   starts with a fixed head *)
Definition prefix_oracle {A : Type} (head : bytes) (a : A) (buf : bytes) : oracle_out A :=
  if bytes_eqb (takeN (blen head) buf) head then OComplete (blen head) a else OPartial.

Lemma prefix_oracle_P1P2 : forall (A : Type) (head : bytes) (a : A),
  (forall buf n x, prefix_oracle head a buf = OComplete n x -> n <= blen buf) /\
  (forall buf more n x, prefix_oracle head a buf = OComplete n x ->
                        prefix_oracle head a (buf ++ more) = OComplete n x).
Proof.
  intros A head a.
  assert (forall buf, bytes_eqb (takeN (blen head) buf) head = true -> (List.length head <= List.length buf)%nat) as Hlen.
  { intros buf E. apply bytes_eqb_eq in E. unfold takeN, blen in E.
    rewrite Nat2N.id in E. rewrite <- E at 1. rewrite firstn_length. lia. }
  split.
  - intros buf n x. unfold prefix_oracle. destruct (bytes_eqb (takeN (blen head) buf) head) eqn:E; [|discriminate].
    intro H. inversion H; subst. specialize (Hlen buf E). unfold blen. lia.
  - intros buf more n x. unfold prefix_oracle.
    destruct (bytes_eqb (takeN (blen head) buf) head) eqn:E; [|discriminate].
    intro H. specialize (Hlen buf E).
    assert (takeN (blen head) (buf ++ more) = takeN (blen head) buf) as Ht.
    { unfold takeN, blen. rewrite Nat2N.id, firstn_app.
      replace (List.length head - List.length buf)%nat with 0%nat by lia. cbn [firstn]. apply app_nil_r. }
    rewrite Ht, E. exact H.
Qed.
