(* proofs/LimitsP.v — inbound size limits (C06) and absence of panics / fuel exhaustion / overflow in
   the socket model (socket part of C07).

   Layout:
     1. list/length helpers, header_parse never panics, try_take specification
     2. read_frame_loop / read_frame: events, reservations, measure, over-limit rejection
     3. UTF-8 collector: length bounds; the utf-8 crate's unwrap sites are unreachable
     4. the write path (write/flush/close) leaves the read side alone, never panics
     5. read_message_frame / read_loop
     6. read / run_op / run_ops
     7. over-limit input does yield the capacity error (positive direction)
     8. statements in the form used by props/C06.v and props/C07.v
     9. bound on the in-buffer length *)
From TungModel Require Import Base Coding Mask Header Frame Utf8 World Message Codec Protocol.
From Coq Require Import Lia ZifyBool ZifyNat ZifyN.

#[local] Arguments N.add : simpl never.
#[local] Arguments N.sub : simpl never.
#[local] Arguments N.mul : simpl never.
#[local] Arguments N.ltb : simpl never.
#[local] Arguments N.leb : simpl never.
#[local] Arguments N.eqb : simpl never.
#[local] Arguments N.min : simpl never.
#[local] Arguments N.max : simpl never.
#[local] Arguments N.of_nat : simpl never.
#[local] Arguments N.to_nat : simpl never.

(* ====================================================================== *)
(* part 1: helpers + codec level *)


(* ------------------------------------------------------------------ *)
(** * List / length helpers *)

Lemma blen_nil {A} : blen (@nil A) = 0.
Proof. reflexivity. Qed.

Lemma blen_cons {A} (a : A) (l : list A) : blen (a :: l) = blen l + 1.
Proof. unfold blen. cbn [length]. lia. Qed.

Lemma blen_app {A} (a b : list A) : blen (a ++ b) = blen a + blen b.
Proof. unfold blen. rewrite app_length. lia. Qed.

Lemma blen_takeN_le {A} (n : N) (l : list A) : blen (takeN n l) <= n.
Proof. unfold blen, takeN. pose proof (firstn_le_length (N.to_nat n) l). lia. Qed.

Lemma blen_takeN_le2 {A} (n : N) (l : list A) : blen (takeN n l) <= blen l.
Proof. unfold blen, takeN. rewrite firstn_length. lia. Qed.

Lemma blen_takeN_exact {A} (n : N) (l : list A) : n <= blen l -> blen (takeN n l) = n.
Proof. unfold blen, takeN. intros H. rewrite firstn_length. lia. Qed.

Lemma blen_dropN {A} (n : N) (l : list A) : blen (dropN n l) = blen l - n.
Proof. unfold blen, dropN. rewrite skipn_length. lia. Qed.

Lemma takeN_dropN {A} (n : N) (l : list A) : takeN n l ++ dropN n l = l.
Proof. unfold takeN, dropN. apply firstn_skipn. Qed.

Lemma length_dropN {A} (n : N) (l : list A) : length (dropN n l) = (length l - N.to_nat n)%nat.
Proof. unfold dropN. apply skipn_length. Qed.

Lemma skipn_skipn' {A} (a b : nat) (l : list A) : skipn a (skipn b l) = skipn (b + a) l.
Proof.
  revert l. induction b as [|b IH]; intros l.
  - reflexivity.
  - destruct l as [|x l].
    + cbn [Nat.add]. rewrite !skipn_nil. reflexivity.
    + cbn [Nat.add skipn]. apply IH.
Qed.

Lemma length_xor_cyc (bs : bytes) : forall k, length (xor_cyc k bs) = length bs.
Proof. induction bs as [|b r IH]; intros k; cbn [xor_cyc length]; [reflexivity | now rewrite IH]. Qed.

Lemma blen_apply_mask (k : key) (bs : bytes) : blen (apply_mask k bs) = blen bs.
Proof. unfold apply_mask, blen. now rewrite length_xor_cyc. Qed.

(* ------------------------------------------------------------------ *)
(** * Header parsing: no panic arm is reachable, consumed bytes *)

Lemma land15_lt (a : N) : N.land a 15 < 16.
Proof.
  change 15 with (N.ones 4). rewrite N.land_ones. change (2 ^ 4) with 16.
  apply N.mod_lt. discriminate.
Qed.

Lemma opcode_of_u8_some (b : N) : b < 16 -> opcode_of_u8 b <> None.
Proof.
  intros Hb. unfold opcode_of_u8.
  repeat match goal with
  | |- context [if ?c then _ else _] => destruct c eqn:?; [discriminate|]
  end.
  lia.
Qed.

Lemma lf_extra_for_byte (b : N) :
  lf_extra (lf_for_byte b) = 0 \/ lf_extra (lf_for_byte b) = 2 \/ lf_extra (lf_for_byte b) = 8.
Proof.
  unfold lf_for_byte. destruct (b =? 126); [right; left; reflexivity|].
  destruct (b =? 127); [right; right; reflexivity | left; reflexivity].
Qed.

Lemma header_parse_no_panic (bs : bytes) : header_parse bs <> PPanic.
Proof.
  unfold header_parse.
  destruct bs as [|first [|second r]]; try discriminate.
  destruct (opcode_of_u8 (N.land first 15)) as [opc|] eqn:Eo.
  2:{ exfalso. eapply opcode_of_u8_some; [apply land15_lt | exact Eo]. }
  set (ll := lf_extra (lf_for_byte (N.land second 127))).
  assert (Hll : ll <= 8) by (subst ll; destruct (lf_extra_for_byte (N.land second 127)) as [H|[H|H]]; rewrite H; lia).
  destruct (8 <? ll) eqn:E8; [lia|].
  destruct (blen r <? ll); [discriminate|].
  destruct (bit second 128).
  - destruct (dropN ll r) as [|a [|b [|c0 [|d r']]]]; try discriminate.
    destruct (is_reserved opc); discriminate.
  - destruct (is_reserved opc); discriminate.
Qed.

(* a parsed header consumes at least its two fixed bytes *)
Lemma header_parse_ok_consumed (bs : bytes) h len k :
  header_parse bs = POk h len k -> 2 <= k /\ bs <> [].
Proof.
  unfold header_parse.
  destruct bs as [|first [|second r]]; try discriminate.
  destruct (opcode_of_u8 (N.land first 15)) as [opc|]; [|discriminate].
  set (ll := lf_extra (lf_for_byte (N.land second 127))).
  destruct (8 <? ll); [discriminate|].
  destruct (blen r <? ll); [discriminate|].
  destruct (bit second 128).
  - destruct (dropN ll r) as [|a [|b [|c0 [|d r']]]]; try discriminate.
    destruct (is_reserved opc); [discriminate|].
    intros H; inversion H; subst. split; [lia|discriminate].
  - destruct (is_reserved opc); [discriminate|].
    intros H; inversion H; subst. split; [lia|discriminate].
Qed.

(* ------------------------------------------------------------------ *)
(** * try_take *)

Definition after_parse (c : codec) : res codec :=
  match c_hdr c with
  | Some _ => ROk c
  | None =>
      match header_parse (c_in c) with
      | POk h len k => ROk (set_hdr (set_in c (dropN k (c_in c))) (Some (h, len)))
      | PIncomplete => ROk c
      | PErr i => RErr (EProtocol (InvalidOpcode i))
      | PPanic => RPanic site_opcode_range
      end
  end.

Lemma try_take_eq (mx : N) (c : codec) :
  try_take mx c =
  match after_parse c with
  | ROk c1 =>
      match c_hdr c1 with
      | Some (h, len) =>
          if mx <? len then TkErr (ECapacity len mx) c1
          else if len <=? blen (c_in c1) then
            TkPayload h len (takeN len (c_in c1)) (set_hdr (set_in c1 (dropN len (c_in c1))) None)
          else TkNeedMore len c1
      | None => TkNeedMore 6 c1
      end
  | RErr e => TkErr e c
  | RPanic s => TkPanic s
  | ROutOfFuel => TkPanic 0
  end.
Proof. reflexivity. Qed.

Inductive ap_spec (c : codec) : res codec -> Prop :=
| ap_held : forall hl, c_hdr c = Some hl -> ap_spec c (ROk c)
| ap_incomplete : c_hdr c = None -> header_parse (c_in c) = PIncomplete -> ap_spec c (ROk c)
| ap_parsed : forall h len k, c_hdr c = None -> header_parse (c_in c) = POk h len k ->
    ap_spec c (ROk (set_hdr (set_in c (dropN k (c_in c))) (Some (h, len))))
| ap_err : forall i, c_hdr c = None -> header_parse (c_in c) = PErr i ->
    ap_spec c (RErr (EProtocol (InvalidOpcode i))).

Lemma after_parse_spec (c : codec) : ap_spec c (after_parse c).
Proof.
  unfold after_parse. destruct (c_hdr c) as [hl|] eqn:Eh.
  - eapply ap_held; eassumption.
  - destruct (header_parse (c_in c)) as [h len k| |i|] eqn:Ep.
    + apply ap_parsed; assumption.
    + apply ap_incomplete; assumption.
    + apply ap_err; assumption.
    + exfalso. eapply header_parse_no_panic; eassumption.
Qed.

(* the codec invariant: a held header always announces a non-empty payload (a zero-length frame is
   completed in the very pass that parses its header) *)
Definition hdr_pos (c : codec) : Prop :=
  forall h len, c_hdr c = Some (h, len) -> 0 < len.

Inductive tk_spec (mx : N) (c : codec) : take_res -> Prop :=
| tk_payload : forall h len p c',
    blen p = len -> len <= mx -> c_hdr c' = None ->
    c_out c' = c_out c -> c_max_out c' = c_max_out c -> c_write_len c' = c_write_len c ->
    (length (c_in c') <= length (c_in c))%nat ->
    (hdr_pos c -> (length (c_in c') < length (c_in c))%nat) ->
    tk_spec mx c (TkPayload h len p c')
| tk_needmore : forall n c',
    n <= N.max mx 6 ->
    (hdr_pos c -> hdr_pos c') ->
    (length (c_in c') <= length (c_in c))%nat ->
    c_out c' = c_out c -> c_max_out c' = c_max_out c -> c_write_len c' = c_write_len c ->
    tk_spec mx c (TkNeedMore n c')
| tk_err : forall e c',
    (hdr_pos c -> hdr_pos c') ->
    (length (c_in c') <= length (c_in c))%nat ->
    c_out c' = c_out c -> c_max_out c' = c_max_out c -> c_write_len c' = c_write_len c ->
    (forall sz m, e = ECapacity sz m -> m = mx /\ mx < sz /\ exists h, c_hdr c' = Some (h, sz)) ->
    tk_spec mx c (TkErr e c').

Lemma try_take_spec (mx : N) (c : codec) : tk_spec mx c (try_take mx c).
Proof.
  rewrite try_take_eq.
  destruct (after_parse_spec c) as [hl Eh | Eh Ep | h len k Eh Ep | i Eh Ep].
  - (* header held *)
    rewrite Eh. destruct hl as [h len].
    destruct (mx <? len) eqn:E1.
    + apply tk_err; auto. intros sz m H; inversion H; subst. split; [reflexivity|split; [lia|eauto]].
    + destruct (len <=? blen (c_in c)) eqn:E2.
      * apply tk_payload; cbn [c_hdr c_in c_out c_max_out c_write_len set_hdr set_in]; auto.
        -- apply blen_takeN_exact. lia.
        -- lia.
        -- rewrite length_dropN. lia.
        -- intros Hp. specialize (Hp h len Eh). rewrite length_dropN. unfold blen in E2. lia.
      * apply tk_needmore; auto. lia.
  - rewrite Eh. apply tk_needmore; auto. lia.
  - cbn [c_hdr c_in set_hdr set_in].
    destruct (header_parse_ok_consumed _ _ _ _ Ep) as [Hk Hne].
    assert (Hlt : (length (dropN k (c_in c)) < length (c_in c))%nat).
    { rewrite length_dropN. destruct (c_in c); [congruence|]. cbn [length]. lia. }
    destruct (mx <? len) eqn:E1.
    + apply tk_err; cbn [c_hdr c_in c_out c_max_out c_write_len set_hdr set_in]; auto.
      * intros _ h' len' H; inversion H; subst. lia.
      * lia.
      * intros sz m H; inversion H; subst. split; [reflexivity|split; [lia|eauto]].
    + destruct (len <=? blen (dropN k (c_in c))) eqn:E2.
      * apply tk_payload; cbn [c_hdr c_in c_out c_max_out c_write_len set_hdr set_in]; auto.
        -- apply blen_takeN_exact. lia.
        -- lia.
        -- rewrite length_dropN. lia.
        -- intros _. rewrite length_dropN. lia.
      * apply tk_needmore; cbn [c_hdr c_in c_out c_max_out c_write_len set_hdr set_in]; auto.
        -- lia.
        -- intros _ h' len' H; inversion H; subst. lia.
        -- lia.
  - apply tk_err; auto. intros sz m H; discriminate H.
Qed.

(* ====================================================================== *)
(* part 2: read_frame_loop / read_frame *)


Definition good {A} (r : res A) : Prop :=
  match r with RPanic _ | ROutOfFuel => False | _ => True end.

(* events a read_frame call may emit: reservations within the bound, and transport reads *)
Definition rd_ev (mx : N) (e : event) : Prop :=
  match e with EvReserve n => n <= N.max mx 6 | EvRead _ => True | _ => False end.

(* the reservation bound on an arbitrary event *)
Definition rsv_ok (mx : N) (e : event) : Prop :=
  match e with EvReserve n => n <= N.max mx 6 | _ => True end.

Lemma rd_ev_rsv_ok mx e : rd_ev mx e -> rsv_ok mx e.
Proof. destruct e; cbn; auto. Qed.

Lemma rfl_eq mx rds c log :
  read_frame_loop mx rds c log =
  match try_take mx c with
  | TkPayload h len p c' => (ROk (Some (h, len, p)), c', rds, log)
  | TkErr e c' => (RErr e, c', rds, log)
  | TkPanic s => (RPanic s, c, rds, log)
  | TkNeedMore n c' =>
      let log1 := log ++ [EvReserve n] in
      match rds with
      | [] => (RErr (EIo WouldBlock), c', [], log1 ++ [EvRead (RdErr WouldBlock)])
      | RdData [] :: r => (ROk None, c', r, log1 ++ [EvRead RdEof])
      | RdData bs :: r => read_frame_loop mx r (set_in c' (c_in c' ++ bs)) (log1 ++ [EvRead (RdData bs)])
      | RdEof :: r => (ROk None, c', r, log1 ++ [EvRead RdEof])
      | RdErr k :: r => (RErr (EIo k), c', r, log1 ++ [EvRead (RdErr k)])
      end
  end.
Proof. destruct rds; reflexivity. Qed.

Definition meas (c : codec) (rds : list rd_out) : nat := (length (c_in c) + rd_bytes rds)%nat.

Record rfl_post (mx : N) (rds : list rd_out) (c : codec) (log : list event)
  (r : res (option (header * N * bytes))) (c' : codec) (rds' : list rd_out) (log' : list event) : Prop := {
  rp_trace : exists used evs, rds = used ++ rds' /\ log' = log ++ evs /\ Forall (rd_ev mx) evs /\
     ((length evs = 2 * length used)%nat \/
      (rds' = [] /\ r = RErr (EIo WouldBlock) /\ length evs = 2 * length used + 2)%nat);
  rp_inv : hdr_pos c -> hdr_pos c';
  rp_meas : (meas c' rds' <= meas c rds)%nat;
  rp_out : c_out c' = c_out c /\ c_max_out c' = c_max_out c /\ c_write_len c' = c_write_len c;
  rp_good : good r;
  rp_frame : forall h len p, r = ROk (Some (h, len, p)) ->
     blen p = len /\ len <= mx /\ c_hdr c' = None /\ (hdr_pos c -> (meas c' rds' < meas c rds)%nat);
  rp_cap : forall sz m, r = RErr (ECapacity sz m) -> m = mx /\ mx < sz /\ exists h, c_hdr c' = Some (h, sz) }.

Lemma Forall2ev mx n r : n <= N.max mx 6 -> Forall (rd_ev mx) [EvReserve n; EvRead r].
Proof. intros H. repeat constructor. exact H. Qed.

Lemma rd_bytes_app a b : rd_bytes (a ++ b) = (rd_bytes a + rd_bytes b)%nat.
Proof. induction a as [|[bs| |k] a IH]; cbn [rd_bytes app]; lia. Qed.

Lemma rfl_spec mx : forall rds c log r c' rds' log',
  read_frame_loop mx rds c log = (r, c', rds', log') -> rfl_post mx rds c log r c' rds' log'.
Proof.
  assert (Hpay : forall rds c log r c' rds' log' h len p c1,
     tk_spec mx c (TkPayload h len p c1) ->
     (ROk (Some (h, len, p)), c1, rds, log) = (r, c', rds', log') -> rfl_post mx rds c log r c' rds' log').
  { intros rds c log r c' rds' log' h len p c1 Hs H. inversion H; subst; clear H.
    inversion Hs as [h0 len0 p0 c0 Hp Hle Hh Ho1 Ho2 Ho3 Hm Hm2| |]; subst.
    constructor.
    - exists [], []. rewrite app_nil_r. repeat split; auto.
    - intros _ h1 len1 E. congruence.
    - unfold meas. lia.
    - auto.
    - exact I.
    - intros h1 len1 p1 H; inversion H; subst. repeat split; auto. intros Hp. specialize (Hm2 Hp). unfold meas; lia.
    - intros sz m H; discriminate H. }
  assert (Herr : forall rds c log r c' rds' log' e c1,
     tk_spec mx c (TkErr e c1) ->
     (RErr e, c1, rds, log) = (r, c', rds', log') -> rfl_post mx rds c log r c' rds' log').
  { intros rds c log r c' rds' log' e c1 Hs H. inversion H; subst; clear H.
    inversion Hs as [|  | e0 c0 Hi Hm Ho1 Ho2 Ho3 Hc]; subst.
    constructor.
    - exists [], []. rewrite app_nil_r. repeat split; auto.
    - exact Hi.
    - unfold meas. lia.
    - auto.
    - exact I.
    - intros h1 len1 p1 H; discriminate H.
    - intros sz m H; inversion H; subst. apply Hc. reflexivity. }
  assert (Hstop : forall rds c log n c1 (r : res (option (header * N * bytes))) rd rds' used,
     tk_spec mx c (TkNeedMore n c1) -> rds = used ++ rds' -> rd_bytes used = O ->
     (length used = 1%nat \/ (used = [] /\ rds' = [] /\ r = RErr (EIo WouldBlock))) ->
     good r -> (forall x, r <> ROk (Some x)) -> (forall sz m, r <> RErr (ECapacity sz m)) ->
     rfl_post mx rds c log r c1 rds' ((log ++ [EvReserve n]) ++ [EvRead rd])).
  { intros rds c log n c1 r rd rds' used Hs E Hu Hl Hg Hnf Hnc.
    inversion Hs as [| n0 c0 Hn Hi Hm Ho1 Ho2 Ho3 |]; subst.
    constructor.
    - exists used, [EvReserve n; EvRead rd]. rewrite <- app_assoc.
      repeat split; auto using Forall2ev.
      destruct Hl as [Hl|[Hl1 [Hl2 Hl3]]]; [left; rewrite Hl; reflexivity | right; subst; repeat split; auto].
    - exact Hi.
    - unfold meas. rewrite rd_bytes_app. lia.
    - auto.
    - exact Hg.
    - intros h1 len1 p1 H; exfalso; eapply Hnf; eassumption.
    - intros sz m H; exfalso; eapply Hnc; eassumption. }
  induction rds as [|rd rds IH]; intros c log r c' rds' log'; rewrite rfl_eq;
    pose proof (try_take_spec mx c) as Hs;
    destruct (try_take mx c) as [h len p c1 | n c1 | e c1 | s];
    try (intros H; eapply Hpay; eassumption);
    try (intros H; eapply Herr; eassumption);
    try (exfalso; inversion Hs; fail); cbv zeta.
  - (* oracle exhausted: WouldBlock *)
    intros H; inversion H; subst; clear H.
    eapply Hstop with (used := []); eauto; try exact I; try discriminate.
  - destruct rd as [[|b bs]| |k].
    + (* Ok(0) *)
      intros H; inversion H; subst; clear H.
      eapply Hstop with (used := [RdData []]); eauto; try exact I; try discriminate.
    + (* data: loop *)
      inversion Hs as [| n0 c0 Hn Hi Hm Ho1 Ho2 Ho3 |]; subst.
      intros H. apply IH in H. destruct H as [Ht Hinv Hme Hout Hg Hf Hc].
      assert (Hlen : length (c_in (set_in c1 (c_in c1 ++ b :: bs))) = (length (c_in c1) + length (b :: bs))%nat)
        by (cbn [c_in set_in]; apply app_length).
      assert (Hp1 : hdr_pos c -> hdr_pos (set_in c1 (c_in c1 ++ b :: bs))).
      { intros Hp h2 len2 E. apply (Hi Hp h2 len2). exact E. }
      constructor.
      * destruct Ht as [used [evs [E1 [E2 [E3 E4]]]]].
        exists (RdData (b :: bs) :: used), ([EvReserve n; EvRead (RdData (b :: bs))] ++ evs).
        split; [cbn [app]; congruence|].
        split; [rewrite E2, <- !app_assoc; reflexivity|].
        split; [apply Forall_app; split; auto using Forall2ev|].
        rewrite app_length. cbn [length]. destruct E4 as [E4|[E4 [E5 E6]]]; [left; lia|right; repeat split; auto; lia].
      * auto.
      * unfold meas in *. cbn [rd_bytes]. lia.
      * cbn [c_out c_max_out c_write_len set_in] in Hout. destruct Hout as [? [? ?]]. repeat split; congruence.
      * exact Hg.
      * intros h1 len1 p1 H. destruct (Hf _ _ _ H) as [F1 [F2 [F3 F4]]]. repeat split; auto.
        intros Hp. unfold meas in *. cbn [rd_bytes]. specialize (F4 (Hp1 Hp)). lia.
      * exact Hc.
    + intros H; inversion H; subst; clear H.
      eapply Hstop with (used := [RdEof]); eauto; try exact I; try discriminate.
    + intros H; inversion H; subst; clear H.
      eapply Hstop with (used := [RdErr k]); eauto; try exact I; try discriminate.
Qed.

(* ------------------------------------------------------------------ *)
(** * read_frame *)

Record rf_post (mx : N) (c : codec) (w : world) (r : res (option frame)) (c' : codec) (w' : world) : Prop := {
  fp_world : w_wrs w' = w_wrs w /\ w_fls w' = w_fls w /\ w_keys w' = w_keys w;
  fp_trace : exists used evs, w_rds w = used ++ w_rds w' /\ w_log w' = w_log w ++ evs /\ Forall (rd_ev mx) evs /\
     ((length evs = 2 * length used)%nat \/
      (w_rds w' = [] /\ r = RErr (EIo WouldBlock) /\ length evs = 2 * length used + 2)%nat);
  fp_inv : hdr_pos c -> hdr_pos c';
  fp_meas : (meas c' (w_rds w') <= meas c (w_rds w))%nat;
  fp_out : c_out c' = c_out c /\ c_max_out c' = c_max_out c /\ c_write_len c' = c_write_len c;
  fp_good : good r;
  fp_frame : forall f, r = ROk (Some f) ->
     blen (f_payload f) <= mx /\ c_hdr c' = None /\ (hdr_pos c -> (meas c' (w_rds w') < meas c (w_rds w))%nat);
  fp_cap : forall sz m, r = RErr (ECapacity sz m) -> m = mx /\ mx < sz /\ exists h, c_hdr c' = Some (h, sz) }.

Lemma read_frame_spec ms um au c w r c' w' :
  read_frame ms um au c w = (r, c', w') -> rf_post (limit_of ms) c w r c' w'.
Proof.
  unfold read_frame.
  destruct (read_frame_loop (limit_of ms) (w_rds w) c (w_log w)) as [[[r0 c0] rds0] log0] eqn:E.
  apply rfl_spec in E. destruct E as [Ht Hinv Hme Hout Hg Hf Hc].
  assert (Hgen : forall r1 : res (option frame),
     good r1 -> (forall f, r1 = ROk (Some f) -> exists h len p, r0 = ROk (Some (h, len, p)) /\ blen (f_payload f) = blen p) ->
     (forall sz m, r1 = RErr (ECapacity sz m) -> r0 = RErr (ECapacity sz m)) ->
     (r1 = RErr (EIo WouldBlock) <-> r0 = RErr (EIo WouldBlock)) ->
     (r1, c0, mkWorld rds0 (w_wrs w) (w_fls w) (w_keys w) log0) = (r, c', w') -> rf_post (limit_of ms) c w r c' w').
  { intros r1 G1 G2 G3 G4 H. inversion H; subst; clear H. constructor; cbn [w_rds w_wrs w_fls w_keys w_log].
    - auto.
    - destruct Ht as [used [evs [E1 [E2 [E3 E4]]]]]. exists used, evs. repeat split; auto.
      destruct E4 as [E4|[E4 [E5 E6]]]; [left; auto|right; repeat split; auto; apply G4; auto].
    - exact Hinv.
    - exact Hme.
    - exact Hout.
    - exact G1.
    - intros f Hf1. destruct (G2 f Hf1) as [h [len [p [Er Ep]]]].
      destruct (Hf _ _ _ Er) as [F1 [F2 [F3 F4]]]. repeat split; auto. lia.
    - intros sz m Hc1. apply Hc. apply G3. exact Hc1. }
  destruct r0 as [[[[h len] p]|]|e|s|].
  - destruct (Hf h len p eq_refl) as [F1 [F2 [F3 F4]]].
    rewrite F1, N.eqb_refl. cbn [negb].
    destruct um.
    + destruct (h_mask h) as [k|].
      * apply Hgen; [exact I| | |split]; try discriminate.
        intros f Ef; inversion Ef; subst. cbn [f_payload]. exists h, (blen p), p. split; auto using blen_apply_mask.
      * destruct au.
        -- apply Hgen; [exact I| | |split]; try discriminate.
           intros f Ef; inversion Ef; subst. cbn [f_payload]. exists h, (blen p), p. split; auto.
        -- apply Hgen; [exact I| | |split]; try discriminate.
    + apply Hgen; [exact I| | |split]; try discriminate.
      intros f Ef; inversion Ef; subst. cbn [f_payload]. exists h, (blen p), p. split; auto.
  - apply Hgen; [exact I| | |split]; try discriminate.
  - apply Hgen; [exact I| | |split]; try discriminate.
    + intros sz m H; inversion H; reflexivity.
    + intros H; inversion H; reflexivity.
    + intros H; inversion H; reflexivity.
  - destruct Hg.
  - destruct Hg.
Qed.

(* ------------------------------------------------------------------ *)
(** * Over-limit header: rejected before any payload is read or reserved *)

Lemma rfl_no_cap_held mx : forall rds c log h len r c' rds' log',
  c_hdr c = Some (h, len) -> len <= mx ->
  read_frame_loop mx rds c log = (r, c', rds', log') ->
  forall sz m, r <> RErr (ECapacity sz m).
Proof.
  induction rds as [|rd rds IH]; intros c log h len r c' rds' log' Eh Hle; rewrite rfl_eq, try_take_eq;
    unfold after_parse; rewrite Eh; cbv iota beta; rewrite Eh;
    (destruct (mx <? len) eqn:E1; [lia|]);
    (destruct (len <=? blen (c_in c)) eqn:E2; [intros H; inversion H; subst; intros ? ?; discriminate|]); cbv zeta.
  - intros H; inversion H; subst; intros ? ?; discriminate.
  - destruct rd as [[|b bs]| |k]; try (intros H; inversion H; subst; intros ? ?; discriminate).
    intros H. eapply (IH _ _ h len); [ | exact Hle | exact H]. exact Eh.
Qed.

Definition hdr_events (used : list bytes) : list event :=
  flat_map (fun bs => [EvReserve 6; EvRead (RdData bs)]) used.

Lemma rfl_capacity_trace mx : forall rds c log sz m c' rds' log',
  c_hdr c = None ->
  read_frame_loop mx rds c log = (RErr (ECapacity sz m), c', rds', log') ->
  exists used h k,
    rds = map RdData used ++ rds' /\
    Forall (fun bs => bs <> []) used /\
    log' = log ++ hdr_events used /\
    header_parse (c_in c ++ concat used) = POk h sz k /\
    m = mx /\ mx < sz /\
    (forall p q, used = p ++ q -> q <> [] -> header_parse (c_in c ++ concat p) = PIncomplete) /\
    c' = mkCodec (dropN k (c_in c ++ concat used)) (c_out c) (c_max_out c) (c_write_len c) (Some (h, sz)).
Proof.
  induction rds as [|rd rds IH]; intros c log sz m c' rds' log' Eh; rewrite rfl_eq, try_take_eq;
    unfold after_parse; rewrite Eh;
    destruct (header_parse (c_in c)) as [h len k| |i|] eqn:Ep;
    try (intros H; inversion H; fail);
    try (exfalso; eapply header_parse_no_panic; eassumption).
  1,3: cbn [c_hdr set_hdr set_in c_in];
    (destruct (mx <? len) eqn:E1;
     [ intros H; inversion H; subst; clear H;
       exists [], h, k; cbn [map concat app hdr_events flat_map]; rewrite !app_nil_r;
       repeat split; auto; try lia;
       intros p q E Hq; destruct p; destruct q; try discriminate; congruence
     | ]);
    (destruct (len <=? blen (dropN k (c_in c))) eqn:E2; [intros H; inversion H|]);
    intros H; exfalso; rewrite <- rfl_eq in H || idtac.
  - cbv zeta in H. inversion H.
  - cbv zeta in H.
    destruct rd as [[|b bs]| |k0]; try (inversion H; fail).
    eapply rfl_no_cap_held in H; [apply H; reflexivity| reflexivity | lia].
  - (* incomplete header, nothing to read *)
    rewrite Eh. cbv zeta. intros H; inversion H.
  - rewrite Eh. cbv zeta.
    destruct rd as [[|b bs]| |k0]; try (intros H; inversion H; fail).
    intros H. apply IH in H; [|exact Eh].
    destruct H as [used [h [k [E1 [E2 [E3 [E4 [E5 [E6 [E7 E8]]]]]]]]]].
    cbn [c_in c_out c_max_out c_write_len set_in] in *.
    exists ((b :: bs) :: used), h, k.
    cbn [map concat hdr_events flat_map]. fold (hdr_events used).
    rewrite <- app_assoc in E4, E8.
    repeat split; auto.
    + cbn [app]. congruence.
    + constructor; [discriminate|exact E2].
    + rewrite E3, <- !app_assoc. reflexivity.
    + intros p q E Hq. destruct p as [|x p].
      * cbn [concat]. rewrite app_nil_r. exact Ep.
      * cbn [app] in E. inversion E; subst. cbn [concat]. rewrite app_assoc. eapply E7; eauto.
Qed.

(* ====================================================================== *)
(* part 3: UTF-8 collector: length bounds and unreachability of the utf-8 crate's panics *)


Ltac step_cases :=
  repeat match goal with
  | H : context [if ?c then _ else _] |- _ => destruct c eqn:?; try discriminate H
  | |- context [if ?c then _ else _] => destruct c eqn:?
  end.

Lemma step_incomplete_len bs : step bs = SIncomplete -> (1 <= length bs <= 3)%nat.
Proof.
  destruct bs as [|b0 [|b1 [|b2 [|b3 r]]]]; unfold step; intros H; step_cases;
    try discriminate H; cbn [length]; lia.
Qed.

Lemma step_extend inc x : step inc = SIncomplete ->
  match step (inc ++ x) with
  | SEmpty => False
  | SChar n => (length inc <= n)%nat
  | SInvalid n => (length inc <= n)%nat
  | SIncomplete => True
  end.
Proof.
  intros H. pose proof (step_incomplete_len _ H) as Hl.
  destruct inc as [|b0 [|b1 [|b2 [|b3 r]]]]; cbn [length] in Hl; try lia; clear Hl;
  destruct x as [|x0 [|x1 [|x2 x]]]; cbn [app]; unfold step in *; step_cases;
    try discriminate H; cbn [length]; try exact I; try lia.
Qed.

(* ------------------------------------------------------------------ *)
(** * from_utf8 *)

Lemma fu_aux_ge : forall fuel pos bs v e, from_utf8_aux fuel pos bs = UErr v e -> pos <= v.
Proof.
  induction fuel as [|f IH]; intros pos bs v e; cbn [from_utf8_aux]; [discriminate|].
  destruct (step bs) as [|n|n|]; try discriminate.
  - intros H. apply IH in H. lia.
  - intros H; inversion H; lia.
  - intros H; inversion H; lia.
Qed.

Lemma fu_aux_incomplete : forall fuel pos bs v, from_utf8_aux fuel pos bs = UErr v None ->
  exists n, v = pos + N.of_nat n /\ step (skipn n bs) = SIncomplete.
Proof.
  induction fuel as [|f IH]; intros pos bs v; cbn [from_utf8_aux]; [discriminate|].
  destruct (step bs) as [|n|n|] eqn:Es; try discriminate.
  - intros H. apply IH in H. destruct H as [n' [E1 E2]].
    exists (n + n')%nat. split; [lia|]. rewrite <- skipn_skipn'. exact E2.
  - intros H; inversion H; subst. exists O. split; [lia|exact Es].
Qed.

Lemma from_utf8_first bs :
  from_utf8 bs =
  match step bs with
  | SEmpty => UOk
  | SChar n => from_utf8_aux (length bs) (N.of_nat n) (skipn n bs)
  | SInvalid n => UErr 0 (Some (N.of_nat n))
  | SIncomplete => UErr 0 None
  end.
Proof.
  unfold from_utf8. cbn [from_utf8_aux]. destruct (step bs); try reflexivity.
Qed.

(* ------------------------------------------------------------------ *)
(** * utf8::decode *)

Lemma dropN_of_nat {A} (n : nat) (l : list A) : dropN (N.of_nat n) l = skipn n l.
Proof. unfold dropN. now rewrite Nat2N.id. Qed.

Lemma blen_take_drop {A} (v : N) (l : list A) : blen (takeN v l) + blen (dropN v l) = blen l.
Proof. rewrite <- blen_app, takeN_dropN. reflexivity. Qed.

Lemma utf8_decode_len input :
  match utf8_decode input with
  | DIncomplete vp suf => blen vp + blen suf = blen input
  | DInvalid vp => blen vp <= blen input
  | _ => True
  end.
Proof.
  unfold utf8_decode. destruct (from_utf8 input) as [|v [l|]]; [exact I| apply blen_takeN_le2 |].
  destruct (4 <? blen (dropN v input)); [exact I|apply blen_take_drop].
Qed.

Lemma utf8_decode_wf input :
  match utf8_decode input with
  | DPanic => False
  | DIncomplete vp suf => step suf = SIncomplete
  | _ => True
  end.
Proof.
  unfold utf8_decode. destruct (from_utf8 input) as [|v [l|]] eqn:E; try exact I.
  unfold from_utf8 in E. apply fu_aux_incomplete in E. destruct E as [n [E1 E2]].
  rewrite N.add_0_l in E1. subst v. rewrite dropN_of_nat.
  pose proof (step_incomplete_len _ E2) as Hl.
  destruct (4 <? blen (skipn n input)) eqn:E4; [unfold blen in E4; lia|exact E2].
Qed.

(* ------------------------------------------------------------------ *)
(** * Incomplete::try_complete *)

Lemma try_complete_len inc input :
  match try_complete inc input with
  | TStill inc' => blen inc' <= blen inc + blen input
  | TDone _ res rest => blen res + blen rest <= blen inc + blen input
  | TPanic => True
  end.
Proof.
  unfold try_complete.
  set (copied := N.min (4 - blen inc) (blen input)).
  set (spliced := inc ++ takeN copied input).
  assert (Hc : copied <= blen input) by (subst copied; lia).
  assert (Hs : blen spliced = blen inc + copied).
  { subst spliced. rewrite blen_app, blen_takeN_exact; auto. }
  assert (Hgen : forall v, v <? blen inc = false ->
            blen (takeN v spliced) + blen (dropN (v - blen inc) input) <= blen inc + blen input).
  { intros v Hv. pose proof (blen_takeN_le v spliced). pose proof (blen_takeN_le2 v spliced).
    rewrite blen_dropN. lia. }
  destruct (from_utf8 spliced) as [|v el].
  - rewrite blen_dropN. lia.
  - destruct (0 <? v).
    + destruct (v <? blen inc) eqn:Ev; [exact I|]. apply Hgen; exact Ev.
    + destruct el as [l|].
      * destruct (l <? blen inc) eqn:El; [exact I|]. apply Hgen; exact El.
      * lia.
Qed.

Lemma try_complete_wf inc input : step inc = SIncomplete ->
  match try_complete inc input with
  | TStill inc' => step inc' = SIncomplete
  | TDone _ _ _ => True
  | TPanic => False
  end.
Proof.
  intros Hi. unfold try_complete.
  set (copied := N.min (4 - blen inc) (blen input)).
  set (x := takeN copied input).
  pose proof (step_extend inc x Hi) as Hx.
  rewrite from_utf8_first.
  destruct (step (inc ++ x)) as [|n|n|] eqn:Es.
  - destruct Hx.
  - destruct (from_utf8_aux (length (inc ++ x)) (N.of_nat n) (skipn n (inc ++ x))) as [|v el] eqn:E; [exact I|].
    apply fu_aux_ge in E.
    destruct (0 <? v) eqn:E0; [|pose proof (step_incomplete_len _ Hi); lia].
    destruct (v <? blen inc) eqn:Ev; [unfold blen in Ev; lia|exact I].
  - replace (0 <? 0) with false by reflexivity.
    destruct (N.of_nat n <? blen inc) eqn:Ev; [unfold blen in Ev; lia|exact I].
  - replace (0 <? 0) with false by reflexivity. exact Es.
Qed.

(* ------------------------------------------------------------------ *)
(** * StringCollector *)

Definition col_wf (c : collector) : Prop :=
  match sc_inc c with Some i => step i = SIncomplete | None => True end.

Definition optlen (o : option bytes) : N := match o with Some i => blen i | None => 0 end.

Lemma collector_len_eq c : collector_len c = blen (sc_data c) + optlen (sc_inc c).
Proof. reflexivity. Qed.

Lemma decode_rest_len data inc input :
  match collector_decode_rest data inc input with
  | COk c' | CErrUtf8 c' => collector_len c' <= blen data + optlen inc + blen input
  | CPanic => True
  end.
Proof.
  unfold collector_decode_rest. destruct input as [|i0 input].
  - rewrite collector_len_eq. cbn [sc_data sc_inc]. lia.
  - pose proof (utf8_decode_len (i0 :: input)) as H.
    destruct (utf8_decode (i0 :: input)) as [|vp suf|vp|]; rewrite ?collector_len_eq; cbn [sc_data sc_inc optlen];
      rewrite ?blen_app; try lia.
Qed.

Lemma decode_rest_wf data input :
  match collector_decode_rest data None input with
  | COk c' | CErrUtf8 c' => col_wf c'
  | CPanic => False
  end.
Proof.
  unfold collector_decode_rest. destruct input as [|i0 input]; [exact I|].
  pose proof (utf8_decode_wf (i0 :: input)) as H.
  destruct (utf8_decode (i0 :: input)) as [|vp suf|vp|]; unfold col_wf; cbn [sc_inc]; auto.
Qed.

Lemma collector_extend_len c tail :
  match collector_extend c tail with
  | COk c' | CErrUtf8 c' => collector_len c' <= collector_len c + blen tail
  | CPanic => True
  end.
Proof.
  unfold collector_extend. rewrite (collector_len_eq c).
  destruct (sc_inc c) as [inc|]; cbn [optlen].
  - pose proof (try_complete_len inc tail) as H.
    destruct (try_complete inc tail) as [inc'|[|] text rest|].
    + rewrite collector_len_eq. cbn [sc_data sc_inc optlen]. lia.
    + pose proof (decode_rest_len (sc_data c ++ text) None rest) as H2.
      destruct (collector_decode_rest (sc_data c ++ text) None rest); auto;
        rewrite blen_app in H2; cbn [optlen] in H2; lia.
    + rewrite collector_len_eq. cbn [sc_data sc_inc optlen]. lia.
    + exact I.
  - pose proof (decode_rest_len (sc_data c) None tail) as H2.
    destruct (collector_decode_rest (sc_data c) None tail); auto; cbn [optlen] in H2; lia.
Qed.

Lemma collector_extend_wf c tail : col_wf c ->
  match collector_extend c tail with
  | COk c' | CErrUtf8 c' => col_wf c'
  | CPanic => False
  end.
Proof.
  unfold collector_extend, col_wf at 1. destruct (sc_inc c) as [inc|].
  - intros Hi. pose proof (try_complete_wf inc tail Hi) as H.
    destruct (try_complete inc tail) as [inc'|[|] text rest|].
    + unfold col_wf. cbn [sc_inc]. exact H.
    + apply decode_rest_wf.
    + exact I.
    + exact H.
  - intros _. apply decode_rest_wf.
Qed.

Lemma into_string_len c s : collector_into_string c = Some s -> blen s <= collector_len c.
Proof.
  unfold collector_into_string. rewrite collector_len_eq.
  destruct (sc_inc c); [discriminate|]. intros H; inversion H; subst. lia.
Qed.

(* ------------------------------------------------------------------ *)
(** * IncompleteMessage *)

Definition inc_wf (m : incmsg) : Prop := match m with ITxt c => col_wf c | IBin _ => True end.

Record ext_post (m : incmsg) (tail : bytes) (M : N) (r : res unit) (m' : incmsg) : Prop := {
  ep_acc : incmsg_len m <= M -> incmsg_len m' <= M;
  ep_ok : r = ROk tt -> incmsg_len m' <= M;
  ep_wf : inc_wf m -> inc_wf m';
  ep_fuel : r <> ROutOfFuel;
  ep_panic : forall s, r = RPanic s ->
     (s = site_overflow /\ two64 <= incmsg_len m + blen tail) \/ (s = site_utf8_checked_sub /\ ~ inc_wf m);
  ep_cap : forall sz mx, r = RErr (ECapacity sz mx) -> mx = M /\ M < sz /\ sz = incmsg_len m + blen tail;
  ep_over : M < incmsg_len m + blen tail -> incmsg_len m + blen tail < two64 ->
     r = RErr (ECapacity (incmsg_len m + blen tail) M) /\ m' = m }.

Lemma incmsg_extend_spec m tail M r m' :
  incmsg_extend m tail (Some M) = (r, m') -> ext_post m tail M r m'.
Proof.
  unfold incmsg_extend. cbn [limit_of].
  destruct ((M <? incmsg_len m) || (M - incmsg_len m <? blen tail)) eqn:Eo.
  - destruct (two64 <=? incmsg_len m + blen tail) eqn:Ev; intros H; inversion H; subst; clear H;
      constructor; auto; try discriminate; try lia.
    + intros s Hs; inversion Hs; subst. left. split; [reflexivity|lia].
    + intros sz mx Hs; inversion Hs; subst. repeat split; lia.
  - assert (Hsum : incmsg_len m + blen tail <= M) by lia.
    destruct m as [c|v].
    + cbn [incmsg_len] in *.
      pose proof (collector_extend_len c tail) as Hl.
      pose proof (collector_extend_wf c tail) as Hw.
      destruct (collector_extend c tail) as [c'|c'|]; intros H; inversion H; subst; clear H;
        constructor; cbn [incmsg_len inc_wf]; auto; try discriminate; try lia.
      intros s Hs; inversion Hs; subst. right. split; [reflexivity|]. exact Hw.
    + cbn [incmsg_len] in *. intros H; inversion H; subst; clear H.
      constructor; cbn [incmsg_len inc_wf]; auto; try discriminate; rewrite ?blen_app; try lia.
Qed.

(* ====================================================================== *)
(* part 4: the write path leaves the read side alone and never panics *)


(* outcome of a write-path call: a value or an error, never a panic, never a capacity error *)
Definition wgood {A} (r : res A) : Prop :=
  match r with RPanic _ | ROutOfFuel | RErr (ECapacity _ _) => False | _ => True end.

Lemma wgood_good {A} (r : res A) : wgood r -> good r.
Proof. destruct r as [a|e|s|]; cbn; auto. Qed.

Lemma wgood_nocap {A} (r : res A) sz mx : wgood r -> r <> RErr (ECapacity sz mx).
Proof. intros H E; subst; exact H. Qed.

Definition logok (F : N) (w : world) : Prop := Forall (rsv_ok F) (w_log w).

Definition ckeep (F : N) (c : codec) (w : world) (c' : codec) (w' : world) : Prop :=
  c_in c' = c_in c /\ c_hdr c' = c_hdr c /\ w_rds w' = w_rds w /\ (logok F w -> logok F w').

Definition keep (F : N) (x : ctx) (w : world) (x' : ctx) (w' : world) : Prop :=
  x_cfg x' = x_cfg x /\ x_incomplete x' = x_incomplete x /\
  c_in (x_codec x') = c_in (x_codec x) /\ c_hdr (x_codec x') = c_hdr (x_codec x) /\
  w_rds w' = w_rds w /\ (logok F w -> logok F w').

Lemma Forall_snoc {A} (P : A -> Prop) l a : Forall P l -> P a -> Forall P (l ++ [a]).
Proof. intros H1 H2. apply Forall_app. split; [exact H1|repeat constructor; exact H2]. Qed.

Lemma write_out_loop_spec F : forall wrs out log r out' wrs' log',
  write_out_loop wrs out log = (r, out', wrs', log') ->
  wgood r /\ (Forall (rsv_ok F) log -> Forall (rsv_ok F) log').
Proof.
  induction wrs as [|wr wrs IH]; intros out log r out' wrs' log'; destruct out as [|o out]; cbn [write_out_loop].
  - intros H; inversion H; subst. split; [exact I|auto].
  - intros H; inversion H; subst. split; [exact I|]. intros HF. apply Forall_snoc; [exact HF|exact I].
  - intros H; inversion H; subst. split; [exact I|auto].
  - destruct wr as [n|k].
    + destruct (N.min n (blen (o :: out)) =? 0).
      * intros H; inversion H; subst. split; [exact I|]. intros HF. apply Forall_snoc; [exact HF|exact I].
      * intros H. apply IH in H. destruct H as [H1 H2]. split; [exact H1|].
        intros HF. apply H2. apply Forall_snoc; [exact HF|exact I].
    + intros H; inversion H; subst. split; [exact I|]. intros HF. apply Forall_snoc; [exact HF|exact I].
Qed.

Lemma write_out_buffer_spec F c w r c' w' :
  write_out_buffer c w = (r, c', w') -> wgood r /\ ckeep F c w c' w'.
Proof.
  unfold write_out_buffer.
  destruct (write_out_loop (w_wrs w) (c_out c) (w_log w)) as [[[r0 out0] wrs0] log0] eqn:E.
  apply (write_out_loop_spec F) in E. destruct E as [E1 E2].
  intros H; inversion H; subst. split; [exact E1|].
  unfold ckeep, logok. cbn [c_in c_hdr set_out w_rds w_log]. tauto.
Qed.

Lemma codec_buffer_frame_spec F c f w r c' w' :
  codec_buffer_frame c f w = (r, c', w') -> wgood r /\ ckeep F c w c' w'.
Proof.
  unfold codec_buffer_frame.
  destruct (c_max_out c <? frame_len f + blen (c_out c)).
  - intros H; inversion H; subst. split; [exact I|]. unfold ckeep; tauto.
  - assert (Hq : logok F w -> logok F (w_emit w (EvQueue f))).
    { unfold logok, w_emit. cbn [w_log]. intros HF. apply Forall_snoc; [exact HF|exact I]. }
    destruct (c_write_len c <? blen (c_out (set_out c (frame_format_into_buf (c_out c) f)))).
    + intros H. apply (write_out_buffer_spec F) in H. destruct H as [H1 [H2 [H3 [H4 H5]]]].
      split; [exact H1|]. unfold ckeep. cbn [c_in c_hdr set_out w_rds w_emit] in *. tauto.
    + intros H; inversion H; subst. split; [exact I|]. unfold ckeep. cbn [c_in c_hdr set_out w_rds w_emit]. tauto.
Qed.

Lemma w_next_key_spec F w k w' : w_next_key w = (k, w') -> w_rds w' = w_rds w /\ (logok F w -> logok F w').
Proof.
  unfold w_next_key. destruct (w_keys w); intros H; inversion H; subst; unfold logok; cbn [w_rds w_log]; auto.
Qed.

Lemma ccr_good {A} (r : res A) s r' s' : check_connection_reset r s = (r', s') -> wgood r -> wgood r'.
Proof.
  unfold check_connection_reset.
  destruct r as [a|[| |[| | |]| | | |]|n|]; try (intros H; inversion H; subst; auto; fail).
  destruct (closing_done s); intros H; inversion H; subst; auto.
Qed.

Ltac keep_solve :=
  unfold keep, ckeep, set_codec, set_state, set_incomplete, set_additional_raw, set_unflushed in *;
  cbn [x_cfg x_incomplete x_codec x_role x_state x_additional x_unflushed] in *;
  intuition (try congruence).

Lemma keep_refl F x w : keep F x w x w.
Proof. keep_solve. Qed.

Lemma buffer_frame_spec F x f w r x' w' :
  buffer_frame x f w = (r, x', w') -> wgood r /\ keep F x w x' w'.
Proof.
  unfold buffer_frame.
  destruct (x_role x).
  - destruct (codec_buffer_frame (x_codec x) f w) as [[r0 c0] w0] eqn:E.
    apply (codec_buffer_frame_spec F) in E. destruct E as [E1 E2].
    destruct (check_connection_reset r0 (x_state x)) as [r1 s1] eqn:Ec.
    apply ccr_good in Ec; [|exact E1].
    intros H; inversion H; subst. split; [exact Ec|]. keep_solve.
  - destruct (w_next_key w) as [k wk] eqn:Ek. apply (w_next_key_spec F) in Ek.
    match goal with |- context [codec_buffer_frame ?c ?g ?ww] =>
      destruct (codec_buffer_frame c g ww) as [[r0 c0] w0] eqn:E end.
    apply (codec_buffer_frame_spec F) in E. destruct E as [E1 E2].
    destruct (check_connection_reset r0 (x_state x)) as [r1 s1] eqn:Ec.
    apply ccr_good in Ec; [|exact E1].
    intros H; inversion H; subst. split; [exact Ec|]. keep_solve.
Qed.

Lemma set_additional_cases x f :
  set_additional x f = x \/ set_additional x f = set_additional_raw x (Some f).
Proof.
  unfold set_additional. destruct (x_additional x) as [g|]; [|right; reflexivity].
  destruct (opcode_eqb (h_opcode (f_hdr g)) (OCtl Pong)); [right|left]; reflexivity.
Qed.

Lemma set_additional_keep F x f w : keep F x w (set_additional x f) w.
Proof. destruct (set_additional_cases x f) as [E|E]; rewrite E; keep_solve. Qed.

Lemma keep_trans F x w x1 w1 x2 w2 : keep F x w x1 w1 -> keep F x1 w1 x2 w2 -> keep F x w x2 w2.
Proof. keep_solve. Qed.

Lemma write__spec F x data w r x' w' :
  write_ x data w = (r, x', w') -> wgood r /\ keep F x w x' w'.
Proof.
  unfold write_.
  assert (HA : exists r0 x0 w0,
    match data with Some f => buffer_frame x f w | None => (ROk tt, x, w) end = (r0, x0, w0) /\
    wgood r0 /\ keep F x w x0 w0).
  { destruct data as [f|].
    - destruct (buffer_frame x f w) as [[r0 x0] w0] eqn:E. apply (buffer_frame_spec F) in E.
      exists r0, x0, w0. tauto.
    - exists (ROk tt), x, w. split; [reflexivity|split; [exact I|apply keep_refl]]. }
  destruct HA as [r0 [x0 [w0 [EA [GA KA]]]]]. rewrite EA. clear EA.
  destruct r0 as [u|e|s|]; try (intros H; inversion H; subst; split; [exact GA || exact I|exact KA]; fail).
  assert (HB : exists r1 x1 w1,
    match x_additional x0 with
    | Some msg =>
        let '(rb, xb, wb) := buffer_frame (set_additional_raw x0 None) msg w0 in
        match rb with
        | RErr (EWriteBufferFull f') => (ROk false, set_additional xb f', wb)
        | RErr e => (RErr e, set_unflushed xb true, wb)
        | RPanic s => (RPanic s, xb, wb)
        | ROutOfFuel => (ROutOfFuel, xb, wb)
        | ROk _ => (ROk true, set_unflushed xb true, wb)
        end
    | None => (ROk (x_unflushed x0), x0, w0)
    end = (r1, x1, w1) /\ wgood r1 /\ keep F x0 w0 x1 w1).
  { destruct (x_additional x0) as [msg|].
    - destruct (buffer_frame (set_additional_raw x0 None) msg w0) as [[rb xb] wb] eqn:E.
      apply (buffer_frame_spec F) in E. destruct E as [E1 E2].
      assert (K0 : keep F x0 w0 xb wb) by (revert E2; clear; keep_solve).
      assert (K0u : keep F x0 w0 (set_unflushed xb true) wb) by (revert E2; clear; keep_solve).
      destruct rb as [u'|e|s|].
      + eexists _, _, _. split; [reflexivity|split; [exact I|exact K0u]].
      + destruct e; try (destruct E1; fail); try (eexists _, _, _; split; [reflexivity|split; [exact I|exact K0u]]; fail).
        eexists _, _, _. split; [reflexivity|split; [exact I|]].
        eapply keep_trans; [exact K0|apply set_additional_keep].
      + destruct E1.
      + destruct E1.
    - eexists _, _, _. split; [reflexivity|split; [exact I|apply keep_refl]]. }
  destruct HB as [r1 [x1 [w1 [EB [GB KB]]]]]. rewrite EB. clear EB.
  pose proof (keep_trans _ _ _ _ _ _ _ KA KB) as K1.
  destruct r1 as [sf|e|s|]; try (intros H; inversion H; subst; split; [exact GB || exact I|exact K1]; fail).
  destruct (role_eqb (x_role x1) Server && closing_done (x_state x1) &&
            match x_additional x1 with Some _ => false | None => true end).
  - destruct (write_out_buffer (x_codec x1) w1) as [[rw c'] w2] eqn:E.
    apply (write_out_buffer_spec F) in E. destruct E as [E1 E2].
    destruct rw as [u'|e|s|]; intros H; inversion H; subst; (split; [exact I || exact E1|]);
      revert K1 E2; clear; keep_solve.
  - intros H; inversion H; subst. split; [exact I|exact K1].
Qed.

Lemma w_flush_spec F w r w' : w_flush w = (r, w') -> wgood r /\ w_rds w' = w_rds w /\ (logok F w -> logok F w').
Proof.
  unfold w_flush, logok.
  destruct (w_fls w) as [|[|k] fl]; intros H; inversion H; subst; cbn [w_rds w_log w_emit w_set_fls];
    (split; [exact I|split; [reflexivity|intros HF; apply Forall_snoc; [exact HF|exact I]]]).
Qed.

Lemma flush_spec F x w r x' w' :
  flush x w = (r, x', w') -> wgood r /\ keep F x w x' w'.
Proof.
  unfold flush.
  destruct (write_ x None w) as [[r0 x0] w0] eqn:E0. apply (write__spec F) in E0. destruct E0 as [G0 K0].
  destruct r0 as [u|e|s|]; try (intros H; inversion H; subst; split; [exact G0 || exact I|exact K0]; fail).
  destruct (write_out_buffer (x_codec x0) w0) as [[r1 c1] w1] eqn:E1.
  apply (write_out_buffer_spec F) in E1. destruct E1 as [G1 K1].
  destruct r1 as [u1|e|s|]; try (intros H; inversion H; subst; split; [exact G1 || exact I|]; revert K0 K1; clear; keep_solve; fail).
  destruct (w_flush w1) as [r2 w2] eqn:E2. apply (w_flush_spec F) in E2. destruct E2 as [G2 [R2 L2]].
  destruct r2 as [u2|e|s|]; intros H; inversion H; subst; (split; [exact G2 || exact I|]);
    revert K0 K1 R2 L2; clear; keep_solve.
Qed.

Lemma close_spec F x code w r x' w' :
  close x code w = (r, x', w') -> wgood r /\ keep F x w x' w'.
Proof.
  unfold close.
  destruct (x_state x); intros H; apply (flush_spec F) in H; destruct H as [G K]; (split; [exact G|]);
    revert K; clear; keep_solve.
Qed.

Lemma write_spec F x m w r x' w' :
  write x m w = (r, x', w') -> wgood r /\ keep F x w x' w'.
Proof.
  unfold write.
  destruct (is_terminated (x_state x)); [intros H; inversion H; subst; split; [exact I|apply keep_refl]|].
  destruct (negb (is_active (x_state x))); [intros H; inversion H; subst; split; [exact I|apply keep_refl]|].
  assert (Hdata : forall f,
    (let '(r, x1, w1) := write_ x (Some f) w in
     match r with
     | ROk true => flush x1 w1
     | ROk false => (ROk tt, x1, w1)
     | RErr e => (RErr e, x1, w1)
     | RPanic s => (RPanic s, x1, w1)
     | ROutOfFuel => (ROutOfFuel, x1, w1)
     end) = (r, x', w') -> wgood r /\ keep F x w x' w').
  { intros f. destruct (write_ x (Some f) w) as [[r0 x0] w0] eqn:E0.
    apply (write__spec F) in E0. destruct E0 as [G0 K0].
    destruct r0 as [[|]|e|s|]; try (intros H; inversion H; subst; split; [exact G0 || exact I|exact K0]; fail).
    intros H. apply (flush_spec F) in H. destruct H as [G K]. split; [exact G|].
    eapply keep_trans; eassumption. }
  destruct m as [d|d|d|d|code|f]; try apply Hdata.
  - destruct (write_ (set_additional x (frame_pong d)) None w) as [[r0 x0] w0] eqn:E0.
    apply (write__spec F) in E0. destruct E0 as [G0 K0].
    assert (K : keep F x w x0 w0) by (eapply keep_trans; [apply set_additional_keep|exact K0]).
    destruct r0 as [u|e|s|]; intros H; inversion H; subst; (split; [exact G0 || exact I|exact K]).
  - apply close_spec.
Qed.

(* ====================================================================== *)
(* part 5: read_message_frame / read / run_ops *)


(* the part of read_message_frame that handles a frame returned by read_frame (verbatim copy of
   the `ROk (Some f)` arm; tied to the model by rmf_eq below, proved by reflexivity) *)
Definition dispatch (x1 : ctx) (f : frame) (w1 : world) : res (option message) * ctx * world :=
      let h := f_hdr f in
      if negb (can_read (x_state x1)) then (RErr (EProtocol ReceivedAfterClosing), x1, w1) else
      if h_rsv1 h || h_rsv2 h || h_rsv3 h then (RErr (EProtocol NonZeroReservedBits), x1, w1) else
      if role_eqb (x_role x1) Client && (match h_mask h with Some _ => true | None => false end)
      then (RErr (EProtocol MaskedFrameFromServer), x1, w1) else
      match h_opcode h with
      | OCtl ctl =>
          if negb (h_fin h) then (RErr (EProtocol FragmentedControlFrame), x1, w1) else
          if 125 <? blen (f_payload f) then (RErr (EProtocol ControlFrameTooBig), x1, w1) else
          match ctl with
          | Close =>
              match frame_into_close (f_payload f) with
              | ROk cl =>
                  let '(r, x2) := do_close x1 cl in
                  match r with
                  | ROk (Some c) => (ROk (Some (MClose c)), x2, w1)
                  | ROk None => (ROk None, x2, w1)
                  | RErr e => (RErr e, x2, w1)
                  | RPanic s => (RPanic s, x2, w1)
                  | ROutOfFuel => (ROutOfFuel, x2, w1)
                  end
              | RErr e => (RErr e, x1, w1)
              | RPanic s => (RPanic s, x1, w1)
              | ROutOfFuel => (ROutOfFuel, x1, w1)
              end
          | CReserved i => (RErr (EProtocol (UnknownControlFrameType i)), x1, w1)
          | Ping =>
              let x2 := if is_active (x_state x1) then set_additional x1 (frame_pong (f_payload f)) else x1 in
              (ROk (Some (MPing (f_payload f))), x2, w1)
          | Pong => (ROk (Some (MPong (f_payload f))), x1, w1)
          end
      | OData d =>
          let fin := h_fin h in
          match d with
          | Continue =>
              match x_incomplete x1 with
              | Some msg =>
                  let '(r, msg') := incmsg_extend msg (f_payload f) (cfg_max_message_size (x_cfg x1)) in
                  let x2 := set_incomplete x1 (Some msg') in
                  match r with
                  | ROk _ =>
                      if fin then
                        match incmsg_complete msg' with
                        | ROk m => (ROk (Some m), set_incomplete x2 None, w1)
                        | RErr e => (RErr e, set_incomplete x2 None, w1)
                        | RPanic s => (RPanic s, x2, w1)
                        | ROutOfFuel => (ROutOfFuel, x2, w1)
                        end
                      else (ROk None, x2, w1)
                  | RErr e => (RErr e, x2, w1)
                  | RPanic s => (RPanic s, x2, w1)
                  | ROutOfFuel => (ROutOfFuel, x2, w1)
                  end
              | None => (RErr (EProtocol UnexpectedContinueFrame), x1, w1)
              end
          | _ =>
              match x_incomplete x1 with
              | Some _ => (RErr (EProtocol (ExpectedFragment d)), x1, w1)
              | None =>
                  match d with
                  | DReserved i => (RErr (EProtocol (UnknownDataFrameType i)), x1, w1)
                  | Continue => (RPanic site_not_text_nor_binary, x1, w1)
                  | Text | Binary =>
                      if fin then
                        match check_max_size (blen (f_payload f)) (cfg_max_message_size (x_cfg x1)) with
                        | ROk _ =>
                            match d with
                            | Text => if is_utf8 (f_payload f) then (ROk (Some (MText (f_payload f))), x1, w1)
                                      else (RErr EUtf8, x1, w1)
                            | _ => (ROk (Some (MBinary (f_payload f))), x1, w1)
                            end
                        | RErr e => (RErr e, x1, w1)
                        | RPanic s => (RPanic s, x1, w1)
                        | ROutOfFuel => (ROutOfFuel, x1, w1)
                        end
                      else
                        let inc0 := match d with Text => ITxt collector_new | _ => IBin [] end in
                        let '(r, inc1) := incmsg_extend inc0 (f_payload f) (cfg_max_message_size (x_cfg x1)) in
                        match r with
                        | ROk _ => (ROk None, set_incomplete x1 (Some inc1), w1)
                        | RErr e => (RErr e, x1, w1)
                        | RPanic s => (RPanic s, x1, w1)
                        | ROutOfFuel => (ROutOfFuel, x1, w1)
                        end
                  end
              end
          end
      end.

Lemma rmf_eq x w :
  read_message_frame x w =
  let '(r0, c1, w1) := read_frame (cfg_max_frame_size (x_cfg x)) (role_eqb (x_role x) Server)
                                  (cfg_accept_unmasked (x_cfg x)) (x_codec x) w in
  let '(r0', s1) := check_connection_reset r0 (x_state x) in
  let x1 := set_state (set_codec x c1) s1 in
  match r0' with
  | RErr e => (RErr e, x1, w1)
  | RPanic s => (RPanic s, x1, w1)
  | ROutOfFuel => (ROutOfFuel, x1, w1)
  | ROk None =>
      let x2 := set_state x1 Terminated in
      match x_state x1 with
      | ClosedByPeer | CloseAcknowledged => (RErr EConnectionClosed, x2, w1)
      | _ => (RErr (EProtocol ResetWithoutClosingHandshake), x2, w1)
      end
  | ROk (Some f) => dispatch x1 f w1
  end.
Proof. reflexivity. Qed.

Definition inc_ok (M : N) (o : option incmsg) : Prop :=
  match o with Some m => incmsg_len m <= M /\ inc_wf m | None => True end.

Record disp_post (F M : N) (x1 : ctx) (f : frame) (w1 : world)
  (r : res (option message)) (x' : ctx) (w' : world) : Prop := {
  dp_w : w' = w1;
  dp_cfg : x_cfg x' = x_cfg x1;
  dp_codec : x_codec x' = x_codec x1;
  dp_inc : inc_ok M (x_incomplete x1) -> inc_ok M (x_incomplete x');
  dp_panic : blen (f_payload f) <= F -> inc_ok M (x_incomplete x1) ->
     forall s, r = RPanic s -> s = site_overflow /\ two64 <= M + F;
  dp_text : forall b, r = ROk (Some (MText b)) -> blen b <= M;
  dp_bin : forall b, r = ROk (Some (MBinary b)) -> blen b <= M;
  dp_cap : forall sz mx, r = RErr (ECapacity sz mx) -> mx = M /\ M < sz;
  dp_fuel : r <> ROutOfFuel }.

Lemma sa_cfg x f : x_cfg (set_additional x f) = x_cfg x.
Proof. destruct (set_additional_cases x f) as [E|E]; rewrite E; reflexivity. Qed.
Lemma sa_codec x f : x_codec (set_additional x f) = x_codec x.
Proof. destruct (set_additional_cases x f) as [E|E]; rewrite E; reflexivity. Qed.
Lemma sa_inc x f : x_incomplete (set_additional x f) = x_incomplete x.
Proof. destruct (set_additional_cases x f) as [E|E]; rewrite E; reflexivity. Qed.

Ltac dleaf :=
  let H := fresh "H" in
  intros H; inversion H; subst; clear H;
  constructor;
  [ reflexivity
  | rewrite ?sa_cfg; reflexivity
  | rewrite ?sa_codec; reflexivity
  | rewrite ?sa_inc; cbn [x_incomplete set_incomplete set_state]; auto
  | let a := fresh in let b := fresh in let c := fresh in let Hb := fresh in intros a b c Hb; discriminate Hb
  | let b := fresh in let Hb := fresh in intros b Hb; discriminate Hb
  | let b := fresh in let Hb := fresh in intros b Hb; discriminate Hb
  | let b := fresh in let c := fresh in let Hb := fresh in intros b c Hb; discriminate Hb
  | discriminate ].

Lemma incmsg_complete_spec m :
  match incmsg_complete m with
  | ROk (MText s) => blen s <= incmsg_len m
  | ROk (MBinary v) => blen v <= incmsg_len m
  | ROk _ => False
  | RErr e => e = EUtf8
  | _ => False
  end.
Proof.
  destruct m as [c|v]; cbn [incmsg_complete incmsg_len].
  - pose proof (into_string_len c) as H. destruct (collector_into_string c) as [s|]; [apply H|]; reflexivity.
  - lia.
Qed.

Lemma do_close_spec x cl r x2 :
  do_close x cl = (r, x2) ->
  x_cfg x2 = x_cfg x /\ x_codec x2 = x_codec x /\ x_incomplete x2 = x_incomplete x /\
  (can_read (x_state x) = true -> good r) /\ (forall e, r <> RErr e).
Proof.
  unfold do_close. destruct (x_state x); intros H; inversion H; subst; clear H;
    rewrite ?sa_cfg, ?sa_codec, ?sa_inc; repeat split; auto; try discriminate.
Qed.

Lemma check_max_size_spec sz M :
  check_max_size sz (Some M) = ROk tt /\ sz <= M \/
  check_max_size sz (Some M) = RErr (ECapacity sz M) /\ M < sz.
Proof. unfold check_max_size. destruct (M <? sz) eqn:E; [right|left]; split; auto; lia. Qed.

Ltac d1 := let b := fresh in let Hb := fresh in intros b Hb; discriminate Hb.
Ltac d2 := let a := fresh in let b := fresh in let Hb := fresh in intros a b Hb; discriminate Hb.
Ltac gT := intros; exact I.
Ltac gI := let a := fresh in let b := fresh in let c := fresh in let Hb := fresh in intros a b c Hb; discriminate Hb.
Ltac mk tinc tgood ttext tbin tcap :=
  let H := fresh "H" in intros H; inversion H; subst; clear H;
  constructor; [reflexivity|reflexivity|reflexivity|tinc|tgood|ttext|tbin|tcap|discriminate].

Lemma dispatch_spec F M x1 f w1 r x' w' :
  cfg_max_message_size (x_cfg x1) = Some M ->
  dispatch x1 f w1 = (r, x', w') -> disp_post F M x1 f w1 r x' w'.
Proof.
  intros HM. unfold dispatch. cbv zeta.
  destruct (negb (can_read (x_state x1))) eqn:Ecr; [dleaf|].
  destruct (h_rsv1 (f_hdr f) || h_rsv2 (f_hdr f) || h_rsv3 (f_hdr f)); [dleaf|].
  destruct (role_eqb (x_role x1) Client && match h_mask (f_hdr f) with Some _ => true | None => false end); [dleaf|].
  destruct (h_opcode (f_hdr f)) as [d|ctl].
  - destruct d as [| | |i].
    + (* Continue *)
      destruct (x_incomplete x1) as [msg|] eqn:Ei; [|dleaf].
      rewrite HM.
      destruct (incmsg_extend msg (f_payload f) (Some M)) as [re msg'] eqn:Ee.
      apply incmsg_extend_spec in Ee. destruct Ee as [Xacc Xok Xwf Xfuel Xpanic Xcap Xover].
      assert (Hinc : inc_ok M (Some msg) -> inc_ok M (Some msg')) by (cbn [inc_ok]; tauto).
      destruct re as [u|e|s|].
      * destruct u. specialize (Xok eq_refl).
        destruct (h_fin (f_hdr f)).
        -- pose proof (incmsg_complete_spec msg') as Hc.
           destruct (incmsg_complete msg') as [m|e|s|]; try (destruct Hc; fail).
           ++ destruct m; try (destruct Hc; fail).
              ** mk gT gI ltac:(intros b0 Hb; inversion Hb; subst; lia) d1 d2.
              ** mk gT gI d1 ltac:(intros b0 Hb; inversion Hb; subst; lia) d2.
           ++ subst e. mk gT gI d1 d1 d2.
        -- mk ltac:(rewrite Ei; exact Hinc) gI d1 d1 d2.
      * mk ltac:(rewrite Ei; exact Hinc) gI d1 d1
           ltac:(intros sz mx Hb; inversion Hb; subst; destruct (Xcap _ _ eq_refl) as [? [? ?]]; split; auto).
      * mk ltac:(rewrite Ei; exact Hinc)
           ltac:(rewrite Ei; cbn [inc_ok]; intros HF [Hl Hw] s0 Hs; inversion Hs; subst s0; destruct (Xpanic s eq_refl) as [[-> Ho]|[_ Hn]]; [split; [reflexivity|lia]|tauto])
           d1 d1 d2.
      * exfalso. apply Xfuel. reflexivity.
    + (* Text *)
      destruct (x_incomplete x1) as [msg|] eqn:Ei; [dleaf|].
      destruct (h_fin (f_hdr f)).
      * rewrite HM. destruct (check_max_size_spec (blen (f_payload f)) M) as [[E Hle]|[E Hlt]]; rewrite E.
        -- destruct (is_utf8 (f_payload f)).
           ++ mk ltac:(rewrite Ei; auto) gI ltac:(intros b0 Hb; inversion Hb; subst; exact Hle) d1 d2.
           ++ mk ltac:(rewrite Ei; auto) gI d1 d1 d2.
        -- mk ltac:(rewrite Ei; auto) gI d1 d1 ltac:(intros sz mx Hb; inversion Hb; subst; split; auto).
      * rewrite HM.
        destruct (incmsg_extend (ITxt collector_new) (f_payload f) (Some M)) as [re msg'] eqn:Ee.
        apply incmsg_extend_spec in Ee. destruct Ee as [Xacc Xok Xwf Xfuel Xpanic Xcap Xover].
        assert (Hl0 : incmsg_len (ITxt collector_new) = 0) by reflexivity.
        assert (Hw0 : inc_wf (ITxt collector_new)) by exact I.
        destruct re as [u|e|s|].
        -- mk ltac:(intros _; cbn [x_incomplete set_incomplete inc_ok]; split; [apply Xacc; lia|auto]) gI d1 d1 d2.
        -- mk ltac:(rewrite Ei; auto) gI d1 d1
             ltac:(intros sz mx Hb; inversion Hb; subst; destruct (Xcap _ _ eq_refl) as [? [? ?]]; split; auto).
        -- mk ltac:(rewrite Ei; auto)
             ltac:(intros HF _ s0 Hs; inversion Hs; subst s0; destruct (Xpanic s eq_refl) as [[-> Ho]|[_ Hn]]; [split; [reflexivity|lia]|tauto])
             d1 d1 d2.
        -- exfalso. apply Xfuel. reflexivity.
    + (* Binary *)
      destruct (x_incomplete x1) as [msg|] eqn:Ei; [dleaf|].
      destruct (h_fin (f_hdr f)).
      * rewrite HM. destruct (check_max_size_spec (blen (f_payload f)) M) as [[E Hle]|[E Hlt]]; rewrite E.
        -- mk ltac:(rewrite Ei; auto) gI d1 ltac:(intros b0 Hb; inversion Hb; subst; exact Hle) d2.
        -- mk ltac:(rewrite Ei; auto) gI d1 d1 ltac:(intros sz mx Hb; inversion Hb; subst; split; auto).
      * rewrite HM.
        destruct (incmsg_extend (IBin []) (f_payload f) (Some M)) as [re msg'] eqn:Ee.
        apply incmsg_extend_spec in Ee. destruct Ee as [Xacc Xok Xwf Xfuel Xpanic Xcap Xover].
        assert (Hl0 : incmsg_len (IBin []) = 0) by reflexivity.
        assert (Hw0 : inc_wf (IBin [])) by exact I.
        destruct re as [u|e|s|].
        -- mk ltac:(intros _; cbn [x_incomplete set_incomplete inc_ok]; split; [apply Xacc; lia|auto]) gI d1 d1 d2.
        -- mk ltac:(rewrite Ei; auto) gI d1 d1
             ltac:(intros sz mx Hb; inversion Hb; subst; destruct (Xcap _ _ eq_refl) as [? [? ?]]; split; auto).
        -- mk ltac:(rewrite Ei; auto)
             ltac:(intros HF _ s0 Hs; inversion Hs; subst s0; destruct (Xpanic s eq_refl) as [[-> Ho]|[_ Hn]]; [split; [reflexivity|lia]|tauto])
             d1 d1 d2.
        -- exfalso. apply Xfuel. reflexivity.
    + (* reserved data opcode *)
      destruct (x_incomplete x1) as [msg|] eqn:Ei; dleaf.
  - (* control *)
    destruct (negb (h_fin (f_hdr f))); [dleaf|].
    destruct (125 <? blen (f_payload f)); [dleaf|].
    destruct ctl as [| | |i].
    + (* Close *)
      destruct (frame_into_close (f_payload f)) as [cl|e|s|] eqn:Efc.
      * destruct (do_close x1 cl) as [rc x2] eqn:Edc. apply do_close_spec in Edc.
        destruct Edc as [D1 [D2 [D3 [D4 D5]]]].
        assert (Hcr : can_read (x_state x1) = true) by (destruct (can_read (x_state x1)); [reflexivity|discriminate Ecr]).
        specialize (D4 Hcr).
        destruct rc as [[c|]|e|s|]; try (destruct D4; fail); try (exfalso; eapply D5; reflexivity);
          intros H; inversion H; subst; clear H;
          (constructor; [reflexivity|exact D1|exact D2|rewrite D3; auto|gI|d1|d1|d2|discriminate]).
      * assert (Hne : forall sz mx, e <> ECapacity sz mx).
        { revert Efc. unfold frame_into_close. destruct (f_payload f) as [|a [|b rs]]; try discriminate.
          - intros H; inversion H; discriminate.
          - destruct (is_utf8 rs); intros H; inversion H; discriminate. }
        mk ltac:(auto) gI d1 d1 ltac:(intros sz mx Hb; inversion Hb; subst; exfalso; eapply Hne; reflexivity).
      * exfalso. revert Efc. unfold frame_into_close. destruct (f_payload f) as [|a [|b rs]]; try discriminate.
        destruct (is_utf8 rs); discriminate.
      * exfalso. revert Efc. unfold frame_into_close. destruct (f_payload f) as [|a [|b rs]]; try discriminate.
        destruct (is_utf8 rs); discriminate.
    + destruct (is_active (x_state x1)); dleaf.
    + dleaf.
    + dleaf.
Qed.

(* ------------------------------------------------------------------ *)
(** * read_message_frame *)

Definition ctx_inv (M : N) (x : ctx) : Prop := hdr_pos (x_codec x) /\ inc_ok M (x_incomplete x).
Definition xmeas (x : ctx) (w : world) : nat := meas (x_codec x) (w_rds w).

Record rmf_post (F M : N) (x : ctx) (w : world) (r : res (option message)) (x' : ctx) (w' : world) : Prop := {
  mf_cfg : x_cfg x' = x_cfg x;
  mf_log : logok F w -> logok F w';
  mf_inv : ctx_inv M x -> ctx_inv M x';
  mf_meas : (xmeas x' w' <= xmeas x w)%nat;
  mf_progress : r = ROk None -> hdr_pos (x_codec x) -> (xmeas x' w' < xmeas x w)%nat;
  mf_panic : ctx_inv M x -> forall s, r = RPanic s -> s = site_overflow /\ two64 <= M + F;
  mf_text : forall b, r = ROk (Some (MText b)) -> blen b <= M;
  mf_bin : forall b, r = ROk (Some (MBinary b)) -> blen b <= M;
  mf_cap : forall sz mx, r = RErr (ECapacity sz mx) -> (mx = F /\ F < sz) \/ (mx = M /\ M < sz);
  mf_fuel : r <> ROutOfFuel }.

Lemma ccr_cases {A} (r : res A) s r' s' :
  check_connection_reset r s = (r', s') ->
  (r' = r /\ s' = s) \/ (r = RErr (EIo ConnReset) /\ r' = RErr EConnectionClosed).
Proof.
  unfold check_connection_reset.
  destruct r as [a|[| |[| | |]| | | |]|n|]; try (intros H; inversion H; subst; auto; fail).
  destruct (closing_done s); intros H; inversion H; subst; auto.
Qed.

Lemma rf_logok F c w r c' w' : rf_post F c w r c' w' -> logok F w -> logok F w'.
Proof.
  intros [_ [used [evs [_ [E [Hev _]]]]] _ _ _ _ _ _]. unfold logok. rewrite E. intros H.
  apply Forall_app. split; [exact H|]. eapply Forall_impl; [|exact Hev]. apply rd_ev_rsv_ok.
Qed.

Lemma rmf_build F M x w r0 c1 w1 (r : res (option message)) x' :
  rf_post F (x_codec x) w r0 c1 w1 ->
  x_cfg x' = x_cfg x -> x_codec x' = c1 ->
  (inc_ok M (x_incomplete x) -> inc_ok M (x_incomplete x')) ->
  (inc_ok M (x_incomplete x) -> forall s, r = RPanic s -> s = site_overflow /\ two64 <= M + F) ->
  (r = ROk None -> exists f, r0 = ROk (Some f)) ->
  (forall b, r = ROk (Some (MText b)) -> blen b <= M) ->
  (forall b, r = ROk (Some (MBinary b)) -> blen b <= M) ->
  (forall sz mx, r = RErr (ECapacity sz mx) -> (mx = F /\ F < sz) \/ (mx = M /\ M < sz)) ->
  r <> ROutOfFuel ->
  rmf_post F M x w r x' w1.
Proof.
  intros Hrf Hcfg Hcod Hinc Hgood Hnone Htext Hbin Hcap Hfuel.
  pose proof (rf_logok _ _ _ _ _ _ Hrf) as Hlog.
  destruct Hrf as [Hw Ht Hinv Hme Hout Hg Hf Hc].
  constructor; auto.
  - intros [I1 I2]. split; [rewrite Hcod; auto|auto].
  - unfold xmeas. rewrite Hcod. exact Hme.
  - intros Hr Hp. destruct (Hnone Hr) as [f Ef]. destruct (Hf f Ef) as [_ [_ Hlt]].
    unfold xmeas. rewrite Hcod. auto.
  - intros [I1 I2]. auto.
Qed.

Lemma read_message_frame_spec F M x w r x' w' :
  cfg_max_frame_size (x_cfg x) = Some F ->
  cfg_max_message_size (x_cfg x) = Some M ->
  read_message_frame x w = (r, x', w') -> rmf_post F M x w r x' w'.
Proof.
  intros HF HM. rewrite rmf_eq. rewrite HF.
  destruct (read_frame (Some F) (role_eqb (x_role x) Server) (cfg_accept_unmasked (x_cfg x)) (x_codec x) w)
    as [[r0 c1] w1] eqn:E.
  apply read_frame_spec in E. cbn [limit_of] in E.
  destruct (check_connection_reset r0 (x_state x)) as [r0' s1] eqn:Ec. apply ccr_cases in Ec.
  cbv zeta.
  destruct Ec as [[-> ->]|[-> ->]].
  - destruct r0 as [[f|]|e|s|].
    + intros H. apply (dispatch_spec F M) in H; [|exact HM].
      destruct H as [Dw Dcfg Dcod Dinc Dpanic Dtext Dbin Dcap Dfuel]. subst w'.
      destruct (fp_frame _ _ _ _ _ _ E f eq_refl) as [Hpl _].
      eapply rmf_build; eauto.
    + destruct (x_state (set_state (set_codec x c1) (x_state x)));
        intros H; inversion H; subst; clear H;
        (eapply rmf_build; [exact E|reflexivity|reflexivity|auto|intros; discriminate|discriminate|d1|d1|d2|discriminate]).
    + intros H; inversion H; subst; clear H.
      eapply rmf_build; [exact E|reflexivity|reflexivity|auto|intros; discriminate|discriminate|d1|d1| |discriminate].
      intros sz mx Hb; inversion Hb; subst. left.
      destruct (fp_cap _ _ _ _ _ _ E sz mx eq_refl) as [? [? ?]]. auto.
    + destruct (fp_good _ _ _ _ _ _ E).
    + destruct (fp_good _ _ _ _ _ _ E).
  - intros H; inversion H; subst; clear H.
    eapply rmf_build; [exact E|reflexivity|reflexivity|auto|intros; discriminate|discriminate|d1|d1|d2|discriminate].
Qed.

(* ------------------------------------------------------------------ *)
(** * read_loop / read *)

Record rl_post (F M : N) (fuel : nat) (x : ctx) (w : world) (r : res message) (x' : ctx) (w' : world) : Prop := {
  rl_cfg : x_cfg x' = x_cfg x;
  rl_log : logok F w -> logok F w';
  rl_inv : ctx_inv M x -> ctx_inv M x';
  rl_text : forall b, r = ROk (MText b) -> blen b <= M;
  rl_bin : forall b, r = ROk (MBinary b) -> blen b <= M;
  rl_cap : forall sz mx, r = RErr (ECapacity sz mx) -> (mx = F /\ F < sz) \/ (mx = M /\ M < sz);
  rl_panic : ctx_inv M x -> forall s, r = RPanic s -> s = site_overflow /\ two64 <= M + F;
  rl_fuel : ctx_inv M x -> (xmeas x w < fuel)%nat -> r <> ROutOfFuel }.

(* the part of one iteration of read's loop that precedes read_message_frame *)
Definition pre_read (x : ctx) (w : world) : res unit * ctx * world :=
  if (match x_additional x with Some _ => true | None => false end) || x_unflushed x then
    let '(r, x', w') := flush x w in
    match r with
    | ROk _ => (ROk tt, x', w')
    | RErr (EIo WouldBlock) => (ROk tt, set_unflushed x' true, w')
    | _ => (r, x', w')
    end
  else if role_eqb (x_role x) Server && negb (can_read (x_state x)) then
    let '(rw, c', w') := write_out_buffer (x_codec x) w in
    match rw with
    | ROk _ => (RErr EConnectionClosed, set_state (set_codec x c') Terminated, w')
    | _ => (rw, set_codec x c', w')
    end
  else (ROk tt, x, w).

Lemma read_loop_eq fuel x w :
  read_loop (S fuel) x w =
  let '(r0, x0, w0) := pre_read x w in
  match r0 with
  | ROk _ =>
      let '(r1, x1, w1) := read_message_frame x0 w0 in
      match r1 with
      | ROk (Some m) => (ROk m, x1, w1)
      | ROk None => read_loop fuel x1 w1
      | RErr e => (RErr e, x1, w1)
      | RPanic s => (RPanic s, x1, w1)
      | ROutOfFuel => (ROutOfFuel, x1, w1)
      end
  | RErr e => (RErr e, x0, w0)
  | RPanic s => (RPanic s, x0, w0)
  | ROutOfFuel => (ROutOfFuel, x0, w0)
  end.
Proof. reflexivity. Qed.

Lemma pre_read_spec F x w r0 x0 w0 :
  pre_read x w = (r0, x0, w0) -> wgood r0 /\ keep F x w x0 w0.
Proof.
  unfold pre_read.
  destruct ((match x_additional x with Some _ => true | None => false end) || x_unflushed x).
  - destruct (flush x w) as [[r1 x1] w1] eqn:E. apply (flush_spec F) in E. destruct E as [G K].
    destruct r1 as [u|e|s|]; try (intros H; inversion H; subst; split; [exact G || exact I|exact K]; fail).
    destruct e as [| |[| | |]| | | |]; intros H; inversion H; subst; (split; [exact G || exact I|]);
      exact K.
  - destruct (role_eqb (x_role x) Server && negb (can_read (x_state x))).
    + destruct (write_out_buffer (x_codec x) w) as [[rw c'] w'] eqn:E.
      apply (write_out_buffer_spec F) in E. destruct E as [G K].
      destruct rw as [u|e|s|]; intros H; inversion H; subst; (split; [exact G || exact I|]);
        revert K; clear; keep_solve.
    + intros H; inversion H; subst. split; [exact I|apply keep_refl].
Qed.

Lemma keep_inv F M x w x0 w0 : keep F x w x0 w0 ->
  (ctx_inv M x -> ctx_inv M x0) /\ xmeas x0 w0 = xmeas x w.
Proof.
  intros [K1 [K2 [K3 [K4 [K5 K6]]]]]. split.
  - intros [I1 I2]. split.
    + intros h len E. apply (I1 h len). congruence.
    + rewrite K2. exact I2.
  - unfold xmeas, meas. congruence.
Qed.

Lemma read_loop_spec F M : forall fuel x w r x' w',
  cfg_max_frame_size (x_cfg x) = Some F ->
  cfg_max_message_size (x_cfg x) = Some M ->
  read_loop fuel x w = (r, x', w') -> rl_post F M fuel x w r x' w'.
Proof.
  induction fuel as [|fuel IH]; intros x w r x' w' HF HM.
  - cbn [read_loop]. intros H; inversion H; subst; clear H.
    constructor; auto; try d1; try d2; try discriminate. intros _ Hlt. lia.
  - rewrite read_loop_eq.
    destruct (pre_read x w) as [[r0 x0] w0] eqn:Ep. apply (pre_read_spec F) in Ep. destruct Ep as [G0 K0].
    destruct (keep_inv F M _ _ _ _ K0) as [Kinv Kmeas].
    destruct K0 as [K1 [K2 [K3 [K4 [K5 K6]]]]].
    destruct r0 as [u|e|s|]; try (destruct G0; fail).
    + destruct (read_message_frame x0 w0) as [[r1 x1] w1] eqn:Em.
      apply (read_message_frame_spec F M) in Em; [|rewrite K1; exact HF|rewrite K1; exact HM].
      destruct Em as [Mcfg Mlog Minv Mmeas Mprog Mpanic Mtext Mbin Mcap Mfuel].
      destruct r1 as [[m|]|e|s|].
      * intros H; inversion H; subst; clear H. constructor.
        -- congruence.
        -- auto.
        -- auto.
        -- intros b Hb; inversion Hb; subst; eauto.
        -- intros b Hb; inversion Hb; subst; eauto.
        -- d2.
        -- intros; discriminate.
        -- intros; discriminate.
      * intros H. apply IH in H; [|rewrite Mcfg, K1; exact HF|rewrite Mcfg, K1; exact HM].
        destruct H as [Rcfg Rlog Rinv Rtext Rbin Rcap Rpanic Rfuel]. constructor; auto.
        -- congruence.
        -- intros Hi Hlt. apply Rfuel; [auto|].
           assert (Hp : hdr_pos (x_codec x0)) by (apply Kinv; exact Hi).
           specialize (Mprog eq_refl Hp). lia.
      * intros H; inversion H; subst; clear H. constructor.
        -- congruence.
        -- auto.
        -- auto.
        -- d1.
        -- d1.
        -- intros sz mx Hb; inversion Hb; subst. eauto.
        -- intros; discriminate.
        -- intros; discriminate.
      * intros H; inversion H; subst; clear H. constructor.
        -- congruence.
        -- auto.
        -- auto.
        -- d1.
        -- d1.
        -- d2.
        -- intros Hi s0 Hs; inversion Hs; subst s0. apply (Mpanic (Kinv Hi)). reflexivity.
        -- intros; discriminate.
      * intros H; inversion H; subst; clear H. constructor.
        -- congruence.
        -- auto.
        -- auto.
        -- d1.
        -- d1.
        -- d2.
        -- intros; discriminate.
        -- intros _ _ _. apply Mfuel. reflexivity.
    + intros H; inversion H; subst; clear H. constructor.
      * exact K1.
      * exact K6.
      * exact Kinv.
      * d1.
      * d1.
      * intros sz mx Hb; inversion Hb; subst. destruct G0.
      * intros; discriminate.
      * intros; discriminate.
Qed.

(* ====================================================================== *)
(* part 6: read / run_ops and the top-level statements *)


Definition lims (F M : N) (x : ctx) : Prop :=
  cfg_max_frame_size (x_cfg x) = Some F /\ cfg_max_message_size (x_cfg x) = Some M.

Lemma read_spec F M x w r x' w' :
  lims F M x -> read x w = (r, x', w') ->
  rl_post F M (S (xmeas x w)) x w r x' w'.
Proof.
  intros [HF HM]. unfold read.
  destruct (is_terminated (x_state x)).
  - intros H; inversion H; subst; clear H. constructor; auto; try d1; try d2; try discriminate.
  - intros H. apply (read_loop_spec F M) in H; auto.
Qed.

(* ------------------------------------------------------------------ *)
(** * operations *)

Definition op_ok (o : op) : Prop :=
  match o with OpSetBuf wbs mx => wbs < mx | _ => True end.

Definition msg_ok (M : N) (m : message) : Prop :=
  match m with MText b | MBinary b => blen b <= M | _ => True end.

(* size bound on what an operation delivers, and the numbers carried by a capacity error *)
Definition opres_bound (F M : N) (r : op_result) : Prop :=
  match r with
  | ResMsg (ROk m) => msg_ok M m
  | ResMsg (RErr (ECapacity sz mx)) => (mx = F /\ F < sz) \/ (mx = M /\ M < sz)
  | ResUnit (RErr (ECapacity _ _)) => False
  | _ => True
  end.

Definition opres_panic (r : op_result) (s : N) : Prop :=
  match r with
  | ResMsg r => r = RPanic s
  | ResUnit r => r = RPanic s
  | ResBool _ => False
  end.

Definition opres_fuel (r : op_result) : Prop :=
  match r with
  | ResMsg r => r = ROutOfFuel
  | ResUnit r => r = ROutOfFuel
  | ResBool _ => False
  end.

Record op_post (F M : N) (x : ctx) (o : op) (w : world) (res : op_result) (x' : ctx) (w' : world) : Prop := {
  op_lims : lims F M x';
  op_log : logok F w -> logok F w';
  op_inv : ctx_inv M x -> ctx_inv M x';
  op_bound : opres_bound F M res;
  op_fuel : ctx_inv M x -> ~ opres_fuel res;
  op_panic : ctx_inv M x -> forall s, opres_panic res s ->
     (s = site_overflow /\ two64 <= M + F) \/ (s = site_config_invalid /\ ~ op_ok o) }.

Lemma keep_op_post F M x o w (r : res unit) x' w' :
  lims F M x -> wgood r -> keep F x w x' w' -> op_post F M x o w (ResUnit r) x' w'.
Proof.
  intros [HF HM] G K. destruct (keep_inv F M _ _ _ _ K) as [Kinv _].
  destruct K as [K1 [K2 [K3 [K4 [K5 K6]]]]].
  constructor.
  - split; rewrite K1; assumption.
  - exact K6.
  - exact Kinv.
  - cbn. destruct r as [u|[]|s|]; auto.
  - intros _ Hf. cbn in Hf. subst r. exact G.
  - intros _ s Hs. cbn in Hs. subst r. destruct G.
Qed.

Lemma run_op_spec F M x o w res x' w' :
  lims F M x -> run_op x o w = (res, x', w') -> op_post F M x o w res x' w'.
Proof.
  intros HL. destruct o as [|m| |c| | |wbs mx]; cbn [run_op].
  - destruct (read x w) as [[r x1] w1] eqn:E. intros H; inversion H; subst; clear H.
    apply (read_spec F M) in E; [|exact HL].
    destruct HL as [HF HM].
    destruct E as [Rcfg Rlog Rinv Rtext Rbin Rcap Rpanic Rfuel].
    constructor.
    + split; rewrite Rcfg; assumption.
    + exact Rlog.
    + exact Rinv.
    + cbn. destruct r as [m|e|s|]; auto.
      * destruct m; cbn; auto.
      * destruct e; auto.
    + intros Hi Hf. cbn in Hf. apply (Rfuel Hi); [lia|exact Hf].
    + intros Hi s Hs. cbn in Hs. left. apply (Rpanic Hi). exact Hs.
  - destruct (write x m w) as [[r x1] w1] eqn:E. intros H; inversion H; subst; clear H.
    apply (write_spec F) in E. destruct E. apply keep_op_post; auto.
  - destruct (flush x w) as [[r x1] w1] eqn:E. intros H; inversion H; subst; clear H.
    apply (flush_spec F) in E. destruct E. apply keep_op_post; auto.
  - destruct (close x c w) as [[r x1] w1] eqn:E. intros H; inversion H; subst; clear H.
    apply (close_spec F) in E. destruct E. apply keep_op_post; auto.
  - intros H; inversion H; subst; clear H.
    constructor; [exact HL|auto|auto|exact I|intros _ Hf; exact Hf|intros _ s Hs; destruct Hs].
  - intros H; inversion H; subst; clear H.
    constructor; [exact HL|auto|auto|exact I|intros _ Hf; exact Hf|intros _ s Hs; destruct Hs].
  - destruct HL as [HF HM]. unfold config_valid. cbn [cfg_write_buffer_size cfg_max_write_buffer_size].
    destruct (wbs <? mx) eqn:Ev; intros H; inversion H; subst; clear H.
    + constructor.
      * split; assumption.
      * auto.
      * intros [I1 I2]. split; [exact I1|exact I2].
      * exact I.
      * cbn. intros _ Hf; discriminate Hf.
      * cbn. intros _ s Hs; discriminate Hs.
    + constructor.
      * split; assumption.
      * auto.
      * auto.
      * exact I.
      * cbn. intros _ Hf; discriminate Hf.
      * cbn. intros _ s Hs; inversion Hs; subst. right. split; [reflexivity|cbn; lia].
Qed.

Lemma run_ops_spec F M : forall ops x w rs x' w',
  lims F M x -> run_ops x ops w = (rs, x', w') ->
  lims F M x' /\ (logok F w -> logok F w') /\ (ctx_inv M x -> ctx_inv M x') /\
  Forall (fun p => opres_bound F M (fst p)) rs /\
  (ctx_inv M x -> Forall (fun p => ~ opres_fuel (fst p)) rs) /\
  (ctx_inv M x -> Forall op_ok ops -> M + F < two64 -> Forall (fun p => forall s, ~ opres_panic (fst p) s) rs) /\
  (ctx_inv M x -> M + F < two64 -> Forall (fun p => ~ opres_panic (fst p) site_overflow) rs).
Proof.
  induction ops as [|o ops IH]; intros x w rs x' w' HL; cbn [run_ops].
  - intros H; inversion H; subst.
    split; [exact HL|]. split; [auto|]. split; [auto|]. repeat split; intros; constructor.
  - destruct (run_op x o w) as [[res1 x1] w1] eqn:E1.
    destruct (run_ops x1 ops w1) as [[rs2 x2] w2] eqn:E2.
    intros H; inversion H; subst; clear H.
    apply (run_op_spec F M) in E1; [|exact HL].
    destruct E1 as [Ol Olog Oinv Obound Ofuel Opanic].
    apply IH in E2; [|exact Ol].
    destruct E2 as [Rl [Rlog [Rinv [Rbound [Rfuel [Rpanic Rover]]]]]].
    split; [exact Rl|]. split; [auto|]. split; [auto|].
    split; [constructor; auto|].
    split; [|split].
    + intros Hi. constructor; cbn [fst]; auto.
    + intros Hi Hok HMF. inversion Hok; subst. constructor; cbn [fst]; auto.
      intros s Hs. destruct (Opanic Hi s Hs) as [[_ Ho]|[_ Hn]]; [lia|tauto].
    + intros Hi HMF. constructor; cbn [fst]; auto.
      intros Hs. destruct (Opanic Hi _ Hs) as [[_ Ho]|[Hc _]]; [lia|discriminate Hc].
Qed.

Lemma ctx_new_spec M r part cfg x :
  ctx_new r part cfg = Some x -> x_cfg x = cfg /\ ctx_inv M x /\ config_valid cfg = true.
Proof.
  unfold ctx_new. destruct (config_valid cfg); [|discriminate].
  intros H; inversion H; subst; clear H. repeat split.
  - intros h len E. discriminate E.
Qed.

(* ====================================================================== *)
(* part 7: positive statements (over-limit input does yield the capacity error) and top level *)


(* ------------------------------------------------------------------ *)
(** * frame level *)

Lemma world_eta w : mkWorld (w_rds w) (w_wrs w) (w_fls w) (w_keys w) (w_log w) = w.
Proof. destruct w; reflexivity. Qed.

Lemma read_frame_payload_bound F um au c w f c' w' :
  read_frame (Some F) um au c w = (ROk (Some f), c', w') -> blen (f_payload f) <= F.
Proof.
  intros H. apply read_frame_spec in H. cbn [limit_of] in H.
  destruct (fp_frame _ _ _ _ _ _ H f eq_refl) as [Hb _]. exact Hb.
Qed.

(* header already buffered and over the limit: error at once, world untouched *)
Lemma read_frame_reject_now F um au c w h len k :
  c_hdr c = None -> header_parse (c_in c) = POk h len k -> F < len ->
  read_frame (Some F) um au c w =
    (RErr (ECapacity len F), set_hdr (set_in c (dropN k (c_in c))) (Some (h, len)), w).
Proof.
  intros Eh Ep Hlt. unfold read_frame. cbn [limit_of].
  rewrite rfl_eq, try_take_eq. unfold after_parse. rewrite Eh, Ep.
  cbn [c_hdr set_hdr set_in c_in].
  replace (F <? len) with true by lia.
  rewrite world_eta. reflexivity.
Qed.

(* header held from an earlier call and over the limit: same error again, world untouched *)
Lemma read_frame_reject_sticky F um au c w h len :
  c_hdr c = Some (h, len) -> F < len ->
  read_frame (Some F) um au c w = (RErr (ECapacity len F), c, w).
Proof.
  intros Eh Hlt. unfold read_frame. cbn [limit_of].
  rewrite rfl_eq, try_take_eq. unfold after_parse. rewrite Eh. cbv iota beta. rewrite Eh.
  replace (F <? len) with true by lia.
  rewrite world_eta. reflexivity.
Qed.

Lemma read_frame_capacity_trace F um au c w sz mx c' w' :
  c_hdr c = None ->
  read_frame (Some F) um au c w = (RErr (ECapacity sz mx), c', w') ->
  exists used h k,
    w_rds w = map RdData used ++ w_rds w' /\
    Forall (fun bs => bs <> []) used /\
    w_log w' = w_log w ++ flat_map (fun bs => [EvReserve 6; EvRead (RdData bs)]) used /\
    header_parse (c_in c ++ concat used) = POk h sz k /\
    mx = F /\ F < sz /\
    (forall p q, used = p ++ q -> q <> [] -> header_parse (c_in c ++ concat p) = PIncomplete) /\
    c_hdr c' = Some (h, sz).
Proof.
  intros Eh. unfold read_frame. cbn [limit_of].
  destruct (read_frame_loop F (w_rds w) c (w_log w)) as [[[r0 c0] rds0] log0] eqn:E.
  assert (Hr : forall (r1 : res (option frame)) ww,
     (r1, c0, ww) = (RErr (ECapacity sz mx), c', w') -> r1 = RErr (ECapacity sz mx) /\ ww = w' /\ c0 = c').
  { intros r1 ww H; inversion H; auto. }
  destruct r0 as [[[[h len] p]|]|e|s|].
  - destruct (negb (blen p =? len)); [intros H; apply Hr in H; destruct H as [H _]; discriminate H|].
    destruct um; [destruct (h_mask h); [|destruct au]|]; intros H; apply Hr in H; destruct H as [H _]; discriminate H.
  - intros H; apply Hr in H; destruct H as [H _]; discriminate H.
  - intros H; apply Hr in H. destruct H as [H1 [H2 H3]]. inversion H1; subst.
    apply rfl_capacity_trace in E; [|exact Eh].
    destruct E as [used [h [k [E1 [E2 [E3 [E4 [E5 [E6 [E7 E8]]]]]]]]]].
    exists used, h, k. cbn [w_rds w_log]. subst c'. cbn [c_hdr]. repeat split; auto.
  - intros H; apply Hr in H; destruct H as [H _]; discriminate H.
  - intros H; apply Hr in H; destruct H as [H _]; discriminate H.
Qed.

Lemma read_frame_events F um au c w r c' w' :
  read_frame (Some F) um au c w = (r, c', w') ->
  exists used evs, w_rds w = used ++ w_rds w' /\ w_log w' = w_log w ++ evs /\ Forall (rd_ev F) evs /\
     ((length evs = 2 * length used)%nat \/
      (w_rds w' = [] /\ r = RErr (EIo WouldBlock) /\ length evs = 2 * length used + 2)%nat).
Proof. intros H. apply read_frame_spec in H. exact (fp_trace _ _ _ _ _ _ H). Qed.

(* ------------------------------------------------------------------ *)
(** * message level: the running size going over M yields the capacity error *)

Definition running_size (x : ctx) : N :=
  match x_incomplete x with Some m => incmsg_len m | None => 0 end.

(* a data frame that is legal in the current fragmentation state *)
Definition data_fits (x : ctx) (d : data_op) : Prop :=
  match d, x_incomplete x with
  | Continue, Some _ => True
  | Text, None | Binary, None => True
  | _, _ => False
  end.

Lemma dispatch_over M x1 f w1 d :
  cfg_max_message_size (x_cfg x1) = Some M ->
  can_read (x_state x1) = true ->
  h_rsv1 (f_hdr f) || h_rsv2 (f_hdr f) || h_rsv3 (f_hdr f) = false ->
  role_eqb (x_role x1) Client && (match h_mask (f_hdr f) with Some _ => true | None => false end) = false ->
  h_opcode (f_hdr f) = OData d -> data_fits x1 d ->
  M < running_size x1 + blen (f_payload f) -> running_size x1 + blen (f_payload f) < two64 ->
  exists x2, dispatch x1 f w1 = (RErr (ECapacity (running_size x1 + blen (f_payload f)) M), x2, w1) /\
             x_incomplete x2 = x_incomplete x1.
Proof.
  intros HM Hcr Hrsv Hmask Hop Hfit Hov Hlt. unfold dispatch. cbv zeta.
  rewrite Hcr, Hrsv, Hmask, Hop. cbn [negb]. rewrite HM.
  unfold data_fits, running_size in *.
  destruct d as [| | |i]; destruct (x_incomplete x1) as [msg|] eqn:Ei; try (destruct Hfit; fail).
  - destruct (incmsg_extend msg (f_payload f) (Some M)) as [re msg'] eqn:Ee.
    apply incmsg_extend_spec in Ee. destruct (ep_over _ _ _ _ _ Ee Hov Hlt) as [-> ->].
    eexists. split; [reflexivity|]. cbn [x_incomplete set_incomplete]. auto.
  - rewrite N.add_0_l in *.
    destruct (h_fin (f_hdr f)).
    + unfold check_max_size. replace (M <? blen (f_payload f)) with true by lia.
      eexists. split; [reflexivity|auto].
    + destruct (incmsg_extend (ITxt collector_new) (f_payload f) (Some M)) as [re msg'] eqn:Ee.
      apply incmsg_extend_spec in Ee.
      assert (Hl0 : incmsg_len (ITxt collector_new) = 0) by reflexivity.
      destruct (ep_over _ _ _ _ _ Ee) as [-> ->]; rewrite ?Hl0, ?N.add_0_l; auto.
      eexists. split; [reflexivity|auto].
  - rewrite N.add_0_l in *.
    destruct (h_fin (f_hdr f)).
    + unfold check_max_size. replace (M <? blen (f_payload f)) with true by lia.
      eexists. split; [reflexivity|auto].
    + destruct (incmsg_extend (IBin []) (f_payload f) (Some M)) as [re msg'] eqn:Ee.
      apply incmsg_extend_spec in Ee.
      assert (Hl0 : incmsg_len (IBin []) = 0) by reflexivity.
      destruct (ep_over _ _ _ _ _ Ee) as [-> ->]; rewrite ?Hl0, ?N.add_0_l; auto.
      eexists. split; [reflexivity|auto].
Qed.

Lemma rmf_message_over M x w f c1 w1 d :
  cfg_max_message_size (x_cfg x) = Some M ->
  read_frame (cfg_max_frame_size (x_cfg x)) (role_eqb (x_role x) Server)
             (cfg_accept_unmasked (x_cfg x)) (x_codec x) w = (ROk (Some f), c1, w1) ->
  can_read (x_state x) = true ->
  h_rsv1 (f_hdr f) || h_rsv2 (f_hdr f) || h_rsv3 (f_hdr f) = false ->
  role_eqb (x_role x) Client && (match h_mask (f_hdr f) with Some _ => true | None => false end) = false ->
  h_opcode (f_hdr f) = OData d -> data_fits x d ->
  M < running_size x + blen (f_payload f) -> running_size x + blen (f_payload f) < two64 ->
  exists x2, read_message_frame x w = (RErr (ECapacity (running_size x + blen (f_payload f)) M), x2, w1) /\
             x_incomplete x2 = x_incomplete x.
Proof.
  intros HM Erf Hcr Hrsv Hmask Hop Hfit Hov Hlt.
  rewrite rmf_eq, Erf. cbn [check_connection_reset]. cbv zeta.
  apply (dispatch_over M (set_state (set_codec x c1) (x_state x)) f w1 d); auto.
Qed.

(* frame level error seen through read_message_frame and read *)
Lemma rmf_frame_over F x w h len k :
  cfg_max_frame_size (x_cfg x) = Some F ->
  c_hdr (x_codec x) = None -> header_parse (c_in (x_codec x)) = POk h len k -> F < len ->
  exists x1, read_message_frame x w = (RErr (ECapacity len F), x1, w) /\
             c_hdr (x_codec x1) = Some (h, len).
Proof.
  intros HF Eh Ep Hlt. rewrite rmf_eq, HF.
  rewrite (read_frame_reject_now F _ _ _ w h len k Eh Ep Hlt).
  cbn [check_connection_reset]. cbv zeta. eexists. split; [reflexivity|reflexivity].
Qed.

Lemma read_frame_over F x w h len k :
  cfg_max_frame_size (x_cfg x) = Some F ->
  x_additional x = None -> x_unflushed x = false -> can_read (x_state x) = true ->
  c_hdr (x_codec x) = None -> header_parse (c_in (x_codec x)) = POk h len k -> F < len ->
  exists x1, read x w = (RErr (ECapacity len F), x1, w) /\ c_hdr (x_codec x1) = Some (h, len).
Proof.
  intros HF Ha Hu Hcr Eh Ep Hlt. unfold read.
  assert (Ht : is_terminated (x_state x) = false) by (destruct (x_state x); try reflexivity; discriminate Hcr).
  rewrite Ht, read_loop_eq. unfold pre_read. rewrite Ha, Hu, Hcr. cbn [orb negb]. rewrite Bool.andb_false_r.
  destruct (rmf_frame_over F x w h len k HF Eh Ep Hlt) as [x1 [E1 E2]]. rewrite E1.
  exists x1. split; [reflexivity|exact E2].
Qed.

(* ====================================================================== *)
(* part 8: statements in the form used by props/C06.v and props/C07.v *)


(* ---- C06 ---- *)

Lemma read_message_bound F M x w m x' w' :
  cfg_max_frame_size (x_cfg x) = Some F -> cfg_max_message_size (x_cfg x) = Some M ->
  read x w = (ROk m, x', w') ->
  match m with MText b | MBinary b => blen b <= M | _ => True end.
Proof.
  intros HF HM H. apply (read_spec F M) in H; [|split; assumption].
  destruct m; try exact I; [eapply rl_text|eapply rl_bin]; eauto.
Qed.

Lemma read_capacity_numbers F M x w sz mx x' w' :
  cfg_max_frame_size (x_cfg x) = Some F -> cfg_max_message_size (x_cfg x) = Some M ->
  read x w = (RErr (ECapacity sz mx), x', w') ->
  (mx = F /\ F < sz) \/ (mx = M /\ M < sz).
Proof.
  intros HF HM H. apply (read_spec F M) in H; [|split; assumption]. eapply rl_cap; eauto.
Qed.

Lemma ops_bound F M x ops w rs x' w' :
  cfg_max_frame_size (x_cfg x) = Some F -> cfg_max_message_size (x_cfg x) = Some M ->
  run_ops x ops w = (rs, x', w') ->
  forall r n, In (r, n) rs ->
    match r with
    | ResMsg (ROk (MText b)) | ResMsg (ROk (MBinary b)) => blen b <= M
    | ResMsg (RErr (ECapacity sz mx)) => (mx = F /\ F < sz) \/ (mx = M /\ M < sz)
    | ResUnit (RErr (ECapacity _ _)) => False
    | _ => True
    end.
Proof.
  intros HF HM H r n Hin. apply (run_ops_spec F M) in H; [|split; assumption].
  destruct H as [_ [_ [_ [Hb _]]]]. rewrite Forall_forall in Hb. specialize (Hb _ Hin). cbn [fst] in Hb.
  destruct r as [[[]|[]|s|]|[u|[]|s|]|b]; cbn in Hb; auto.
Qed.

Definition reserve_ok (F : N) (e : event) : Prop :=
  match e with EvReserve n => n <= N.max F 6 | _ => True end.

Lemma ops_reserve_bound F M x ops w rs x' w' :
  cfg_max_frame_size (x_cfg x) = Some F -> cfg_max_message_size (x_cfg x) = Some M ->
  run_ops x ops w = (rs, x', w') ->
  Forall (reserve_ok F) (w_log w) -> Forall (reserve_ok F) (w_log w').
Proof.
  intros HF HM H. apply (run_ops_spec F M) in H; [|split; assumption].
  destruct H as [_ [Hl _]]. exact Hl.
Qed.

Lemma read_frame_reserve_bound F um au c w r c' w' :
  read_frame (Some F) um au c w = (r, c', w') ->
  exists evs, w_log w' = w_log w ++ evs /\
    Forall (fun e => match e with EvReserve n => n <= N.max F 6 | EvRead _ => True | _ => False end) evs.
Proof.
  intros H. apply read_frame_events in H. destruct H as [used [evs [_ [E [Hf _]]]]].
  exists evs. split; [exact E|exact Hf].
Qed.

Lemma ops_accumulator_bound F M role part cfg x ops w rs x' w' :
  cfg_max_frame_size cfg = Some F -> cfg_max_message_size cfg = Some M ->
  ctx_new role part cfg = Some x ->
  run_ops x ops w = (rs, x', w') ->
  forall m, x_incomplete x' = Some m -> incmsg_len m <= M.
Proof.
  intros HF HM Hn H m Hm. apply (ctx_new_spec M) in Hn. destruct Hn as [Hc [Hi _]]. subst cfg.
  apply (run_ops_spec F M) in H; [|split; assumption].
  destruct H as [_ [_ [Hinv _]]]. destruct (Hinv Hi) as [_ Ho]. rewrite Hm in Ho. exact (proj1 Ho).
Qed.

(* the invariant is inductive from any state, not only from ctx_new *)
Lemma accumulator_step F M x o w res x' w' :
  cfg_max_frame_size (x_cfg x) = Some F -> cfg_max_message_size (x_cfg x) = Some M ->
  ctx_inv M x -> run_op x o w = (res, x', w') -> ctx_inv M x'.
Proof.
  intros HF HM Hi H. apply (run_op_spec F M) in H; [|split; assumption]. exact (op_inv _ _ _ _ _ _ _ _ H Hi).
Qed.

(* ---- C07 ---- *)

Definition is_panic (r : op_result) (s : N) : Prop := r = ResMsg (RPanic s) \/ r = ResUnit (RPanic s).
Definition is_out_of_fuel (r : op_result) : Prop := r = ResMsg ROutOfFuel \/ r = ResUnit ROutOfFuel.

Lemma is_panic_opres r s : is_panic r s -> opres_panic r s.
Proof. intros [H|H]; subst; reflexivity. Qed.
Lemma is_fuel_opres r : is_out_of_fuel r -> opres_fuel r.
Proof. intros [H|H]; subst; reflexivity. Qed.

Lemma ops_no_panic F M role part cfg x ops w rs x' w' :
  cfg_max_frame_size cfg = Some F -> cfg_max_message_size cfg = Some M -> M + F < two64 ->
  ctx_new role part cfg = Some x ->
  Forall op_ok ops ->
  run_ops x ops w = (rs, x', w') ->
  forall r n s, In (r, n) rs -> ~ is_panic r s.
Proof.
  intros HF HM HMF Hn Hok H r n s Hin Hp. apply (ctx_new_spec M) in Hn. destruct Hn as [Hc [Hi _]]. subst cfg.
  apply (run_ops_spec F M) in H; [|split; assumption].
  destruct H as [_ [_ [_ [_ [_ [Hpn _]]]]]]. specialize (Hpn Hi Hok HMF).
  rewrite Forall_forall in Hpn. apply (Hpn _ Hin s). apply is_panic_opres. exact Hp.
Qed.

Lemma ops_no_fuel F M role part cfg x ops w rs x' w' :
  cfg_max_frame_size cfg = Some F -> cfg_max_message_size cfg = Some M ->
  ctx_new role part cfg = Some x ->
  run_ops x ops w = (rs, x', w') ->
  forall r n, In (r, n) rs -> ~ is_out_of_fuel r.
Proof.
  intros HF HM Hn H r n Hin Hp. apply (ctx_new_spec M) in Hn. destruct Hn as [Hc [Hi _]]. subst cfg.
  apply (run_ops_spec F M) in H; [|split; assumption].
  destruct H as [_ [_ [_ [_ [Hfu _]]]]]. specialize (Hfu Hi).
  rewrite Forall_forall in Hfu. apply (Hfu _ Hin). apply is_fuel_opres. exact Hp.
Qed.

Lemma ops_no_overflow F M role part cfg x ops w rs x' w' :
  cfg_max_frame_size cfg = Some F -> cfg_max_message_size cfg = Some M -> M + F < two64 ->
  ctx_new role part cfg = Some x ->
  run_ops x ops w = (rs, x', w') ->
  forall r n, In (r, n) rs -> ~ is_panic r site_overflow.
Proof.
  intros HF HM HMF Hn H r n Hin Hp. apply (ctx_new_spec M) in Hn. destruct Hn as [Hc [Hi _]]. subst cfg.
  apply (run_ops_spec F M) in H; [|split; assumption].
  destruct H as [_ [_ [_ [_ [_ [_ Hov]]]]]]. specialize (Hov Hi HMF).
  rewrite Forall_forall in Hov. apply (Hov _ Hin). apply is_panic_opres. exact Hp.
Qed.

(* the same three, from any state satisfying the invariant (what the induction really proves) *)
Lemma ops_safe_from_inv F M x ops w rs x' w' :
  cfg_max_frame_size (x_cfg x) = Some F -> cfg_max_message_size (x_cfg x) = Some M ->
  ctx_inv M x ->
  run_ops x ops w = (rs, x', w') ->
  ctx_inv M x' /\
  (forall r n, In (r, n) rs -> ~ is_out_of_fuel r) /\
  (M + F < two64 -> forall r n, In (r, n) rs -> ~ is_panic r site_overflow) /\
  (M + F < two64 -> Forall op_ok ops -> forall r n s, In (r, n) rs -> ~ is_panic r s).
Proof.
  intros HF HM Hi H. apply (run_ops_spec F M) in H; [|split; assumption].
  destruct H as [_ [_ [Hinv [_ [Hfu [Hpn Hov]]]]]].
  split; [auto|]. split; [|split].
  - intros r n Hin Hp. specialize (Hfu Hi). rewrite Forall_forall in Hfu.
    apply (Hfu _ Hin). apply is_fuel_opres. exact Hp.
  - intros HMF r n Hin Hp. specialize (Hov Hi HMF). rewrite Forall_forall in Hov.
    apply (Hov _ Hin). apply is_panic_opres. exact Hp.
  - intros HMF Hok r n s Hin Hp. specialize (Hpn Hi Hok HMF). rewrite Forall_forall in Hpn.
    apply (Hpn _ Hin s). apply is_panic_opres. exact Hp.
Qed.

(* every panic the socket model can produce at all, and when *)
Lemma op_panic_sites F M x o w res x' w' s :
  cfg_max_frame_size (x_cfg x) = Some F -> cfg_max_message_size (x_cfg x) = Some M ->
  ctx_inv M x -> run_op x o w = (res, x', w') -> is_panic res s ->
  (s = site_overflow /\ two64 <= M + F) \/
  (s = site_config_invalid /\ exists wbs mx, o = OpSetBuf wbs mx /\ mx <= wbs).
Proof.
  intros HF HM Hi H Hp. apply (run_op_spec F M) in H; [|split; assumption].
  destruct (op_panic _ _ _ _ _ _ _ _ H Hi s (is_panic_opres _ _ Hp)) as [Ho|[Hs Hn]]; [left; exact Ho|right].
  split; [exact Hs|]. destruct o; cbn in Hn; try tauto. eexists _, _. split; [reflexivity|lia].
Qed.

(* WebSocketConfig::assert_valid is an explicit branch of the model *)
Lemma setbuf_invalid x wbs mx w :
  mx <= wbs -> run_op x (OpSetBuf wbs mx) w = (ResUnit (RPanic site_config_invalid), x, w).
Proof.
  intros H. cbn [run_op]. unfold config_valid. cbn [cfg_write_buffer_size cfg_max_write_buffer_size].
  replace (wbs <? mx) with false by lia. reflexivity.
Qed.

Lemma ctx_new_invalid role part cfg :
  ctx_new role part cfg = None <-> cfg_max_write_buffer_size cfg <= cfg_write_buffer_size cfg.
Proof.
  unfold ctx_new, config_valid.
  destruct (cfg_write_buffer_size cfg <? cfg_max_write_buffer_size cfg) eqn:E; split; intros H;
    try discriminate; try reflexivity; lia.
Qed.

(* a call runs long only by consuming peer bytes: each iteration of read's loop that does not return
   strictly decreases |in_buffer| + bytes the transport can still deliver *)
Lemma read_iteration_consumes F M x w x' w' :
  cfg_max_frame_size (x_cfg x) = Some F -> cfg_max_message_size (x_cfg x) = Some M ->
  hdr_pos (x_codec x) ->
  read_message_frame x w = (ROk None, x', w') ->
  (length (c_in (x_codec x')) + rd_bytes (w_rds w') < length (c_in (x_codec x)) + rd_bytes (w_rds w))%nat.
Proof.
  intros HF HM Hp H. apply (read_message_frame_spec F M) in H; auto.
  exact (mf_progress _ _ _ _ _ _ _ H eq_refl Hp).
Qed.

Lemma extend_no_overflow F M m tail :
  incmsg_len m <= M -> blen tail <= F -> M + F < two64 ->
  fst (incmsg_extend m tail (Some M)) <> RPanic site_overflow.
Proof.
  intros Hm Ht HMF. unfold incmsg_extend. cbn [limit_of].
  destruct ((M <? incmsg_len m) || (M - incmsg_len m <? blen tail)).
  - destruct (two64 <=? incmsg_len m + blen tail) eqn:E; [lia|]. cbn [fst]. discriminate.
  - destruct m as [c|v]; [|cbn [fst]; discriminate].
    destruct (collector_extend c tail); cbn [fst]; discriminate.
Qed.

(* ====================================================================== *)
(* part 9: the in-buffer is bounded: a transport read is only issued while fewer than max F 14 bytes are
   buffered, so if every read returns at most R bytes (R = spare capacity offered to the transport),
   in_buffer always holds fewer than max F 14 + R bytes *)

Lemma header_parse_incomplete_len (bs : bytes) : header_parse bs = PIncomplete -> blen bs < 14.
Proof.
  unfold header_parse.
  destruct bs as [|first [|second r]]; try (intros _; unfold blen; cbn [length]; lia).
  destruct (opcode_of_u8 (N.land first 15)) as [opc|]; [|discriminate].
  set (ll := lf_extra (lf_for_byte (N.land second 127))).
  assert (Hll : ll <= 8) by (subst ll; destruct (lf_extra_for_byte (N.land second 127)) as [H|[H|H]]; rewrite H; lia).
  rewrite !blen_cons.
  destruct (8 <? ll); [discriminate|].
  destruct (blen r <? ll) eqn:E1; [intros _; lia|].
  destruct (bit second 128).
  - pose proof (blen_dropN ll r) as Hd.
    destruct (dropN ll r) as [|a [|b [|c0 [|d r']]]]; rewrite ?blen_cons, ?blen_nil in Hd;
      try (intros _; lia).
    destruct (is_reserved opc); discriminate.
  - destruct (is_reserved opc); discriminate.
Qed.

Lemma try_take_needmore_buf mx c n c' :
  try_take mx c = TkNeedMore n c' -> blen (c_in c') < N.max mx 14.
Proof.
  rewrite try_take_eq.
  destruct (after_parse_spec c) as [hl Eh | Eh Ep | h len k Eh Ep | i Eh Ep].
  - rewrite Eh. destruct hl as [h len].
    destruct (mx <? len) eqn:E1; [discriminate|].
    destruct (len <=? blen (c_in c)) eqn:E2; [discriminate|].
    intros H; inversion H; subst. lia.
  - rewrite Eh. intros H; inversion H; subst. apply header_parse_incomplete_len in Ep. lia.
  - cbn [c_hdr c_in set_hdr set_in].
    destruct (mx <? len) eqn:E1; [discriminate|].
    destruct (len <=? blen (dropN k (c_in c))) eqn:E2; [discriminate|].
    intros H; inversion H; subst. cbn [c_in set_hdr set_in]. lia.
  - discriminate.
Qed.

Definition chunk_ok (R : N) (rd : rd_out) : Prop :=
  match rd with RdData bs => blen bs <= R | _ => True end.

Definition bufok (F R : N) (c : codec) (rds : list rd_out) : Prop :=
  Forall (chunk_ok R) rds /\ blen (c_in c) < N.max F 14 + R.

Lemma rfl_buf mx R : forall rds c log r c' rds' log',
  read_frame_loop mx rds c log = (r, c', rds', log') -> bufok mx R c rds -> bufok mx R c' rds'.
Proof.
  induction rds as [|rd rds IH]; intros c log r c' rds' log'; rewrite rfl_eq;
    pose proof (try_take_spec mx c) as Hs; pose proof (try_take_needmore_buf mx c) as Hb;
    destruct (try_take mx c) as [h len p c1 | n c1 | e c1 | s];
    try (exfalso; inversion Hs; fail);
    try (inversion Hs; subst; intros H [B1 B2]; inversion H; subst; split; [assumption|unfold blen in *; lia]);
    specialize (Hb _ _ eq_refl); cbv zeta.
  destruct rd as [[|b bs]| |k];
      try (intros H [B1 B2]; inversion H; subst; inversion B1; subst; split; [assumption|lia]).
  intros H [B1 B2]. inversion B1 as [|? ? Hc B1']; subst. cbn [chunk_ok] in Hc.
  apply IH in H; [exact H|]. split; [exact B1'|]. cbn [c_in set_in]. rewrite blen_app. lia.
Qed.

Lemma read_frame_buf ms R um au c w r c' w' :
  read_frame ms um au c w = (r, c', w') ->
  bufok (limit_of ms) R c (w_rds w) -> bufok (limit_of ms) R c' (w_rds w').
Proof.
  unfold read_frame.
  destruct (read_frame_loop (limit_of ms) (w_rds w) c (w_log w)) as [[[r0 c0] rds0] log0] eqn:E.
  pose proof (rfl_buf _ R _ _ _ _ _ _ _ E) as E'. clear E. rename E' into E.
  assert (Hgen : forall r1 : res (option frame),
     (r1, c0, mkWorld rds0 (w_wrs w) (w_fls w) (w_keys w) log0) = (r, c', w') ->
     bufok (limit_of ms) R c (w_rds w) -> bufok (limit_of ms) R c' (w_rds w')).
  { intros r1 H; inversion H; subst. cbn [w_rds]. exact E. }
  destruct r0 as [[[[h len] p]|]|e|s|]; try apply Hgen.
  destruct (negb (blen p =? len)); [apply Hgen|].
  destruct um; [destruct (h_mask h); [|destruct au]|]; apply Hgen.
Qed.

Definition xbufok (F R : N) (x : ctx) (w : world) : Prop := bufok F R (x_codec x) (w_rds w).

(* the codec and the world after read_message_frame are those returned by read_frame *)
Lemma rmf_codec M x w r x' w' :
  cfg_max_message_size (x_cfg x) = Some M ->
  read_message_frame x w = (r, x', w') ->
  exists r0, read_frame (cfg_max_frame_size (x_cfg x)) (role_eqb (x_role x) Server)
                        (cfg_accept_unmasked (x_cfg x)) (x_codec x) w = (r0, x_codec x', w').
Proof.
  intros HM. rewrite rmf_eq.
  destruct (read_frame (cfg_max_frame_size (x_cfg x)) (role_eqb (x_role x) Server)
                       (cfg_accept_unmasked (x_cfg x)) (x_codec x) w) as [[r0 c1] w1] eqn:E.
  destruct (check_connection_reset r0 (x_state x)) as [r0' s1] eqn:Ec. cbv zeta.
  destruct r0' as [[f|]|e|s|].
  - intros H. apply (dispatch_spec 0 M) in H; [|exact HM].
    destruct H as [Dw _ Dcod _ _ _ _ _ _]. subst w'. rewrite Dcod. exists r0. reflexivity.
  - destruct (x_state (set_state (set_codec x c1) s1)); intros H; inversion H; subst; exists r0; reflexivity.
  - intros H; inversion H; subst; exists r0; reflexivity.
  - intros H; inversion H; subst; exists r0; reflexivity.
  - intros H; inversion H; subst; exists r0; reflexivity.
Qed.

Lemma rmf_buf F M R x w r x' w' :
  cfg_max_frame_size (x_cfg x) = Some F -> cfg_max_message_size (x_cfg x) = Some M ->
  read_message_frame x w = (r, x', w') -> xbufok F R x w -> xbufok F R x' w'.
Proof.
  intros HF HM H. apply (rmf_codec M) in H; [|exact HM]. destruct H as [r0 H]. rewrite HF in H.
  exact (read_frame_buf _ R _ _ _ _ _ _ _ H).
Qed.

Lemma keep_buf F0 F R x w x' w' : keep F0 x w x' w' -> xbufok F R x w -> xbufok F R x' w'.
Proof.
  intros [K1 [K2 [K3 [K4 [K5 K6]]]]]. unfold xbufok, bufok. rewrite K3, K5. auto.
Qed.

Lemma read_loop_buf F M R : forall fuel x w r x' w',
  cfg_max_frame_size (x_cfg x) = Some F -> cfg_max_message_size (x_cfg x) = Some M ->
  read_loop fuel x w = (r, x', w') -> xbufok F R x w -> xbufok F R x' w'.
Proof.
  induction fuel as [|fuel IH]; intros x w r x' w' HF HM.
  - cbn [read_loop]. intros H; inversion H; subst; auto.
  - rewrite read_loop_eq.
    destruct (pre_read x w) as [[r0 x0] w0] eqn:Ep. apply (pre_read_spec F) in Ep. destruct Ep as [G0 K0].
    pose proof (keep_buf _ F R _ _ _ _ K0) as Kb.
    destruct K0 as [K1 _].
    destruct r0 as [u|e|s|]; try (intros H; inversion H; subst; exact Kb).
    destruct (read_message_frame x0 w0) as [[r1 x1] w1] eqn:Em.
    pose proof (rmf_buf F M R _ _ _ _ _ ltac:(rewrite K1; exact HF) ltac:(rewrite K1; exact HM) Em) as Mb.
    apply (read_message_frame_spec F M) in Em; [|rewrite K1; exact HF|rewrite K1; exact HM].
    destruct Em as [Mcfg _ _ _ _ _ _ _ _ _].
    destruct r1 as [[m|]|e|s|]; try (intros H; inversion H; subst; auto; fail).
    intros H Hb. apply IH in H; auto; rewrite Mcfg, K1; assumption.
Qed.

Lemma run_op_buf F M R x o w res x' w' :
  cfg_max_frame_size (x_cfg x) = Some F -> cfg_max_message_size (x_cfg x) = Some M ->
  run_op x o w = (res, x', w') -> xbufok F R x w -> xbufok F R x' w'.
Proof.
  intros HF HM. destruct o as [|m| |c| | |wbs mx]; cbn [run_op].
  - destruct (read x w) as [[r x1] w1] eqn:E. intros H; inversion H; subst; clear H.
    unfold read in E. destruct (is_terminated (x_state x)); [inversion E; subst; auto|].
    eapply read_loop_buf; eauto.
  - destruct (write x m w) as [[r x1] w1] eqn:E. intros H; inversion H; subst; clear H.
    apply (write_spec F) in E. destruct E as [_ K]. eapply keep_buf; eauto.
  - destruct (flush x w) as [[r x1] w1] eqn:E. intros H; inversion H; subst; clear H.
    apply (flush_spec F) in E. destruct E as [_ K]. eapply keep_buf; eauto.
  - destruct (close x c w) as [[r x1] w1] eqn:E. intros H; inversion H; subst; clear H.
    apply (close_spec F) in E. destruct E as [_ K]. eapply keep_buf; eauto.
  - intros H; inversion H; subst; auto.
  - intros H; inversion H; subst; auto.
  - destruct (config_valid _); intros H; inversion H; subst; auto.
Qed.

Lemma ops_in_buffer_bound F M R : forall ops x w rs x' w',
  cfg_max_frame_size (x_cfg x) = Some F -> cfg_max_message_size (x_cfg x) = Some M ->
  run_ops x ops w = (rs, x', w') ->
  Forall (chunk_ok R) (w_rds w) -> blen (c_in (x_codec x)) < N.max F 14 + R ->
  blen (c_in (x_codec x')) < N.max F 14 + R.
Proof.
  assert (Hgen : forall ops x w rs x' w', lims F M x -> run_ops x ops w = (rs, x', w') ->
            xbufok F R x w -> xbufok F R x' w').
  { induction ops as [|o ops IH]; intros x w rs x' w' HL; cbn [run_ops].
    - intros H; inversion H; subst; auto.
    - destruct (run_op x o w) as [[res1 x1] w1] eqn:E1.
      destruct (run_ops x1 ops w1) as [[rs2 x2] w2] eqn:E2.
      intros H; inversion H; subst; clear H. intros Hb.
      pose proof (run_op_buf F M R _ _ _ _ _ _ (proj1 HL) (proj2 HL) E1 Hb) as Hb1.
      apply (run_op_spec F M) in E1; [|exact HL].
      eapply IH; [exact (op_lims _ _ _ _ _ _ _ _ E1)|exact E2|exact Hb1]. }
  intros ops x w rs x' w' HF HM H B1 B2.
  destruct (Hgen ops x w rs x' w' (conj HF HM) H (conj B1 B2)) as [_ Hb]. exact Hb.
Qed.

(* single call form *)
Lemma read_frame_in_buffer_bound F R um au c w r c' w' :
  read_frame (Some F) um au c w = (r, c', w') ->
  Forall (chunk_ok R) (w_rds w) -> blen (c_in c) < N.max F 14 + R ->
  blen (c_in c') < N.max F 14 + R.
Proof.
  intros H B1 B2. exact (proj2 (read_frame_buf _ R _ _ _ _ _ _ _ H (conj B1 B2))).
Qed.

(* a transport read is issued only while fewer than max F 14 bytes are buffered *)
Lemma read_issued_only_when_short F c n c' :
  try_take F c = TkNeedMore n c' -> n <= N.max F 6 /\ blen (c_in c') < N.max F 14.
Proof.
  intros H. split; [|eapply try_take_needmore_buf; exact H].
  pose proof (try_take_spec F c) as Hs. rewrite H in Hs. inversion Hs; assumption.
Qed.

(* the model-level quantities that stand for memory held while reading, together *)
Lemma ctx_new_in role part cfg x : ctx_new role part cfg = Some x -> c_in (x_codec x) = part.
Proof.
  unfold ctx_new. destruct (config_valid cfg); [|discriminate]. intros H; inversion H; subst. reflexivity.
Qed.

Lemma ops_memory_bound F M R role part cfg x ops w rs x' w' :
  cfg_max_frame_size cfg = Some F -> cfg_max_message_size cfg = Some M ->
  ctx_new role part cfg = Some x ->
  blen part < N.max F 14 + R -> Forall (chunk_ok R) (w_rds w) -> w_log w = [] ->
  run_ops x ops w = (rs, x', w') ->
  blen (c_in (x_codec x')) < N.max F 14 + R /\
  running_size x' <= M /\
  Forall (reserve_ok F) (w_log w').
Proof.
  intros HF HM Hn Hp Hr Hl H.
  pose proof (ctx_new_in _ _ _ _ Hn) as Hin.
  pose proof (ops_accumulator_bound F M _ _ _ _ _ _ _ _ _ HF HM Hn H) as Hacc.
  destruct (ctx_new_spec M _ _ _ _ Hn) as [Hc _]. subst cfg.
  split; [|split].
  - apply (ops_in_buffer_bound F M R ops x w rs x' w' HF HM H Hr). rewrite Hin. exact Hp.
  - unfold running_size. destruct (x_incomplete x') as [m|] eqn:Em; [|lia]. apply Hacc. reflexivity.
  - apply (ops_reserve_bound F M x ops w rs x' w' HF HM H). rewrite Hl. constructor.
Qed.
