(* proofs/CloseP.v — close handshake safety (C03): specs of the protocol functions, the close
   invariant over (ctx, log, close_received) and its preservation by every operation. *)
From TungModel Require Import Base Coding Mask Header Frame Utf8 World Message Codec Protocol.
From Coq Require Import Lia ZifyBool ZifyNat ZifyN.

Arguments N.add : simpl never.
Arguments N.mul : simpl never.
Arguments N.ltb : simpl never.
Arguments N.leb : simpl never.
Arguments N.min : simpl never.

Ltac splits := repeat match goal with |- _ /\ _ => split end.

(* ------------------------------------------------------------------------------------------- *)
(* 1. Event-list observations                                                                   *)
(* ------------------------------------------------------------------------------------------- *)

Definition opc (f : frame) : opcode := h_opcode (f_hdr f).

Definition is_rd_eof (e : event) : bool := match e with EvRead RdEof => true | _ => false end.
Definition is_rd_rst (e : event) : bool := match e with EvRead (RdErr ConnReset) => true | _ => false end.
Definition is_wr_end (e : event) : bool :=
  match e with EvWrite _ [] => true | EvWriteErr _ ConnReset => true | _ => false end.

Definition rd_eof (l : list event) : bool := existsb is_rd_eof l.
Definition rd_rst (l : list event) : bool := existsb is_rd_rst l.
Definition wr_end (l : list event) : bool := existsb is_wr_end l.

(* the transport ended: read side returned EOF / ConnectionReset, or the write side returned
   Ok(0) / ConnectionReset *)
Definition transport_ended (l : list event) : bool := rd_eof l || rd_rst l || wr_end l.

Lemma rd_eof_app a b : rd_eof (a ++ b) = rd_eof a || rd_eof b.
Proof. apply existsb_app. Qed.
Lemma rd_rst_app a b : rd_rst (a ++ b) = rd_rst a || rd_rst b.
Proof. apply existsb_app. Qed.
Lemma wr_end_app a b : wr_end (a ++ b) = wr_end a || wr_end b.
Proof. apply existsb_app. Qed.

Lemma te_app a b : transport_ended (a ++ b) = transport_ended a || transport_ended b.
Proof.
  unfold transport_ended. rewrite rd_eof_app, rd_rst_app, wr_end_app.
  destruct (rd_eof a), (rd_eof b), (rd_rst a), (rd_rst b), (wr_end a), (wr_end b); reflexivity.
Qed.

Lemma te_app_l a b : transport_ended a = true -> transport_ended (a ++ b) = true.
Proof. intros H. rewrite te_app, H. reflexivity. Qed.
Lemma te_app_r a b : transport_ended b = true -> transport_ended (a ++ b) = true.
Proof. intros H. rewrite te_app, H. apply orb_true_r. Qed.

Lemma te_of_eof l : rd_eof l = true -> transport_ended l = true.
Proof. unfold transport_ended. intros ->. reflexivity. Qed.
Lemma te_of_rst l : rd_rst l = true -> transport_ended l = true.
Proof. unfold transport_ended. intros ->. destruct (rd_eof l); reflexivity. Qed.
Lemma te_of_wr l : wr_end l = true -> transport_ended l = true.
Proof. unfold transport_ended. intros ->. apply orb_true_r. Qed.

Lemma queued_app a b : queued (a ++ b) = queued a ++ queued b.
Proof.
  induction a as [|e a IH]; [reflexivity|].
  destruct e; cbn [app queued]; rewrite IH; reflexivity.
Qed.

(* write-side events only: summary of what a list of events produced by the write path looks like *)
Record wr_evs (evs : list event) : Prop := mkWrEvs {
  we_eof : rd_eof evs = false;
  we_rst : rd_rst evs = false }.

Lemma wr_evs_nil : wr_evs [].
Proof. split; reflexivity. Qed.
Lemma wr_evs_app a b : wr_evs a -> wr_evs b -> wr_evs (a ++ b).
Proof. intros [A1 A2] [B1 B2]. split; [rewrite rd_eof_app, A1, B1|rewrite rd_rst_app, A2, B2]; reflexivity. Qed.

(* ------------------------------------------------------------------------------------------- *)
(* 2. Codec primitives                                                                          *)
(* ------------------------------------------------------------------------------------------- *)

(* outcome of a transport write attempt: Ok (everything accepted) or an Io error; the write side
   "ended" exactly when the error is ConnectionReset *)
Definition wr_outcome {A} (r : res A) (ok : A) (evs : list event) : Prop :=
  (r = ROk ok /\ wr_end evs = false) \/
  (exists k, r = RErr (EIo k) /\ (wr_end evs = true <-> k = ConnReset)).

Lemma firstn_pos_nonnil {A} (n : N) (l : list A) : n <> 0 -> l <> [] -> takeN n l <> [].
Proof.
  intros Hn Hl. unfold takeN. destruct (N.to_nat n) eqn:E; [lia|].
  destruct l; [congruence|]. cbn. discriminate.
Qed.

Lemma write_out_loop_spec wrs : forall out log r out' wrs' log',
  write_out_loop wrs out log = (r, out', wrs', log') ->
  exists evs, log' = log ++ evs /\ queued evs = [] /\ wr_evs evs /\
    wr_outcome r tt evs /\ (r = ROk tt -> out' = []).
Proof.
  induction wrs as [|wo wrs IH]; intros out log r out' wrs' log' H.
  - destruct out as [|b out]; cbn in H.
    + injection H as <- <- <- <-. exists []. rewrite app_nil_r.
      repeat split; auto. left. auto.
    + injection H as <- <- <- <-. eexists. split; [reflexivity|].
      repeat split; try reflexivity; [|discriminate].
      right. exists WouldBlock. split; [reflexivity|]. cbn. split; discriminate.
  - destruct out as [|b out]; [cbn in H; injection H as <- <- <- <-; exists []; rewrite app_nil_r;
                                repeat split; auto; left; auto|].
    cbn [write_out_loop] in H. destruct wo as [n|k].
    + destruct (N.min n (blen (b :: out)) =? 0) eqn:E0.
      * injection H as <- <- <- <-. eexists. split; [reflexivity|].
        repeat split; try reflexivity; [|discriminate].
        right. exists ConnReset. split; [reflexivity|]. cbn. split; auto.
      * apply IH in H. destruct H as (evs & -> & Hq & [He Hr] & Ho & Hn).
        exists (EvWrite (blen (b :: out)) (takeN (N.min n (blen (b :: out))) (b :: out)) :: evs).
        rewrite <- app_assoc. split; [reflexivity|].
        assert (Hne : takeN (N.min n (blen (b :: out))) (b :: out) <> []).
        { apply firstn_pos_nonnil; [lia|discriminate]. }
        destruct (takeN (N.min n (blen (b :: out))) (b :: out)) as [|t0 tl] eqn:Et; [congruence|].
        repeat split; auto.
    + injection H as <- <- <- <-. eexists. split; [reflexivity|].
      repeat split; try reflexivity; [|discriminate].
      right. exists k. split; [reflexivity|]. cbn. destruct k; split; auto; discriminate.
Qed.

Lemma wob_spec c w r c' w' : write_out_buffer c w = (r, c', w') ->
  exists evs, w_log w' = w_log w ++ evs /\ queued evs = [] /\ wr_evs evs /\
    wr_outcome r tt evs /\ (r = ROk tt -> c_out c' = []).
Proof.
  unfold write_out_buffer. intros H.
  destruct (write_out_loop (w_wrs w) (c_out c) (w_log w)) as [[[r0 out'] wrs'] log'] eqn:E.
  injection H as <- <- <-. apply write_out_loop_spec in E.
  destruct E as (evs & -> & Hq & He & Ho & Hn). exists evs. cbn. auto.
Qed.

Lemma w_flush_spec w r w' : w_flush w = (r, w') ->
  exists evs, w_log w' = w_log w ++ evs /\ queued evs = [] /\ wr_evs evs /\ wr_end evs = false /\
    (r = ROk tt \/ exists k, r = RErr (EIo k)).
Proof.
  unfold w_flush. intros H. destruct (w_fls w) as [|[|k] fls]; injection H as <- <-;
    (eexists; split; [reflexivity|]; repeat split; try reflexivity); eauto.
Qed.

Lemma cbf_spec c f w r c' w' : codec_buffer_frame c f w = (r, c', w') ->
  (r = RErr (EWriteBufferFull f) /\ c' = c /\ w' = w) \/
  (exists evs, w_log w' = w_log w ++ EvQueue f :: evs /\ queued evs = [] /\ wr_evs evs /\
               wr_outcome r tt evs).
Proof.
  unfold codec_buffer_frame. intros H.
  destruct (c_max_out c <? frame_len f + blen (c_out c)) eqn:E.
  - injection H as <- <- <-. left. auto.
  - right. destruct (c_write_len c <? blen (c_out (set_out c (frame_format_into_buf (c_out c) f)))) eqn:E2.
    + apply wob_spec in H. destruct H as (evs & Hl & Hq & He & Ho & _). exists evs.
      cbn in Hl. rewrite <- app_assoc in Hl. cbn in Hl. auto.
    + injection H as <- <- <-. exists []. cbn. repeat split; auto. left; auto.
Qed.

(* ------------------------------------------------------------------------------------------- *)
(* 3. Close-frame bookkeeping on (additional_send, queued)                                      *)
(* ------------------------------------------------------------------------------------------- *)

Definition noclose (q : list frame) : Prop := Forall (fun f => opc f <> OCtl Close) q.
Definition endclose (q : list frame) : Prop :=
  exists pre c, q = pre ++ [c] /\ opc c = OCtl Close /\ noclose pre.

(* no Close anywhere; a parked frame, if any, is a Pong *)
Definition Clean (a : option frame) (q : list frame) : Prop :=
  noclose q /\ match a with None => True | Some f => opc f = OCtl Pong end.
(* exactly one Close, and it is the last of queued ++ parked *)
Definition Pend (a : option frame) (q : list frame) : Prop :=
  match a with
  | Some f => opc f = OCtl Close /\ noclose q
  | None => endclose q
  end.

Definition Pres (P : option frame -> list frame -> Prop) (a a' : option frame) (qe : list frame) : Prop :=
  forall q, P a q -> P a' (q ++ qe).

Lemma Pres_refl P a : Pres P a a [].
Proof. intros q H. rewrite app_nil_r. exact H. Qed.
Lemma Pres_trans P a a1 a2 q1 q2 : Pres P a a1 q1 -> Pres P a1 a2 q2 -> Pres P a a2 (q1 ++ q2).
Proof. intros H1 H2 q H. rewrite app_assoc. apply H2, H1, H. Qed.

Lemma noclose_app a b : noclose (a ++ b) <-> noclose a /\ noclose b.
Proof. apply Forall_app. Qed.
Lemma noclose_one f : opc f <> OCtl Close -> noclose [f].
Proof. intros H. constructor; [exact H|constructor]. Qed.

Lemma Pres_move_Clean f f1 : opc f1 = opc f -> Pres Clean (Some f) None [f1].
Proof.
  intros E q [Hq Hp]. split; [|exact I]. apply noclose_app. split; [exact Hq|].
  apply noclose_one. rewrite E, Hp. discriminate.
Qed.
Lemma Pres_move_Pend f f1 : opc f1 = opc f -> Pres Pend (Some f) None [f1].
Proof.
  intros E q [Hc Hq]. exists q, f1. repeat split; auto. congruence.
Qed.
Lemma Pres_repark_Clean f f' : opc f' = opc f -> Pres Clean (Some f) (Some f') [].
Proof. intros E q [Hq Hp]. rewrite app_nil_r. split; [exact Hq|congruence]. Qed.
Lemma Pres_repark_Pend f f' : opc f' = opc f -> Pres Pend (Some f) (Some f') [].
Proof. intros E q [Hc Hq]. rewrite app_nil_r. split; [congruence|exact Hq]. Qed.

(* ------------------------------------------------------------------------------------------- *)
(* 4. Write side of the protocol: buffer_frame, _write, flush                                   *)
(* ------------------------------------------------------------------------------------------- *)

Definition err_of {A} (r : res A) : res unit :=
  match r with ROk _ => ROk tt | RErr e => RErr e | RPanic s => RPanic s | ROutOfFuel => ROutOfFuel end.

Lemma err_of_unit (r : res unit) : err_of r = r.
Proof. destruct r as [[]| | |]; reflexivity. Qed.

(* result / state summary of a write-side step started in state s *)
Definition wres (ro : res unit) (s : ws_state) (x' : ctx) (evs : list event) : Prop :=
  (ro = RErr EConnectionClosed /\ closing_done s = true /\ x_state x' = Terminated /\
   (wr_end evs = true \/
    (x_role x' = Server /\ x_additional x' = None /\ c_out (x_codec x') = []))) \/
  (x_state x' = s /\
   ((ro = ROk tt /\ wr_end evs = false) \/
    (exists k, ro = RErr (EIo k) /\ (wr_end evs = true -> k = ConnReset)) \/
    (exists f, ro = RErr (EWriteBufferFull f) /\ wr_end evs = false))).

(* write-side step: nf = frames newly queued by the caller's data, qe = the parked frame if it moved *)
Definition WS (nf : list frame) (x : ctx) (w : world) (ro : res unit) (x' : ctx) (w' : world) : Prop :=
  exists qe evs,
    w_log w' = w_log w ++ evs /\ queued evs = nf ++ qe /\ wr_evs evs /\
    x_role x' = x_role x /\
    Pres Clean (x_additional x) (x_additional x') qe /\
    Pres Pend (x_additional x) (x_additional x') qe /\
    wres ro (x_state x) x' evs.

Lemma WS_seq nf x w x1 w1 ro x2 w2 :
  WS nf x w (ROk tt) x1 w1 -> WS [] x1 w1 ro x2 w2 -> WS nf x w ro x2 w2.
Proof.
  intros (qe1 & evs1 & L1 & Q1 & E1 & R1 & C1 & P1 & W1) (qe2 & evs2 & L2 & Q2 & E2 & R2 & C2 & P2 & W2).
  assert (S1 : x_state x1 = x_state x /\ wr_end evs1 = false).
  { destruct W1 as [(H & _)|(H & [[_ H2]|[(k & H2 & _)|(f & H2 & _)]])]; try discriminate. auto. }
  destruct S1 as [S1 S2].
  exists (qe1 ++ qe2), (evs1 ++ evs2). splits.
  - rewrite L2, L1, app_assoc. reflexivity.
  - rewrite queued_app, Q1, Q2. cbn. rewrite app_assoc. reflexivity.
  - apply wr_evs_app; assumption.
  - congruence.
  - eapply Pres_trans; eassumption.
  - eapply Pres_trans; eassumption.
  - unfold wres in *. rewrite wr_end_app, S2, <- S1. cbn [orb]. exact W2.
Qed.

Lemma ccr_spec {A} (r : res A) s r' s' : check_connection_reset r s = (r', s') ->
  (r = RErr (EIo ConnReset) /\ closing_done s = true /\ r' = RErr EConnectionClosed /\ s' = Terminated) \/
  (r' = r /\ s' = s /\ (r = RErr (EIo ConnReset) -> closing_done s = false)).
Proof.
  unfold check_connection_reset. intros H.
  destruct r as [a|e|p|]; try (injection H as <- <-; right; splits; auto; discriminate).
  destruct e as [| |k| | | |]; try (injection H as <- <-; right; splits; auto; discriminate).
  destruct k; try (injection H as <- <-; right; splits; auto; discriminate).
  destruct (closing_done s) eqn:E; injection H as <- <-; [left|right]; auto.
Qed.

Lemma next_key_log w k w' : w_next_key w = (k, w') -> w_log w' = w_log w.
Proof. unfold w_next_key. destruct (w_keys w); intros [= <- <-]; reflexivity. Qed.

Lemma buffer_frame_spec x f w r x' w' : buffer_frame x f w = (r, x', w') ->
  x_role x' = x_role x /\ x_additional x' = x_additional x /\ x_unflushed x' = x_unflushed x /\
  ((exists f', r = RErr (EWriteBufferFull f') /\ opc f' = opc f /\ w_log w' = w_log w /\
               x_state x' = x_state x) \/
   (exists f1 evs, opc f1 = opc f /\ w_log w' = w_log w ++ EvQueue f1 :: evs /\ queued evs = [] /\
                   wr_evs evs /\ wres r (x_state x) x' evs /\
                   (forall f0, r <> RErr (EWriteBufferFull f0)))).
Proof.
  unfold buffer_frame. intros H.
  assert (G : forall f1 w1, opc f1 = opc f -> w_log w1 = w_log w ->
     (let '(r, c', w2) := codec_buffer_frame (x_codec x) f1 w1 in
      let '(r', s') := check_connection_reset r (x_state x) in (r', set_state (set_codec x c') s', w2))
     = (r, x', w') ->
     x_role x' = x_role x /\ x_additional x' = x_additional x /\ x_unflushed x' = x_unflushed x /\
     ((exists f', r = RErr (EWriteBufferFull f') /\ opc f' = opc f /\ w_log w' = w_log w /\
                  x_state x' = x_state x) \/
      (exists f1 evs, opc f1 = opc f /\ w_log w' = w_log w ++ EvQueue f1 :: evs /\ queued evs = [] /\
                      wr_evs evs /\ wres r (x_state x) x' evs /\
                      (forall f0, r <> RErr (EWriteBufferFull f0))))).
  { clear H. intros f1 w1 Ho Hl H.
    destruct (codec_buffer_frame (x_codec x) f1 w1) as [[r0 c'] w2] eqn:E.
    destruct (check_connection_reset r0 (x_state x)) as [r1 s1] eqn:Ec.
    injection H as <- <- <-. cbn [set_state set_codec x_role x_additional x_unflushed x_state].
    splits; auto.
    apply cbf_spec in E. apply ccr_spec in Ec.
    destruct E as [(-> & -> & ->)|(evs & Hl2 & Hq & He & Ho2)].
    - left. destruct Ec as [(Hc & _)|(-> & -> & _)]; [discriminate|].
      exists f1. splits; auto.
    - right. exists f1, evs. rewrite Hl2, Hl.
      split; [exact Ho|]. split; [reflexivity|]. split; [exact Hq|]. split; [exact He|].
      unfold wres. cbn [set_state set_codec x_role x_additional x_state x_codec].
      destruct Ec as [(-> & Hcd & -> & ->)|(-> & -> & Hn)].
      + split; [|discriminate]. left. splits; auto. left.
        destruct Ho2 as [[Hx _]|(k & Hx & Hk)]; [discriminate|].
        injection Hx as <-. apply Hk. reflexivity.
      + split.
        * right. split; [reflexivity|].
          destruct Ho2 as [[-> Hw]|(k & -> & Hk)]; [left; auto|].
          right. left. exists k. split; [reflexivity|]. apply Hk.
        * destruct Ho2 as [[-> Hw]|(k & -> & Hk)]; discriminate. }
  destruct (x_role x).
  - apply (G f w); auto.
  - destruct (w_next_key w) as [k w1] eqn:Ek. apply next_key_log in Ek.
    eapply G; [|exact Ek|exact H]. reflexivity.
Qed.

(* the two halves of _write after the caller's data was buffered *)
Definition write_add (x0 : ctx) (w0 : world) : res bool * ctx * world :=
  match x_additional x0 with
  | Some msg =>
      let xa := set_additional_raw x0 None in
      let '(rb, xb, wb) := buffer_frame xa msg w0 in
      match rb with
      | RErr (EWriteBufferFull f') => (ROk false, set_additional xb f', wb)
      | RErr e => (RErr e, set_unflushed xb true, wb)
      | RPanic s => (RPanic s, xb, wb)
      | ROutOfFuel => (ROutOfFuel, xb, wb)
      | ROk _ => (ROk true, set_unflushed xb true, wb)
      end
  | None => (ROk (x_unflushed x0), x0, w0)
  end.

Definition write_tail (r1 : res bool) (x1 : ctx) (w1 : world) : res bool * ctx * world :=
  match r1 with
  | ROk should_flush =>
      if role_eqb (x_role x1) Server && closing_done (x_state x1)
         && (match x_additional x1 with None => true | Some _ => false end) then
        let '(rw, c', w2) := write_out_buffer (x_codec x1) w1 in
        match rw with
        | ROk _ => (RErr EConnectionClosed, set_state (set_codec x1 c') Terminated, w2)
        | RErr e => (RErr e, set_codec x1 c', w2)
        | RPanic s => (RPanic s, set_codec x1 c', w2)
        | ROutOfFuel => (ROutOfFuel, set_codec x1 c', w2)
        end
      else (ROk should_flush, x1, w1)
  | _ => (r1, x1, w1)
  end.

Lemma write__eq x data w :
  write_ x data w =
  let '(r0, x0, w0) := match data with Some f => buffer_frame x f w | None => (ROk tt, x, w) end in
  match r0 with
  | RErr e => (RErr e, x0, w0)
  | RPanic s => (RPanic s, x0, w0)
  | ROutOfFuel => (ROutOfFuel, x0, w0)
  | ROk _ => let '(r1, x1, w1) := write_add x0 w0 in write_tail r1 x1 w1
  end.
Proof. reflexivity. Qed.

Lemma WS_refl x w : WS [] x w (ROk tt) x w.
Proof.
  exists [], []. splits; auto using wr_evs_nil, Pres_refl.
  - symmetry. apply app_nil_r.
  - right. split; auto.
Qed.

Lemma WS_set_unflushed nf x w ro x' w' b :
  WS nf x w ro x' w' -> WS nf x w ro (set_unflushed x' b) w'.
Proof.
  intros (qe & evs & H). exists qe, evs.
  cbn [set_unflushed x_role x_additional x_state x_codec]. exact H.
Qed.

Lemma write_add_spec x w r x' w' : write_add x w = (r, x', w') -> WS [] x w (err_of r) x' w'.
Proof.
  unfold write_add. intros H. destruct (x_additional x) as [msg|] eqn:Ea.
  2:{ injection H as <- <- <-. apply WS_refl. }
  destruct (buffer_frame (set_additional_raw x None) msg w) as [[rb xb] wb] eqn:Eb.
  apply buffer_frame_spec in Eb. cbn [set_additional_raw x_role x_additional x_unflushed x_state] in Eb.
  destruct Eb as (Hr & Ha & Hu & [(f' & -> & Ho & Hl & Hs)|(f1 & evs & Ho & Hl & Hq & He & Hw & Hn)]).
  - injection H as <- <- <-. exists [], []. rewrite Ea.
    unfold set_additional. rewrite Ha. cbn [set_additional_raw x_role x_additional x_state err_of].
    splits; auto using wr_evs_nil.
    + rewrite Hl. symmetry. apply app_nil_r.
    + apply Pres_repark_Clean, Ho.
    + apply Pres_repark_Pend, Ho.
    + right. split; auto.
  - assert (HW : WS [] x w rb xb wb).
    { exists [f1], (EvQueue f1 :: evs). rewrite Ea, Ha. splits.
      + rewrite Hl. reflexivity.
      + cbn. rewrite Hq. reflexivity.
      + destruct He as [A B]. split; cbn; assumption.
      + exact Hr.
      + apply Pres_move_Clean, Ho.
      + apply Pres_move_Pend, Ho.
      + exact Hw. }
    assert (G : err_of r = rb /\ w' = wb /\ (x' = xb \/ x' = set_unflushed xb true)).
    { destruct rb as [[]|e|p|]; try (injection H as <- <- <-; cbn [err_of]; auto).
      destruct e; try (injection H as <- <- <-; cbn [err_of]; auto).
      exfalso. eapply Hn. reflexivity. }
    destruct G as (-> & -> & [->| ->]); [exact HW|]. apply WS_set_unflushed, HW.
Qed.

Lemma role_eqb_server r : role_eqb r Server = true -> r = Server.
Proof. destruct r; [reflexivity|discriminate]. Qed.

Lemma write_tail_spec b x w r x' w' : write_tail (ROk b) x w = (r, x', w') -> WS [] x w (err_of r) x' w'.
Proof.
  unfold write_tail. intros H.
  destruct (role_eqb (x_role x) Server && closing_done (x_state x)
            && match x_additional x with None => true | Some _ => false end) eqn:E.
  2:{ injection H as <- <- <-. apply WS_refl. }
  apply andb_prop in E. destruct E as [E Ea]. apply andb_prop in E. destruct E as [Er Ec].
  apply role_eqb_server in Er. destruct (x_additional x) as [?|] eqn:Eadd; [discriminate|].
  destruct (write_out_buffer (x_codec x) w) as [[rw c'] w2] eqn:Ew. apply wob_spec in Ew.
  destruct Ew as (evs & Hl & Hq & He & Ho & Hn).
  exists [], evs.
  destruct Ho as [[-> Hw]|(k & -> & Hk)]; injection H as <- <- <-;
    cbn [set_state set_codec x_role x_additional x_state x_codec err_of]; rewrite ?Eadd; splits; auto using Pres_refl.
  - left. splits; auto.
  - right. split; [reflexivity|]. right. left. exists k. split; [reflexivity|]. apply Hk.
Qed.

Definition nf_ok (data : option frame) (nf : list frame) : Prop :=
  nf = [] \/ exists f f1, data = Some f /\ nf = [f1] /\ opc f1 = opc f.

Lemma bf_WS x f w r x' w' : buffer_frame x f w = (r, x', w') ->
  exists nf, nf_ok (Some f) nf /\ WS nf x w r x' w' /\
    (forall f', r = RErr (EWriteBufferFull f') -> opc f' = opc f /\ w_log w' = w_log w /\ nf = []).
Proof.
  intros H. apply buffer_frame_spec in H.
  destruct H as (Hr & Ha & Hu & [(f' & -> & Ho & Hl & Hs)|(f1 & evs & Ho & Hl & Hq & He & Hw & Hn)]).
  - exists []. split; [left; reflexivity|]. split.
    + exists [], []. rewrite Ha. splits; auto using wr_evs_nil, Pres_refl.
      * rewrite Hl. symmetry. apply app_nil_r.
      * right. split; [exact Hs|]. right. right. exists f'. auto.
    + intros f0 [= <-]. auto.
  - exists [f1]. split; [right; exists f, f1; auto|]. split.
    + exists [], (EvQueue f1 :: evs). rewrite Ha. splits; auto using Pres_refl.
      * cbn. rewrite Hq. reflexivity.
      * destruct He as [A B]. split; cbn; assumption.
    + intros f0 Hf. exfalso. eapply Hn. exact Hf.
Qed.

Lemma write__spec x data w r x' w' : write_ x data w = (r, x', w') ->
  exists nf, nf_ok data nf /\ WS nf x w (err_of r) x' w'.
Proof.
  rewrite write__eq. intros H.
  assert (G : exists nf r0 x0 w0, nf_ok data nf /\ WS nf x w r0 x0 w0 /\
            match r0 with
            | RErr e => (RErr e, x0, w0)
            | RPanic s => (RPanic s, x0, w0)
            | ROutOfFuel => (ROutOfFuel, x0, w0)
            | ROk _ => let '(r1, x1, w1) := write_add x0 w0 in write_tail r1 x1 w1
            end = (r, x', w')).
  { destruct data as [f|].
    - destruct (buffer_frame x f w) as [[r0 x0] w0] eqn:E. apply bf_WS in E.
      destruct E as (nf & Hnf & HW & Hf). exists nf, r0, x0, w0. splits; auto.
    - exists [], (ROk tt), x, w. splits; auto using WS_refl. left; reflexivity. }
  clear H. destruct G as (nf & r0 & x0 & w0 & Hnf & HW & H).
  exists nf. split; [exact Hnf|].
  destruct r0 as [[]|e|p|]; try (injection H as <- <- <-; exact HW).
  destruct (write_add x0 w0) as [[r1 x1] w1] eqn:E1. apply write_add_spec in E1.
  destruct r1 as [b|e|p|]; try (injection H as <- <- <-; eapply WS_seq; eassumption).
  apply write_tail_spec in H. eapply WS_seq; [|exact H]. eapply WS_seq; eassumption.
Qed.

Lemma flush_spec x w r x' w' : flush x w = (r, x', w') -> WS [] x w r x' w'.
Proof.
  unfold flush. intros H.
  destruct (write_ x None w) as [[r0 x0] w0] eqn:E0. apply write__spec in E0.
  destruct E0 as (nf & [->|(f & f1 & Hx & _)] & HW); [|discriminate].
  destruct r0 as [b|e|p|]; try (injection H as <- <- <-; exact HW).
  cbn [err_of] in HW.
  destruct (write_out_buffer (x_codec x0) w0) as [[r1 c1] w1] eqn:E1. apply wob_spec in E1.
  destruct E1 as (evs1 & Hl1 & Hq1 & He1 & Ho1 & Hn1).
  assert (W1 : WS [] x0 w0 r1 (set_codec x0 c1) w1).
  { exists [], evs1. cbn [set_codec x_role x_additional x_state]. splits; auto using Pres_refl.
    right. split; [reflexivity|]. destruct Ho1 as [[-> Hw]|(k & -> & Hk)]; [left; auto|].
    right. left. exists k. split; [reflexivity|apply Hk]. }
  destruct Ho1 as [[-> Hw]|(k & -> & Hk)].
  2:{ injection H as <- <- <-. eapply WS_seq; eassumption. }
  destruct (w_flush w1) as [r2 w2] eqn:E2. apply w_flush_spec in E2.
  destruct E2 as (evs2 & Hl2 & Hq2 & He2 & Hw2 & Hr2).
  eapply WS_seq; [exact HW|]. eapply WS_seq; [exact W1|].
  destruct Hr2 as [->|(k & ->)]; injection H as <- <- <-; exists [], evs2;
    cbn [set_codec set_unflushed x_role x_additional x_state]; splits; auto using Pres_refl.
  - right. split; [reflexivity|]. left. auto.
  - right. split; [reflexivity|]. right. left. exists k. split; [reflexivity|]. rewrite Hw2. discriminate.
Qed.

(* ------------------------------------------------------------------------------------------- *)
(* 5. Read side: read_frame, do_close, the frame dispatch of read_message_frame                 *)
(* ------------------------------------------------------------------------------------------- *)

Lemma try_take_err m c e c' : try_take m c = TkErr e c' ->
  (exists a b, e = ECapacity a b) \/ (exists i, e = EProtocol (InvalidOpcode i)).
Proof.
  unfold try_take. intros H.
  destruct (c_hdr c) as [[h len]|] eqn:Eh.
  - cbn in H. rewrite Eh in H.
    destruct (m <? len); [injection H as <- <-; left; eauto|].
    destruct (len <=? blen (c_in c)); discriminate.
  - destruct (header_parse (c_in c)) as [h len k| |i|] eqn:Ep; cbn in H.
    + destruct (m <? len); [injection H as <- <-; left; eauto|].
      destruct (len <=? _); discriminate.
    + rewrite Eh in H. discriminate.
    + injection H as <- <-. right. eauto.
    + discriminate.
Qed.

Definition rd_facts {A} (r : res (option A)) (evs : list event) : Prop :=
  queued evs = [] /\ wr_end evs = false /\
  (rd_eof evs = true <-> r = ROk None) /\
  (rd_rst evs = true <-> r = RErr (EIo ConnReset)).

Lemma rd_facts_nil {A} (r : res (option A)) :
  r <> ROk None -> r <> RErr (EIo ConnReset) -> rd_facts r [].
Proof. intros H1 H2. unfold rd_facts. cbn. splits; auto; split; intros; try discriminate; congruence. Qed.

Ltac rdf := unfold rd_facts; cbn; splits; auto; split; intros HH; try discriminate HH; auto.

Lemma read_frame_loop_spec m rds : forall c log r c' rds' log',
  read_frame_loop m rds c log = (r, c', rds', log') ->
  exists evs, log' = log ++ evs /\ rd_facts r evs.
Proof.
  induction rds as [|rd rds IH]; intros c log r c' rds' log' H; cbn [read_frame_loop] in H;
    destruct (try_take m c) as [h len p c1|n c1|e c1|s] eqn:Et;
    try (injection H as <- <- <- <-; exists []; rewrite app_nil_r; split; [reflexivity|];
         apply rd_facts_nil; try discriminate;
         apply try_take_err in Et; destruct Et as [(a & b & ->)|(i & ->)]; discriminate).
  - injection H as <- <- <- <-. exists [EvReserve n; EvRead (RdErr WouldBlock)].
    rewrite <- app_assoc. split; [reflexivity|]. rdf.
  - destruct rd as [bs| |k].
    + destruct bs as [|b bs].
      * injection H as <- <- <- <-. exists [EvReserve n; EvRead RdEof].
        rewrite <- app_assoc. split; [reflexivity|]. rdf.
      * apply IH in H. destruct H as (evs & -> & Hq & Hw & He & Hr).
        exists (EvReserve n :: EvRead (RdData (b :: bs)) :: evs).
        rewrite <- !app_assoc. split; [reflexivity|]. unfold rd_facts. cbn. splits; auto.
    + injection H as <- <- <- <-. exists [EvReserve n; EvRead RdEof].
      rewrite <- app_assoc. split; [reflexivity|]. rdf.
    + injection H as <- <- <- <-. exists [EvReserve n; EvRead (RdErr k)].
      rewrite <- app_assoc. split; [reflexivity|]. rdf.
      * destruct k; try discriminate HH. reflexivity.
      * injection HH as ->. reflexivity.
Qed.

Lemma rd_facts_map {A B} (r0 : res (option A)) (r : res (option B)) evs :
  rd_facts r0 evs -> (r = ROk None <-> r0 = ROk None) ->
  (r = RErr (EIo ConnReset) <-> r0 = RErr (EIo ConnReset)) -> rd_facts r evs.
Proof.
  intros (Hq & Hw & He & Hr) H1 H2. unfold rd_facts. splits; auto.
  - rewrite He. symmetry. exact H1.
  - rewrite Hr. symmetry. exact H2.
Qed.

Lemma read_frame_spec ms um au c w r c' w' : read_frame ms um au c w = (r, c', w') ->
  exists evs, w_log w' = w_log w ++ evs /\ rd_facts r evs.
Proof.
  unfold read_frame. intros H.
  destruct (read_frame_loop (limit_of ms) (w_rds w) c (w_log w)) as [[[r0 c0] rds0] log0] eqn:E.
  apply read_frame_loop_spec in E. destruct E as (evs & -> & HF).
  exists evs.
  assert (G : w_log w' = w_log w ++ evs /\ (r = ROk None <-> r0 = ROk None) /\
              (r = RErr (EIo ConnReset) <-> r0 = RErr (EIo ConnReset))).
  { destruct r0 as [[[[h len] p]|]|e|s|].
    - destruct (negb (blen p =? len)); [injection H as <- <- <-; cbn; splits; auto; split; discriminate|].
      destruct um.
      + destruct (h_mask h); [injection H as <- <- <-; cbn; splits; auto; split; discriminate|].
        destruct au; injection H as <- <- <-; cbn; splits; auto; split; discriminate.
      + injection H as <- <- <-; cbn; splits; auto; split; discriminate.
    - injection H as <- <- <-. cbn. splits; auto; split; intros HH; first [discriminate HH|reflexivity].
    - injection H as <- <- <-. cbn. splits; auto; split; intros HH;
        first [discriminate HH|injection HH as ->; reflexivity].
    - injection H as <- <- <-. cbn. splits; auto; split; intros HH; discriminate HH.
    - injection H as <- <- <-. cbn. splits; auto; split; intros HH; discriminate HH. }
  destruct G as (G1 & G2 & G3). split; [exact G1|]. eapply rd_facts_map; eassumption.
Qed.

(* the frame dispatch of read_message_frame (same text as in Protocol.v) *)
Definition handle_frame (x1 : ctx) (f : frame) (w1 : world) : res (option message) * ctx * world :=
      let h := f_hdr f in
      if negb (can_read (x_state x1)) then (RErr (EProtocol ReceivedAfterClosing), x1, w1) else
      if h_rsv1 h || h_rsv2 h || h_rsv3 h then (RErr (EProtocol NonZeroReservedBits), x1, w1) else
      if role_eqb (x_role x1) Client && (match h_mask h with Some _ => true | None => false end)
      then (RErr (EProtocol MaskedFrameFromServer), x1, w1) else
      match h_opcode h with
      | OCtl ctl =>
          if negb (h_fin h) then (RErr (EProtocol FragmentedControlFrame), x1, w1) else
          if 125 <? blen (f_payload f) then (RErr (EProtocol ControlFrameTooBig), x1, w1) else
          match ctl with
          | Close =>
              match frame_into_close (f_payload f) with
              | ROk cl =>
                  let '(r, x2) := do_close x1 cl in
                  match r with
                  | ROk (Some c) => (ROk (Some (MClose c)), x2, w1)
                  | ROk None => (ROk None, x2, w1)
                  | RErr e => (RErr e, x2, w1)
                  | RPanic s => (RPanic s, x2, w1)
                  | ROutOfFuel => (ROutOfFuel, x2, w1)
                  end
              | RErr e => (RErr e, x1, w1)
              | RPanic s => (RPanic s, x1, w1)
              | ROutOfFuel => (ROutOfFuel, x1, w1)
              end
          | CReserved i => (RErr (EProtocol (UnknownControlFrameType i)), x1, w1)
          | Ping =>
              let x2 := if is_active (x_state x1) then set_additional x1 (frame_pong (f_payload f)) else x1 in
              (ROk (Some (MPing (f_payload f))), x2, w1)
          | Pong => (ROk (Some (MPong (f_payload f))), x1, w1)
          end
      | OData d =>
          let fin := h_fin h in
          match d with
          | Continue =>
              match x_incomplete x1 with
              | Some msg =>
                  let '(r, msg') := incmsg_extend msg (f_payload f) (cfg_max_message_size (x_cfg x1)) in
                  let x2 := set_incomplete x1 (Some msg') in
                  match r with
                  | ROk _ =>
                      if fin then
                        match incmsg_complete msg' with
                        | ROk m => (ROk (Some m), set_incomplete x2 None, w1)
                        | RErr e => (RErr e, set_incomplete x2 None, w1)
                        | RPanic s => (RPanic s, x2, w1)
                        | ROutOfFuel => (ROutOfFuel, x2, w1)
                        end
                      else (ROk None, x2, w1)
                  | RErr e => (RErr e, x2, w1)
                  | RPanic s => (RPanic s, x2, w1)
                  | ROutOfFuel => (ROutOfFuel, x2, w1)
                  end
              | None => (RErr (EProtocol UnexpectedContinueFrame), x1, w1)
              end
          | _ =>
              match x_incomplete x1 with
              | Some _ => (RErr (EProtocol (ExpectedFragment d)), x1, w1)
              | None =>
                  match d with
                  | DReserved i => (RErr (EProtocol (UnknownDataFrameType i)), x1, w1)
                  | Continue => (RPanic site_not_text_nor_binary, x1, w1)
                  | Text | Binary =>
                      if fin then
                        match check_max_size (blen (f_payload f)) (cfg_max_message_size (x_cfg x1)) with
                        | ROk _ =>
                            match d with
                            | Text => if is_utf8 (f_payload f) then (ROk (Some (MText (f_payload f))), x1, w1)
                                      else (RErr EUtf8, x1, w1)
                            | _ => (ROk (Some (MBinary (f_payload f))), x1, w1)
                            end
                        | RErr e => (RErr e, x1, w1)
                        | RPanic s => (RPanic s, x1, w1)
                        | ROutOfFuel => (ROutOfFuel, x1, w1)
                        end
                      else
                        let inc0 := match d with Text => ITxt collector_new | _ => IBin [] end in
                        let '(r, inc1) := incmsg_extend inc0 (f_payload f) (cfg_max_message_size (x_cfg x1)) in
                        match r with
                        | ROk _ => (ROk None, set_incomplete x1 (Some inc1), w1)
                        | RErr e => (RErr e, x1, w1)
                        | RPanic s => (RPanic s, x1, w1)
                        | ROutOfFuel => (ROutOfFuel, x1, w1)
                        end
                  end
              end
          end
      end.

Lemma rmf_eq x w :
  read_message_frame x w =
  let '(r0, c1, w1) := read_frame (cfg_max_frame_size (x_cfg x)) (role_eqb (x_role x) Server)
                                  (cfg_accept_unmasked (x_cfg x)) (x_codec x) w in
  let '(r0', s1) := check_connection_reset r0 (x_state x) in
  let x1 := set_state (set_codec x c1) s1 in
  match r0' with
  | RErr e => (RErr e, x1, w1)
  | RPanic s => (RPanic s, x1, w1)
  | ROutOfFuel => (ROutOfFuel, x1, w1)
  | ROk None =>
      let x2 := set_state x1 Terminated in
      match x_state x1 with
      | ClosedByPeer | CloseAcknowledged => (RErr EConnectionClosed, x2, w1)
      | _ => (RErr (EProtocol ResetWithoutClosingHandshake), x2, w1)
      end
  | ROk (Some f) => handle_frame x1 f w1
  end.
Proof. reflexivity. Qed.

Definition sa (a : option frame) (f : frame) : option frame :=
  match a with
  | None => Some f
  | Some g => if opcode_eqb (opc g) (OCtl Pong) then Some f else a
  end.

Lemma set_additional_add x f : x_additional (set_additional x f) = sa (x_additional x) f.
Proof.
  unfold set_additional, sa, opc. destruct (x_additional x) as [g|] eqn:E; [|reflexivity].
  destruct (opcode_eqb (h_opcode (f_hdr g)) (OCtl Pong)); [reflexivity|exact E].
Qed.
Lemma set_additional_state x f : x_state (set_additional x f) = x_state x.
Proof.
  unfold set_additional. destruct (x_additional x) as [g|]; [|reflexivity].
  destruct (opcode_eqb _ _); reflexivity.
Qed.
Lemma set_additional_role x f : x_role (set_additional x f) = x_role x.
Proof.
  unfold set_additional. destruct (x_additional x) as [g|]; [|reflexivity].
  destruct (opcode_eqb _ _); reflexivity.
Qed.

Lemma sa_Clean a f q : Clean a q -> sa a f = Some f.
Proof.
  intros [_ H]. destruct a as [g|]; [|reflexivity]. cbn. rewrite H. reflexivity.
Qed.

(* errors that speak about the closing state of the connection *)
Definition closing_err (e : error) : bool :=
  match e with
  | EConnectionClosed | EAlreadyClosed => true
  | EProtocol SendAfterClosing | EProtocol ReceivedAfterClosing
  | EProtocol ResetWithoutClosingHandshake => true
  | _ => false
  end.

Inductive dc_case (s : ws_state) (a : option frame)
  : res (option (option close_frame)) -> ws_state -> option frame -> Prop :=
| DC_peer c f : s = Active -> opc f = OCtl Close -> dc_case s a (ROk (Some c)) ClosedByPeer (sa a f)
| DC_ack c : s = ClosedByUs -> dc_case s a (ROk (Some c)) CloseAcknowledged a
| DC_none : can_read s = false -> dc_case s a (ROk None) s a
| DC_panic p : can_read s = false -> dc_case s a (RPanic p) s a.

Lemma do_close_spec x cl r x2 : do_close x cl = (r, x2) ->
  x_role x2 = x_role x /\ dc_case (x_state x) (x_additional x) r (x_state x2) (x_additional x2).
Proof.
  unfold do_close. intros H. destruct (x_state x) eqn:Es; injection H as <- <-.
  - rewrite set_additional_role, set_additional_state, set_additional_add. cbn.
    split; [reflexivity|]. apply DC_peer; reflexivity.
  - cbn. split; [reflexivity|]. apply DC_ack. reflexivity.
  - split; [reflexivity|]. rewrite Es. apply DC_none. reflexivity.
  - split; [reflexivity|]. rewrite Es. apply DC_none. reflexivity.
  - split; [reflexivity|]. rewrite Es. apply DC_panic. reflexivity.
Qed.

Inductive hf_case (s : ws_state) (a : option frame)
  : res (option message) -> ws_state -> option frame -> Prop :=
| HF_peer c f : s = Active -> opc f = OCtl Close -> hf_case s a (ROk (Some (MClose c))) ClosedByPeer (sa a f)
| HF_ack c : s = ClosedByUs -> hf_case s a (ROk (Some (MClose c))) CloseAcknowledged a
| HF_ping p f : s = Active -> opc f = OCtl Pong -> hf_case s a (ROk (Some (MPing p))) s (sa a f)
| HF_msg m : can_read s = true -> (forall c, m <> MClose c) -> hf_case s a (ROk (Some m)) s a
| HF_none : can_read s = true -> hf_case s a (ROk None) s a
| HF_rac : can_read s = false -> hf_case s a (RErr (EProtocol ReceivedAfterClosing)) s a
| HF_err e : closing_err e = false -> hf_case s a (RErr e) s a
| HF_panic p : hf_case s a (RPanic p) s a
| HF_fuel : hf_case s a ROutOfFuel s a.

Ltac hf_leaf :=
  intros [= <- <- <-]; split; [reflexivity|]; split; [reflexivity|];
  cbn [set_incomplete set_state set_codec x_state x_additional x_role];
  first [ apply HF_rac; assumption
        | apply HF_err; reflexivity
        | apply HF_panic
        | apply HF_fuel
        | apply HF_none; assumption
        | apply HF_msg; [assumption|discriminate] ].

Lemma incmsg_extend_err m t lim e m' : incmsg_extend m t lim = (RErr e, m') -> closing_err e = false.
Proof.
  unfold incmsg_extend. intros H.
  destruct ((limit_of lim <? incmsg_len m) || (limit_of lim - incmsg_len m <? blen t)).
  - destruct (two64 <=? incmsg_len m + blen t); [discriminate|]. injection H as <- <-. reflexivity.
  - destruct m as [c|v]; [|discriminate]. destruct (collector_extend c t); try discriminate.
    injection H as <- <-. reflexivity.
Qed.

Lemma incmsg_complete_ok m r : incmsg_complete m = ROk r -> forall c, r <> MClose c.
Proof.
  unfold incmsg_complete. destruct m as [c|v].
  - destruct (collector_into_string c); [|discriminate]. intros [= <-]. discriminate.
  - intros [= <-]. discriminate.
Qed.
Lemma incmsg_complete_err m e : incmsg_complete m = RErr e -> closing_err e = false.
Proof.
  unfold incmsg_complete. destruct m as [c|v]; [|discriminate].
  destruct (collector_into_string c); [discriminate|]. intros [= <-]. reflexivity.
Qed.
Lemma check_max_size_err n lim e : check_max_size n lim = RErr e -> closing_err e = false.
Proof.
  unfold check_max_size. destruct lim as [m|]; [|discriminate].
  destruct (m <? n); [|discriminate]. intros [= <-]. reflexivity.
Qed.
Lemma frame_into_close_err p e : frame_into_close p = RErr e -> closing_err e = false.
Proof.
  unfold frame_into_close. destruct p as [|a [|b r]]; try discriminate.
  - intros [= <-]. reflexivity.
  - destruct (is_utf8 r); [discriminate|]. intros [= <-]. reflexivity.
Qed.

Lemma handle_frame_spec x1 f w1 r x2 w2 : handle_frame x1 f w1 = (r, x2, w2) ->
  w2 = w1 /\ x_role x2 = x_role x1 /\
  hf_case (x_state x1) (x_additional x1) r (x_state x2) (x_additional x2).
Proof.
  unfold handle_frame. cbv zeta.
  destruct (can_read (x_state x1)) eqn:Hcr; cbn [negb]; [|hf_leaf].
  destruct (h_rsv1 (f_hdr f) || h_rsv2 (f_hdr f) || h_rsv3 (f_hdr f)); [hf_leaf|].
  destruct (role_eqb (x_role x1) Client && _); [hf_leaf|].
  destruct (h_opcode (f_hdr f)) as [d|ctl].
  - (* data *)
    destruct d as [| | |i].
    + destruct (x_incomplete x1) as [msg|]; [|hf_leaf].
      destruct (incmsg_extend msg (f_payload f) (cfg_max_message_size (x_cfg x1))) as [re msg'] eqn:Ee.
      destruct re as [u|e|p|]; try hf_leaf.
      * destruct (h_fin (f_hdr f)); [|hf_leaf].
        destruct (incmsg_complete msg') as [m|e|p|] eqn:Ec; try hf_leaf.
        -- intros [= <- <- <-]; split; [reflexivity|]; split; [reflexivity|]. cbn.
           apply HF_msg; [assumption|]. eapply incmsg_complete_ok; eassumption.
        -- intros [= <- <- <-]; split; [reflexivity|]; split; [reflexivity|]. cbn.
           apply HF_err. eapply incmsg_complete_err; eassumption.
      * intros [= <- <- <-]; split; [reflexivity|]; split; [reflexivity|]. cbn.
        apply HF_err. eapply incmsg_extend_err; eassumption.
    + destruct (x_incomplete x1) as [msg|]; [hf_leaf|].
      destruct (h_fin (f_hdr f)).
      * destruct (check_max_size _ _) as [u|e|p|] eqn:Ec; try hf_leaf.
        -- destruct (is_utf8 (f_payload f)); hf_leaf.
        -- intros [= <- <- <-]; split; [reflexivity|]; split; [reflexivity|].
           apply HF_err. eapply check_max_size_err; eassumption.
      * destruct (incmsg_extend _ _ _) as [re inc1] eqn:Ee.
        destruct re as [u|e|p|]; try hf_leaf.
        intros [= <- <- <-]; split; [reflexivity|]; split; [reflexivity|].
        apply HF_err. eapply incmsg_extend_err; eassumption.
    + destruct (x_incomplete x1) as [msg|]; [hf_leaf|].
      destruct (h_fin (f_hdr f)).
      * destruct (check_max_size _ _) as [u|e|p|] eqn:Ec; try hf_leaf.
        intros [= <- <- <-]; split; [reflexivity|]; split; [reflexivity|].
        apply HF_err. eapply check_max_size_err; eassumption.
      * destruct (incmsg_extend _ _ _) as [re inc1] eqn:Ee.
        destruct re as [u|e|p|]; try hf_leaf.
        intros [= <- <- <-]; split; [reflexivity|]; split; [reflexivity|].
        apply HF_err. eapply incmsg_extend_err; eassumption.
    + destruct (x_incomplete x1) as [msg|]; hf_leaf.
  - (* control *)
    destruct (h_fin (f_hdr f)); cbn [negb]; [|hf_leaf].
    destruct (125 <? blen (f_payload f)); [hf_leaf|].
    destruct ctl as [| | |i].
    + destruct (frame_into_close (f_payload f)) as [cl|e|p|] eqn:Ef; try hf_leaf.
      * destruct (do_close x1 cl) as [rd xd] eqn:Ed. apply do_close_spec in Ed.
        destruct Ed as [Hr Hd].
        remember (x_state xd) as sd eqn:Esd. remember (x_additional xd) as ad eqn:Ead.
        destruct Hd as [c g Hs Hg|c Hs|Hs|p Hs];
          intros [= <- <- <-]; (split; [reflexivity|]); (split; [assumption|]);
          rewrite <- ?Esd, <- ?Ead.
        -- apply HF_peer; assumption.
        -- apply HF_ack; assumption.
        -- congruence.
        -- congruence.
      * intros [= <- <- <-]; split; [reflexivity|]; split; [reflexivity|].
        apply HF_err. eapply frame_into_close_err; eassumption.
    + destruct (is_active (x_state x1)) eqn:Ea; [|hf_leaf].
      assert (Es : x_state x1 = Active) by (destruct (x_state x1); try discriminate; reflexivity).
      intros [= <- <- <-]; split; [reflexivity|].
      rewrite set_additional_role, set_additional_state, set_additional_add.
      split; [reflexivity|]. apply HF_ping; [assumption|reflexivity].
    + hf_leaf.
    + hf_leaf.
Qed.

Lemma read_frame_loop_err m rds : forall c log e c' rds' log',
  read_frame_loop m rds c log = (RErr e, c', rds', log') -> closing_err e = false.
Proof.
  induction rds as [|rd rds IH]; intros c log e c' rds' log' H; cbn [read_frame_loop] in H;
    destruct (try_take m c) as [h len p c1|n c1|e1 c1|s] eqn:Et; try discriminate;
    try (injection H as <- <- <- <-; apply try_take_err in Et;
         destruct Et as [(a & b & ->)|(i & ->)]; reflexivity).
  - injection H as <- <- <- <-. reflexivity.
  - destruct rd as [bs| |k]; [destruct bs as [|b bs]| |]; try discriminate.
    + eapply IH; eassumption.
    + injection H as <- <- <- <-. reflexivity.
Qed.

Lemma read_frame_err ms um au c w e c' w' : read_frame ms um au c w = (RErr e, c', w') ->
  closing_err e = false.
Proof.
  unfold read_frame. intros H.
  destruct (read_frame_loop (limit_of ms) (w_rds w) c (w_log w)) as [[[r0 c0] rds0] log0] eqn:E.
  destruct r0 as [[[[h len] p]|]|e0|s|]; try discriminate.
  - destruct (negb (blen p =? len)); [discriminate|].
    destruct um; [|discriminate]. destruct (h_mask h); [discriminate|].
    destruct au; [discriminate|]. injection H as <- <- <-. reflexivity.
  - injection H as <- <- <-. eapply read_frame_loop_err; eassumption.
Qed.

Inductive rm_case (s : ws_state) (a : option frame) (evs : list event)
  : res (option message) -> ws_state -> option frame -> Prop :=
| RM_frame r s' a' : hf_case s a r s' a' -> rd_eof evs = false -> rd_rst evs = false ->
    rm_case s a evs r s' a'
| RM_cc : closing_done s = true -> rd_eof evs = true \/ rd_rst evs = true ->
    rm_case s a evs (RErr EConnectionClosed) Terminated a
| RM_reset : closing_done s = false -> rd_eof evs = true -> rd_rst evs = false ->
    rm_case s a evs (RErr (EProtocol ResetWithoutClosingHandshake)) Terminated a
| RM_io e : closing_err e = false -> rd_eof evs = false ->
    (rd_rst evs = true <-> e = EIo ConnReset) -> (e = EIo ConnReset -> closing_done s = false) ->
    rm_case s a evs (RErr e) s a
| RM_panic p : rd_eof evs = false -> rd_rst evs = false -> rm_case s a evs (RPanic p) s a
| RM_fuel : rd_eof evs = false -> rd_rst evs = false -> rm_case s a evs ROutOfFuel s a.

Lemma not_true_false b : (b = true <-> False) -> b = false.
Proof. destruct b; intuition. Qed.

Lemma rmf_spec x w r x' w' : read_message_frame x w = (r, x', w') ->
  exists evs, w_log w' = w_log w ++ evs /\ queued evs = [] /\ wr_end evs = false /\
    x_role x' = x_role x /\
    rm_case (x_state x) (x_additional x) evs r (x_state x') (x_additional x').
Proof.
  rewrite rmf_eq. intros H.
  destruct (read_frame (cfg_max_frame_size (x_cfg x)) (role_eqb (x_role x) Server)
                       (cfg_accept_unmasked (x_cfg x)) (x_codec x) w) as [[r0 c1] w1] eqn:E.
  pose proof (read_frame_spec _ _ _ _ _ _ _ _ E) as (evs & Hl & Hq & Hw & He & Hr).
  destruct (check_connection_reset r0 (x_state x)) as [r0' s1] eqn:Ec. apply ccr_spec in Ec.
  destruct Ec as [(-> & Hcd & -> & ->)|(-> & -> & Hn)].
  - injection H as <- <- <-. exists evs. cbn. splits; auto.
    apply RM_cc; [assumption|]. right. apply Hr. reflexivity.
  - destruct r0 as [[f|]|e|p|].
    + assert (E1 : rd_eof evs = false) by (apply not_true_false; rewrite He; split; [discriminate|tauto]).
      assert (E2 : rd_rst evs = false) by (apply not_true_false; rewrite Hr; split; [discriminate|tauto]).
      apply handle_frame_spec in H. cbn in H. destruct H as (-> & Hrole & Hc).
      exists evs. splits; auto. apply RM_frame; assumption.
    + assert (E1 : rd_eof evs = true) by (apply He; reflexivity).
      assert (E2 : rd_rst evs = false) by (apply not_true_false; rewrite Hr; split; [discriminate|tauto]).
      cbn [set_state set_codec x_state] in H.
      exists evs.
      destruct (x_state x) eqn:Es; injection H as <- <- <-; cbn; splits; auto;
        first [apply RM_cc; [reflexivity|left; assumption] | apply RM_reset; auto].
    + assert (E1 : rd_eof evs = false) by (apply not_true_false; rewrite He; split; [discriminate|tauto]).
      injection H as <- <- <-. exists evs. cbn. splits; auto.
      apply RM_io; auto.
      * eapply read_frame_err; eassumption.
      * rewrite Hr. split; [intros [= ->]; reflexivity|intros ->; reflexivity].
      * intros ->. apply Hn. reflexivity.
    + assert (E1 : rd_eof evs = false) by (apply not_true_false; rewrite He; split; [discriminate|tauto]).
      assert (E2 : rd_rst evs = false) by (apply not_true_false; rewrite Hr; split; [discriminate|tauto]).
      injection H as <- <- <-. exists evs. cbn. splits; auto. apply RM_panic; assumption.
    + assert (E1 : rd_eof evs = false) by (apply not_true_false; rewrite He; split; [discriminate|tauto]).
      assert (E2 : rd_rst evs = false) by (apply not_true_false; rewrite Hr; split; [discriminate|tauto]).
      injection H as <- <- <-. exists evs. cbn. splits; auto. apply RM_fuel; assumption.
Qed.

(* ------------------------------------------------------------------------------------------- *)
(* 6. The read loop                                                                             *)
(* ------------------------------------------------------------------------------------------- *)

Definition QP (s : ws_state) (a : option frame) (q : list frame) : Prop :=
  match s with
  | Active => Clean a q
  | Terminated => Clean a q \/ Pend a q
  | _ => Pend a q
  end.

Lemma QP_pres s a a' qe : Pres Clean a a' qe -> Pres Pend a a' qe -> forall q, QP s a q -> QP s a' (q ++ qe).
Proof. intros HC HP q. destruct s; cbn; auto. intros [H|H]; auto. Qed.
Lemma QP_term s a q : QP s a q -> QP Terminated a q.
Proof. destruct s; cbn; auto. Qed.

Definition read_pre (x : ctx) (w : world) : res unit * ctx * world :=
  if (match x_additional x with Some _ => true | None => false end) || x_unflushed x then
    let '(r, x', w') := flush x w in
    match r with
    | ROk _ => (ROk tt, x', w')
    | RErr (EIo WouldBlock) => (ROk tt, set_unflushed x' true, w')
    | _ => (r, x', w')
    end
  else if role_eqb (x_role x) Server && negb (can_read (x_state x)) then
    let '(rw, c', w') := write_out_buffer (x_codec x) w in
    match rw with
    | ROk _ => (RErr EConnectionClosed, set_state (set_codec x c') Terminated, w')
    | _ => (rw, set_codec x c', w')
    end
  else (ROk tt, x, w).

Lemma read_loop_eq fuel x w :
  read_loop (S fuel) x w =
  let '(r0, x0, w0) := read_pre x w in
  match r0 with
  | ROk _ =>
      let '(r1, x1, w1) := read_message_frame x0 w0 in
      match r1 with
      | ROk (Some m) => (ROk m, x1, w1)
      | ROk None => read_loop fuel x1 w1
      | RErr e => (RErr e, x1, w1)
      | RPanic s => (RPanic s, x1, w1)
      | ROutOfFuel => (ROutOfFuel, x1, w1)
      end
  | RErr e => (RErr e, x0, w0)
  | RPanic s => (RPanic s, x0, w0)
  | ROutOfFuel => (ROutOfFuel, x0, w0)
  end.
Proof. reflexivity. Qed.

Lemma read_pre_spec x w r x' w' : x_state x <> Terminated ->
  read_pre x w = (r, x', w') -> WS [] x w r x' w'.
Proof.
  unfold read_pre. intros Hnt H.
  destruct ((match x_additional x with Some _ => true | None => false end) || x_unflushed x) eqn:E1.
  - destruct (flush x w) as [[r0 x0] w0] eqn:Ef. apply flush_spec in Ef.
    destruct r0 as [[]|e|p|]; try (injection H as <- <- <-; exact Ef).
    destruct e as [| |k| | | |]; try (injection H as <- <- <-; exact Ef).
    destruct k; try (injection H as <- <- <-; exact Ef).
    injection H as <- <- <-.
    destruct Ef as (qe & evs & Hl & Hq & He & Hr & HC & HP & HW).
    exists qe, evs. cbn [set_unflushed x_role x_additional x_state]. splits; auto.
    destruct HW as [(Hx & _)|(Hs & [[Hx _]|[(k & Hx & Hk)|(f & Hx & _)]])]; try discriminate.
    right. split; [exact Hs|]. left. split; [reflexivity|].
    injection Hx as <-. destruct (wr_end evs); [|reflexivity]. discriminate Hk. reflexivity.
  - apply orb_false_elim in E1. destruct E1 as [Ea _].
    destruct (x_additional x) as [?|] eqn:Eadd; [discriminate|].
    destruct (role_eqb (x_role x) Server && negb (can_read (x_state x))) eqn:E2.
    2:{ injection H as <- <- <-. apply WS_refl. }
    apply andb_prop in E2. destruct E2 as [Er Ec]. apply role_eqb_server in Er.
    assert (Hcd : closing_done (x_state x) = true).
    { destruct (x_state x); try discriminate; try reflexivity. congruence. }
    destruct (write_out_buffer (x_codec x) w) as [[rw c'] w2] eqn:Ew. apply wob_spec in Ew.
    destruct Ew as (evs & Hl & Hq & He & Ho & Hn).
    exists [], evs.
    destruct Ho as [[-> Hw]|(k & -> & Hk)]; injection H as <- <- <-;
      cbn [set_state set_codec x_role x_additional x_state x_codec]; rewrite ?Eadd; splits; auto using Pres_refl.
    + left. splits; auto.
    + right. split; [reflexivity|]. right. left. exists k. split; [reflexivity|]. apply Hk.
Qed.

Inductive rl_trans (s : ws_state) (x' : ctx) (fe fr fw : bool) : res message -> Prop :=
| RLT_peer c : s = Active -> x_state x' = ClosedByPeer -> fe = false -> fr = false -> fw = false ->
    rl_trans s x' fe fr fw (ROk (MClose c))
| RLT_ack c : s = ClosedByUs -> x_state x' = CloseAcknowledged -> fe = false -> fr = false -> fw = false ->
    rl_trans s x' fe fr fw (ROk (MClose c))
| RLT_msg m : (forall c, m <> MClose c) -> x_state x' = s -> can_read s = true ->
    fe = false -> fr = false -> fw = false -> rl_trans s x' fe fr fw (ROk m)
| RLT_cc : closing_done s = true -> x_state x' = Terminated ->
    (fe || fr || fw = true \/ (x_role x' = Server /\ x_additional x' = None /\ c_out (x_codec x') = [])) ->
    (x_role x' = Client -> fe || fr || fw = true) ->
    rl_trans s x' fe fr fw (RErr EConnectionClosed)
| RLT_reset : closing_done s = false -> x_state x' = Terminated -> fe = true -> fr = false -> fw = false ->
    rl_trans s x' fe fr fw (RErr (EProtocol ResetWithoutClosingHandshake))
| RLT_err e : x_state x' = s -> e <> EConnectionClosed -> (can_read s = true -> closing_err e = false) ->
    fe = false -> (fr = true \/ fw = true -> e = EIo ConnReset) ->
    rl_trans s x' fe fr fw (RErr e)
| RLT_panic p : x_state x' = s -> fe = false -> fr = false -> fw = false -> rl_trans s x' fe fr fw (RPanic p)
| RLT_fuel : x_state x' = s -> fe = false -> fr = false -> fw = false -> rl_trans s x' fe fr fw ROutOfFuel.

Definition RL (s : ws_state) (a : option frame) (r : res message) (x' : ctx) (evs : list event) : Prop :=
  (forall q, QP s a q -> QP (x_state x') (x_additional x') (q ++ queued evs)) /\
  (s <> Active -> Pres Pend a (x_additional x') (queued evs)) /\
  rl_trans s x' (rd_eof evs) (rd_rst evs) (wr_end evs) r.

Lemma RL_prefix s a a0 pre evs r x' :
  Pres Clean a a0 (queued pre) -> Pres Pend a a0 (queued pre) ->
  rd_eof pre = false -> rd_rst pre = false -> wr_end pre = false ->
  RL s a0 r x' evs -> RL s a r x' (pre ++ evs).
Proof.
  intros HC HP E1 E2 E3 (HQ & HPP & HT). split; [|split].
  - intros q Hq. rewrite queued_app, app_assoc. apply HQ. eapply QP_pres; eassumption.
  - intros Hs. rewrite queued_app. eapply Pres_trans; [exact HP|apply HPP, Hs].
  - rewrite rd_eof_app, rd_rst_app, wr_end_app, E1, E2, E3. exact HT.
Qed.

Lemma WS_ok_inv x w x0 w0 : WS [] x w (ROk tt) x0 w0 ->
  exists evs, w_log w0 = w_log w ++ evs /\ x_role x0 = x_role x /\ x_state x0 = x_state x /\
    Pres Clean (x_additional x) (x_additional x0) (queued evs) /\
    Pres Pend (x_additional x) (x_additional x0) (queued evs) /\
    rd_eof evs = false /\ rd_rst evs = false /\ wr_end evs = false.
Proof.
  intros (qe & evs & Hl & Hq & [He1 He2] & Hr & HC & HP & HW). cbn in Hq. subst qe.
  exists evs. splits; auto;
  destruct HW as [(Hx & _)|(Hs & [[_ Hx]|[(k & Hx & _)|(f & Hx & _)]])]; try discriminate; auto.
Qed.

(* the pre-step of a read iteration ended the call *)
Lemma rl_pre_exit x w (ro : res unit) x0 w0 (r : res message) :
  WS [] x w ro x0 w0 -> ro = err_of r -> (forall m, r <> ROk m) ->
  exists evs, w_log w0 = w_log w ++ evs /\ x_role x0 = x_role x /\
              RL (x_state x) (x_additional x) r x0 evs.
Proof.
  intros (qe & evs & Hl & Hq & [He1 He2] & Hr & HC & HP & HW) -> Hnok. cbn in Hq. subst qe.
  exists evs. split; [exact Hl|]. split; [exact Hr|]. split; [|split].
  - intros q Hq. destruct HW as [(_ & Hcd & Hs & _)|(Hs & _)]; rewrite Hs.
    + eapply QP_term. eapply QP_pres; eassumption.
    + eapply QP_pres; eassumption.
  - intros _. exact HP.
  - rewrite He1, He2.
    destruct HW as [(Hx & Hcd & Hs & Hd)|(Hs & [[Hx _]|[(k & Hx & Hk)|(f & Hx & Hk)]])].
    + destruct r as [m|e|p|]; try discriminate Hx. injection Hx as ->.
      apply RLT_cc; [exact Hcd|exact Hs| |].
      * destruct Hd as [Hd|Hd]; [left; rewrite Hd; reflexivity|right; exact Hd].
      * intros Hc. destruct Hd as [Hd|(Hd & _)]; [rewrite Hd; reflexivity|congruence].
    + destruct r as [m|e|p|]; try discriminate Hx. exfalso. eapply Hnok. reflexivity.
    + destruct r as [m|e|p|]; try discriminate Hx. injection Hx as ->.
      apply RLT_err; auto; try discriminate.
      intros [H|H]; [discriminate|]. rewrite (Hk H). reflexivity.
    + destruct r as [m|e|p|]; try discriminate Hx. injection Hx as ->.
      apply RLT_err; auto; try discriminate.
      intros [H|H]; [discriminate|]. rewrite Hk in H. discriminate.
Qed.

Definition lift_rm (r1 : res (option message)) : res message :=
  match r1 with
  | ROk (Some m) => ROk m
  | ROk None => ROutOfFuel
  | RErr e => RErr e
  | RPanic p => RPanic p
  | ROutOfFuel => ROutOfFuel
  end.

Lemma closing_err_cc e : closing_err e = false -> e <> EConnectionClosed.
Proof. intros H ->. discriminate. Qed.

(* read_message_frame ended the call *)
Lemma rl_rmf_exit x w r1 x1 w1 :
  read_message_frame x w = (r1, x1, w1) -> x_state x <> Terminated -> r1 <> ROk None ->
  exists evs, w_log w1 = w_log w ++ evs /\ x_role x1 = x_role x /\
              RL (x_state x) (x_additional x) (lift_rm r1) x1 evs.
Proof.
  intros H Hnt Hnn. apply rmf_spec in H.
  destruct H as (evs & Hl & Hq & Hw & Hr & Hc).
  exists evs. split; [exact Hl|]. split; [exact Hr|]. unfold RL. rewrite Hq, Hw.
  remember (x_state x1) as s1 eqn:Es1. remember (x_additional x1) as a1 eqn:Ea1.
  assert (Hsame : forall s a, forall q : list frame, QP s a q -> QP s a (q ++ [])).
  { intros s a q HQ. rewrite app_nil_r. exact HQ. }
  assert (Hterm : forall s a, forall q : list frame, QP s a q -> QP Terminated a (q ++ [])).
  { intros s a q HQ. rewrite app_nil_r. eapply QP_term. exact HQ. }
  assert (Hpr : forall s a, s <> Active -> Pres Pend a a []).
  { intros s a _. apply Pres_refl. }
  destruct Hc as [r s' a' Hf E1 E2|Hcd Hd|Hcd E1 E2|e Hce E1 E2 E3|p E1 E2|E1 E2].
  - rewrite E1, E2.
    destruct Hf as [c f Hs Hf|c Hs|p f Hs Hf|m Hcr Hm| Hcr|Hcr|e He|p|]; cbn [lift_rm].
    + split; [|split; [intros Hx; congruence|apply RLT_peer; auto]].
      intros q HQ. rewrite app_nil_r. rewrite Hs in HQ. cbn in HQ |- *.
      rewrite (sa_Clean _ f _ HQ). destruct HQ as [HQ _]. split; assumption.
    + split; [|split; [apply (Hpr (x_state x))|apply RLT_ack; auto]].
      intros q HQ. rewrite app_nil_r. rewrite Hs in HQ. exact HQ.
    + split; [|split; [intros Hx; congruence|apply RLT_msg; auto; [discriminate|rewrite Hs; reflexivity]]].
      intros q HQ. rewrite app_nil_r. rewrite Hs in HQ |- *. cbn in HQ |- *.
      rewrite (sa_Clean _ f _ HQ). destruct HQ as [HQ _]. split; assumption.
    + split; [apply Hsame|split; [apply (Hpr (x_state x))|apply RLT_msg; auto]].
    + exfalso. apply Hnn. reflexivity.
    + split; [apply Hsame|split; [apply (Hpr (x_state x))|apply RLT_err; auto; try discriminate]].
      * intros Hx. congruence.
      * intros [Hx|Hx]; discriminate.
    + split; [apply Hsame|split; [apply (Hpr (x_state x))|apply RLT_err; auto using closing_err_cc]].
      intros [Hx|Hx]; discriminate.
    + split; [apply Hsame|split; [apply (Hpr (x_state x))|apply RLT_panic; auto]].
    + split; [apply Hsame|split; [apply (Hpr (x_state x))|apply RLT_fuel; auto]].
  - cbn [lift_rm]. split; [apply Hterm|split; [apply (Hpr (x_state x))|]].
    apply RLT_cc; auto.
    + left. destruct Hd as [-> | ->]; [reflexivity|apply orb_true_iff; left; apply orb_true_r].
    + intros _. destruct Hd as [-> | ->]; [reflexivity|apply orb_true_iff; left; apply orb_true_r].
  - cbn [lift_rm]. split; [apply Hterm|split; [apply (Hpr (x_state x))|]].
    rewrite E1, E2. apply RLT_reset; auto.
  - cbn [lift_rm]. split; [apply Hsame|split; [apply (Hpr (x_state x))|]].
    rewrite E1. apply RLT_err; auto using closing_err_cc.
    intros [Hx|Hx]; [apply E2; exact Hx|discriminate].
  - cbn [lift_rm]. split; [apply Hsame|split; [apply (Hpr (x_state x))|]].
    rewrite E1, E2. apply RLT_panic; auto.
  - cbn [lift_rm]. split; [apply Hsame|split; [apply (Hpr (x_state x))|]].
    rewrite E1, E2. apply RLT_fuel; auto.
Qed.

(* read_message_frame asked for another iteration *)
Lemma rl_rmf_cont x w x1 w1 :
  read_message_frame x w = (ROk None, x1, w1) ->
  exists evs, w_log w1 = w_log w ++ evs /\ x_role x1 = x_role x /\ x_state x1 = x_state x /\
    x_additional x1 = x_additional x /\ queued evs = [] /\
    rd_eof evs = false /\ rd_rst evs = false /\ wr_end evs = false.
Proof.
  intros H. apply rmf_spec in H. destruct H as (evs & Hl & Hq & Hw & Hr & Hc).
  exists evs.
  remember (x_state x1) as s1 eqn:Es1. remember (x_additional x1) as a1 eqn:Ea1.
  remember (ROk None) as rr eqn:Err.
  destruct Hc as [r s' a' Hf E1 E2|Hcd Hd|Hcd E1 E2|e Hce E1 E2 E3|p E1 E2|E1 E2]; try discriminate Err.
  destruct Hf; try discriminate Err. splits; auto.
Qed.

Lemma read_loop_spec fuel : forall x w r x' w',
  read_loop fuel x w = (r, x', w') -> x_state x <> Terminated ->
  exists evs, w_log w' = w_log w ++ evs /\ x_role x' = x_role x /\
              RL (x_state x) (x_additional x) r x' evs.
Proof.
  induction fuel as [|fuel IH]; intros x w r x' w' H Hnt.
  - cbn in H. injection H as <- <- <-. exists []. rewrite app_nil_r. splits; auto.
    split; [intros q HQ; rewrite app_nil_r; exact HQ|].
    split; [intros _; apply Pres_refl|]. apply RLT_fuel; reflexivity.
  - rewrite read_loop_eq in H.
    destruct (read_pre x w) as [[r0 x0] w0] eqn:Ep. apply read_pre_spec in Ep; [|exact Hnt].
    destruct r0 as [[]|e|p|].
    2:{ injection H as <- <- <-. eapply rl_pre_exit; [exact Ep|reflexivity|discriminate]. }
    2:{ injection H as <- <- <-. eapply rl_pre_exit; [exact Ep|reflexivity|discriminate]. }
    2:{ injection H as <- <- <-. eapply rl_pre_exit; [exact Ep|reflexivity|discriminate]. }
    apply WS_ok_inv in Ep.
    destruct Ep as (evs1 & Hl1 & Hr1 & Hs1 & HC1 & HP1 & E1 & E2 & E3).
    destruct (read_message_frame x0 w0) as [[r1 x1] w1] eqn:Em.
    assert (Hnt0 : x_state x0 <> Terminated) by congruence.
    assert (Hexit : r1 <> ROk None -> (lift_rm r1, x1, w1) = (r, x', w') ->
            exists evs, w_log w' = w_log w ++ evs /\ x_role x' = x_role x /\
                        RL (x_state x) (x_additional x) r x' evs).
    { intros Hnn [= <- <- <-]. apply rl_rmf_exit in Em; auto.
      destruct Em as (evs2 & Hl2 & Hr2 & HRL). exists (evs1 ++ evs2). splits.
      - rewrite Hl2, Hl1, app_assoc. reflexivity.
      - congruence.
      - rewrite <- Hs1. eapply RL_prefix; eassumption. }
    destruct r1 as [[m|]|e|p|]; try (apply Hexit; [discriminate|exact H]).
    clear Hexit. apply rl_rmf_cont in Em.
    destruct Em as (evs2 & Hl2 & Hr2 & Hs2 & Ha2 & Hq2 & F1 & F2 & F3).
    apply IH in H; [|congruence].
    destruct H as (evs3 & Hl3 & Hr3 & HRL). exists (evs1 ++ evs2 ++ evs3). splits.
    + rewrite Hl3, Hl2, Hl1, !app_assoc. reflexivity.
    + congruence.
    + rewrite <- Hs1. eapply RL_prefix; try eassumption.
      rewrite <- Hs2. eapply RL_prefix; try eassumption.
      * rewrite Hq2, Ha2. apply Pres_refl.
      * rewrite Hq2, Ha2. apply Pres_refl.
Qed.

(* ------------------------------------------------------------------------------------------- *)
(* 7. write and close                                                                           *)
(* ------------------------------------------------------------------------------------------- *)

Definition write_data (x : ctx) (f : frame) (w : world) : res unit * ctx * world :=
  let '(r, x1, w1) := write_ x (Some f) w in
  match r with
  | ROk true => flush x1 w1
  | ROk false => (ROk tt, x1, w1)
  | RErr e => (RErr e, x1, w1)
  | RPanic s => (RPanic s, x1, w1)
  | ROutOfFuel => (ROutOfFuel, x1, w1)
  end.

Definition write_pong (x : ctx) (d : bytes) (w : world) : res unit * ctx * world :=
  let '(r, x1, w1) := write_ (set_additional x (frame_pong d)) None w in
  match r with
  | ROk _ => (ROk tt, x1, w1)
  | RErr e => (RErr e, x1, w1)
  | RPanic s => (RPanic s, x1, w1)
  | ROutOfFuel => (ROutOfFuel, x1, w1)
  end.

Lemma write_eq x m w :
  write x m w =
  if is_terminated (x_state x) then (RErr EAlreadyClosed, x, w) else
  if negb (is_active (x_state x)) then (RErr (EProtocol SendAfterClosing), x, w) else
  match m with
  | MText d => write_data x (frame_message d (OData Text) true) w
  | MBinary d => write_data x (frame_message d (OData Binary) true) w
  | MPing d => write_data x (frame_ping d) w
  | MPong d => write_pong x d w
  | MClose code => close x code w
  | MFrame f => write_data x f w
  end.
Proof. reflexivity. Qed.

Lemma write_data_spec x f w r x' w' : write_data x f w = (r, x', w') ->
  exists nf, nf_ok (Some f) nf /\ WS nf x w r x' w'.
Proof.
  unfold write_data. intros H.
  destruct (write_ x (Some f) w) as [[r0 x1] w1] eqn:E. apply write__spec in E.
  destruct E as (nf & Hnf & HW). exists nf. split; [exact Hnf|].
  destruct r0 as [[|]|e|p|]; try (injection H as <- <- <-; exact HW).
  apply flush_spec in H. eapply WS_seq; eassumption.
Qed.

Lemma write_pong_spec x d w r x' w' : write_pong x d w = (r, x', w') ->
  WS [] (set_additional x (frame_pong d)) w r x' w'.
Proof.
  unfold write_pong. intros H.
  destruct (write_ (set_additional x (frame_pong d)) None w) as [[r0 x1] w1] eqn:E.
  apply write__spec in E.
  destruct E as (nf & [->|(f & f1 & Hx & _)] & HW); [|discriminate].
  destruct r0 as [b|e|p|]; injection H as <- <- <-; exact HW.
Qed.

Lemma Clean_app a q nf : Clean a q -> noclose nf -> Clean a (q ++ nf).
Proof. intros [Hq Ha] Hn. split; [apply noclose_app; auto|exact Ha]. Qed.

(* what a write-side step gives to the callers *)
Lemma WS_post nf x w r x' w' : WS nf x w r x' w' ->
  exists evs, w_log w' = w_log w ++ evs /\ x_role x' = x_role x /\ wr_evs evs /\
    wres r (x_state x) x' evs /\
    (nf = [] \/ (x_state x = Active /\ noclose nf) ->
     forall q, QP (x_state x) (x_additional x) q -> QP (x_state x') (x_additional x') (q ++ queued evs)) /\
    (nf = [] -> Pres Pend (x_additional x) (x_additional x') (queued evs)).
Proof.
  intros (qe & evs & Hl & Hq & He & Hr & HC & HP & HW).
  exists evs. splits; auto.
  - intros Hnf q HQ. rewrite Hq, app_assoc.
    assert (HQ1 : QP (x_state x) (x_additional x) (q ++ nf)).
    { destruct Hnf as [->|[Hs Hn]]; [rewrite app_nil_r; exact HQ|].
      rewrite Hs in HQ |- *. cbn in HQ |- *. apply Clean_app; assumption. }
    destruct HW as [(_ & _ & Hs & _)|(Hs & _)]; rewrite Hs.
    + eapply QP_term. eapply QP_pres; eassumption.
    + eapply QP_pres; eassumption.
  - intros ->. cbn in Hq. rewrite Hq. exact HP.
Qed.

Lemma nf_ok_noclose f nf : opc f <> OCtl Close -> nf_ok (Some f) nf -> noclose nf.
Proof.
  intros Hf [->|(g & f1 & [= <-] & -> & Ho)]; [constructor|].
  apply noclose_one. congruence.
Qed.

(* ------------------------------------------------------------------------------------------- *)
(* 8. Operations                                                                                *)
(* ------------------------------------------------------------------------------------------- *)

Definition is_raw (o : op) : bool := match o with OpWrite (MFrame _) => true | _ => false end.
Definition unit_op (o : op) : bool :=
  match o with OpWrite _ | OpFlush | OpClose _ => true | _ => false end.

Definition pure_res (s : ws_state) (o : op) (r : op_result) : Prop :=
  match o with
  | OpCanRead => r = ResBool (can_read s)
  | OpCanWrite => r = ResBool (is_active s)
  | OpSetBuf _ _ => exists u, r = ResUnit u /\ forall e, u <> RErr e
  | _ => False
  end.

Inductive op_trans (x x' : ctx) (evs : list event) : op -> op_result -> Prop :=
| OT_read r : x_state x <> Terminated ->
    rl_trans (x_state x) x' (rd_eof evs) (rd_rst evs) (wr_end evs) r ->
    op_trans x x' evs OpRead (ResMsg r)
| OT_read_closed : x_state x = Terminated -> x' = x -> evs = [] ->
    op_trans x x' evs OpRead (ResMsg (RErr EAlreadyClosed))
| OT_unit o r s0 : unit_op o = true ->
    (s0 = x_state x \/ (x_state x = Active /\ s0 = ClosedByUs)) ->
    (forall m, o = OpWrite m -> x_state x = Active) ->
    wr_evs evs -> wres r s0 x' evs ->
    op_trans x x' evs o (ResUnit r)
| OT_write_closed m : x_state x = Terminated -> x' = x -> evs = [] ->
    op_trans x x' evs (OpWrite m) (ResUnit (RErr EAlreadyClosed))
| OT_write_after m : is_active (x_state x) = false -> x_state x <> Terminated -> x' = x -> evs = [] ->
    op_trans x x' evs (OpWrite m) (ResUnit (RErr (EProtocol SendAfterClosing)))
| OT_pure o r : x_state x' = x_state x -> x_additional x' = x_additional x -> evs = [] ->
    pure_res (x_state x) o r -> op_trans x x' evs o r.

Definition op_post (x : ctx) (o : op) (w : world) (r : op_result) (x' : ctx) (w' : world) : Prop :=
  exists evs, w_log w' = w_log w ++ evs /\ x_role x' = x_role x /\
    op_trans x x' evs o r /\
    (is_raw o = false ->
     forall q, QP (x_state x) (x_additional x) q -> QP (x_state x') (x_additional x') (q ++ queued evs)) /\
    (x_state x <> Active -> Pres Pend (x_additional x) (x_additional x') (queued evs)).

Lemma op_post_same x o w r : 
  (forall evs, evs = [] -> op_trans x x evs o r) -> op_post x o w r x w.
Proof.
  intros H. exists []. rewrite app_nil_r. splits; auto.
  - intros _ q HQ. rewrite app_nil_r. exact HQ.
  - intros _. apply Pres_refl.
Qed.

Lemma flush_post x w r x' w' : flush x w = (r, x', w') -> op_post x OpFlush w (ResUnit r) x' w'.
Proof.
  intros H. apply flush_spec, WS_post in H.
  destruct H as (evs & Hl & Hr & He & HW & HQ & HP). exists evs. splits; auto.
  apply OT_unit with (s0 := x_state x); auto. intros m Hm. discriminate.
Qed.

Lemma close_post x c w r x' w' (o : op) : close x c w = (r, x', w') ->
  o = OpClose c \/ (o = OpWrite (MClose c) /\ x_state x = Active) ->
  op_post x o w (ResUnit r) x' w'.
Proof.
  unfold close. intros H Ho.
  assert (Hu : unit_op o = true) by (destruct Ho as [->|[-> _]]; reflexivity).
  assert (Hraw : is_raw o = false) by (destruct Ho as [->|[-> _]]; reflexivity).
  assert (Hwm : forall m, o = OpWrite m -> x_state x = Active).
  { intros m Hm. destruct Ho as [->|[_ Hs]]; [discriminate|exact Hs]. }
  assert (Hcase : (x_state x = Active /\
                   flush (set_additional_raw (set_state x ClosedByUs) (Some (frame_close c))) w = (r, x', w'))
                  \/ (x_state x <> Active /\ flush x w = (r, x', w'))).
  { destruct (x_state x); [left; split; auto|right; split; auto; discriminate..]. }
  clear H. destruct Hcase as [[Es H]|[Es H]];
    apply flush_spec, WS_post in H; destruct H as (evs & Hl & Hr & He & HW & HQ & HP);
    cbn [set_additional_raw set_state x_role x_state x_additional] in *;
    exists evs; (split; [exact Hl|]); (split; [exact Hr|]).
  - split; [|split].
    + apply OT_unit with (s0 := ClosedByUs); auto.
    + intros _ q HQ0. apply HQ; [left; reflexivity|]. rewrite Es in HQ0. cbn in HQ0 |- *.
      destruct HQ0 as [HQ0 _]. split; [reflexivity|exact HQ0].
    + intros Ht. congruence.
  - split; [apply OT_unit with (s0 := x_state x); auto|].
    split; [intros _; apply HQ; left; reflexivity|].
    intros _; apply HP; reflexivity.
Qed.

Lemma write_data_post x f w r x' w' m : x_state x = Active -> write_data x f w = (r, x', w') ->
  (is_raw (OpWrite m) = false -> opc f <> OCtl Close) ->
  op_post x (OpWrite m) w (ResUnit r) x' w'.
Proof.
  intros Es H Hf. apply write_data_spec in H. destruct H as (nf & Hnf & H).
  apply WS_post in H. destruct H as (evs & Hl & Hr & He & HW & HQ & HP).
  exists evs. splits; auto.
  - apply OT_unit with (s0 := x_state x); auto.
  - intros Hraw. apply HQ. right. split; [exact Es|]. eapply nf_ok_noclose; eauto.
  - intros Ht. congruence.
Qed.

Lemma is_active_true s : is_active s = true -> s = Active.
Proof. destruct s; try discriminate; reflexivity. Qed.

Lemma write_post x m w r x' w' : write x m w = (r, x', w') ->
  op_post x (OpWrite m) w (ResUnit r) x' w'.
Proof.
  rewrite write_eq. intros H.
  destruct (is_terminated (x_state x)) eqn:Et.
  { injection H as <- <- <-. apply op_post_same. intros evs ->.
    apply OT_write_closed; auto. destruct (x_state x); try discriminate; reflexivity. }
  destruct (is_active (x_state x)) eqn:Ea; cbn [negb] in H.
  2:{ injection H as <- <- <-. apply op_post_same. intros evs ->.
      apply OT_write_after; auto. intros Hx. rewrite Hx in Et. discriminate. }
  apply is_active_true in Ea.
  destruct m as [d|d|d|d|c|f].
  - eapply write_data_post; eauto. intros _. discriminate.
  - eapply write_data_post; eauto. intros _. discriminate.
  - eapply write_data_post; eauto. intros _. discriminate.
  - apply write_pong_spec, WS_post in H.
    destruct H as (evs & Hl & Hr & He & HW & HQ & HP).
    rewrite set_additional_state, ?set_additional_role, ?set_additional_add in *.
    exists evs. splits; auto.
    + apply OT_unit with (s0 := x_state x); auto.
    + intros _ q HQ0. apply HQ; [left; reflexivity|]. rewrite Ea in HQ0 |- *. cbn in HQ0 |- *.
      rewrite (sa_Clean _ (frame_pong d) _ HQ0). destruct HQ0 as [HQ0 _]. split; [exact HQ0|reflexivity].
    + intros Ht. congruence.
  - eapply close_post; eauto.
  - eapply write_data_post; eauto. intros Hx. discriminate Hx.
Qed.

Lemma read_post x w r x' w' : read x w = (r, x', w') -> op_post x OpRead w (ResMsg r) x' w'.
Proof.
  unfold read. intros H.
  destruct (is_terminated (x_state x)) eqn:Et.
  { injection H as <- <- <-. apply op_post_same. intros evs ->.
    apply OT_read_closed; auto. destruct (x_state x); try discriminate; reflexivity. }
  assert (Hnt : x_state x <> Terminated) by (intros Hx; rewrite Hx in Et; discriminate).
  apply read_loop_spec in H; [|exact Hnt].
  destruct H as (evs & Hl & Hr & HQ & HP & HT). exists evs. splits; auto.
  apply OT_read; assumption.
Qed.

Lemma run_op_post x o w r x' w' : run_op x o w = (r, x', w') -> op_post x o w r x' w'.
Proof.
  unfold run_op. intros H. destruct o as [|m| |c| | |wbs mx].
  - destruct (read x w) as [[r0 x0] w0] eqn:E. injection H as <- <- <-. apply read_post, E.
  - destruct (write x m w) as [[r0 x0] w0] eqn:E. injection H as <- <- <-. apply write_post, E.
  - destruct (flush x w) as [[r0 x0] w0] eqn:E. injection H as <- <- <-. apply flush_post, E.
  - destruct (close x c w) as [[r0 x0] w0] eqn:E. injection H as <- <- <-.
    eapply close_post; [exact E|left; reflexivity].
  - injection H as <- <- <-. apply op_post_same. intros evs ->. apply OT_pure; auto. reflexivity.
  - injection H as <- <- <-. apply op_post_same. intros evs ->. apply OT_pure; auto. reflexivity.
  - destruct (config_valid _); injection H as <- <- <-.
    + exists []. rewrite app_nil_r. cbn [x_role x_state x_additional]. splits; auto.
      * apply OT_pure; auto. cbn. eexists. split; [reflexivity|discriminate].
      * intros _ q HQ. rewrite app_nil_r. exact HQ.
      * intros _. apply Pres_refl.
    + apply op_post_same. intros evs ->. apply OT_pure; auto. cbn. eexists. split; [reflexivity|discriminate].
Qed.

(* ------------------------------------------------------------------------------------------- *)
(* 9. Invariants                                                                                *)
(* ------------------------------------------------------------------------------------------- *)

Definition got_close (r : op_result) : bool :=
  match r with ResMsg (ROk (MClose _)) => true | _ => false end.
Definition is_cc (r : op_result) : bool :=
  match r with
  | ResMsg (RErr EConnectionClosed) | ResUnit (RErr EConnectionClosed) => true
  | _ => false
  end.

(* close_received versus the state *)
Definition crs (s : ws_state) (cr : bool) : Prop :=
  match s with
  | Active | ClosedByUs => cr = false
  | ClosedByPeer | CloseAcknowledged => cr = true
  | Terminated => True
  end.

Definition InvQ (x : ctx) (log : list event) (cr : bool) : Prop :=
  QP (x_state x) (x_additional x) (queued log) /\
  (x_state x = Terminated -> cr = true -> Pend (x_additional x) (queued log)).

Lemma pure_res_not_msg s o r : pure_res s o r -> got_close r = false /\ is_cc r = false.
Proof.
  destruct o; cbn; try contradiction; try (intros ->; split; reflexivity).
  intros (u & -> & Hu). split; [reflexivity|]. destruct u as [[]|e|p|]; try reflexivity.
  exfalso. eapply Hu. reflexivity.
Qed.

Lemma got_close_msg m : (forall c, m <> MClose c) -> got_close (ResMsg (ROk m)) = false.
Proof. intros H. destruct m; try reflexivity. exfalso. eapply H. reflexivity. Qed.

Lemma wres_state r s0 x' evs : wres r s0 x' evs -> x_state x' = s0 \/ (closing_done s0 = true /\ x_state x' = Terminated).
Proof. intros [(_ & H1 & H2 & _)|(H & _)]; auto. Qed.

Lemma op_crs x o w r x' w' cr : op_post x o w r x' w' ->
  crs (x_state x) cr -> crs (x_state x') (cr || got_close r).
Proof.
  intros (evs & Hl & Hr & HT & _) Hc.
  destruct HT as [r0 Hnt HT| Hs -> _|o r0 s0 Hu Hs0 Hwm He HW|m Hs -> _|m Ha Hs -> _|o r0 Hs Ha _ Hp].
  - destruct HT as [c Hs Hs' _ _ _|c Hs Hs' _ _ _|m Hm Hs' _ _ _ _|_ Hs' _ _|_ Hs' _ _ _|e Hs' _ _ _ _|p Hs' _ _ _|Hs' _ _ _];
      rewrite Hs'; try (rewrite got_close_msg by assumption);
      cbn [got_close crs]; rewrite ?orb_true_r, ?orb_false_r; auto.
  - cbn. rewrite orb_false_r. exact Hc.
  - cbn [got_close]. rewrite orb_false_r.
    apply wres_state in HW. destruct HW as [HW|[_ HW]]; rewrite HW; [|exact I].
    destruct Hs0 as [->|[Hs ->]]; [exact Hc|]. rewrite Hs in Hc. exact Hc.
  - cbn. rewrite orb_false_r. exact Hc.
  - cbn. rewrite orb_false_r. exact Hc.
  - apply pure_res_not_msg in Hp. destruct Hp as [-> _]. rewrite orb_false_r, Hs. exact Hc.
Qed.

Lemma op_got_close_state x o w r x' w' : op_post x o w r x' w' -> got_close r = true ->
  closing_done (x_state x') = true /\ can_read (x_state x) = true.
Proof.
  intros (evs & Hl & Hr & HT & _) Hg.
  destruct HT as [r0 Hnt HT| Hs -> _|o r0 s0 Hu Hs0 Hwm He HW|m Hs -> _|m Ha Hs -> _|o r0 Hs Ha _ Hp];
    try discriminate Hg.
  - destruct HT as [c Hs Hs' _ _ _|c Hs Hs' _ _ _|m Hm Hs' _ _ _ _|_ Hs' _ _|_ Hs' _ _ _|e Hs' _ _ _ _|p Hs' _ _ _|Hs' _ _ _];
      try discriminate Hg; try (rewrite Hs, Hs'; split; reflexivity).
    rewrite got_close_msg in Hg by assumption. discriminate.
  - apply pure_res_not_msg in Hp. destruct Hp as [Hp _]. congruence.
Qed.

Lemma op_InvQ x o w r x' w' cr : op_post x o w r x' w' -> is_raw o = false ->
  crs (x_state x) cr -> InvQ x (w_log w) cr -> InvQ x' (w_log w') (cr || got_close r).
Proof.
  intros HP Hraw Hc [HQ HT].
  pose proof (op_crs _ _ _ _ _ _ cr HP Hc) as Hc'.
  pose proof (op_got_close_state _ _ _ _ _ _ HP) as Hg.
  destruct HP as (evs & Hl & Hr & HTr & HQP & HPend).
  unfold InvQ. rewrite Hl, queued_app. split; [apply HQP; assumption|].
  intros Hs' Hcr'.
  destruct (got_close r) eqn:Eg.
  { destruct Hg as [Hg _]; [reflexivity|]. rewrite Hs' in Hg. discriminate. }
  rewrite orb_false_r in Hcr'. subst cr.
  destruct (x_state x) eqn:Es; cbn in Hc; try discriminate Hc.
  - apply HPend; [discriminate|]. exact HQ.
  - apply HPend; [discriminate|]. exact HQ.
  - apply HPend; [discriminate|]. apply HT; reflexivity.
Qed.

(* ------------------------------------------------------------------------------------------- *)
(* 10. Histories                                                                                *)
(* ------------------------------------------------------------------------------------------- *)

Definition close_received (rs : list (op_result * N)) : bool :=
  existsb (fun p => got_close (fst p)) rs.
Definition closed_reported (rs : list (op_result * N)) : bool :=
  existsb (fun p => is_cc (fst p)) rs.
(* no raw frames (Message::Frame is a documented pass-through) *)
Definition no_raw (ops : list op) : Prop := forall f, ~ In (OpWrite (MFrame f)) ops.

Lemma no_raw_cons o ops : no_raw (o :: ops) -> is_raw o = false /\ no_raw ops.
Proof.
  intros H. split.
  - destruct o as [|m| | | | |]; try reflexivity. destruct m; try reflexivity.
    exfalso. eapply H. left. reflexivity.
  - intros f Hf. eapply H. right. exact Hf.
Qed.

Lemma run_ops_cons x o ops w :
  run_ops x (o :: ops) w =
  let '(res1, x1, w1) := run_op x o w in
  let '(rs, x2, w2) := run_ops x1 ops w1 in
  ((res1, blen (w_log w1)) :: rs, x2, w2).
Proof. reflexivity. Qed.

Lemma run_ops_app a : forall b x w,
  run_ops x (a ++ b) w =
  let '(r1, x1, w1) := run_ops x a w in
  let '(r2, x2, w2) := run_ops x1 b w1 in
  (r1 ++ r2, x2, w2).
Proof.
  induction a as [|o a IH]; intros b x w.
  - cbn [app run_ops]. destruct (run_ops x b w) as [[r2 x2] w2]. reflexivity.
  - cbn [app]. rewrite !run_ops_cons. destruct (run_op x o w) as [[res1 x1] w1].
    rewrite IH. destruct (run_ops x1 a w1) as [[r1 x2] w2].
    destruct (run_ops x2 b w2) as [[r2 x3] w3]. reflexivity.
Qed.

Lemma run_ops_inv ops : forall x w rs x' w' cr,
  run_ops x ops w = (rs, x', w') -> crs (x_state x) cr ->
  crs (x_state x') (cr || close_received rs) /\ x_role x' = x_role x /\
  (exists evs, w_log w' = w_log w ++ evs) /\
  (no_raw ops -> InvQ x (w_log w) cr -> InvQ x' (w_log w') (cr || close_received rs)).
Proof.
  induction ops as [|o ops IH]; intros x w rs x' w' cr H Hc.
  - cbn in H. injection H as <- <- <-. cbn. rewrite orb_false_r. splits; auto.
    exists []. symmetry. apply app_nil_r.
  - rewrite run_ops_cons in H.
    destruct (run_op x o w) as [[r1 x1] w1] eqn:E1.
    destruct (run_ops x1 ops w1) as [[rs2 x2] w2] eqn:E2.
    injection H as <- <- <-.
    apply run_op_post in E1.
    pose proof (op_crs _ _ _ _ _ _ cr E1 Hc) as Hc1.
    destruct (IH _ _ _ _ _ _ E2 Hc1) as (Hc2 & Hr2 & (evs2 & Hl2) & HQ2).
    cbn [close_received existsb fst]. fold (close_received rs2). rewrite orb_assoc.
    splits; auto.
    + destruct E1 as (evs1 & Hl1 & Hr1 & _). congruence.
    + destruct E1 as (evs1 & Hl1 & _). exists (evs1 ++ evs2). rewrite Hl2, Hl1, app_assoc. reflexivity.
    + intros Hnr HQ. apply no_raw_cons in Hnr. destruct Hnr as [Hraw Hnr].
      apply HQ2; [exact Hnr|]. eapply op_InvQ; eassumption.
Qed.

Lemma ctx_new_init role part cfg x0 : ctx_new role part cfg = Some x0 ->
  x_state x0 = Active /\ x_additional x0 = None /\ x_role x0 = role.
Proof. unfold ctx_new. destruct (config_valid cfg); [|discriminate]. intros [= <-]. auto. Qed.

(* everything the invariants say about a reachable configuration *)
Lemma reach_inv role part cfg x0 w0 ops rs x w :
  ctx_new role part cfg = Some x0 -> w_log w0 = [] -> run_ops x0 ops w0 = (rs, x, w) ->
  crs (x_state x) (close_received rs) /\ x_role x = role /\
  (no_raw ops -> InvQ x (w_log w) (close_received rs)).
Proof.
  intros Hn Hl H. apply ctx_new_init in Hn. destruct Hn as (Hs & Ha & Hr).
  assert (Hc : crs (x_state x0) false) by (rewrite Hs; reflexivity).
  destruct (run_ops_inv _ _ _ _ _ _ _ H Hc) as (Hc' & Hr' & _ & HQ).
  cbn [orb] in *. splits; auto; [congruence|].
  intros Hnr. apply HQ; [exact Hnr|].
  split; rewrite Hs, Ha, Hl; cbn; [split; [constructor|exact I]|discriminate].
Qed.

(* ------------------------------------------------------------------------------------------- *)
(* 11. C03 (a): nothing after Close                                                             *)
(* ------------------------------------------------------------------------------------------- *)

Definition close_queued (log : list event) : Prop :=
  exists f, In f (queued log) /\ h_opcode (f_hdr f) = OCtl Close.

Definition write_refused (r : op_result) : Prop :=
  r = ResUnit (RErr (EProtocol SendAfterClosing)) \/ r = ResUnit (RErr EAlreadyClosed).

Lemma write_refused_op x m w : is_active (x_state x) = false ->
  exists r, run_op x (OpWrite m) w = (r, x, w) /\ write_refused r.
Proof.
  intros Ha. unfold run_op. rewrite write_eq.
  destruct (x_state x) eqn:Es; try discriminate Ha; cbn [is_terminated is_active negb];
    eexists; (split; [reflexivity|]); [left|left|left|right]; reflexivity.
Qed.

Lemma QP_shape s a q : QP s a q -> noclose q \/ endclose q.
Proof.
  assert (HP : Pend a q -> noclose q \/ endclose q).
  { unfold Pend. destruct a; [intros [_ H]; left; exact H|intros H; right; exact H]. }
  destruct s; cbn; auto; try (intros [H _]; left; exact H).
  intros [[H _]|H]; auto.
Qed.

Lemma noclose_split pre c post : noclose (pre ++ c :: post) -> opc c <> OCtl Close.
Proof.
  intros H. apply noclose_app in H. destruct H as [_ H]. inversion H; assumption.
Qed.

Lemma shape_close_last q : noclose q \/ endclose q ->
  forall pre c post, q = pre ++ c :: post -> opc c = OCtl Close -> post = [].
Proof.
  intros [H|(pre' & c' & -> & Hc' & Hn)] pre c post E Hc.
  - subst q. apply noclose_split in H. contradiction.
  - destruct post as [|p post] using rev_ind; [reflexivity|]. exfalso. clear IHpost.
    change (pre ++ c :: post ++ [p]) with (pre ++ (c :: post) ++ [p]) in E.
    rewrite app_assoc in E. apply app_inj_tail in E. destruct E as [E _]. subst pre'.
    apply noclose_split in Hn. contradiction.
Qed.

Theorem a_no_write_after_close role part cfg x0 w0 ops rs x w :
  ctx_new role part cfg = Some x0 -> w_log w0 = [] -> no_raw ops ->
  run_ops x0 ops w0 = (rs, x, w) ->
  close_queued (w_log w) ->
  forall m, exists r, run_op x (OpWrite m) w = (r, x, w) /\ write_refused r.
Proof.
  intros Hn Hl Hnr H (f & Hin & Hf) m.
  destruct (reach_inv _ _ _ _ _ _ _ _ _ Hn Hl H) as (_ & _ & HQ). specialize (HQ Hnr).
  apply write_refused_op. destruct (x_state x) eqn:Es; try reflexivity. exfalso.
  destruct HQ as [HQ _]. rewrite Es in HQ. cbn in HQ. destruct HQ as [HQ _].
  unfold noclose in HQ. rewrite Forall_forall in HQ. apply (HQ f Hin). exact Hf.
Qed.

Theorem a_close_last_queued role part cfg x0 w0 ops rs x w :
  ctx_new role part cfg = Some x0 -> w_log w0 = [] -> no_raw ops ->
  run_ops x0 ops w0 = (rs, x, w) ->
  forall pre c post, queued (w_log w) = pre ++ c :: post ->
    h_opcode (f_hdr c) = OCtl Close -> post = [].
Proof.
  intros Hn Hl Hnr H.
  destruct (reach_inv _ _ _ _ _ _ _ _ _ Hn Hl H) as (_ & _ & HQ). specialize (HQ Hnr).
  destruct HQ as [HQ _]. apply QP_shape in HQ. apply shape_close_last. exact HQ.
Qed.

(* the log only grows: "last of queued at the end" means "last at every moment" *)
Lemma run_ops_log_mono ops x w rs x' w' : run_ops x ops w = (rs, x', w') ->
  exists evs, w_log w' = w_log w ++ evs.
Proof.
  intros H. assert (Hc : crs (x_state x) (match x_state x with ClosedByPeer | CloseAcknowledged => true | _ => false end)).
  { destruct (x_state x); reflexivity. }
  destruct (run_ops_inv _ _ _ _ _ _ _ H Hc) as (_ & _ & He & _). exact He.
Qed.

(* ------------------------------------------------------------------------------------------- *)
(* 12. Monotonicity of the state, C03 (b), (e), (f)                                             *)
(* ------------------------------------------------------------------------------------------- *)

Lemma op_mono x o w r x' w' : op_post x o w r x' w' ->
  (is_active (x_state x) = false -> is_active (x_state x') = false) /\
  (can_read (x_state x) = false -> can_read (x_state x') = false) /\
  (x_state x = Terminated -> x_state x' = Terminated) /\
  (is_cc r = true -> x_state x' = Terminated).
Proof.
  intros (evs & Hl & Hr & HT & _).
  destruct HT as [r0 Hnt HT| Hs -> _|o r0 s0 Hu Hs0 Hwm He HW|m Hs -> _|m Ha Hs -> _|o r0 Hs Ha _ Hp].
  - destruct HT as [c Hs Hs' _ _ _|c Hs Hs' _ _ _|m Hm Hs' _ _ _ _|_ Hs' _ _|_ Hs' _ _ _|e Hs' Hne _ _ _|p Hs' _ _ _|Hs' _ _ _];
      rewrite Hs'; try rewrite Hs; cbn; splits; auto; try discriminate; try contradiction.
    destruct e; try discriminate. contradiction.
  - cbn. splits; auto; discriminate.
  - apply wres_state in HW as HS. destruct HS as [HS|[_ HS]]; rewrite HS.
    + destruct Hs0 as [->|[Hs ->]]; [|rewrite Hs; cbn; splits; auto; try discriminate].
      * splits; auto. intros Hcc. destruct r0 as [[]|e|p|]; try discriminate Hcc.
        destruct e; try discriminate Hcc.
        destruct HW as [(_ & _ & HW & _)|(_ & [[Hx _]|[(k & Hx & _)|(f & Hx & _)]])]; try discriminate; congruence.
      * intros Hcc. destruct r0 as [[]|e|p|]; try discriminate Hcc.
        destruct e; try discriminate Hcc.
        destruct HW as [(_ & HW & _)|(_ & [[Hx _]|[(k & Hx & _)|(f & Hx & _)]])]; discriminate.
    + cbn. splits; auto.
  - cbn. splits; auto; discriminate.
  - cbn. splits; auto; discriminate.
  - rewrite Hs. apply pure_res_not_msg in Hp. destruct Hp as [_ ->]. splits; auto. discriminate.
Qed.

Lemma run_ops_mono ops : forall x w rs x' w', run_ops x ops w = (rs, x', w') ->
  (is_active (x_state x) = false -> is_active (x_state x') = false) /\
  (can_read (x_state x) = false -> can_read (x_state x') = false) /\
  (x_state x = Terminated \/ closed_reported rs = true -> x_state x' = Terminated).
Proof.
  induction ops as [|o ops IH]; intros x w rs x' w' H.
  - cbn in H. injection H as <- <- <-. cbn. splits; auto. intros [H|H]; [exact H|discriminate].
  - rewrite run_ops_cons in H.
    destruct (run_op x o w) as [[r1 x1] w1] eqn:E1.
    destruct (run_ops x1 ops w1) as [[rs2 x2] w2] eqn:E2.
    injection H as <- <- <-.
    apply run_op_post, op_mono in E1. destruct E1 as (A1 & A2 & A3 & A4).
    apply IH in E2. destruct E2 as (B1 & B2 & B3).
    splits; auto.
    cbn [closed_reported existsb fst]. fold (closed_reported rs2).
    intros [H|H]; apply B3; [left; auto|].
    apply orb_true_iff in H. destruct H as [H|H]; [left; auto|right; exact H].
Qed.

Lemma read_no_msg x w r x' w' : can_read (x_state x) = false ->
  run_op x OpRead w = (r, x', w') -> forall m, r <> ResMsg (ROk m).
Proof.
  intros Hcr H m Hm. subst r. apply run_op_post in H. destruct H as (evs & _ & _ & HT & _).
  inversion HT as [r0 Hnt HT'| | o r0 s0 Hu | | | o r0 Hs Ha He Hp]; subst; try discriminate.
  - inversion HT' as [c Hs Hs' _ _ _|c Hs Hs' _ _ _|m' Hm' Hs' Hc _ _ _| | | | |]; subst;
      rewrite ?Hs in Hcr; try discriminate; congruence.
  - contradiction.
Qed.

Theorem b_no_message_after_close role part cfg x0 w0 ops rs x w :
  ctx_new role part cfg = Some x0 -> w_log w0 = [] ->
  run_ops x0 ops w0 = (rs, x, w) ->
  close_received rs = true ->
  forall r x' w', run_op x OpRead w = (r, x', w') -> forall m, r <> ResMsg (ROk m).
Proof.
  intros Hn Hl H Hcr r x' w' Hr.
  destruct (reach_inv _ _ _ _ _ _ _ _ _ Hn Hl H) as (Hc & _ & _).
  eapply read_no_msg; [|exact Hr].
  rewrite Hcr in Hc. destruct (x_state x); cbn in Hc; try discriminate; reflexivity.
Qed.

Lemma terminated_refuses x w : x_state x = Terminated ->
  run_op x OpRead w = (ResMsg (RErr EAlreadyClosed), x, w) /\
  forall m, run_op x (OpWrite m) w = (ResUnit (RErr EAlreadyClosed), x, w).
Proof.
  intros Hs. split; [|intros m]; unfold run_op; [unfold read|rewrite write_eq]; rewrite Hs; reflexivity.
Qed.

Theorem e_already_closed role part cfg x0 w0 ops rs x w :
  ctx_new role part cfg = Some x0 -> w_log w0 = [] ->
  run_ops x0 ops w0 = (rs, x, w) ->
  closed_reported rs = true ->
  run_op x OpRead w = (ResMsg (RErr EAlreadyClosed), x, w) /\
  forall m, run_op x (OpWrite m) w = (ResUnit (RErr EAlreadyClosed), x, w).
Proof.
  intros _ _ H Hc. apply terminated_refuses.
  apply run_ops_mono in H. destruct H as (_ & _ & H). apply H. right. exact Hc.
Qed.

(* converses: what write / read can answer while can_write / can_read *)
Lemma write_active_result x m w r x' w' : is_active (x_state x) = true ->
  run_op x (OpWrite m) w = (r, x', w') ->
  r = ResUnit (ROk tt) \/ (exists k, r = ResUnit (RErr (EIo k))) \/
  (exists f, r = ResUnit (RErr (EWriteBufferFull f))).
Proof.
  intros Ha H. apply is_active_true in Ha. apply run_op_post in H.
  destruct H as (evs & _ & _ & HT & _).
  inversion HT as [ | | o r0 s0 Hu Hs0 Hwm He HW| m' Hs| m' Hia| o r0 Hs Haa Hee Hp]; subst;
    try congruence.
  - assert (Hcd : closing_done s0 = false).
    { destruct Hs0 as [->|[_ ->]]; [rewrite Ha|]; reflexivity. }
    destruct HW as [(_ & HW & _)|(_ & [[-> _]|[(k & -> & _)|(f & -> & _)]])]; [congruence| | |]; eauto.
  - rewrite Ha in Hia. discriminate.
  - contradiction.
Qed.

Lemma read_can_result x w r x' w' : can_read (x_state x) = true ->
  run_op x OpRead w = (r, x', w') ->
  r <> ResMsg (RErr EAlreadyClosed) /\ r <> ResMsg (RErr EConnectionClosed) /\
  r <> ResMsg (RErr (EProtocol ReceivedAfterClosing)).
Proof.
  intros Hcr H. apply run_op_post in H. destruct H as (evs & _ & _ & HT & _).
  inversion HT as [r0 Hnt HT'| Hs | o r0 s0 Hu | | | o r0 Hs Ha He Hp]; subst; try discriminate.
  - inversion HT' as [ | | |Hcd | |e Hs' Hne Hce | | ]; subst; splits; try discriminate.
    + destruct (x_state x); discriminate.
    + intros [= ->]. specialize (Hce Hcr). discriminate.
    + intros [= ->]. contradiction.
    + intros [= ->]. specialize (Hce Hcr). discriminate.
  - rewrite Hs in Hcr. discriminate.
  - contradiction.
Qed.

Theorem f_can x w :
  run_op x OpCanWrite w = (ResBool (is_active (x_state x)), x, w) /\
  run_op x OpCanRead w = (ResBool (can_read (x_state x)), x, w) /\
  (is_active (x_state x) = false ->
   forall ops rs x' w', run_ops x ops w = (rs, x', w') ->
   forall m, exists r, run_op x' (OpWrite m) w' = (r, x', w') /\ write_refused r) /\
  (can_read (x_state x) = false ->
   forall ops rs x' w', run_ops x ops w = (rs, x', w') ->
   forall r x'' w'', run_op x' OpRead w' = (r, x'', w'') -> forall m, r <> ResMsg (ROk m)) /\
  (is_active (x_state x) = true ->
   forall m r x' w', run_op x (OpWrite m) w = (r, x', w') ->
   r = ResUnit (ROk tt) \/ (exists k, r = ResUnit (RErr (EIo k))) \/
   (exists f, r = ResUnit (RErr (EWriteBufferFull f)))) /\
  (can_read (x_state x) = true ->
   forall r x' w', run_op x OpRead w = (r, x', w') ->
   r <> ResMsg (RErr EAlreadyClosed) /\ r <> ResMsg (RErr EConnectionClosed) /\
   r <> ResMsg (RErr (EProtocol ReceivedAfterClosing))).
Proof.
  split; [reflexivity|]. split; [reflexivity|]. splits.
  - intros Ha ops rs x' w' H m. apply write_refused_op.
    apply run_ops_mono in H. destruct H as (H & _). auto.
  - intros Hc ops rs x' w' H r x'' w'' Hr. eapply read_no_msg; [|exact Hr].
    apply run_ops_mono in H. destruct H as (_ & H & _). auto.
  - intros Ha m r x' w'. apply write_active_result. exact Ha.
  - intros Hc r x' w'. apply read_can_result. exact Hc.
Qed.

(* ------------------------------------------------------------------------------------------- *)
(* 13. C03 (d): a transport that ends before the handshake is a reset                           *)
(* ------------------------------------------------------------------------------------------- *)

Lemma rd_eof_in evs : In (EvRead RdEof) evs -> rd_eof evs = true.
Proof. intros H. apply existsb_exists. exists (EvRead RdEof). split; [exact H|reflexivity]. Qed.
Lemma rd_rst_in evs : In (EvRead (RdErr ConnReset)) evs -> rd_rst evs = true.
Proof. intros H. apply existsb_exists. exists (EvRead (RdErr ConnReset)). split; [exact H|reflexivity]. Qed.
Lemma wr_end_in evs n : In (EvWrite n []) evs \/ In (EvWriteErr n ConnReset) evs -> wr_end evs = true.
Proof.
  intros [H|H]; apply existsb_exists; eexists; (split; [exact H|reflexivity]).
Qed.

Definition io_reset (r : op_result) : Prop :=
  r = ResMsg (RErr (EIo ConnReset)) \/ r = ResUnit (RErr (EIo ConnReset)).

Lemma op_no_close x o w r x' w' : op_post x o w r x' w' ->
  closing_done (x_state x) = false ->
  exists evs, w_log w' = w_log w ++ evs /\
    is_cc r = false /\
    (rd_eof evs = true -> r = ResMsg (RErr (EProtocol ResetWithoutClosingHandshake))) /\
    (rd_rst evs = true -> r = ResMsg (RErr (EIo ConnReset))) /\
    (wr_end evs = true -> io_reset r).
Proof.
  intros (evs & Hl & Hr & HT & _) Hcd. exists evs. split; [exact Hl|].
  destruct HT as [r0 Hnt HT| Hs -> ->|o r0 s0 Hu Hs0 Hwm He HW|m Hs -> ->|m Ha Hs -> ->|o r0 Hs Ha -> Hp].
  - destruct HT as [c Hs Hs' E1 E2 E3|c Hs Hs' E1 E2 E3|m Hm Hs' _ E1 E2 E3|Hc _ _ _|_ Hs' E1 E2 E3|e Hs' Hne _ E1 E23|p Hs' E1 E2 E3|Hs' E1 E2 E3];
      try (rewrite E1, E2, E3; splits; try reflexivity; intros; discriminate).
    + congruence.
    + rewrite E1. splits.
      * destruct e; try reflexivity. contradiction.
      * discriminate.
      * intros Hx. rewrite E23; auto.
      * intros Hx. left. rewrite E23; auto.
  - cbn. splits; try reflexivity; discriminate.
  - destruct He as [E1 E2]. rewrite E1, E2.
    assert (Hcd0 : closing_done s0 = false).
    { destruct Hs0 as [->|[_ ->]]; [exact Hcd|reflexivity]. }
    destruct HW as [(_ & HW & _)|(_ & [[-> Hw]|[(k & -> & Hk)|(f & -> & Hw)]])]; [congruence| | |];
      splits; try reflexivity; try discriminate; try (rewrite Hw; discriminate).
    intros Hx. right. rewrite (Hk Hx). reflexivity.
  - cbn. splits; try reflexivity; discriminate.
  - cbn. splits; try reflexivity; discriminate.
  - apply pure_res_not_msg in Hp. destruct Hp as [_ ->]. cbn. splits; try reflexivity; discriminate.
Qed.

Theorem d_reset role part cfg x0 w0 ops rs x w :
  ctx_new role part cfg = Some x0 -> w_log w0 = [] ->
  run_ops x0 ops w0 = (rs, x, w) ->
  close_received rs = false ->
  forall o r x' w' evs, run_op x o w = (r, x', w') -> w_log w' = w_log w ++ evs ->
    is_cc r = false /\
    (In (EvRead RdEof) evs -> r = ResMsg (RErr (EProtocol ResetWithoutClosingHandshake))) /\
    (In (EvRead (RdErr ConnReset)) evs -> r = ResMsg (RErr (EIo ConnReset))) /\
    (forall n, In (EvWrite n []) evs \/ In (EvWriteErr n ConnReset) evs -> io_reset r).
Proof.
  intros Hn Hl H Hcr o r x' w' evs Ho Hle.
  destruct (reach_inv _ _ _ _ _ _ _ _ _ Hn Hl H) as (Hc & _ & _). rewrite Hcr in Hc.
  assert (Hcd : closing_done (x_state x) = false).
  { destruct (x_state x); cbn in Hc; try discriminate; reflexivity. }
  apply run_op_post in Ho. destruct (op_no_close _ _ _ _ _ _ Ho Hcd) as (evs' & Hl' & H1 & H2 & H3 & H4).
  rewrite Hl' in Hle. apply app_inv_head in Hle. subst evs'.
  splits; auto.
  - intros Hx. apply H2, rd_eof_in, Hx.
  - intros Hx. apply H3, rd_rst_in, Hx.
  - intros n Hx. eapply H4, wr_end_in, Hx.
Qed.

(* ------------------------------------------------------------------------------------------- *)
(* 14. C03 (c): ConnectionClosed is reported only after a clean close                           *)
(* ------------------------------------------------------------------------------------------- *)

Lemma op_cc x o w r x' w' : op_post x o w r x' w' -> is_cc r = true ->
  exists evs, w_log w' = w_log w ++ evs /\
    closing_done (x_state x) = true /\ is_raw o = false /\ x_state x' = Terminated /\
    (transport_ended evs = true \/
     (x_role x' = Server /\ x_additional x' = None /\ c_out (x_codec x') = [])) /\
    (x_role x' = Client -> transport_ended evs = true).
Proof.
  intros (evs & Hl & Hr & HT & _) Hcc. exists evs. split; [exact Hl|].
  destruct HT as [r0 Hnt HT| Hs -> ->|o r0 s0 Hu Hs0 Hwm He HW|m Hs -> ->|m Ha Hs -> ->|o r0 Hs Ha -> Hp];
    try discriminate Hcc.
  - destruct HT as [c Hs Hs' E1 E2 E3|c Hs Hs' E1 E2 E3|m Hm Hs' _ E1 E2 E3|Hc Hs' Hd Hcl|_ Hs' E1 E2 E3|e Hs' Hne _ E1 E23|p Hs' E1 E2 E3|Hs' E1 E2 E3];
      try discriminate Hcc.
    + splits; auto.
    + exfalso. destruct e; try discriminate Hcc. contradiction.
  - destruct r0 as [[]|e|p|]; try discriminate Hcc. destruct e; try discriminate Hcc.
    destruct HW as [(_ & Hcd & Hs' & Hd)|(_ & [[Hx _]|[(k & Hx & _)|(f & Hx & _)]])]; try discriminate.
    assert (Es : s0 = x_state x).
    { destruct Hs0 as [->|[_ ->]]; [reflexivity|discriminate]. }
    subst s0. splits; auto.
    + destruct o as [|m| | | | |]; try reflexivity.
      specialize (Hwm m eq_refl). rewrite Hwm in Hcd. discriminate.
    + destruct Hd as [Hd|Hd]; [left; apply te_of_wr, Hd|right; exact Hd].
    + intros Hc. destruct Hd as [Hd|(Hd & _)]; [apply te_of_wr, Hd|congruence].
  - apply pure_res_not_msg in Hp. destruct Hp as [_ Hp]. congruence.
Qed.

Theorem c_clean_close_sound role part cfg x0 w0 ops rs x w :
  ctx_new role part cfg = Some x0 -> w_log w0 = [] -> no_raw ops ->
  run_ops x0 ops w0 = (rs, x, w) ->
  forall o r x' w', run_op x o w = (r, x', w') -> is_cc r = true ->
    close_received rs = true /\
    ((c_out (x_codec x') = [] /\ x_additional x' = None /\
      exists pre c, queued (w_log w') = pre ++ [c] /\ h_opcode (f_hdr c) = OCtl Close) \/
     transport_ended (w_log w') = true) /\
    (role = Client -> transport_ended (w_log w') = true).
Proof.
  intros Hn Hl Hnr H o r x' w' Ho Hcc.
  destruct (reach_inv _ _ _ _ _ _ _ _ _ Hn Hl H) as (Hc & Hrole & HQ). specialize (HQ Hnr).
  apply run_op_post in Ho.
  destruct (op_cc _ _ _ _ _ _ Ho Hcc) as (evs & Hle & Hcd & Hraw & Hs' & Hd & Hcl).
  assert (Hcr : close_received rs = true).
  { destruct (x_state x); cbn in Hc, Hcd; try discriminate; exact Hc. }
  pose proof (op_InvQ _ _ _ _ _ _ _ Ho Hraw Hc HQ) as [_ HP].
  rewrite Hcr in HP. specialize (HP Hs' eq_refl).
  assert (Hr' : x_role x' = role).
  { destruct Ho as (? & _ & Hr' & _). congruence. }
  splits; auto.
  - destruct Hd as [Hd|(_ & Ha & Hout)]; [right; rewrite Hle; apply te_app_r, Hd|left].
    splits; auto. rewrite Ha in HP. cbn in HP. destruct HP as (pre & c & Hq & Hcl' & _). eauto.
  - intros ->. rewrite Hle. apply te_app_r, Hcl, Hr'.
Qed.

(* ------------------------------------------------------------------------------------------- *)
(* 15. "after a prefix" = "later in the same history"                                           *)
(* ------------------------------------------------------------------------------------------- *)

Lemma run_ops_split ops1 o ops2 x0 w0 rs x w :
  run_ops x0 (ops1 ++ o :: ops2) w0 = (rs, x, w) ->
  exists rs1 x1 w1 r x1' w1' rs2,
    run_ops x0 ops1 w0 = (rs1, x1, w1) /\ run_op x1 o w1 = (r, x1', w1') /\
    run_ops x1' ops2 w1' = (rs2, x, w) /\
    rs = rs1 ++ (r, blen (w_log w1')) :: rs2 /\ length rs1 = length ops1.
Proof.
  rewrite run_ops_app. destruct (run_ops x0 ops1 w0) as [[rs1 x1] w1] eqn:E1.
  rewrite run_ops_cons. destruct (run_op x1 o w1) as [[r x1'] w1'] eqn:E2.
  destruct (run_ops x1' ops2 w1') as [[rs2 x2] w2] eqn:E3.
  intros [= <- <- <-]. exists rs1, x1, w1, r, x1', w1', rs2. splits; auto.
  clear -E1. revert x0 w0 rs1 x1 w1 E1.
  induction ops1 as [|o1 ops1 IH]; intros x0 w0 rs1 x1 w1 E1.
  - cbn in E1. injection E1 as <- <- <-. reflexivity.
  - rewrite run_ops_cons in E1. destruct (run_op x0 o1 w0) as [[ra xa] wa].
    destruct (run_ops xa ops1 wa) as [[rb xb] wb] eqn:E. injection E1 as <- <- <-.
    cbn. f_equal. eapply IH. exact E.
Qed.
