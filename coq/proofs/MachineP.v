(* proofs/MachineP.v — the handshake round machine (Handshake.v: attack_check, hs_loop, hs_fuel,
   server_handshake, client_handshake): DoS-guard arithmetic, closed form of the machine as three
   stage functions (read / write / flush), no panic / no out-of-fuel, boundedness, exact writes,
   WouldBlock-insensitivity (resumption) and segmentation-insensitivity.
   The HTTP parser is an arbitrary function everywhere (oracle_req / oracle_resp are universally
   quantified); the segmentation results additionally assume the sequential-scan property. *)
From Coq Require Import List NArith ZArith Lia Bool Arith ZifyBool ZifyNat ZifyN.
From Coq Require String.
From TungModel Require Import Base Coding Mask Header Frame Utf8 World Message Codec Protocol Sha1 Handshake.
Open Scope N_scope.

Arguments N.add : simpl never.
Arguments N.mul : simpl never.
Arguments N.sub : simpl never.
Arguments N.min : simpl never.
Arguments N.ltb : simpl never.
Arguments N.leb : simpl never.
Arguments N.eqb : simpl never.
Arguments N.of_nat : simpl never.
Arguments N.to_nat : simpl never.
Arguments blen : simpl never.
Arguments takeN : simpl never.
Arguments dropN : simpl never.
Arguments attack_check : simpl never.
Arguments try_parse_request : simpl never.
Arguments try_parse_response : simpl never.
Arguments server_done_reading : simpl never.
Arguments verify_response : simpl never.

(* ------------------------------------------------------------------------------------------ *)
(** * small list / length facts *)

Lemma blen_nil : forall A, blen (@nil A) = 0.
Proof. reflexivity. Qed.

Lemma blen_cons : forall A (x : A) l, blen (x :: l) = 1 + blen l.
Proof. intros. unfold blen. cbn [length]. lia. Qed.

Lemma blen_app : forall A (a b : list A), blen (a ++ b) = blen a + blen b.
Proof. intros. unfold blen. rewrite app_length. lia. Qed.

Lemma blen_zero_nil : forall A (l : list A), blen l = 0 -> l = [].
Proof. intros A [|x l] H; [reflexivity|]. rewrite blen_cons in H. lia. Qed.

Lemma blen_pos : forall A (l : list A), l <> [] -> 1 <= blen l.
Proof. intros A [|x l] H; [congruence|]. rewrite blen_cons. lia. Qed.

Lemma takeN_dropN : forall A n (l : list A), takeN n l ++ dropN n l = l.
Proof. intros. apply firstn_skipn. Qed.

Lemma blen_takeN : forall A n (l : list A), blen (takeN n l) = N.min n (blen l).
Proof. intros. unfold blen, takeN. rewrite firstn_length. lia. Qed.

Lemma blen_dropN : forall A n (l : list A), blen (dropN n l) = blen l - n.
Proof. intros. unfold blen, dropN. rewrite skipn_length. lia. Qed.

Lemma takeN_all : forall A n (l : list A), blen l <= n -> takeN n l = l.
Proof. intros. unfold takeN. apply firstn_all2. unfold blen in H. lia. Qed.

Lemma dropN_all : forall A n (l : list A), blen l <= n -> dropN n l = [].
Proof. intros. unfold dropN. apply skipn_all2. unfold blen in H. lia. Qed.

Lemma takeN_app_le : forall A n (a b : list A), n <= blen a -> takeN n (a ++ b) = takeN n a.
Proof.
  intros. unfold takeN. rewrite firstn_app.
  replace (N.to_nat n - length a)%nat with 0%nat by (unfold blen in H; lia).
  cbn [firstn]. apply app_nil_r.
Qed.

Lemma sumN_app : forall a b, sumN (a ++ b) = sumN a + sumN b.
Proof. induction a as [|x a IH]; intros; cbn [sumN app]; [lia|]. rewrite IH. lia. Qed.

Lemma app_nonempty_l : forall A (a b : list A), a <> [] -> a ++ b <> [].
Proof. intros A [|x a] b H; [congruence|]. discriminate. Qed.

(* ------------------------------------------------------------------------------------------ *)
(** * A. AttackCheck arithmetic *)

(* folding the guard over a list of read sizes, from counters (p, b) *)
Fixpoint attack_fold (p b : N) (sizes : list N) : option (N * N) :=
  match sizes with
  | [] => Some (p, b)
  | s :: r => match attack_check p b s with
              | None => None
              | Some (p', b') => attack_fold p' b' r
              end
  end.

Lemma attack_check_some : forall p b s p' b',
  attack_check p b s = Some (p', b') ->
  p' = p + 1 /\ b' = b + s /\ b' <= 65536 /\ p' <= 512 /\ (p' <= 64 \/ 128 * p' <= b').
Proof.
  unfold attack_check. intros p b s p' b' H.
  destruct (65536 <? b + s) eqn:E1; [discriminate|].
  destruct (512 <? p + 1) eqn:E2; [discriminate|].
  destruct ((64 <? p + 1) && (b + s <? (p + 1) * 128)) eqn:E3; [discriminate|].
  inversion H; subst. lia.
Qed.

Lemma attack_check_none : forall p b s,
  attack_check p b s = None ->
  65536 < b + s \/ 512 < p + 1 \/ (64 < p + 1 /\ b + s < 128 * (p + 1)).
Proof.
  unfold attack_check. intros p b s H.
  destruct (65536 <? b + s) eqn:E1; [lia|].
  destruct (512 <? p + 1) eqn:E2; [lia|].
  destruct ((64 <? p + 1) && (b + s <? (p + 1) * 128)) eqn:E3; [lia|discriminate].
Qed.

Lemma attack_check_intro : forall p b s,
  b + s <= 65536 -> p + 1 <= 512 -> (p + 1 <= 64 \/ 128 * (p + 1) <= b + s) ->
  attack_check p b s = Some (p + 1, b + s).
Proof.
  unfold attack_check. intros p b s H1 H2 H3.
  destruct (65536 <? b + s) eqn:E1; [lia|].
  destruct (512 <? p + 1) eqn:E2; [lia|].
  destruct ((64 <? p + 1) && (b + s <? (p + 1) * 128)) eqn:E3; [lia|reflexivity].
Qed.

Lemma attack_fold_some : forall sizes p0 b0 p b,
  attack_fold p0 b0 sizes = Some (p, b) ->
  p = p0 + blen sizes /\ b = b0 + sumN sizes /\
  (sizes <> [] -> b <= 65536 /\ p <= 512 /\ (p <= 64 \/ 128 * p <= b)).
Proof.
  induction sizes as [|s r IH]; intros p0 b0 p b H; cbn [attack_fold] in H.
  - inversion H; subst. rewrite blen_nil. cbn [sumN].
    split; [lia|]. split; [lia|]. intros Hc. exfalso. apply Hc. reflexivity.
  - destruct (attack_check p0 b0 s) as [[p1 b1]|] eqn:E; [|discriminate].
    apply attack_check_some in E. destruct E as (E1 & E2 & E3 & E4 & E5).
    rewrite blen_cons. cbn [sumN].
    destruct r as [|s2 r2].
    + cbn [attack_fold] in H. inversion H; subst. rewrite blen_nil. cbn [sumN].
      repeat split; try lia.
    + apply IH in H. destruct H as (H1 & H2 & H3).
      assert (Hne : s2 :: r2 <> []) by discriminate. specialize (H3 Hne).
      repeat split; try lia.
Qed.

Lemma attack_fold_app : forall s1 s2 p0 b0,
  attack_fold p0 b0 (s1 ++ s2) =
  match attack_fold p0 b0 s1 with None => None | Some (p, b) => attack_fold p b s2 end.
Proof.
  induction s1 as [|s r IH]; intros; cbn [attack_fold app]; [reflexivity|].
  destruct (attack_check p0 b0 s) as [[p1 b1]|]; [apply IH|reflexivity].
Qed.

(* the design's C17_attack_arith *)
Lemma attack_arith : forall (sizes : list N) (p b : N),
  attack_fold 0 0 sizes = Some (p, b) ->
  p = blen sizes /\ b = sumN sizes /\
  p <= 512 /\ b <= 65536 /\ (p <= 64 \/ 128 * p <= b).
Proof.
  intros sizes p b H. apply attack_fold_some in H. destruct H as (H1 & H2 & H3).
  destruct sizes as [|s r].
  - rewrite blen_nil in *. cbn [sumN] in *. lia.
  - assert (Hne : s :: r <> []) by discriminate. specialize (H3 Hne). lia.
Qed.

(* every prefix of a passing list passes: the guard is checked after every read *)
Lemma attack_fold_prefix : forall s1 s2 p0 b0,
  attack_fold p0 b0 (s1 ++ s2) <> None -> attack_fold p0 b0 s1 <> None.
Proof.
  intros s1 s2 p0 b0 H. rewrite attack_fold_app in H.
  destruct (attack_fold p0 b0 s1); congruence.
Qed.

Lemma attack_consumed_snoc : forall (init : list N) x p0 b0,
  attack_fold p0 b0 init <> None ->
  p0 + blen (init ++ [x]) <= N.max (p0 + 1) 513 /\
  b0 + sumN (init ++ [x]) <= N.max b0 65536 + x.
Proof.
  intros init x p0 b0 H.
  rewrite blen_app, sumN_app, blen_cons, blen_nil. cbn [sumN].
  destruct (attack_fold p0 b0 init) as [[p b]|] eqn:E; [|congruence].
  apply attack_fold_some in E. destruct E as (E1 & E2 & E3).
  destruct init as [|y init'].
  - rewrite blen_nil. cbn [sumN]. lia.
  - assert (Hn2 : y :: init' <> []) by discriminate. specialize (E3 Hn2). lia.
Qed.

(* consequence for any reader: if all reads but the last passed the guard, at most 513 reads were
   made and at most 65536 + (last read) bytes taken *)
Lemma attack_consumed : forall (sizes : list N) p0 b0,
  attack_fold p0 b0 (removelast sizes) <> None ->
  p0 + blen sizes <= N.max (p0 + 1) 513 /\ b0 + sumN sizes <= N.max b0 65536 + last sizes 0.
Proof.
  intros sizes p0 b0 H.
  destruct sizes as [|s r].
  - rewrite blen_nil. cbn [sumN last]. lia.
  - assert (Hne : s :: r <> []) by discriminate.
    destruct (exists_last Hne) as (init & x & Heq). rewrite Heq in *.
    rewrite removelast_last in H. rewrite last_last.
    apply attack_consumed_snoc. exact H.
Qed.

Lemma attack_consumed0 : forall sizes : list N,
  attack_fold 0 0 (removelast sizes) <> None ->
  blen sizes <= 513 /\ sumN sizes <= 65536 + last sizes 0.
Proof. intros sizes H. apply attack_consumed in H. lia. Qed.

(* exact characterisation (used for the drip examples): the fold passes iff every non-empty prefix
   satisfies the three limits *)
Lemma attack_fold_snoc_ok : forall sizes s p0 b0 p b,
  attack_fold p0 b0 sizes = Some (p, b) ->
  attack_fold p0 b0 (sizes ++ [s]) = attack_check p b s.
Proof.
  intros. rewrite attack_fold_app, H. cbn [attack_fold].
  destruct (attack_check p b s) as [[p' b']|]; reflexivity.
Qed.

(* ------------------------------------------------------------------------------------------ *)
(** * B. the data handed to the writing stage is never empty (site_hs_write_nothing unreachable) *)

Lemma hres_err_inj : forall X (a b : hs_error), @HErr X a = HErr b -> a = b.
Proof. intros. congruence. Qed.
Lemma opt_inj : forall A (a b : A), Some a = Some b -> a = b.
Proof. intros. congruence. Qed.
Lemma hok_inj : forall A (a b : A), HOk a = HOk b -> a = b.
Proof. intros. congruence. Qed.
Lemma pair_inj : forall X Y (a a' : X) (b b' : Y), (a, b) = (a', b') -> a = a' /\ b = b'.
Proof. intros. split; congruence. Qed.

Lemma write_response_nonempty : forall status hs out,
  write_response status hs = Some out -> out <> [].
Proof.
  unfold write_response. intros status hs out H.
  destruct (write_headers hs) as [h|]; [|discriminate].
  apply opt_inj in H. rewrite <- H. apply app_nonempty_l. vm_compute. discriminate.
Qed.

Lemma server_done_reading_nonempty : forall cb req tail out pend,
  server_done_reading cb req tail = HOk (out, pend) -> out <> [].
Proof.
  unfold server_done_reading. intros cb req tail out pend H.
  destruct tail; [|discriminate].
  destruct (create_parts true true (req_headers req)) as [hs|e]; [|discriminate].
  destruct cb as [|extra|status hs' body].
  - destruct (write_response 101 hs) as [o|] eqn:E; [|discriminate].
    apply hok_inj, pair_inj in H. destruct H as [H _]. rewrite <- H.
    eapply write_response_nonempty; eauto.
  - destruct (write_response 101 (hs ++ extra)) as [o|] eqn:E; [|discriminate].
    apply hok_inj, pair_inj in H. destruct H as [H _]. rewrite <- H.
    eapply write_response_nonempty; eauto.
  - destruct ((200 <=? status) && (status <? 300)); [discriminate|].
    destruct (write_response status hs') as [o|] eqn:E; [|discriminate].
    apply hok_inj, pair_inj in H. destruct H as [H _]. rewrite <- H.
    apply app_nonempty_l. eapply write_response_nonempty; eauto.
Qed.

Lemma generate_request_nonempty : forall path hs req key,
  generate_request path hs = HOk (req, key) -> req <> [].
Proof.
  unfold generate_request. intros path hs req key H.
  destruct path as [p|]; [|discriminate].
  destruct (hget _ hs) as [kv|]; [|discriminate].
  destruct (to_str kv) as [k|]; [|discriminate].
  destruct (write_required required_headers hs) as [[reqd rest]|e]; [|discriminate].
  destruct (write_extra rest) as [extra|e]; [|discriminate].
  apply hok_inj, pair_inj in H. destruct H as [H _]. rewrite <- H.
  apply app_nonempty_l. vm_compute. discriminate.
Qed.

(* ------------------------------------------------------------------------------------------ *)
(** * C. the machine as three stage functions *)

Inductive sres (A : Type) := SDone (a : A) | SFail (e : hs_error) | SBlocked.
Arguments SDone {A} a. Arguments SFail {A} e. Arguments SBlocked {A}.

(* reading stage: structurally recursive on the read oracle; returns the outcome, the unread part
   of the oracle and the events.  SDone (n, a, buf): the parser completed on buf with n, a. *)
Fixpoint read_stage {A : Type} (parse : bytes -> parsed A) (buf : bytes) (p b : N)
  (rds : list rd_out) : sres (N * A * bytes) * list rd_out * list hs_event :=
  match rds with
  | [] => (SBlocked, [], [])
  | RdErr WouldBlock :: r =>
      let '(o, r', ev) := read_stage parse buf p b r in
      (o, r', HsEv (EvRead (RdErr WouldBlock)) :: HsInterrupted :: ev)
  | RdErr k :: r => (SFail (HEIo k), r, [HsEv (EvRead (RdErr k))])
  | RdEof :: r => (SFail (HEProto HandshakeIncomplete), r, [HsEv (EvRead RdEof)])
  | RdData [] :: r => (SFail (HEProto HandshakeIncomplete), r, [HsEv (EvRead RdEof)])
  | RdData bs :: r =>
      match attack_check p b (blen bs) with
      | None => (SFail HEAttack, r, [HsEv (EvRead (RdData bs))])
      | Some (p', b') =>
          match parse (buf ++ bs) with
          | PPartial =>
              let '(o, r', ev) := read_stage parse (buf ++ bs) p' b' r in
              (o, r', HsEv (EvRead (RdData bs)) :: ev)
          | PFail e => (SFail e, r, [HsEv (EvRead (RdData bs))])
          | PComplete n a => (SDone (n, a, buf ++ bs), r, [HsEv (EvRead (RdData bs))])
          end
      end
  end.

(* writing stage (rest is the data still to write) *)
Fixpoint write_stage (rest : bytes) (wrs : list wr_out)
  : sres unit * list wr_out * list hs_event :=
  match wrs with
  | [] => (SBlocked, [], [])
  | WrErr WouldBlock :: r =>
      let '(o, r', ev) := write_stage rest r in
      (o, r', HsEv (EvWriteErr (blen rest) WouldBlock) :: HsInterrupted :: ev)
  | WrErr k :: r => (SFail (HEIo k), r, [HsEv (EvWriteErr (blen rest) k)])
  | WrAccept n :: r =>
      let n' := N.min n (blen rest) in
      let e := HsEv (EvWrite (blen rest) (takeN n' rest)) in
      if n' =? 0 then (SFail (HEIo ConnReset), r, [e])
      else match dropN n' rest with
           | [] => (SDone tt, r, [e])
           | rest' => let '(o, r', ev) := write_stage rest' r in (o, r', e :: ev)
           end
  end.

(* flushing stage *)
Fixpoint flush_stage (fls : list fl_out) : sres unit * list fl_out * list hs_event :=
  match fls with
  | [] => (SBlocked, [], [])
  | FlErr WouldBlock :: r =>
      let '(o, r', ev) := flush_stage r in
      (o, r', HsEv (EvFlush (FlErr WouldBlock)) :: HsInterrupted :: ev)
  | FlErr k :: r => (SFail (HEIo k), r, [HsEv (EvFlush (FlErr k))])
  | FlOk :: r => (SDone tt, r, [HsEv (EvFlush FlOk)])
  end.

Definition parse_req (oreq : bytes -> oracle_out raw_req) (buf : bytes) : parsed request :=
  try_parse_request (oreq buf).
Definition parse_resp (oresp : bytes -> oracle_out raw_resp) (buf : bytes) : parsed response :=
  try_parse_response (oresp buf).

(* what the client does with a completed response *)
Definition client_done_reading (accept_key : bytes) (subs : option (list bytes))
  (n : N) (resp : response) (buf : bytes) : hs_result :=
  let tail := dropN n buf in
  match verify_response accept_key subs resp with
  | HErr (HEHttp s _) => HsFail (HEHttp s (Some tail))
  | HErr e => HsFail e
  | HOk _ => HsDone Client tail
  end.

(* a stage never lengthens its oracle *)
Lemma read_stage_length : forall A (parse : bytes -> parsed A) rds buf p b,
  (length (snd (fst (read_stage parse buf p b rds))) <= length rds)%nat.
Proof.
  induction rds as [|a r IH]; intros buf p b; cbn [read_stage]; [cbn; lia|].
  destruct a as [bs| |k].
  - destruct bs as [|x bs]; [cbn; lia|].
    destruct (attack_check p b (blen (x :: bs))) as [[p' b']|]; [|cbn; lia].
    destruct (parse (buf ++ x :: bs)) as [|n a|e]; try (cbn; lia).
    specialize (IH (buf ++ x :: bs) p' b').
    destruct (read_stage parse (buf ++ x :: bs) p' b' r) as [[o r'] ev]. cbn [fst snd length] in *. lia.
  - cbn; lia.
  - destruct k; try (cbn; lia).
    specialize (IH buf p b).
    destruct (read_stage parse buf p b r) as [[o r'] ev]. cbn [fst snd length] in *. lia.
Qed.

Lemma write_stage_length : forall rest wrs,
  (length (snd (fst (write_stage rest wrs))) <= length wrs)%nat.
Proof.
  intros rest wrs. revert rest.
  induction wrs as [|a r IH]; intros rest; cbn [write_stage]; [cbn; lia|].
  destruct a as [n|k].
  - destruct (N.min n (blen rest) =? 0); [cbn; lia|].
    destruct (dropN (N.min n (blen rest)) rest) as [|y rest']; [cbn; lia|].
    specialize (IH (y :: rest')).
    destruct (write_stage (y :: rest') r) as [[o r'] ev]. cbn [fst snd length] in *. lia.
  - destruct k; try (cbn; lia).
    specialize (IH rest).
    destruct (write_stage rest r) as [[o r'] ev]. cbn [fst snd length] in *. lia.
Qed.

Lemma flush_stage_length : forall fls,
  (length (snd (fst (flush_stage fls))) <= length fls)%nat.
Proof.
  induction fls as [|a r IH]; cbn [flush_stage]; [cbn; lia|].
  destruct a as [|k]; [cbn; lia|].
  destruct k; try (cbn; lia).
  destruct (flush_stage r) as [[o r'] ev]. cbn [fst snd length] in *. lia.
Qed.

Section Stages.
  Variable oreq : bytes -> oracle_out raw_req.
  Variable oresp : bytes -> oracle_out raw_resp.

  (* write + flush, then (server) finish *)
  Definition server_write_flush (pend : option (N * option bytes)) (out : bytes) (w : world)
    (hlog : list hs_event) : hs_result * world * list hs_event :=
    let '(o2, r2, ev2) := write_stage out (w_wrs w) in
    let w2 := w_set_wrs w r2 in
    match o2 with
    | SBlocked => (HsBlocked, w2, hlog ++ ev2)
    | SFail e => (HsFail e, w2, hlog ++ ev2)
    | SDone _ =>
        let '(o3, r3, ev3) := flush_stage (w_fls w) in
        let w3 := w_set_fls w2 r3 in
        match o3 with
        | SBlocked => (HsBlocked, w3, hlog ++ ev2 ++ ev3)
        | SFail e => (HsFail e, w3, hlog ++ ev2 ++ ev3)
        | SDone _ =>
            match pend with
            | Some (status, body) => (HsFail (HEHttp status body), w3, hlog ++ ev2 ++ ev3)
            | None => (HsDone Server [], w3, hlog ++ ev2 ++ ev3)
            end
        end
    end.

  (* closed form of accept_hdr_with_config *)
  Definition server_spec (cb : callback) (w : world) : hs_result * world * list hs_event :=
    let '(o1, r1, ev1) := read_stage (parse_req oreq) [] 0 0 (w_rds w) in
    let w1 := w_set_rds w r1 in
    match o1 with
    | SBlocked => (HsBlocked, w1, ev1)
    | SFail e => (HsFail e, w1, ev1)
    | SDone (n, req, buf) =>
        match server_done_reading cb req (dropN n buf) with
        | HErr e => (HsFail e, w1, ev1)
        | HOk (out, pend) => server_write_flush pend out w1 ev1
        end
    end.

  Definition client_read (accept_key : bytes) (subs : option (list bytes)) (w : world)
    (hlog : list hs_event) : hs_result * world * list hs_event :=
    let '(o1, r1, ev1) := read_stage (parse_resp oresp) [] 0 0 (w_rds w) in
    let w1 := w_set_rds w r1 in
    match o1 with
    | SBlocked => (HsBlocked, w1, hlog ++ ev1)
    | SFail e => (HsFail e, w1, hlog ++ ev1)
    | SDone (n, resp, buf) => (client_done_reading accept_key subs n resp buf, w1, hlog ++ ev1)
    end.

  (* closed form of the client machine started on the request bytes *)
  Definition client_run (accept_key : bytes) (subs : option (list bytes)) (req : bytes) (w : world)
    : hs_result * world * list hs_event :=
    let '(o2, r2, ev2) := write_stage req (w_wrs w) in
    let w2 := w_set_wrs w r2 in
    match o2 with
    | SBlocked => (HsBlocked, w2, ev2)
    | SFail e => (HsFail e, w2, ev2)
    | SDone _ =>
        let '(o3, r3, ev3) := flush_stage (w_fls w) in
        let w3 := w_set_fls w2 r3 in
        match o3 with
        | SBlocked => (HsBlocked, w3, ev2 ++ ev3)
        | SFail e => (HsFail e, w3, ev2 ++ ev3)
        | SDone _ => client_read accept_key subs w3 (ev2 ++ ev3)
        end
    end.

  Definition client_spec (scheme_ok : bool) (path : option bytes) (hs : headers) (w : world)
    : hs_result * world * list hs_event :=
    if negb scheme_ok then (HsFail HEUrlScheme, w, []) else
    match extract_subprotocols hs with
    | HErr e => (HsFail e, w, [])
    | HOk subs =>
        match generate_request path hs with
        | HErr e => (HsFail e, w, [])
        | HOk (req, key) => client_run (derive_accept_key key) subs req w
        end
    end.

  (* --- the loop equations --- *)

  Lemma w_set_rds_id : forall w, w_set_rds w (w_rds w) = w.
  Proof. intros [a b c d e]. reflexivity. Qed.
  Lemma w_set_wrs_id : forall w, w_set_wrs w (w_wrs w) = w.
  Proof. intros [a b c d e]. reflexivity. Qed.
  Lemma w_set_fls_id : forall w, w_set_fls w (w_fls w) = w.
  Proof. intros [a b c d e]. reflexivity. Qed.

  Lemma loop_flush_server : forall fls w cb pend hlog extra,
    w_fls w = fls ->
    hs_loop oreq oresp (length fls + S extra) (RServer cb pend) HFlushing w hlog =
    let '(o3, r3, ev3) := flush_stage fls in
    let w3 := w_set_fls w r3 in
    match o3 with
    | SBlocked => (HsBlocked, w3, hlog ++ ev3)
    | SFail e => (HsFail e, w3, hlog ++ ev3)
    | SDone _ =>
        match pend with
        | Some (status, body) => (HsFail (HEHttp status body), w3, hlog ++ ev3)
        | None => (HsDone Server [], w3, hlog ++ ev3)
        end
    end.
  Proof.
    induction fls as [|f r IH]; intros w cb pend hlog extra Hw.
    - cbn [length plus hs_loop flush_stage]. rewrite Hw. rewrite <- Hw, w_set_fls_id, app_nil_r. reflexivity.
    - cbn [length plus hs_loop flush_stage]. rewrite Hw.
      destruct f as [|k].
      + destruct pend as [[status body]|]; reflexivity.
      + destruct k.
        * rewrite (IH (w_set_fls w r) cb pend _ extra eq_refl).
          destruct (flush_stage r) as [[o3 r3] ev3].
          cbn [w_set_fls w_rds w_wrs w_fls w_keys w_log].
          rewrite <- !app_assoc. cbn [app].
          destruct o3 as [u|e|]; try reflexivity.
        * reflexivity.
        * reflexivity.
        * reflexivity.
  Qed.

  Lemma loop_flush_client : forall fls w ak subs hlog extra,
    w_fls w = fls ->
    hs_loop oreq oresp (length fls + S extra) (RClient ak subs) HFlushing w hlog =
    let '(o3, r3, ev3) := flush_stage fls in
    let w3 := w_set_fls w r3 in
    match o3 with
    | SBlocked => (HsBlocked, w3, hlog ++ ev3)
    | SFail e => (HsFail e, w3, hlog ++ ev3)
    | SDone _ =>
        hs_loop oreq oresp (length r3 + S extra) (RClient ak subs) (HReading [] 0 0) w3 (hlog ++ ev3)
    end.
  Proof.
    induction fls as [|f r IH]; intros w ak subs hlog extra Hw.
    - cbn [length plus hs_loop flush_stage]. rewrite Hw. rewrite <- Hw, w_set_fls_id, app_nil_r. reflexivity.
    - cbn [length plus hs_loop flush_stage]. rewrite Hw.
      destruct f as [|k].
      + reflexivity.
      + destruct k.
        * rewrite (IH (w_set_fls w r) ak subs _ extra eq_refl).
          destruct (flush_stage r) as [[o3 r3] ev3].
          cbn [w_set_fls w_rds w_wrs w_fls w_keys w_log].
          rewrite <- !app_assoc. cbn [app].
          destruct o3 as [u|e|]; try reflexivity.
        * reflexivity.
        * reflexivity.
        * reflexivity.
  Qed.

  Lemma loop_write : forall wrs rest rd w hlog extra,
    rest <> [] -> w_wrs w = wrs ->
    hs_loop oreq oresp (length wrs + S extra) rd (HWriting rest) w hlog =
    let '(o2, r2, ev2) := write_stage rest wrs in
    let w2 := w_set_wrs w r2 in
    match o2 with
    | SBlocked => (HsBlocked, w2, hlog ++ ev2)
    | SFail e => (HsFail e, w2, hlog ++ ev2)
    | SDone _ => hs_loop oreq oresp (length r2 + S extra) rd HFlushing w2 (hlog ++ ev2)
    end.
  Proof.
    induction wrs as [|a r IH]; intros rest rd w hlog extra Hne Hw.
    - destruct rest as [|x rest0]; [congruence|].
      cbn [length plus hs_loop write_stage]. rewrite Hw. rewrite <- Hw, w_set_wrs_id, app_nil_r. reflexivity.
    - destruct rest as [|x rest0]; [congruence|].
      cbn [length plus hs_loop write_stage]. rewrite Hw.
      destruct a as [n|k].
      + destruct (N.min n (blen (x :: rest0)) =? 0) eqn:E0.
        * reflexivity.
        * destruct (dropN (N.min n (blen (x :: rest0))) (x :: rest0)) as [|y rest'] eqn:ED.
          -- reflexivity.
          -- assert (Hne' : y :: rest' <> []) by discriminate.
             rewrite (IH (y :: rest') rd (w_set_wrs w r) _ extra Hne' eq_refl).
             destruct (write_stage (y :: rest') r) as [[o2 r2] ev2].
             cbn [w_set_wrs w_rds w_wrs w_fls w_keys w_log].
             rewrite <- !app_assoc. cbn [app].
             destruct o2 as [u|e|]; reflexivity.
      + destruct k.
        * assert (Hne' : x :: rest0 <> []) by discriminate.
          rewrite (IH (x :: rest0) rd (w_set_wrs w r) _ extra Hne' eq_refl).
          destruct (write_stage (x :: rest0) r) as [[o2 r2] ev2].
          cbn [w_set_wrs w_rds w_wrs w_fls w_keys w_log].
          rewrite <- !app_assoc. cbn [app].
          destruct o2 as [u|e|]; reflexivity.
        * reflexivity.
        * reflexivity.
        * reflexivity.
  Qed.

  Lemma loop_read_server : forall rds w cb pe buf p b hlog extra,
    w_rds w = rds ->
    hs_loop oreq oresp (length rds + S extra) (RServer cb pe) (HReading buf p b) w hlog =
    let '(o1, r1, ev1) := read_stage (parse_req oreq) buf p b rds in
    let w1 := w_set_rds w r1 in
    match o1 with
    | SBlocked => (HsBlocked, w1, hlog ++ ev1)
    | SFail e => (HsFail e, w1, hlog ++ ev1)
    | SDone (n, req, buf') =>
        match server_done_reading cb req (dropN n buf') with
        | HErr e => (HsFail e, w1, hlog ++ ev1)
        | HOk (out, pend) =>
            hs_loop oreq oresp (length r1 + S extra) (RServer cb pend) (HWriting out) w1 (hlog ++ ev1)
        end
    end.
  Proof.
    induction rds as [|a r IH]; intros w cb pe buf p b hlog extra Hw.
    - cbn [length plus hs_loop read_stage]. rewrite Hw. rewrite <- Hw, w_set_rds_id, app_nil_r. reflexivity.
    - cbn [length plus hs_loop read_stage]. rewrite Hw.
      destruct a as [bs| |k].
      + destruct bs as [|x bs]; [reflexivity|].
        destruct (attack_check p b (blen (x :: bs))) as [[p' b']|]; [|reflexivity].
        unfold parse_req at 1.
        destruct (try_parse_request (oreq (buf ++ x :: bs))) as [|n req|e].
        * rewrite (IH (w_set_rds w r) cb pe _ p' b' _ extra eq_refl).
          destruct (read_stage (parse_req oreq) (buf ++ x :: bs) p' b' r) as [[o1 r1] ev1].
          cbn [w_set_rds w_rds w_wrs w_fls w_keys w_log].
          rewrite <- !app_assoc. cbn [app].
          destruct o1 as [[[n req] buf']|e|]; reflexivity.
        * destruct (server_done_reading cb req (dropN n (buf ++ x :: bs))) as [[out pend]|e]; reflexivity.
        * reflexivity.
      + reflexivity.
      + destruct k.
        * rewrite (IH (w_set_rds w r) cb pe buf p b _ extra eq_refl).
          destruct (read_stage (parse_req oreq) buf p b r) as [[o1 r1] ev1].
          cbn [w_set_rds w_rds w_wrs w_fls w_keys w_log].
          rewrite <- !app_assoc. cbn [app].
          destruct o1 as [[[n req] buf']|e|]; reflexivity.
        * reflexivity.
        * reflexivity.
        * reflexivity.
  Qed.

  Lemma loop_read_client : forall rds w ak subs buf p b hlog extra,
    w_rds w = rds ->
    hs_loop oreq oresp (length rds + S extra) (RClient ak subs) (HReading buf p b) w hlog =
    let '(o1, r1, ev1) := read_stage (parse_resp oresp) buf p b rds in
    let w1 := w_set_rds w r1 in
    match o1 with
    | SBlocked => (HsBlocked, w1, hlog ++ ev1)
    | SFail e => (HsFail e, w1, hlog ++ ev1)
    | SDone (n, resp, buf') => (client_done_reading ak subs n resp buf', w1, hlog ++ ev1)
    end.
  Proof.
    induction rds as [|a r IH]; intros w ak subs buf p b hlog extra Hw.
    - cbn [length plus hs_loop read_stage]. rewrite Hw. rewrite <- Hw, w_set_rds_id, app_nil_r. reflexivity.
    - cbn [length plus hs_loop read_stage]. rewrite Hw.
      destruct a as [bs| |k].
      + destruct bs as [|x bs]; [reflexivity|].
        destruct (attack_check p b (blen (x :: bs))) as [[p' b']|]; [|reflexivity].
        unfold parse_resp at 1.
        destruct (try_parse_response (oresp (buf ++ x :: bs))) as [|n resp|e].
        * rewrite (IH (w_set_rds w r) ak subs _ p' b' _ extra eq_refl).
          destruct (read_stage (parse_resp oresp) (buf ++ x :: bs) p' b' r) as [[o1 r1] ev1].
          cbn [w_set_rds w_rds w_wrs w_fls w_keys w_log].
          rewrite <- !app_assoc. cbn [app].
          destruct o1 as [[[n resp] buf']|e|]; reflexivity.
        * unfold client_done_reading.
          destruct (verify_response ak subs resp) as [r0|e]; [reflexivity|].
          destruct e; reflexivity.
        * reflexivity.
      + reflexivity.
      + destruct k.
        * rewrite (IH (w_set_rds w r) ak subs buf p b _ extra eq_refl).
          destruct (read_stage (parse_resp oresp) buf p b r) as [[o1 r1] ev1].
          cbn [w_set_rds w_rds w_wrs w_fls w_keys w_log].
          rewrite <- !app_assoc. cbn [app].
          destruct o1 as [[[n resp] buf']|e|]; reflexivity.
        * reflexivity.
        * reflexivity.
        * reflexivity.
  Qed.

  Lemma loop_server_write_flush : forall w cb pend out hlog fuel,
    out <> [] -> (length (w_wrs w) + length (w_fls w) + 2 <= fuel)%nat ->
    hs_loop oreq oresp fuel (RServer cb pend) (HWriting out) w hlog =
    server_write_flush pend out w hlog.
  Proof.
    intros w cb pend out hlog fuel Hne Hf.
    replace fuel with (length (w_wrs w) + S (fuel - length (w_wrs w) - 1))%nat by lia.
    rewrite (loop_write (w_wrs w) out _ w hlog _ Hne eq_refl).
    unfold server_write_flush.
    pose proof (write_stage_length out (w_wrs w)) as Hl.
    destruct (write_stage out (w_wrs w)) as [[o2 r2] ev2]. cbn [fst snd] in Hl.
    destruct o2 as [u|e|]; [|reflexivity|reflexivity].
    set (w2 := w_set_wrs w r2).
    replace (length r2 + S (fuel - length (w_wrs w) - 1))%nat
      with (length (w_fls w2) + S (length r2 + (fuel - length (w_wrs w) - 1) - length (w_fls w2)))%nat
      by (subst w2; cbn [w_set_wrs w_fls]; lia).
    rewrite (loop_flush_server (w_fls w2) w2 cb pend _ _ eq_refl).
    subst w2. cbn [w_set_wrs w_fls].
    destruct (flush_stage (w_fls w)) as [[o3 r3] ev3].
    rewrite <- !app_assoc.
    destruct o3 as [u3|e3|]; reflexivity.
  Qed.

  Theorem server_handshake_spec : forall cb w,
    server_handshake oreq oresp cb w = server_spec cb w.
  Proof.
    intros cb w. unfold server_handshake, server_spec, hs_fuel.
    replace (S (S (length (w_rds w) + length (w_wrs w) + length (w_fls w))))
      with (length (w_rds w) + S (S (length (w_wrs w) + length (w_fls w))))%nat by lia.
    rewrite (loop_read_server (w_rds w) w cb None [] 0 0 [] _ eq_refl).
    destruct (read_stage (parse_req oreq) [] 0 0 (w_rds w)) as [[o1 r1] ev1].
    cbn [app].
    destruct o1 as [[[n req] buf']|e|]; [|reflexivity|reflexivity].
    destruct (server_done_reading cb req (dropN n buf')) as [[out pend]|e] eqn:ED; [|reflexivity].
    apply loop_server_write_flush.
    - eapply server_done_reading_nonempty; eauto.
    - cbn [w_set_rds w_wrs w_fls]. lia.
  Qed.

  Lemma loop_client_read : forall w ak subs hlog fuel,
    (length (w_rds w) + 1 <= fuel)%nat ->
    hs_loop oreq oresp fuel (RClient ak subs) (HReading [] 0 0) w hlog = client_read ak subs w hlog.
  Proof.
    intros w ak subs hlog fuel Hf.
    replace fuel with (length (w_rds w) + S (fuel - length (w_rds w) - 1))%nat by lia.
    rewrite (loop_read_client (w_rds w) w ak subs [] 0 0 hlog _ eq_refl).
    unfold client_read.
    destruct (read_stage (parse_resp oresp) [] 0 0 (w_rds w)) as [[o1 r1] ev1].
    destruct o1 as [[[n resp] buf']|e|]; reflexivity.
  Qed.

  Lemma loop_client_run : forall w ak subs req fuel,
    req <> [] ->
    (length (w_rds w) + length (w_wrs w) + length (w_fls w) + 2 <= fuel)%nat ->
    hs_loop oreq oresp fuel (RClient ak subs) (HWriting req) w [] = client_run ak subs req w.
  Proof.
    intros w ak subs req fuel Hne Hf.
    replace fuel with (length (w_wrs w) + S (fuel - length (w_wrs w) - 1))%nat by lia.
    rewrite (loop_write (w_wrs w) req _ w [] _ Hne eq_refl).
    unfold client_run.
    pose proof (write_stage_length req (w_wrs w)) as Hl.
    destruct (write_stage req (w_wrs w)) as [[o2 r2] ev2]. cbn [fst snd] in Hl.
    cbn [app].
    destruct o2 as [u|e|]; [|reflexivity|reflexivity].
    set (w2 := w_set_wrs w r2).
    replace (length r2 + S (fuel - length (w_wrs w) - 1))%nat
      with (length (w_fls w2) + S (length r2 + (fuel - length (w_wrs w) - 1) - length (w_fls w2)))%nat
      by (subst w2; cbn [w_set_wrs w_fls]; lia).
    rewrite (loop_flush_client (w_fls w2) w2 ak subs _ _ eq_refl).
    subst w2. cbn [w_set_wrs w_fls].
    pose proof (flush_stage_length (w_fls w)) as Hl3.
    destruct (flush_stage (w_fls w)) as [[o3 r3] ev3]. cbn [fst snd] in Hl3.
    destruct o3 as [u3|e3|]; [|reflexivity|reflexivity].
    apply loop_client_read.
    cbn [w_set_wrs w_set_fls w_rds]. lia.
  Qed.

  Theorem client_handshake_spec : forall scheme_ok path hs w,
    client_handshake oreq oresp scheme_ok path hs w = client_spec scheme_ok path hs w.
  Proof.
    intros scheme_ok path hs w. unfold client_handshake, client_spec.
    destruct (negb scheme_ok); [reflexivity|].
    destruct (extract_subprotocols hs) as [subs|e]; [|reflexivity].
    destruct (generate_request path hs) as [[req key]|e] eqn:EG; [|reflexivity].
    apply loop_client_run.
    - eapply generate_request_nonempty; eauto.
    - unfold hs_fuel. lia.
  Qed.
End Stages.

(* ------------------------------------------------------------------------------------------ *)
(** * D. no panic, no out-of-fuel; Blocked only on an exhausted oracle *)

Definition hs_regular (r : hs_result) : Prop :=
  match r with HsPanic _ | HsOutOfFuel => False | _ => True end.

Lemma hs_regular_iff : forall r, hs_regular r <-> ((forall s, r <> HsPanic s) /\ r <> HsOutOfFuel).
Proof.
  intros r. split.
  - intros H. destruct r; cbn in H; try contradiction; split; intros; discriminate.
  - intros [H1 H2]. destruct r; cbn; auto. apply (H1 site). reflexivity.
Qed.

Lemma client_done_reading_regular : forall ak subs n resp buf,
  hs_regular (client_done_reading ak subs n resp buf).
Proof.
  intros. unfold client_done_reading.
  destruct (verify_response ak subs resp) as [r|e]; [exact I|]. destruct e; exact I.
Qed.

Lemma client_done_reading_not_blocked : forall ak subs n resp buf,
  client_done_reading ak subs n resp buf <> HsBlocked.
Proof.
  intros. unfold client_done_reading.
  destruct (verify_response ak subs resp) as [r|e]; [discriminate|]. destruct e; discriminate.
Qed.

Lemma read_stage_blocked : forall A (parse : bytes -> parsed A) rds buf p b r' ev,
  read_stage parse buf p b rds = (SBlocked, r', ev) -> r' = [].
Proof.
  induction rds as [|a r IH]; intros buf p b r' ev H; cbn [read_stage] in H.
  - congruence.
  - destruct a as [bs| |k].
    + destruct bs as [|x bs]; [discriminate|].
      destruct (attack_check p b (blen (x :: bs))) as [[p' b']|]; [|discriminate].
      destruct (parse (buf ++ x :: bs)) as [|n a|e]; try discriminate.
      destruct (read_stage parse (buf ++ x :: bs) p' b' r) as [[o r1] ev1] eqn:E.
      assert (o = SBlocked) by congruence. subst o. apply IH in E. congruence.
    + discriminate.
    + destruct k; try discriminate.
      destruct (read_stage parse buf p b r) as [[o r1] ev1] eqn:E.
      assert (o = SBlocked) by congruence. subst o. apply IH in E. congruence.
Qed.

Lemma write_stage_blocked : forall wrs rest r' ev,
  write_stage rest wrs = (SBlocked, r', ev) -> r' = [].
Proof.
  induction wrs as [|a r IH]; intros rest r' ev H; cbn [write_stage] in H.
  - congruence.
  - destruct a as [n|k].
    + destruct (N.min n (blen rest) =? 0); [discriminate|].
      destruct (dropN (N.min n (blen rest)) rest) as [|y rest']; [discriminate|].
      destruct (write_stage (y :: rest') r) as [[o r1] ev1] eqn:E.
      assert (o = SBlocked) by congruence. subst o. apply IH in E. congruence.
    + destruct k; try discriminate.
      destruct (write_stage rest r) as [[o r1] ev1] eqn:E.
      assert (o = SBlocked) by congruence. subst o. apply IH in E. congruence.
Qed.

Lemma flush_stage_blocked : forall fls r' ev,
  flush_stage fls = (SBlocked, r', ev) -> r' = [].
Proof.
  induction fls as [|a r IH]; intros r' ev H; cbn [flush_stage] in H.
  - congruence.
  - destruct a as [|k]; [discriminate|].
    destruct k; try discriminate.
    destruct (flush_stage r) as [[o r1] ev1] eqn:E.
    assert (o = SBlocked) by congruence. subst o. specialize (IH _ _ eq_refl). congruence.
Qed.

Definition hs_res (x : hs_result * world * list hs_event) : hs_result := fst (fst x).
Definition hs_world (x : hs_result * world * list hs_event) : world := snd (fst x).
Definition hs_log (x : hs_result * world * list hs_event) : list hs_event := snd x.

Definition oracle_exhausted (w : world) : Prop := w_rds w = [] \/ w_wrs w = [] \/ w_fls w = [].

Section NoPanic.
  Variable oreq : bytes -> oracle_out raw_req.
  Variable oresp : bytes -> oracle_out raw_resp.

  Lemma server_write_flush_regular : forall pend out w hlog,
    let x := server_write_flush pend out w hlog in
    hs_regular (hs_res x) /\ (hs_res x = HsBlocked -> oracle_exhausted (hs_world x)).
  Proof.
    intros pend out w hlog. unfold server_write_flush.
    destruct (write_stage out (w_wrs w)) as [[o2 r2] ev2] eqn:E2.
    destruct o2 as [u|e|].
    - destruct (flush_stage (w_fls w)) as [[o3 r3] ev3] eqn:E3.
      destruct o3 as [u3|e3|].
      + destruct pend as [[status body]|]; cbn; split; try exact I; intros; discriminate.
      + cbn; split; try exact I; intros; discriminate.
      + apply flush_stage_blocked in E3. subst r3.
        cbn; split; [exact I|]. intros _. right; right. reflexivity.
    - cbn; split; try exact I; intros; discriminate.
    - apply write_stage_blocked in E2. subst r2.
      cbn; split; [exact I|]. intros _. right; left. reflexivity.
  Qed.

  Lemma server_spec_regular : forall cb w,
    let x := server_spec oreq cb w in
    hs_regular (hs_res x) /\ (hs_res x = HsBlocked -> oracle_exhausted (hs_world x)).
  Proof.
    intros cb w. unfold server_spec.
    destruct (read_stage (parse_req oreq) [] 0 0 (w_rds w)) as [[o1 r1] ev1] eqn:E1.
    destruct o1 as [[[n req] buf']|e|].
    - destruct (server_done_reading cb req (dropN n buf')) as [[out pend]|e].
      + apply server_write_flush_regular.
      + cbn; split; try exact I; intros; discriminate.
    - cbn; split; try exact I; intros; discriminate.
    - apply read_stage_blocked in E1. subst r1.
      cbn; split; [exact I|]. intros _. left. reflexivity.
  Qed.

  Lemma client_read_regular : forall ak subs w hlog,
    let x := client_read oresp ak subs w hlog in
    hs_regular (hs_res x) /\ (hs_res x = HsBlocked -> oracle_exhausted (hs_world x)).
  Proof.
    intros ak subs w hlog. unfold client_read.
    destruct (read_stage (parse_resp oresp) [] 0 0 (w_rds w)) as [[o1 r1] ev1] eqn:E1.
    destruct o1 as [[[n resp] buf']|e|].
    - cbn [hs_res hs_world fst snd]. split; [apply client_done_reading_regular|].
      intros Hc. exfalso. eapply client_done_reading_not_blocked; eauto.
    - cbn; split; try exact I; intros; discriminate.
    - apply read_stage_blocked in E1. subst r1.
      cbn; split; [exact I|]. intros _. left. reflexivity.
  Qed.

  Lemma client_run_regular : forall ak subs req w,
    let x := client_run oresp ak subs req w in
    hs_regular (hs_res x) /\ (hs_res x = HsBlocked -> oracle_exhausted (hs_world x)).
  Proof.
    intros ak subs req w. unfold client_run.
    destruct (write_stage req (w_wrs w)) as [[o2 r2] ev2] eqn:E2.
    destruct o2 as [u|e|].
    - destruct (flush_stage (w_fls w)) as [[o3 r3] ev3] eqn:E3.
      destruct o3 as [u3|e3|].
      + apply client_read_regular.
      + cbn; split; try exact I; intros; discriminate.
      + apply flush_stage_blocked in E3. subst r3.
        cbn; split; [exact I|]. intros _. right; right. reflexivity.
    - cbn; split; try exact I; intros; discriminate.
    - apply write_stage_blocked in E2. subst r2.
      cbn; split; [exact I|]. intros _. right; left. reflexivity.
  Qed.

  Lemma client_spec_regular : forall scheme_ok path hs w,
    let x := client_spec oresp scheme_ok path hs w in
    hs_regular (hs_res x) /\ (hs_res x = HsBlocked -> oracle_exhausted (hs_world x)).
  Proof.
    intros scheme_ok path hs w. unfold client_spec.
    destruct (negb scheme_ok); [cbn; split; try exact I; intros; discriminate|].
    destruct (extract_subprotocols hs) as [subs|e]; [|cbn; split; try exact I; intros; discriminate].
    destruct (generate_request path hs) as [[req key]|e];
      [|cbn; split; try exact I; intros; discriminate].
    apply client_run_regular.
  Qed.

  (* C07 (handshake half): never a panic, never out of fuel; Blocked only when a transport
     oracle is exhausted (i.e. the caller has to come back later) *)
  Theorem no_panic_handshake :
    (forall cb w,
       let x := server_handshake oreq oresp cb w in
       (forall s, hs_res x <> HsPanic s) /\ hs_res x <> HsOutOfFuel /\
       (hs_res x = HsBlocked -> oracle_exhausted (hs_world x))) /\
    (forall scheme_ok path hs w,
       let x := client_handshake oreq oresp scheme_ok path hs w in
       (forall s, hs_res x <> HsPanic s) /\ hs_res x <> HsOutOfFuel /\
       (hs_res x = HsBlocked -> oracle_exhausted (hs_world x))).
  Proof.
    split.
    - intros cb w. cbv zeta. rewrite server_handshake_spec.
      destruct (server_spec_regular cb w) as [H1 H2].
      apply hs_regular_iff in H1. destruct H1 as [H1a H1b]. auto.
    - intros scheme_ok path hs w. cbv zeta. rewrite client_handshake_spec.
      destruct (client_spec_regular scheme_ok path hs w) as [H1 H2].
      apply hs_regular_iff in H1. destruct H1 as [H1a H1b]. auto.
  Qed.
End NoPanic.

(* ------------------------------------------------------------------------------------------ *)
(** * E. boundedness of the reading stage *)

(* the data chunks read in a handshake log, in order; their sizes; their concatenation *)
Fixpoint rd_chunks (ev : list hs_event) : list bytes :=
  match ev with
  | [] => []
  | HsEv (EvRead (RdData bs)) :: t => bs :: rd_chunks t
  | _ :: t => rd_chunks t
  end.
Definition rd_sizes (ev : list hs_event) : list N := map (@blen N) (rd_chunks ev).
Definition rd_data (ev : list hs_event) : bytes := concat (rd_chunks ev).

Lemma rd_chunks_app : forall a b, rd_chunks (a ++ b) = rd_chunks a ++ rd_chunks b.
Proof.
  induction a as [|e a IH]; intros b; [reflexivity|].
  cbn [app rd_chunks]. destruct e as [[r| | | | |]|]; try apply IH.
  destruct r; try apply IH. cbn [app]. f_equal. apply IH.
Qed.

Lemma rd_sizes_app : forall a b, rd_sizes (a ++ b) = rd_sizes a ++ rd_sizes b.
Proof. intros. unfold rd_sizes. rewrite rd_chunks_app. apply map_app. Qed.

Lemma rd_data_app : forall a b, rd_data (a ++ b) = rd_data a ++ rd_data b.
Proof. intros. unfold rd_data. rewrite rd_chunks_app. apply concat_app. Qed.

(* the guard passed on every data read of the stage but possibly the last one *)
Lemma read_stage_guard : forall A (parse : bytes -> parsed A) rds buf p b,
  attack_fold p b (removelast (rd_sizes (snd (read_stage parse buf p b rds)))) <> None.
Proof.
  unfold rd_sizes.
  induction rds as [|a r IH]; intros buf p b; cbn [read_stage].
  - cbn. discriminate.
  - destruct a as [bs| |k].
    + destruct bs as [|x bs]; [cbn; discriminate|].
      destruct (attack_check p b (blen (x :: bs))) as [[p' b']|] eqn:EA; [|cbn; discriminate].
      destruct (parse (buf ++ x :: bs)) as [|n a|e]; try (cbn; discriminate).
      specialize (IH (buf ++ x :: bs) p' b').
      destruct (read_stage parse (buf ++ x :: bs) p' b' r) as [[o r'] ev].
      cbn [snd rd_chunks map] in *.
      destruct (map (@blen N) (rd_chunks ev)) as [|s l].
      * cbn. discriminate.
      * cbn [removelast] in *. cbn [attack_fold]. rewrite EA. exact IH.
    + cbn; discriminate.
    + destruct k; try (cbn; discriminate).
      specialize (IH buf p b).
      destruct (read_stage parse buf p b r) as [[o r'] ev].
      cbn [snd rd_chunks] in *. exact IH.
Qed.

Lemma write_stage_no_reads : forall wrs rest, rd_chunks (snd (write_stage rest wrs)) = [].
Proof.
  induction wrs as [|a r IH]; intros rest; cbn [write_stage]; [reflexivity|].
  destruct a as [n|k].
  - destruct (N.min n (blen rest) =? 0); [reflexivity|].
    destruct (dropN (N.min n (blen rest)) rest) as [|y rest']; [reflexivity|].
    specialize (IH (y :: rest')).
    destruct (write_stage (y :: rest') r) as [[o r'] ev]. cbn [snd rd_chunks] in *. exact IH.
  - destruct k; try reflexivity.
    specialize (IH rest).
    destruct (write_stage rest r) as [[o r'] ev]. cbn [snd rd_chunks] in *. exact IH.
Qed.

Lemma flush_stage_no_reads : forall fls, rd_chunks (snd (flush_stage fls)) = [].
Proof.
  induction fls as [|a r IH]; cbn [flush_stage]; [reflexivity|].
  destruct a as [|k]; [reflexivity|].
  destruct k; try reflexivity.
  destruct (flush_stage r) as [[o r'] ev]. cbn [snd rd_chunks] in *. exact IH.
Qed.

(* the parser is only ever applied to buffers of at most 65536 bytes *)
Lemma read_stage_ext : forall A (parse parse' : bytes -> parsed A),
  (forall x, blen x <= 65536 -> parse x = parse' x) ->
  forall rds buf p b, blen buf = b ->
  read_stage parse buf p b rds = read_stage parse' buf p b rds.
Proof.
  intros A parse parse' Hext.
  induction rds as [|a r IH]; intros buf p b Hb; cbn [read_stage]; [reflexivity|].
  destruct a as [bs| |k].
  - destruct bs as [|x bs]; [reflexivity|].
    destruct (attack_check p b (blen (x :: bs))) as [[p' b']|] eqn:EA; [|reflexivity].
    apply attack_check_some in EA. destruct EA as (E1 & E2 & E3 & E4 & E5).
    assert (Hlen : blen (buf ++ x :: bs) = b') by (rewrite blen_app; lia).
    rewrite <- (Hext (buf ++ x :: bs)) by lia.
    destruct (parse (buf ++ x :: bs)) as [|n a|e]; try reflexivity.
    rewrite (IH _ p' b' Hlen). reflexivity.
  - reflexivity.
  - destruct k; try reflexivity. rewrite (IH buf p b Hb). reflexivity.
Qed.

Section Bounded.
  Variable oreq : bytes -> oracle_out raw_req.
  Variable oresp : bytes -> oracle_out raw_resp.

  Lemma server_write_flush_reads : forall pend out w hlog,
    rd_chunks (hs_log (server_write_flush pend out w hlog)) = rd_chunks hlog.
  Proof.
    intros pend out w hlog. unfold server_write_flush.
    pose proof (write_stage_no_reads (w_wrs w) out) as H2.
    destruct (write_stage out (w_wrs w)) as [[o2 r2] ev2]. cbn [snd] in H2.
    pose proof (flush_stage_no_reads (w_fls w)) as H3.
    destruct (flush_stage (w_fls w)) as [[o3 r3] ev3]. cbn [snd] in H3.
    destruct o2 as [u|e|]; [destruct o3 as [u3|e3|]; [destruct pend as [[status body]|]|..]|..];
      cbn [hs_log snd]; rewrite ?rd_chunks_app, ?H2, ?H3, ?app_nil_r; reflexivity.
  Qed.

  Lemma server_spec_reads : forall cb w,
    rd_chunks (hs_log (server_spec oreq cb w)) =
    rd_chunks (snd (read_stage (parse_req oreq) [] 0 0 (w_rds w))).
  Proof.
    intros cb w. unfold server_spec.
    destruct (read_stage (parse_req oreq) [] 0 0 (w_rds w)) as [[o1 r1] ev1]. cbn [snd].
    destruct o1 as [[[n req] buf']|e|]; try reflexivity.
    destruct (server_done_reading cb req (dropN n buf')) as [[out pend]|e]; try reflexivity.
    apply server_write_flush_reads.
  Qed.

  Lemma client_read_reads : forall ak subs w hlog,
    rd_chunks (hs_log (client_read oresp ak subs w hlog)) =
    rd_chunks hlog ++ rd_chunks (snd (read_stage (parse_resp oresp) [] 0 0 (w_rds w))).
  Proof.
    intros ak subs w hlog. unfold client_read.
    destruct (read_stage (parse_resp oresp) [] 0 0 (w_rds w)) as [[o1 r1] ev1]. cbn [snd].
    destruct o1 as [[[n resp] buf']|e|]; cbn [hs_log snd]; apply rd_chunks_app.
  Qed.

  Lemma client_run_reads : forall ak subs req w,
    rd_chunks (hs_log (client_run oresp ak subs req w)) = [] \/
    rd_chunks (hs_log (client_run oresp ak subs req w)) =
    rd_chunks (snd (read_stage (parse_resp oresp) [] 0 0 (w_rds w))).
  Proof.
    intros ak subs req w. unfold client_run.
    pose proof (write_stage_no_reads (w_wrs w) req) as H2.
    destruct (write_stage req (w_wrs w)) as [[o2 r2] ev2]. cbn [snd] in H2.
    pose proof (flush_stage_no_reads (w_fls w)) as H3.
    destruct (flush_stage (w_fls w)) as [[o3 r3] ev3]. cbn [snd] in H3.
    destruct o2 as [u|e|]; [destruct o3 as [u3|e3|]|..];
      try (left; cbn [hs_log snd]; rewrite ?rd_chunks_app, ?H2, ?H3; reflexivity).
    right. rewrite client_read_reads. rewrite rd_chunks_app, H2, H3. reflexivity.
  Qed.

  Definition reads_bounded (log : list hs_event) : Prop :=
    attack_fold 0 0 (removelast (rd_sizes log)) <> None /\
    blen (rd_sizes log) <= 513 /\
    sumN (rd_sizes log) <= 65536 + last (rd_sizes log) 0.

  Lemma reads_bounded_intro : forall log,
    attack_fold 0 0 (removelast (rd_sizes log)) <> None -> reads_bounded log.
  Proof. intros log H. split; [exact H|]. apply attack_consumed0. exact H. Qed.

  Theorem handshake_bounded :
    (forall cb w, reads_bounded (hs_log (server_handshake oreq oresp cb w))) /\
    (forall scheme_ok path hs w,
       reads_bounded (hs_log (client_handshake oreq oresp scheme_ok path hs w))).
  Proof.
    split.
    - intros cb w. rewrite server_handshake_spec. apply reads_bounded_intro.
      unfold rd_sizes. rewrite server_spec_reads. apply read_stage_guard.
    - intros scheme_ok path hs w. rewrite client_handshake_spec. apply reads_bounded_intro.
      unfold client_spec.
      destruct (negb scheme_ok); [cbn; discriminate|].
      destruct (extract_subprotocols hs) as [subs|e]; [|cbn; discriminate].
      destruct (generate_request path hs) as [[req key]|e]; [|cbn; discriminate].
      unfold rd_sizes.
      destruct (client_run_reads (derive_accept_key key) subs req w) as [H|H]; rewrite H.
      + cbn. discriminate.
      + apply read_stage_guard.
  Qed.
End Bounded.

(* the handshake depends on the parser only through its values on buffers of <= 65536 bytes;
   the server does not depend on the response parser nor the client on the request parser *)
Theorem handshake_parse_bounded : forall oreq oreq' oresp oresp',
  (forall cb w,
     (forall x, blen x <= 65536 -> oreq x = oreq' x) ->
     server_handshake oreq oresp cb w = server_handshake oreq' oresp' cb w) /\
  (forall scheme_ok path hs w,
     (forall x, blen x <= 65536 -> oresp x = oresp' x) ->
     client_handshake oreq oresp scheme_ok path hs w =
     client_handshake oreq' oresp' scheme_ok path hs w).
Proof.
  intros oreq oreq' oresp oresp'. split.
  - intros cb w Hext. rewrite !server_handshake_spec. unfold server_spec.
    rewrite (read_stage_ext _ (parse_req oreq) (parse_req oreq')); [reflexivity| |reflexivity].
    intros x Hx. unfold parse_req. rewrite (Hext x Hx). reflexivity.
  - intros scheme_ok path hs w Hext. rewrite !client_handshake_spec. unfold client_spec.
    destruct (negb scheme_ok); [reflexivity|].
    destruct (extract_subprotocols hs) as [subs|e]; [|reflexivity].
    destruct (generate_request path hs) as [[req key]|e]; [|reflexivity].
    unfold client_run.
    destruct (write_stage req (w_wrs w)) as [[o2 r2] ev2].
    destruct o2 as [u|e|]; try reflexivity.
    destruct (flush_stage (w_fls w)) as [[o3 r3] ev3].
    destruct o3 as [u3|e3|]; try reflexivity.
    unfold client_read.
    rewrite (read_stage_ext _ (parse_resp oresp) (parse_resp oresp')); [reflexivity| |reflexivity].
    intros x Hx. unfold parse_resp. rewrite (Hext x Hx). reflexivity.
Qed.

(* ------------------------------------------------------------------------------------------ *)
(** * F. exact writes *)

(* bytes accepted by the transport during the handshake, in order *)
Fixpoint hs_wire (ev : list hs_event) : bytes :=
  match ev with
  | [] => []
  | HsEv (EvWrite _ acc) :: t => acc ++ hs_wire t
  | _ :: t => hs_wire t
  end.

Fixpoint hs_events (ev : list hs_event) : list event :=
  match ev with
  | [] => []
  | HsEv e :: t => e :: hs_events t
  | HsInterrupted :: t => hs_events t
  end.

Lemma hs_wire_is_wire : forall ev, hs_wire ev = wire (hs_events ev).
Proof.
  induction ev as [|e t IH]; [reflexivity|].
  destruct e as [e|]; cbn [hs_wire hs_events wire]; [|exact IH].
  destruct e; try exact IH. rewrite IH. reflexivity.
Qed.

Lemma hs_wire_app : forall a b, hs_wire (a ++ b) = hs_wire a ++ hs_wire b.
Proof.
  induction a as [|e a IH]; intros b; [reflexivity|].
  cbn [app hs_wire]. destruct e as [[r| | | | |]|]; try apply IH.
  rewrite IH. apply app_assoc.
Qed.

(* a sequence of write events that starts with `rest` still to be written: every call offers
   exactly what remains, the transport takes a prefix of it, and the next call starts right
   after that prefix; nothing but write calls (and Interrupted markers) occurs *)
Fixpoint writes_ok (rest : bytes) (ev : list hs_event) : Prop :=
  match ev with
  | [] => True
  | HsEv (EvWrite off acc) :: t =>
      off = blen rest /\ acc = takeN (blen acc) rest /\ writes_ok (dropN (blen acc) rest) t
  | HsEv (EvWriteErr off k) :: t => off = blen rest /\ writes_ok rest t
  | HsInterrupted :: t => writes_ok rest t
  | _ => False
  end.

Lemma writes_ok_wire : forall ev rest,
  writes_ok rest ev -> exists remaining, rest = hs_wire ev ++ remaining.
Proof.
  induction ev as [|e t IH]; intros rest H.
  - exists rest. reflexivity.
  - destruct e as [e|]; cbn [writes_ok hs_wire] in *.
    + destruct e; try contradiction.
      * destruct H as (H1 & H2 & H3). apply IH in H3. destruct H3 as [rem H3].
        exists rem. rewrite <- app_assoc, <- H3.
        rewrite H2 at 1. symmetry. apply takeN_dropN.
      * destruct H as (H1 & H2). apply IH in H2. exact H2.
    + apply IH in H. exact H.
Qed.

Lemma write_stage_ok : forall wrs rest, writes_ok rest (snd (write_stage rest wrs)).
Proof.
  induction wrs as [|a r IH]; intros rest; cbn [write_stage]; [exact I|].
  destruct a as [n|k].
  - assert (Hlen : blen (takeN (N.min n (blen rest)) rest) = N.min n (blen rest))
      by (rewrite blen_takeN; lia).
    destruct (N.min n (blen rest) =? 0).
    + cbn [snd writes_ok]. rewrite Hlen. auto.
    + destruct (dropN (N.min n (blen rest)) rest) as [|y rest'] eqn:ED.
      * cbn [snd writes_ok]. rewrite Hlen. auto.
      * specialize (IH (y :: rest')).
        destruct (write_stage (y :: rest') r) as [[o r'] ev].
        cbn [snd writes_ok] in *. rewrite Hlen, ED. auto.
  - destruct k; try (cbn [snd writes_ok]; auto).
    specialize (IH rest).
    destruct (write_stage rest r) as [[o r'] ev]. cbn [snd writes_ok] in *. auto.
Qed.

Lemma write_stage_done_wire : forall wrs rest u r' ev,
  write_stage rest wrs = (SDone u, r', ev) -> hs_wire ev = rest.
Proof.
  induction wrs as [|a r IH]; intros rest u r' ev H; cbn [write_stage] in H; [discriminate|].
  destruct a as [n|k].
  - destruct (N.min n (blen rest) =? 0); [discriminate|].
    destruct (dropN (N.min n (blen rest)) rest) as [|y rest'] eqn:ED.
    + apply pair_inj in H. destruct H as [_ H]. rewrite <- H. cbn [hs_wire].
      rewrite app_nil_r.
      pose proof (takeN_dropN _ (N.min n (blen rest)) rest) as HT.
      rewrite ED, app_nil_r in HT. exact HT.
    + destruct (write_stage (y :: rest') r) as [[o r1] ev1] eqn:E.
      assert (o = SDone u) by congruence. subst o. apply IH in E.
      apply pair_inj in H. destruct H as [_ H]. rewrite <- H. cbn [hs_wire].
      rewrite E, <- ED. apply takeN_dropN.
  - destruct k; try discriminate.
    destruct (write_stage rest r) as [[o r1] ev1] eqn:E.
    assert (o = SDone u) by congruence. subst o. apply IH in E.
    apply pair_inj in H. destruct H as [_ H]. rewrite <- H. cbn [hs_wire]. exact E.
Qed.

(* the failure of a writing stage is an I/O error other than WouldBlock *)
Lemma write_stage_fail : forall wrs rest e r' ev,
  write_stage rest wrs = (SFail e, r', ev) -> exists k, e = HEIo k /\ k <> WouldBlock.
Proof.
  induction wrs as [|a r IH]; intros rest e r' ev H; cbn [write_stage] in H; [discriminate|].
  destruct a as [n|k].
  - destruct (N.min n (blen rest) =? 0).
    + exists ConnReset. split; [congruence|discriminate].
    + destruct (dropN (N.min n (blen rest)) rest) as [|y rest']; [discriminate|].
      destruct (write_stage (y :: rest') r) as [[o r1] ev1] eqn:E.
      assert (o = SFail e) by congruence. subst o. eapply IH; eauto.
  - destruct k.
    + destruct (write_stage rest r) as [[o r1] ev1] eqn:E.
      assert (o = SFail e) by congruence. subst o. eapply IH; eauto.
    + exists ConnReset. split; [congruence|discriminate].
    + exists Interrupted. split; [congruence|discriminate].
    + exists IoOther. split; [congruence|discriminate].
Qed.

Lemma read_stage_no_wire : forall A (parse : bytes -> parsed A) rds buf p b,
  hs_wire (snd (read_stage parse buf p b rds)) = [].
Proof.
  induction rds as [|a r IH]; intros buf p b; cbn [read_stage]; [reflexivity|].
  destruct a as [bs| |k].
  - destruct bs as [|x bs]; [reflexivity|].
    destruct (attack_check p b (blen (x :: bs))) as [[p' b']|]; [|reflexivity].
    destruct (parse (buf ++ x :: bs)) as [|n a|e]; try reflexivity.
    specialize (IH (buf ++ x :: bs) p' b').
    destruct (read_stage parse (buf ++ x :: bs) p' b' r) as [[o r'] ev]. cbn [snd hs_wire] in *. exact IH.
  - reflexivity.
  - destruct k; try reflexivity.
    specialize (IH buf p b).
    destruct (read_stage parse buf p b r) as [[o r'] ev]. cbn [snd hs_wire] in *. exact IH.
Qed.

Lemma flush_stage_no_wire : forall fls, hs_wire (snd (flush_stage fls)) = [].
Proof.
  induction fls as [|a r IH]; cbn [flush_stage]; [reflexivity|].
  destruct a as [|k]; [reflexivity|].
  destruct k; try reflexivity.
  destruct (flush_stage r) as [[o r'] ev]. cbn [snd hs_wire] in *. exact IH.
Qed.

(* shape of a flushing stage: WouldBlock flushes (each returning Interrupted to the caller),
   then FlOk (done), a hard error (failed), or nothing more (oracle exhausted) *)
Definition flush_wb : list hs_event := [HsEv (EvFlush (FlErr WouldBlock)); HsInterrupted].
Definition flush_final (o : sres unit) : list hs_event :=
  match o with
  | SDone _ => [HsEv (EvFlush FlOk)]
  | SFail (HEIo k) => [HsEv (EvFlush (FlErr k))]
  | SFail _ => []
  | SBlocked => []
  end.

Lemma flush_stage_shape : forall fls o r' ev,
  flush_stage fls = (o, r', ev) ->
  (exists k, ev = concat (repeat flush_wb k) ++ flush_final o) /\
  (forall e, o = SFail e -> exists k, e = HEIo k /\ k <> WouldBlock).
Proof.
  induction fls as [|a r IH]; intros o r' ev H; cbn [flush_stage] in H.
  - apply pair_inj in H. destruct H as [H1 H2]. apply pair_inj in H1. destruct H1 as [H0 H1].
    subst. split; [exists 0%nat; reflexivity|]. intros; discriminate.
  - destruct a as [|k].
    + apply pair_inj in H. destruct H as [H1 H2]. apply pair_inj in H1. destruct H1 as [H0 H1].
      subst. split; [exists 0%nat; reflexivity|]. intros; discriminate.
    + destruct k.
      * destruct (flush_stage r) as [[o1 r1] ev1] eqn:E.
        specialize (IH _ _ _ eq_refl). destruct IH as [[k IH1] IH2].
        apply pair_inj in H. destruct H as [H1 H2]. apply pair_inj in H1. destruct H1 as [H0 H1].
        subst. split; [|exact IH2]. exists (S k). reflexivity.
      * apply pair_inj in H. destruct H as [H1 H2]. apply pair_inj in H1. destruct H1 as [H0 H1].
        subst. split; [exists 0%nat; reflexivity|]. intros e He. exists ConnReset.
        split; [congruence|discriminate].
      * apply pair_inj in H. destruct H as [H1 H2]. apply pair_inj in H1. destruct H1 as [H0 H1].
        subst. split; [exists 0%nat; reflexivity|]. intros e He. exists Interrupted.
        split; [congruence|discriminate].
      * apply pair_inj in H. destruct H as [H1 H2]. apply pair_inj in H1. destruct H1 as [H0 H1].
        subst. split; [exists 0%nat; reflexivity|]. intros e He. exists IoOther.
        split; [congruence|discriminate].
Qed.

(* every transport call of a stage appears exactly once in the log and consumes one oracle entry *)
Fixpoint hs_calls (ev : list hs_event) : nat :=
  match ev with
  | [] => 0
  | HsEv _ :: t => S (hs_calls t)
  | HsInterrupted :: t => hs_calls t
  end.

Lemma hs_calls_app : forall a b, (hs_calls (a ++ b) = hs_calls a + hs_calls b)%nat.
Proof.
  induction a as [|e a IH]; intros b; [reflexivity|].
  cbn [app hs_calls]. destruct e; rewrite IH; reflexivity.
Qed.

Lemma read_stage_calls : forall A (parse : bytes -> parsed A) rds buf p b o r' ev,
  read_stage parse buf p b rds = (o, r', ev) ->
  exists used, rds = used ++ r' /\ hs_calls ev = length used.
Proof.
  induction rds as [|a r IH]; intros buf p b o r' ev H; cbn [read_stage] in H.
  - exists []. split; [cbn; congruence|]. assert (ev = []) by congruence. subst. reflexivity.
  - assert (Hone : forall o0 e0, (o0, r, [HsEv e0]) = (o, r', ev) ->
                   exists used, a :: r = used ++ r' /\ hs_calls ev = length used).
    { intros o0 e0 Hx. exists [a]. split; [cbn; congruence|].
      assert (ev = [HsEv e0]) by congruence. subst. reflexivity. }
    destruct a as [bs| |k].
    + destruct bs as [|x bs]; [eapply Hone; eauto|].
      destruct (attack_check p b (blen (x :: bs))) as [[p' b']|]; [|eapply Hone; eauto].
      destruct (parse (buf ++ x :: bs)) as [|n a|e]; try solve [eapply Hone; eauto].
      destruct (read_stage parse (buf ++ x :: bs) p' b' r) as [[o1 r1] ev1] eqn:E.
      apply IH in E. destruct E as [used [E1 E2]].
      exists (RdData (x :: bs) :: used). split; [cbn; congruence|].
      assert (ev = HsEv (EvRead (RdData (x :: bs))) :: ev1) by congruence. subst.
      cbn [hs_calls length]. lia.
    + eapply Hone; eauto.
    + destruct k; try solve [eapply Hone; eauto].
      destruct (read_stage parse buf p b r) as [[o1 r1] ev1] eqn:E.
      apply IH in E. destruct E as [used [E1 E2]].
      exists (RdErr WouldBlock :: used). split; [cbn; congruence|].
      assert (ev = HsEv (EvRead (RdErr WouldBlock)) :: HsInterrupted :: ev1) by congruence. subst.
      cbn [hs_calls length]. lia.
Qed.

Lemma write_stage_calls : forall wrs rest o r' ev,
  write_stage rest wrs = (o, r', ev) ->
  exists used, wrs = used ++ r' /\ hs_calls ev = length used.
Proof.
  induction wrs as [|a r IH]; intros rest o r' ev H; cbn [write_stage] in H.
  - exists []. split; [cbn; congruence|]. assert (ev = []) by congruence. subst. reflexivity.
  - assert (Hone : forall o0 e0, (o0, r, [HsEv e0]) = (o, r', ev) ->
                   exists used, a :: r = used ++ r' /\ hs_calls ev = length used).
    { intros o0 e0 Hx. exists [a]. split; [cbn; congruence|].
      assert (ev = [HsEv e0]) by congruence. subst. reflexivity. }
    destruct a as [n|k].
    + destruct (N.min n (blen rest) =? 0); [eapply Hone; eauto|].
      destruct (dropN (N.min n (blen rest)) rest) as [|y rest']; [eapply Hone; eauto|].
      destruct (write_stage (y :: rest') r) as [[o1 r1] ev1] eqn:E.
      apply IH in E. destruct E as [used [E1 E2]].
      exists (WrAccept n :: used). split; [cbn; congruence|].
      apply pair_inj in H. destruct H as [_ H]. rewrite <- H.
      cbn [hs_calls length]. lia.
    + destruct k; try solve [eapply Hone; eauto].
      destruct (write_stage rest r) as [[o1 r1] ev1] eqn:E.
      apply IH in E. destruct E as [used [E1 E2]].
      exists (WrErr WouldBlock :: used). split; [cbn; congruence|].
      apply pair_inj in H. destruct H as [_ H]. rewrite <- H.
      cbn [hs_calls length]. lia.
Qed.

Lemma flush_stage_calls : forall fls o r' ev,
  flush_stage fls = (o, r', ev) ->
  exists used, fls = used ++ r' /\ hs_calls ev = length used.
Proof.
  induction fls as [|a r IH]; intros o r' ev H; cbn [flush_stage] in H.
  - exists []. split; [cbn; congruence|]. assert (ev = []) by congruence. subst. reflexivity.
  - assert (Hone : forall o0 e0, (o0, r, [HsEv e0]) = (o, r', ev) ->
                   exists used, a :: r = used ++ r' /\ hs_calls ev = length used).
    { intros o0 e0 Hx. exists [a]. split; [cbn; congruence|].
      assert (ev = [HsEv e0]) by congruence. subst. reflexivity. }
    destruct a as [|k]; [eapply Hone; eauto|].
    destruct k; try solve [eapply Hone; eauto].
    destruct (flush_stage r) as [[o1 r1] ev1] eqn:E.
    specialize (IH _ _ _ eq_refl). destruct IH as [used [E1 E2]].
    exists (FlErr WouldBlock :: used). split; [cbn; congruence|].
    apply pair_inj in H. destruct H as [_ H]. rewrite <- H.
    cbn [hs_calls length]. lia.
Qed.

(* a completed reading stage parsed exactly the bytes it read *)
Lemma read_stage_done : forall A (parse : bytes -> parsed A) rds buf p b n a buf' r' ev,
  read_stage parse buf p b rds = (SDone (n, a, buf'), r', ev) ->
  buf' = buf ++ rd_data ev /\ parse buf' = PComplete n a.
Proof.
  induction rds as [|x r IH]; intros buf p b n a buf' r' ev H; cbn [read_stage] in H; [discriminate|].
  destruct x as [bs| |k].
  - destruct bs as [|y bs]; [discriminate|].
    destruct (attack_check p b (blen (y :: bs))) as [[p' b']|]; [|discriminate].
    destruct (parse (buf ++ y :: bs)) as [|n0 a0|e] eqn:EP; try discriminate.
    + destruct (read_stage parse (buf ++ y :: bs) p' b' r) as [[o1 r1] ev1] eqn:E.
      assert (o1 = SDone (n, a, buf')) by congruence. subst o1.
      apply IH in E. destruct E as [E1 E2]. split; [|exact E2].
      apply pair_inj in H. destruct H as [_ H]. rewrite <- H.
      unfold rd_data in *. cbn [rd_chunks concat]. rewrite E1, <- app_assoc. reflexivity.
    + assert (n0 = n /\ a0 = a /\ buf ++ y :: bs = buf' /\ ev = [HsEv (EvRead (RdData (y :: bs)))])
        by (repeat split; congruence).
      destruct H0 as (-> & -> & <- & ->). split; [|exact EP].
      unfold rd_data. cbn [rd_chunks concat]. rewrite app_nil_r. reflexivity.
  - discriminate.
  - destruct k; try discriminate.
    destruct (read_stage parse buf p b r) as [[o1 r1] ev1] eqn:E.
    assert (o1 = SDone (n, a, buf')) by congruence. subst o1.
    apply IH in E. destruct E as [E1 E2]. split; [|exact E2].
    apply pair_inj in H. destruct H as [_ H]. rewrite <- H.
    unfold rd_data in *. cbn [rd_chunks]. exact E1.
Qed.


(* ---- end-to-end consequences for the two roles ---- *)

Lemma writes_ok_no_read : forall ev rest r, writes_ok rest ev -> ~ In (HsEv (EvRead r)) ev.
Proof.
  induction ev as [|e t IH]; intros rest r H Hin; [exact Hin|].
  destruct Hin as [Hin|Hin].
  - subst e. cbn [writes_ok] in H. exact H.
  - destruct e as [e|]; cbn [writes_ok] in H.
    + destruct e; try contradiction.
      * destruct H as (_ & _ & H). eapply IH; eauto.
      * destruct H as (_ & H). eapply IH; eauto.
    + eapply IH; eauto.
Qed.

Lemma flush_stage_no_read : forall fls r, ~ In (HsEv (EvRead r)) (snd (flush_stage fls)).
Proof.
  induction fls as [|a t IH]; intros r; cbn [flush_stage]; [intros []|].
  destruct a as [|k].
  - cbn. intros [H|[]]. discriminate.
  - destruct k; try (cbn; intros [H|[]]; discriminate).
    specialize (IH r). destruct (flush_stage t) as [[o r'] ev]. cbn [snd] in *.
    intros [H|[H|H]]; try discriminate. exact (IH H).
Qed.

Lemma flush_stage_done_ok : forall fls u r' ev,
  flush_stage fls = (SDone u, r', ev) -> In (HsEv (EvFlush FlOk)) ev.
Proof.
  induction fls as [|a t IH]; intros u r' ev H; cbn [flush_stage] in H; [discriminate|].
  destruct a as [|k].
  - apply pair_inj in H. destruct H as [_ H]. rewrite <- H. left. reflexivity.
  - destruct k; try discriminate.
    destruct (flush_stage t) as [[o r1] ev1] eqn:E.
    assert (o = SDone u) by congruence. subst o. specialize (IH _ _ _ eq_refl).
    apply pair_inj in H. destruct H as [_ H]. rewrite <- H. right. right. exact IH.
Qed.

(* where the failures of a reading stage come from *)
Lemma read_stage_fail : forall A (parse : bytes -> parsed A) rds buf p b e r' ev,
  read_stage parse buf p b rds = (SFail e, r', ev) ->
  (exists x, parse x = PFail e) \/ e = HEAttack \/ (exists k, e = HEIo k /\ k <> WouldBlock) \/
  e = HEProto HandshakeIncomplete.
Proof.
  induction rds as [|a r IH]; intros buf p b e r' ev H; cbn [read_stage] in H; [discriminate|].
  destruct a as [bs| |k].
  - destruct bs as [|x bs]; [right; right; right; congruence|].
    destruct (attack_check p b (blen (x :: bs))) as [[p' b']|]; [|right; left; congruence].
    destruct (parse (buf ++ x :: bs)) as [|n a|e0] eqn:EP; try discriminate.
    + destruct (read_stage parse (buf ++ x :: bs) p' b' r) as [[o1 r1] ev1] eqn:E.
      assert (o1 = SFail e) by congruence. subst o1. eapply IH; eauto.
    + left. exists (buf ++ x :: bs). congruence.
  - right; right; right; congruence.
  - destruct k.
    + destruct (read_stage parse buf p b r) as [[o1 r1] ev1] eqn:E.
      assert (o1 = SFail e) by congruence. subst o1. eapply IH; eauto.
    + right; right; left. exists ConnReset. split; [congruence|discriminate].
    + right; right; left. exists Interrupted. split; [congruence|discriminate].
    + right; right; left. exists IoOther. split; [congruence|discriminate].
Qed.

Definition is_http_err (e : hs_error) : bool := match e with HEHttp _ _ => true | _ => false end.

Lemma parse_req_fail_not_http : forall oreq x e, parse_req oreq x = PFail e -> is_http_err e = false.
Proof.
  unfold parse_req, try_parse_request. intros oreq x e H.
  destruct (oreq x) as [|n r| |]; try discriminate; try (inversion H; reflexivity).
  destruct (negb (bytes_eqb (rq_method r) _)); [inversion H; reflexivity|].
  destruct (rq_version r <? 1); [inversion H; reflexivity|].
  destruct (negb (rq_fmt_ok r)); [inversion H; reflexivity|discriminate].
Qed.

Lemma create_parts_err_not_http : forall m v hs e, create_parts m v hs = HErr e -> is_http_err e = false.
Proof.
  unfold create_parts. intros m v hs e H.
  repeat match type of H with
  | (if ?c then _ else _) = _ => destruct c; [inversion H; reflexivity|]
  end.
  destruct (hget _ hs); [discriminate|inversion H; reflexivity].
Qed.

Lemma server_done_reading_err_not_http : forall cb req tail e,
  server_done_reading cb req tail = HErr e -> is_http_err e = false.
Proof.
  unfold server_done_reading. intros cb req tail e H.
  destruct tail; [|inversion H; reflexivity].
  destruct (create_parts true true (req_headers req)) as [hs|e0] eqn:EC.
  - destruct cb as [|extra|status hs' body].
    + destruct (write_response 101 hs); [discriminate|inversion H; reflexivity].
    + destruct (write_response 101 (hs ++ extra)); [discriminate|inversion H; reflexivity].
    + destruct ((200 <=? status) && (status <? 300)); [inversion H; reflexivity|].
      destruct (write_response status hs'); [discriminate|inversion H; reflexivity].
  - apply create_parts_err_not_http in EC. congruence.
Qed.

Lemma server_write_flush_inv : forall pend out w hlog res w' log,
  server_write_flush pend out w hlog = (res, w', log) ->
  exists evw evf remaining,
    log = hlog ++ evw ++ evf /\ writes_ok out evw /\ out = hs_wire evw ++ remaining /\
    rd_chunks evw = [] /\ rd_chunks evf = [] /\ hs_wire evf = [] /\
    (exists k o3, evf = concat (repeat flush_wb k) ++ flush_final o3) /\
    (evf <> [] -> remaining = []) /\
    ((remaining = [] /\ In (HsEv (EvFlush FlOk)) evf /\
      match pend with
      | None => res = HsDone Server []
      | Some (s, b) => res = HsFail (HEHttp s b)
      end) \/
     res = HsBlocked \/ exists k, res = HsFail (HEIo k)).
Proof.
  intros pend out w hlog res w' log H. unfold server_write_flush in H.
  pose proof (write_stage_ok (w_wrs w) out) as K1.
  pose proof (write_stage_no_reads (w_wrs w) out) as K2.
  destruct (write_stage out (w_wrs w)) as [[o2 r2] ev2] eqn:E2. cbn [snd] in K1, K2.
  destruct (writes_ok_wire _ _ K1) as [rem Hrem].
  destruct o2 as [u|e|].
  - pose proof (flush_stage_no_reads (w_fls w)) as K3.
    pose proof (flush_stage_no_wire (w_fls w)) as K4.
    destruct (flush_stage (w_fls w)) as [[o3 r3] ev3] eqn:E3. cbn [snd] in K3, K4.
    apply write_stage_done_wire in E2.
    pose proof (flush_stage_shape _ _ _ _ E3) as [[k Hk] Hf].
    assert (Hsh : exists k o3, ev3 = concat (repeat flush_wb k) ++ flush_final o3)
      by (exists k, o3; exact Hk).
    destruct o3 as [u3|e3|].
    + apply flush_stage_done_ok in E3.
      exists ev2, ev3, []. rewrite app_nil_r.
      repeat (split; [first [assumption | reflexivity | congruence | (destruct pend as [[s b]|]; congruence)]|]).
      left. split; [reflexivity|]. split; [exact E3|].
      destruct pend as [[s b]|]; congruence.
    + destruct (Hf e3 eq_refl) as [kd [-> _]].
      exists ev2, ev3, []. rewrite app_nil_r.
      repeat (split; [first [assumption | reflexivity | congruence]|]).
      right; right. exists kd. congruence.
    + exists ev2, ev3, []. rewrite app_nil_r.
      repeat (split; [first [assumption | reflexivity | congruence]|]).
      right; left. congruence.
  - apply write_stage_fail in E2. destruct E2 as [kd [-> _]].
    exists ev2, [], rem. rewrite app_nil_r.
    repeat (split; [first [assumption | reflexivity | congruence | (exists 0%nat, SBlocked; reflexivity)]|]).
    right; right. exists kd. congruence.
  - exists ev2, [], rem. rewrite app_nil_r.
    repeat (split; [first [assumption | reflexivity | congruence | (exists 0%nat, SBlocked; reflexivity)]|]).
    right; left. congruence.
Qed.

Definition is_read_ev (e : hs_event) : Prop :=
  match e with HsEv (EvRead _) | HsInterrupted => True | _ => False end.

Lemma read_stage_reads_only : forall A (parse : bytes -> parsed A) rds buf p b,
  Forall is_read_ev (snd (read_stage parse buf p b rds)).
Proof.
  induction rds as [|a r IH]; intros buf p b; cbn [read_stage]; [constructor|].
  assert (Hone : forall r0, Forall is_read_ev [HsEv (EvRead r0)])
    by (intros; constructor; [exact I|constructor]).
  destruct a as [bs| |k].
  - destruct bs as [|x bs]; [apply Hone|].
    destruct (attack_check p b (blen (x :: bs))) as [[p' b']|]; [|apply Hone].
    destruct (parse (buf ++ x :: bs)) as [|n a|e]; try apply Hone.
    specialize (IH (buf ++ x :: bs) p' b').
    destruct (read_stage parse (buf ++ x :: bs) p' b' r) as [[o r'] ev]. cbn [snd] in *.
    constructor; [exact I|exact IH].
  - apply Hone.
  - destruct k; try apply Hone.
    specialize (IH buf p b).
    destruct (read_stage parse buf p b r) as [[o r'] ev]. cbn [snd] in *.
    constructor; [exact I|]. constructor; [exact I|exact IH].
Qed.

Lemma client_run_inv : forall oresp ak subs req w res w' log,
  client_run oresp ak subs req w = (res, w', log) ->
  exists evw evf evr k o3 remaining,
    log = evw ++ evf ++ evr /\ writes_ok req evw /\ req = hs_wire evw ++ remaining /\
    evf = concat (repeat flush_wb k) ++ flush_final o3 /\
    rd_chunks evw = [] /\ rd_chunks evf = [] /\ hs_wire evf = [] /\
    Forall is_read_ev evr /\ hs_wire evr = [] /\
    (evf <> [] -> remaining = []) /\
    ((o3 = SDone tt /\ remaining = [] /\ In (HsEv (EvFlush FlOk)) evf /\
      exists o1 r1, read_stage (parse_resp oresp) [] 0 0 (w_rds w) = (o1, r1, evr) /\
        res = match o1 with
              | SBlocked => HsBlocked
              | SFail e => HsFail e
              | SDone (n, resp, buf) => client_done_reading ak subs n resp buf
              end) \/
     (evr = [] /\ (res = HsBlocked \/ exists kd, res = HsFail (HEIo kd)))).
Proof.
  intros oresp ak subs req w res w' log H. unfold client_run in H.
  pose proof (write_stage_ok (w_wrs w) req) as K1.
  pose proof (write_stage_no_reads (w_wrs w) req) as K2.
  destruct (write_stage req (w_wrs w)) as [[o2 r2] ev2] eqn:E2. cbn [snd] in K1, K2.
  destruct (writes_ok_wire _ _ K1) as [rem Hrem].
  destruct o2 as [u|e|].
  - pose proof (flush_stage_no_reads (w_fls w)) as K3.
    pose proof (flush_stage_no_wire (w_fls w)) as K4.
    destruct (flush_stage (w_fls w)) as [[o3 r3] ev3] eqn:E3. cbn [snd] in K3, K4.
    apply write_stage_done_wire in E2.
    pose proof (flush_stage_shape _ _ _ _ E3) as [[k Hk] Hf].
    assert (Hreq : req = hs_wire ev2 ++ []) by (rewrite app_nil_r; congruence).
    destruct o3 as [u3|e3|].
    + apply flush_stage_done_ok in E3. destruct u3.
      unfold client_read in H. cbn [w_set_fls w_set_wrs w_rds] in H.
      pose proof (read_stage_reads_only _ (parse_resp oresp) (w_rds w) [] 0 0) as K5.
      pose proof (read_stage_no_wire _ (parse_resp oresp) (w_rds w) [] 0 0) as K6.
      destruct (read_stage (parse_resp oresp) [] 0 0 (w_rds w)) as [[o1 r1] ev1] eqn:E1.
      cbn [snd] in K5, K6.
      exists ev2, ev3, ev1, k, (SDone tt), [].
      split; [destruct o1 as [[[n resp] buf']|e|]; rewrite <- app_assoc in H; congruence|].
      repeat (split; [first [assumption | reflexivity | congruence]|]).
      left. repeat (split; [first [assumption | reflexivity]|]).
      exists o1, r1. split; [reflexivity|].
      destruct o1 as [[[n resp] buf']|e|]; congruence.
    + destruct (Hf e3 eq_refl) as [kd [-> _]].
      exists ev2, ev3, [], k, (SFail (HEIo kd)), []. rewrite app_nil_r.
      repeat (split; [first [assumption | reflexivity | congruence | constructor]|]).
      right. split; [reflexivity|]. right. exists kd. congruence.
    + exists ev2, ev3, [], k, SBlocked, []. rewrite app_nil_r.
      repeat (split; [first [assumption | reflexivity | congruence | constructor]|]).
      right. split; [reflexivity|]. left. congruence.
  - apply write_stage_fail in E2. destruct E2 as [kd [-> _]].
    exists ev2, [], [], 0%nat, SBlocked, rem. rewrite !app_nil_r.
    repeat (split; [first [assumption | reflexivity | congruence | constructor]|]).
    right. split; [reflexivity|]. right. exists kd. congruence.
  - exists ev2, [], [], 0%nat, SBlocked, rem. rewrite !app_nil_r.
    repeat (split; [first [assumption | reflexivity | congruence | constructor]|]).
    right. split; [reflexivity|]. left. congruence.
Qed.

Section WriteExact.
  Variable oreq : bytes -> oracle_out raw_req.
  Variable oresp : bytes -> oracle_out raw_resp.

  (* the server's answer is computed from exactly the bytes read, and what reaches the wire is a
     prefix of it; when the handshake ends in Done (accepted) or in the callback's rejection error,
     the whole answer was written, once, and flushed *)
  Theorem server_wire_exact : forall cb w res w' log,
    server_handshake oreq oresp cb w = (res, w', log) ->
    (hs_wire log = [] \/
     exists n req out pend remaining,
       parse_req oreq (rd_data log) = PComplete n req /\
       server_done_reading cb req (dropN n (rd_data log)) = HOk (out, pend) /\
       out = hs_wire log ++ remaining /\
       ((exists tail, res = HsDone Server tail) -> remaining = [] /\ pend = None)) /\
    (forall tail, res = HsDone Server tail ->
       tail = [] /\ hs_wire log <> [] /\ In (HsEv (EvFlush FlOk)) log) /\
    (forall status body, res = HsFail (HEHttp status body) ->
       In (HsEv (EvFlush FlOk)) log /\
       exists n req out,
         parse_req oreq (rd_data log) = PComplete n req /\
         server_done_reading cb req (dropN n (rd_data log)) = HOk (out, Some (status, body)) /\
         hs_wire log = out).
  Proof.
    intros cb w res w' log H. rewrite server_handshake_spec in H. unfold server_spec in H.
    destruct (read_stage (parse_req oreq) [] 0 0 (w_rds w)) as [[o1 r1] ev1] eqn:E1.
    pose proof (read_stage_no_wire _ (parse_req oreq) (w_rds w) [] 0 0) as W1.
    rewrite E1 in W1. cbn [snd] in W1.
    destruct o1 as [[[n req] buf']|e|].
    2:{ assert (res = HsFail e /\ log = ev1) by (split; congruence). destruct H0 as [-> ->].
        split; [left; exact W1|]. split; [intros; discriminate|].
        intros status body Hr. exfalso.
        apply read_stage_fail in E1.
        destruct E1 as [[x Hx]|[->|[[k [-> _]]| ->]]]; try discriminate.
        apply parse_req_fail_not_http in Hx. inversion Hr; subst. discriminate. }
    2:{ assert (res = HsBlocked /\ log = ev1) by (split; congruence). destruct H0 as [-> ->].
        split; [left; exact W1|]. split; intros; discriminate. }
    pose proof (read_stage_done _ _ _ _ _ _ _ _ _ _ _ E1) as [D1 D2]. cbn [app] in D1.
    destruct (server_done_reading cb req (dropN n buf')) as [[out pend]|e] eqn:ED.
    2:{ assert (res = HsFail e /\ log = ev1) by (split; congruence). destruct H0 as [-> ->].
        split; [left; exact W1|]. split; [intros; discriminate|].
        intros status body Hr. exfalso. apply server_done_reading_err_not_http in ED.
        inversion Hr; subst. discriminate. }
    apply server_write_flush_inv in H.
    destruct H as (evw & evf & rem & Hlog & Hok & Hout & R2 & R3 & W3 & Hshape & Hrem0 & Hfin).
    assert (Hrd : rd_data log = buf').
    { unfold rd_data in *. rewrite Hlog, !rd_chunks_app, R2, R3, !app_nil_r. congruence. }
    assert (Hwire : hs_wire log = hs_wire evw).
    { rewrite Hlog, !hs_wire_app, W1, W3, app_nil_r. reflexivity. }
    pose proof (server_done_reading_nonempty _ _ _ _ _ ED) as Hne.
    split; [|split].
    - right. exists n, req, out, pend, rem. rewrite Hrd, Hwire.
      repeat (split; [assumption|]).
      intros [tail Ht]. destruct Hfin as [(F1 & F2 & F3)|[F|[k F]]]; try congruence.
      split; [exact F1|]. destruct pend as [[s b]|]; congruence.
    - intros tail Ht. destruct Hfin as [(F1 & F2 & F3)|[F|[k F]]]; try congruence.
      destruct pend as [[s b]|]; [congruence|].
      split; [congruence|]. split.
      + rewrite Hwire. subst rem. rewrite app_nil_r in Hout. congruence.
      + rewrite Hlog. apply in_or_app. right. apply in_or_app. right. exact F2.
    - intros status body Hr. destruct Hfin as [(F1 & F2 & F3)|[F|[k F]]]; try congruence.
      destruct pend as [[s b]|]; [|congruence].
      assert (s = status /\ b = body) by (split; congruence). destruct H as [-> ->].
      split.
      + rewrite Hlog. apply in_or_app. right. apply in_or_app. right. exact F2.
      + exists n, req, out. rewrite Hrd, Hwire. subst rem. rewrite app_nil_r in Hout.
        repeat split; congruence.
  Qed.

  (* order of the server's transport calls: reads, then writes of the answer, then flushes *)
  Theorem server_log_shape : forall cb w res w' log,
    server_handshake oreq oresp cb w = (res, w', log) ->
    exists evr evw evf k o3,
      log = evr ++ evw ++ evf /\ Forall is_read_ev evr /\
      evf = concat (repeat flush_wb k) ++ flush_final o3 /\
      ((evw = [] /\ evf = []) \/
       exists n req out pend,
         parse_req oreq (rd_data evr) = PComplete n req /\
         server_done_reading cb req (dropN n (rd_data evr)) = HOk (out, pend) /\
         writes_ok out evw /\ (evf <> [] -> hs_wire evw = out)).
  Proof.
    intros cb w res w' log H. rewrite server_handshake_spec in H. unfold server_spec in H.
    pose proof (read_stage_reads_only _ (parse_req oreq) (w_rds w) [] 0 0) as K5.
    destruct (read_stage (parse_req oreq) [] 0 0 (w_rds w)) as [[o1 r1] ev1] eqn:E1.
    cbn [snd] in K5.
    assert (Htriv : log = ev1 ->
      exists evr evw evf k o3,
      log = evr ++ evw ++ evf /\ Forall is_read_ev evr /\
      evf = concat (repeat flush_wb k) ++ flush_final o3 /\
      ((evw = [] /\ evf = []) \/
       exists n req out pend,
         parse_req oreq (rd_data evr) = PComplete n req /\
         server_done_reading cb req (dropN n (rd_data evr)) = HOk (out, pend) /\
         writes_ok out evw /\ (evf <> [] -> hs_wire evw = out))).
    { intros ->. exists ev1, [], [], 0%nat, SBlocked. rewrite !app_nil_r.
      repeat (split; [first [assumption | reflexivity]|]). left. split; reflexivity. }
    destruct o1 as [[[n req] buf']|e|]; [|apply Htriv; congruence|apply Htriv; congruence].
    pose proof (read_stage_done _ _ _ _ _ _ _ _ _ _ _ E1) as [D1 D2]. cbn [app] in D1.
    destruct (server_done_reading cb req (dropN n buf')) as [[out pend]|e] eqn:ED;
      [|apply Htriv; congruence].
    apply server_write_flush_inv in H.
    destruct H as (evw & evf & rem & Hlog & Hok & Hout & R2 & R3 & W3 & [k [o3 Hshape]] & Hrem0 & Hfin).
    exists ev1, evw, evf, k, o3.
    repeat (split; [assumption|]).
    right. exists n, req, out, pend. rewrite <- D1.
    repeat (split; [assumption|]).
    intros Hne. rewrite (Hrem0 Hne), app_nil_r in Hout. congruence.
  Qed.

  (* the client: what reaches the wire is a prefix of the request; the response is read only
     after the whole request was written, once, and flushed *)
  Theorem client_wire_exact : forall path hs w subs req key res w' log,
    extract_subprotocols hs = HOk subs -> generate_request path hs = HOk (req, key) ->
    client_handshake oreq oresp true path hs w = (res, w', log) ->
    (exists remaining, req = hs_wire log ++ remaining) /\
    (forall r, In (HsEv (EvRead r)) log ->
       hs_wire log = req /\ In (HsEv (EvFlush FlOk)) log) /\
    (forall tail, res = HsDone Client tail ->
       hs_wire log = req /\ In (HsEv (EvFlush FlOk)) log /\
       exists n resp resp',
         parse_resp oresp (rd_data log) = PComplete n resp /\
         verify_response (derive_accept_key key) subs resp = HOk resp' /\
         tail = dropN n (rd_data log)).
  Proof.
    intros path hs w subs req key res w' log Hs Hg H.
    rewrite client_handshake_spec in H. unfold client_spec in H. cbn [negb] in H.
    rewrite Hs, Hg in H. apply client_run_inv in H.
    destruct H as (evw & evf & evr & k & o3 & rem & Hlog & Hok & Hreq & Hshape & R1 & R2 & W2 & Hro
                   & W3 & Hrem0 & Hfin).
    assert (Hwire : hs_wire log = hs_wire evw).
    { rewrite Hlog, !hs_wire_app, W2, W3, !app_nil_r. reflexivity. }
    assert (Hrd : rd_data log = rd_data evr).
    { unfold rd_data. rewrite Hlog, !rd_chunks_app, R1, R2. reflexivity. }
    assert (Hflok : In (HsEv (EvFlush FlOk)) evf -> In (HsEv (EvFlush FlOk)) log).
    { intros Hin. rewrite Hlog. apply in_or_app. right. apply in_or_app. left. exact Hin. }
    split; [exists rem; rewrite Hwire; exact Hreq|]. split.
    - intros r Hin.
      destruct Hfin as [(F1 & F2 & F3 & F4)|[F1 F2]].
      + subst rem. rewrite app_nil_r in Hreq. split; [congruence|auto].
      + exfalso. subst evr. rewrite app_nil_r in Hlog. rewrite Hlog in Hin.
        apply in_app_or in Hin. destruct Hin as [Hin|Hin].
        * eapply writes_ok_no_read; eauto.
        * rewrite Hshape in Hin. apply in_app_or in Hin. destruct Hin as [Hin|Hin].
          -- clear - Hin. induction k as [|k IH]; [exact Hin|].
             cbn [repeat concat] in Hin. apply in_app_or in Hin. destruct Hin as [Hin|Hin]; [|auto].
             destruct Hin as [Hin|[Hin|[]]]; discriminate.
          -- destruct o3 as [u|e|]; cbn in Hin.
             ++ destruct Hin as [Hin|[]]. discriminate.
             ++ destruct e; try contradiction. destruct Hin as [Hin|[]]. discriminate.
             ++ contradiction.
    - intros tail Ht.
      destruct Hfin as [(F1 & F2 & F3 & o1 & r1 & F4 & F5)|[F1 [F2|[kd F2]]]]; try congruence.
      subst rem. rewrite app_nil_r in Hreq.
      split; [congruence|]. split; [auto|].
      destruct o1 as [[[n resp] buf']|e|]; try congruence.
      pose proof (read_stage_done _ _ _ _ _ _ _ _ _ _ _ F4) as [D1 D2]. cbn [app] in D1.
      rewrite F5 in Ht. unfold client_done_reading in Ht.
      destruct (verify_response (derive_accept_key key) subs resp) as [resp'|e] eqn:EV.
      + exists n, resp, resp'. rewrite Hrd, <- D1. repeat split; congruence.
      + destruct e; discriminate.
  Qed.

  (* order of the client's transport calls: writes of the request, flushes until FlOk, reads *)
  Theorem client_log_shape : forall path hs w subs req key res w' log,
    extract_subprotocols hs = HOk subs -> generate_request path hs = HOk (req, key) ->
    client_handshake oreq oresp true path hs w = (res, w', log) ->
    exists evw evf evr k o3,
      log = evw ++ evf ++ evr /\ writes_ok req evw /\
      evf = concat (repeat flush_wb k) ++ flush_final o3 /\ Forall is_read_ev evr /\
      (evf <> [] -> hs_wire evw = req) /\ (evr <> [] -> o3 = SDone tt).
  Proof.
    intros path hs w subs req key res w' log Hs Hg H.
    rewrite client_handshake_spec in H. unfold client_spec in H. cbn [negb] in H.
    rewrite Hs, Hg in H. apply client_run_inv in H.
    destruct H as (evw & evf & evr & k & o3 & rem & Hlog & Hok & Hreq & Hshape & R1 & R2 & W2 & Hro
                   & W3 & Hrem0 & Hfin).
    exists evw, evf, evr, k, o3.
    repeat (split; [assumption|]). split.
    - intros Hne. rewrite (Hrem0 Hne), app_nil_r in Hreq. congruence.
    - intros Hne. destruct Hfin as [(F1 & _)|[F1 _]]; [exact F1|congruence].
  Qed.
End WriteExact.



(* ------------------------------------------------------------------------------------------ *)
(** * G. WouldBlock-insensitivity (resumption) *)

Definition rd_is_wb (r : rd_out) : bool := match r with RdErr WouldBlock => true | _ => false end.
Definition wr_is_wb (r : wr_out) : bool := match r with WrErr WouldBlock => true | _ => false end.
Definition fl_is_wb (r : fl_out) : bool := match r with FlErr WouldBlock => true | _ => false end.
Definition strip_rds (l : list rd_out) : list rd_out := filter (fun r => negb (rd_is_wb r)) l.
Definition strip_wrs (l : list wr_out) : list wr_out := filter (fun r => negb (wr_is_wb r)) l.
Definition strip_fls (l : list fl_out) : list fl_out := filter (fun r => negb (fl_is_wb r)) l.

(* the WouldBlock calls and the Interrupted returns they cause *)
Definition ev_is_wb (e : hs_event) : bool :=
  match e with
  | HsInterrupted => true
  | HsEv (EvRead (RdErr WouldBlock)) => true
  | HsEv (EvWriteErr _ WouldBlock) => true
  | HsEv (EvFlush (FlErr WouldBlock)) => true
  | _ => false
  end.
Definition strip_ev (l : list hs_event) : list hs_event := filter (fun e => negb (ev_is_wb e)) l.

Definition strip_world (w : world) : world :=
  mkWorld (strip_rds (w_rds w)) (strip_wrs (w_wrs w)) (strip_fls (w_fls w)) (w_keys w) (w_log w).

Lemma strip_ev_app : forall a b, strip_ev (a ++ b) = strip_ev a ++ strip_ev b.
Proof. intros. apply filter_app. Qed.

Lemma strip_ev_wire : forall ev, hs_wire (strip_ev ev) = hs_wire ev.
Proof.
  induction ev as [|e t IH]; [reflexivity|].
  unfold strip_ev in *.
  destruct e as [[[bs| |[]]|off acc|off []|[|[]]|f|n]|];
    cbn [filter ev_is_wb negb hs_wire]; rewrite ?IH; reflexivity.
Qed.

Lemma strip_ev_chunks : forall ev, rd_chunks (strip_ev ev) = rd_chunks ev.
Proof.
  induction ev as [|e t IH]; [reflexivity|].
  unfold strip_ev in *.
  destruct e as [[[bs| |[]]|off acc|off []|[|[]]|f|n]|];
    cbn [filter ev_is_wb negb rd_chunks]; rewrite ?IH; reflexivity.
Qed.

Lemma read_stage_strip : forall A (parse : bytes -> parsed A) rds buf p b,
  read_stage parse buf p b (strip_rds rds) =
  let '(o, r', ev) := read_stage parse buf p b rds in (o, strip_rds r', strip_ev ev).
Proof.
  induction rds as [|a r IH]; intros buf p b; [reflexivity|].
  unfold strip_rds in *. cbn [filter].
  destruct a as [bs| |k].
  - cbn [rd_is_wb negb read_stage].
    destruct bs as [|x bs]; [reflexivity|].
    destruct (attack_check p b (blen (x :: bs))) as [[p' b']|]; [|reflexivity].
    destruct (parse (buf ++ x :: bs)) as [|n a|e]; try reflexivity.
    rewrite IH. destruct (read_stage parse (buf ++ x :: bs) p' b' r) as [[o r'] ev]. reflexivity.
  - reflexivity.
  - destruct k; cbn [rd_is_wb negb read_stage]; try reflexivity.
    rewrite IH. destruct (read_stage parse buf p b r) as [[o r'] ev]. reflexivity.
Qed.

Lemma write_stage_strip : forall wrs rest,
  write_stage rest (strip_wrs wrs) =
  let '(o, r', ev) := write_stage rest wrs in (o, strip_wrs r', strip_ev ev).
Proof.
  induction wrs as [|a r IH]; intros rest; [reflexivity|].
  unfold strip_wrs in *. cbn [filter].
  destruct a as [n|k].
  - cbn [wr_is_wb negb write_stage].
    destruct (N.min n (blen rest) =? 0); [reflexivity|].
    destruct (dropN (N.min n (blen rest)) rest) as [|y rest']; [reflexivity|].
    rewrite IH. destruct (write_stage (y :: rest') r) as [[o r'] ev]. reflexivity.
  - destruct k; cbn [wr_is_wb negb write_stage]; try reflexivity.
    rewrite IH. destruct (write_stage rest r) as [[o r'] ev]. reflexivity.
Qed.

Lemma flush_stage_strip : forall fls,
  flush_stage (strip_fls fls) =
  let '(o, r', ev) := flush_stage fls in (o, strip_fls r', strip_ev ev).
Proof.
  induction fls as [|a r IH]; [reflexivity|].
  unfold strip_fls in *. cbn [filter].
  destruct a as [|k].
  - reflexivity.
  - destruct k; cbn [fl_is_wb negb flush_stage]; try reflexivity.
    rewrite IH. destruct (flush_stage r) as [[o r'] ev]. reflexivity.
Qed.

Definition strip_run (x : hs_result * world * list hs_event) : hs_result * world * list hs_event :=
  let '(res, w', log) := x in (res, strip_world w', strip_ev log).

Section Resume.
  Variable oreq : bytes -> oracle_out raw_req.
  Variable oresp : bytes -> oracle_out raw_resp.

  Lemma server_write_flush_strip : forall pend out w hlog,
    server_write_flush pend out (strip_world w) (strip_ev hlog) =
    strip_run (server_write_flush pend out w hlog).
  Proof.
    intros pend out w hlog. unfold server_write_flush, strip_run.
    cbn [strip_world w_wrs w_fls]. rewrite write_stage_strip, flush_stage_strip.
    destruct (write_stage out (w_wrs w)) as [[o2 r2] ev2].
    destruct (flush_stage (w_fls w)) as [[o3 r3] ev3].
    destruct o2 as [u|e|]; [destruct o3 as [u3|e3|]; [destruct pend as [[s b]|]|..]|..];
      rewrite ?strip_ev_app; reflexivity.
  Qed.

  Theorem server_resume : forall cb w,
    server_handshake oreq oresp cb (strip_world w) = strip_run (server_handshake oreq oresp cb w).
  Proof.
    intros cb w. rewrite !server_handshake_spec. unfold server_spec.
    cbn [strip_world w_rds]. rewrite read_stage_strip.
    destruct (read_stage (parse_req oreq) [] 0 0 (w_rds w)) as [[o1 r1] ev1].
    destruct o1 as [[[n req] buf']|e|]; try reflexivity.
    destruct (server_done_reading cb req (dropN n buf')) as [[out pend]|e]; try reflexivity.
    rewrite <- server_write_flush_strip. reflexivity.
  Qed.

  Lemma client_read_strip : forall ak subs w hlog,
    client_read oresp ak subs (strip_world w) (strip_ev hlog) =
    strip_run (client_read oresp ak subs w hlog).
  Proof.
    intros ak subs w hlog. unfold client_read, strip_run.
    cbn [strip_world w_rds]. rewrite read_stage_strip.
    destruct (read_stage (parse_resp oresp) [] 0 0 (w_rds w)) as [[o1 r1] ev1].
    destruct o1 as [[[n resp] buf']|e|]; rewrite strip_ev_app; reflexivity.
  Qed.

  Lemma client_run_strip : forall ak subs req w,
    client_run oresp ak subs req (strip_world w) = strip_run (client_run oresp ak subs req w).
  Proof.
    intros ak subs req w. unfold client_run.
    cbn [strip_world w_wrs w_fls]. rewrite write_stage_strip, flush_stage_strip.
    destruct (write_stage req (w_wrs w)) as [[o2 r2] ev2].
    destruct (flush_stage (w_fls w)) as [[o3 r3] ev3].
    destruct o2 as [u|e|]; [destruct o3 as [u3|e3|]|..].
    1:{ rewrite <- strip_ev_app.
        exact (client_read_strip ak subs (w_set_fls (w_set_wrs w r2) r3) (ev2 ++ ev3)). }
    all: unfold strip_run; rewrite ?strip_ev_app; reflexivity.
  Qed.

  Theorem client_resume : forall scheme_ok path hs w,
    client_handshake oreq oresp scheme_ok path hs (strip_world w) =
    strip_run (client_handshake oreq oresp scheme_ok path hs w).
  Proof.
    intros scheme_ok path hs w. rewrite !client_handshake_spec. unfold client_spec.
    destruct (negb scheme_ok); [reflexivity|].
    destruct (extract_subprotocols hs) as [subs|e]; [|reflexivity].
    destruct (generate_request path hs) as [[req key]|e]; [|reflexivity].
    apply client_run_strip.
  Qed.
End Resume.


(* ------------------------------------------------------------------------------------------ *)
(** * H. segmentation-insensitivity *)

(* P2 "sequential scan" (P1, determinism, is built in: the oracle is a function) *)
Definition seq_scan {A : Type} (oracle : bytes -> oracle_out A) : Prop :=
  (forall buf n x, oracle buf = OComplete n x ->
     n <= blen buf /\
     (forall buf', takeN n buf' = takeN n buf -> n <= blen buf' -> oracle buf' = OComplete n x) /\
     (forall k, k < n -> oracle (takeN k buf) = OPartial)) /\
  (forall buf more, oracle buf = OErrHttparse -> oracle (buf ++ more) = OErrHttparse) /\
  (forall buf more, oracle buf = OErrTooMany -> oracle (buf ++ more) = OErrTooMany).

(* all the machine needs from P2: a final answer stays the same when more bytes arrive *)
Definition stable {A : Type} (parse : bytes -> parsed A) : Prop :=
  forall buf more, parse buf <> PPartial -> parse (buf ++ more) = parse buf.

Lemma seq_scan_ext : forall A (oracle : bytes -> oracle_out A) buf more,
  seq_scan oracle -> oracle buf <> OPartial -> oracle (buf ++ more) = oracle buf.
Proof.
  intros A oracle buf more (Hc & He1 & He2) Hnp.
  destruct (oracle buf) as [|n x| |] eqn:E.
  - congruence.
  - destruct (Hc _ _ _ E) as (H1 & H2 & _). apply H2.
    + apply takeN_app_le. exact H1.
    + rewrite blen_app. lia.
  - apply He1. exact E.
  - apply He2. exact E.
Qed.

Lemma seq_scan_stable_req : forall oreq, seq_scan oreq -> stable (parse_req oreq).
Proof.
  intros oreq Hs buf more Hnp. unfold parse_req in *.
  rewrite (seq_scan_ext _ oreq buf more Hs); [reflexivity|].
  intros Hc. rewrite Hc in Hnp. apply Hnp. reflexivity.
Qed.

Lemma seq_scan_stable_resp : forall oresp, seq_scan oresp -> stable (parse_resp oresp).
Proof.
  intros oresp Hs buf more Hnp. unfold parse_resp in *.
  rewrite (seq_scan_ext _ oresp buf more Hs); [reflexivity|].
  intros Hc. rewrite Hc in Hnp. apply Hnp. reflexivity.
Qed.

(* the reading stage without the guard *)
Fixpoint read_free {A : Type} (parse : bytes -> parsed A) (buf : bytes) (rds : list rd_out)
  : sres (N * A * bytes) * list rd_out * list hs_event :=
  match rds with
  | [] => (SBlocked, [], [])
  | RdErr WouldBlock :: r =>
      let '(o, r', ev) := read_free parse buf r in
      (o, r', HsEv (EvRead (RdErr WouldBlock)) :: HsInterrupted :: ev)
  | RdErr k :: r => (SFail (HEIo k), r, [HsEv (EvRead (RdErr k))])
  | RdEof :: r => (SFail (HEProto HandshakeIncomplete), r, [HsEv (EvRead RdEof)])
  | RdData [] :: r => (SFail (HEProto HandshakeIncomplete), r, [HsEv (EvRead RdEof)])
  | RdData bs :: r =>
      match parse (buf ++ bs) with
      | PPartial =>
          let '(o, r', ev) := read_free parse (buf ++ bs) r in
          (o, r', HsEv (EvRead (RdData bs)) :: ev)
      | PFail e => (SFail e, r, [HsEv (EvRead (RdData bs))])
      | PComplete n a => (SDone (n, a, buf ++ bs), r, [HsEv (EvRead (RdData bs))])
      end
  end.

(* a run on which the guard never tripped is a guard-free run *)
Lemma read_stage_free : forall A (parse : bytes -> parsed A),
  (forall x, parse x <> PFail HEAttack) ->
  forall rds buf p b o r' ev,
  read_stage parse buf p b rds = (o, r', ev) -> o <> SFail HEAttack ->
  read_free parse buf rds = (o, r', ev).
Proof.
  intros A parse Hna.
  induction rds as [|a r IH]; intros buf p b o r' ev H Hno; cbn [read_stage read_free] in *.
  - exact H.
  - destruct a as [bs| |k].
    + destruct bs as [|x bs]; [exact H|].
      destruct (attack_check p b (blen (x :: bs))) as [[p' b']|].
      * destruct (parse (buf ++ x :: bs)) as [|n a|e]; try exact H.
        destruct (read_stage parse (buf ++ x :: bs) p' b' r) as [[o1 r1] ev1] eqn:E.
        assert (o1 = o) by congruence. subst o1.
        rewrite (IH _ _ _ _ _ _ E Hno). exact H.
      * exfalso. apply Hno. congruence.
    + exact H.
    + destruct k; try exact H.
      destruct (read_stage parse buf p b r) as [[o1 r1] ev1] eqn:E.
      assert (o1 = o) by congruence. subst o1.
      rewrite (IH _ _ _ _ _ _ E Hno). exact H.
Qed.

Definition chunk_events (cs : list bytes) : list hs_event :=
  map (fun c => HsEv (EvRead (RdData c))) cs.
Definition nonempty_chunks (cs : list bytes) : Prop := Forall (fun c => c <> []) cs.

Lemma rd_chunks_chunk_events : forall cs, rd_chunks (chunk_events cs) = cs.
Proof. induction cs as [|c cs IH]; [reflexivity|]. cbn [chunk_events map rd_chunks]. f_equal. exact IH. Qed.

Lemma concat_nonempty_nil : forall cs, nonempty_chunks cs -> concat cs = [] -> cs = [].
Proof.
  intros [|c cs] H Hc; [reflexivity|]. inversion H; subst.
  cbn [concat] in Hc. apply app_eq_nil in Hc. destruct Hc as [Hc _]. congruence.
Qed.

Section Segmentation.
  Context {A : Type}.
  Variable parse : bytes -> parsed A.
  Hypothesis Hstable : stable parse.

  (* as long as the accumulated bytes are an incomplete head, the chunks are simply accumulated *)
  Lemma read_free_partial : forall cs buf t,
    nonempty_chunks cs -> parse (buf ++ concat cs) = PPartial ->
    read_free parse buf (map RdData cs ++ t) =
    let '(o, r', ev) := read_free parse (buf ++ concat cs) t in (o, r', chunk_events cs ++ ev).
  Proof.
    induction cs as [|c cs IH]; intros buf t Hne Hp.
    - cbn [concat map app chunk_events]. rewrite app_nil_r.
      destruct (read_free parse buf t) as [[o r'] ev]. reflexivity.
    - inversion Hne as [|c0 cs0 Hc Hcs]; subst.
      cbn [concat] in Hp. rewrite app_assoc in Hp.
      cbn [map app read_free].
      destruct c as [|x c]; [congruence|].
      destruct (parse (buf ++ x :: c)) as [|n a|e] eqn:EP.
      + rewrite (IH _ t Hcs Hp). cbn [concat]. rewrite app_assoc.
        destruct (read_free parse ((buf ++ x :: c) ++ concat cs) t) as [[o r'] ev]. reflexivity.
      + exfalso. rewrite Hstable in Hp by congruence. congruence.
      + exfalso. rewrite Hstable in Hp by congruence. congruence.
  Qed.

  Definition final_outcome (x : parsed A) (buf : bytes) : sres (N * A * bytes) :=
    match x with
    | PComplete n a => SDone (n, a, buf)
    | PFail e => SFail e
    | PPartial => SBlocked
    end.

  (* once the accumulated bytes are a complete (or bad) head, the stage stops at the first chunk
     boundary at which the parser says so, with the same answer *)
  Lemma read_free_final : forall cs buf t,
    nonempty_chunks cs -> cs <> [] ->
    parse (buf ++ concat cs) <> PPartial ->
    exists pre rest,
      cs = pre ++ rest /\ pre <> [] /\
      parse (buf ++ concat pre) = parse (buf ++ concat cs) /\
      read_free parse buf (map RdData cs ++ t) =
      (final_outcome (parse (buf ++ concat cs)) (buf ++ concat pre),
       map RdData rest ++ t, chunk_events pre).
  Proof.
    induction cs as [|c cs IH]; intros buf t Hne Hnn Hp; [congruence|].
    inversion Hne as [|c0 cs0 Hc Hcs]; subst.
    cbn [concat] in *. rewrite app_assoc in *.
    cbn [map app read_free].
    destruct c as [|x c]; [congruence|].
    destruct (parse (buf ++ x :: c)) as [|n a|e] eqn:EP.
    - destruct cs as [|c2 cs2].
      + exfalso. cbn [concat] in Hp. rewrite app_nil_r in Hp. congruence.
      + assert (Hnn2 : c2 :: cs2 <> []) by discriminate.
        destruct (IH (buf ++ x :: c) t Hcs Hnn2 Hp) as (pre & rest & E1 & E2 & E3 & E4).
        exists ((x :: c) :: pre), rest.
        split; [cbn [app]; congruence|]. split; [discriminate|].
        cbn [concat]. rewrite app_assoc. split; [exact E3|].
        rewrite E4. reflexivity.
    - exists [x :: c], cs.
      split; [reflexivity|]. split; [discriminate|].
      cbn [concat]. rewrite app_nil_r.
      assert (Hst : parse ((buf ++ x :: c) ++ concat cs) = parse (buf ++ x :: c))
        by (apply Hstable; congruence).
      split; [congruence|]. rewrite Hst, EP. reflexivity.
    - exists [x :: c], cs.
      split; [reflexivity|]. split; [discriminate|].
      cbn [concat]. rewrite app_nil_r.
      assert (Hst : parse ((buf ++ x :: c) ++ concat cs) = parse (buf ++ x :: c))
        by (apply Hstable; congruence).
      split; [congruence|]. rewrite Hst, EP. reflexivity.
  Qed.

  (* two segmentations of the same bytes, followed by the same further transport behaviour *)
  Lemma read_free_seg : forall csA csB buf t,
    nonempty_chunks csA -> nonempty_chunks csB -> concat csA = concat csB ->
    (exists o r ev,
       read_free parse buf (map RdData csA ++ t) = (o, r, chunk_events csA ++ ev) /\
       read_free parse buf (map RdData csB ++ t) = (o, r, chunk_events csB ++ ev)) \/
    (exists preA restA preB restB,
       csA = preA ++ restA /\ csB = preB ++ restB /\
       parse (buf ++ concat csA) <> PPartial /\
       parse (buf ++ concat preA) = parse (buf ++ concat csA) /\
       parse (buf ++ concat preB) = parse (buf ++ concat csA) /\
       read_free parse buf (map RdData csA ++ t) =
         (final_outcome (parse (buf ++ concat csA)) (buf ++ concat preA),
          map RdData restA ++ t, chunk_events preA) /\
       read_free parse buf (map RdData csB ++ t) =
         (final_outcome (parse (buf ++ concat csA)) (buf ++ concat preB),
          map RdData restB ++ t, chunk_events preB)).
  Proof.
    intros csA csB buf t HA HB Hcat.
    destruct csA as [|cA csA'].
    { (* empty stream: the two oracles are the same list *)
      cbn [concat] in Hcat. symmetry in Hcat. apply (concat_nonempty_nil _ HB) in Hcat. subst csB.
      left. cbn [map app chunk_events].
      destruct (read_free parse buf t) as [[o r] ev]. exists o, r, ev. split; reflexivity. }
    assert (HnA : cA :: csA' <> []) by discriminate.
    assert (HnB : csB <> []).
    { intros ->. cbn [concat] in Hcat. apply (concat_nonempty_nil _ HA) in Hcat. congruence. }
    destruct (parse (buf ++ concat (cA :: csA'))) as [|n a|e] eqn:EP.
    - left.
      rewrite (read_free_partial _ buf t HA EP).
      assert (EPB : parse (buf ++ concat csB) = PPartial) by (rewrite <- Hcat; exact EP).
      rewrite (read_free_partial _ buf t HB EPB). rewrite <- Hcat.
      destruct (read_free parse (buf ++ concat (cA :: csA')) t) as [[o r] ev].
      exists o, r, ev. split; reflexivity.
    - right.
      assert (HpA : parse (buf ++ concat (cA :: csA')) <> PPartial) by congruence.
      assert (HpB : parse (buf ++ concat csB) <> PPartial) by (rewrite <- Hcat; congruence).
      destruct (read_free_final _ buf t HA HnA HpA) as (preA & restA & A1 & A2 & A3 & A4).
      destruct (read_free_final _ buf t HB HnB HpB) as (preB & restB & B1 & B2 & B3 & B4).
      exists preA, restA, preB, restB.
      rewrite <- Hcat in B3, B4. rewrite EP in *.
      repeat (split; [first [assumption | congruence]|]). exact B4.
    - right.
      assert (HpA : parse (buf ++ concat (cA :: csA')) <> PPartial) by congruence.
      assert (HpB : parse (buf ++ concat csB) <> PPartial) by (rewrite <- Hcat; congruence).
      destruct (read_free_final _ buf t HA HnA HpA) as (preA & restA & A1 & A2 & A3 & A4).
      destruct (read_free_final _ buf t HB HnB HpB) as (preB & restB & B1 & B2 & B3 & B4).
      exists preA, restA, preB, restB.
      rewrite <- Hcat in B3, B4. rewrite EP in *.
      repeat (split; [first [assumption | congruence]|]). exact B4.
  Qed.

  Hypothesis Hnoattack : forall x, parse x <> PFail HEAttack.

  (* the design's C17_segmentation: while the guard is not tripped, the reading stage gives the same
     outcome (object, consumed length, error) for every segmentation, and no byte is lost:
     buffer ++ unread chunks is the same *)
  Theorem read_stage_segmentation : forall csA csB buf pA bA pB bB t oA rA evA oB rB evB,
    nonempty_chunks csA -> nonempty_chunks csB -> concat csA = concat csB ->
    read_stage parse buf pA bA (map RdData csA ++ t) = (oA, rA, evA) ->
    read_stage parse buf pB bB (map RdData csB ++ t) = (oB, rB, evB) ->
    oA <> SFail HEAttack -> oB <> SFail HEAttack ->
    match oA, oB with
    | SDone (nA, aA, bufA), SDone (nB, aB, bufB) =>
        nA = nB /\ aA = aB /\
        exists restA restB t',
          rA = map RdData restA ++ t' /\ rB = map RdData restB ++ t' /\
          bufA ++ concat restA = bufB ++ concat restB
    | SFail eA, SFail eB => eA = eB
    | SBlocked, SBlocked => rA = rB
    | _, _ => False
    end.
  Proof.
    intros csA csB buf pA bA pB bB t oA rA evA oB rB evB HA HB Hcat EA EB HnA HnB.
    apply (read_stage_free _ parse Hnoattack) in EA; [|exact HnA].
    apply (read_stage_free _ parse Hnoattack) in EB; [|exact HnB].
    destruct (read_free_seg csA csB buf t HA HB Hcat)
      as [(o & r & ev & F1 & F2)|(preA & restA & preB & restB & S1 & S2 & S3 & S4 & S5 & F1 & F2)].
    - rewrite F1 in EA. rewrite F2 in EB.
      assert (oA = o /\ rA = r) by (split; congruence).
      assert (oB = o /\ rB = r) by (split; congruence).
      destruct H as [-> ->]. destruct H0 as [-> ->].
      destruct o as [[[n a] bufx]|e|]; try reflexivity.
      split; [reflexivity|]. split; [reflexivity|].
      exists [], [], r. repeat split.
    - rewrite F1 in EA. rewrite F2 in EB.
      assert (oA = final_outcome (parse (buf ++ concat csA)) (buf ++ concat preA) /\
              rA = map RdData restA ++ t) by (split; congruence).
      assert (oB = final_outcome (parse (buf ++ concat csA)) (buf ++ concat preB) /\
              rB = map RdData restB ++ t) by (split; congruence).
      destruct H as [-> ->]. destruct H0 as [-> ->].
      destruct (parse (buf ++ concat csA)) as [|n a|e]; [congruence| |reflexivity].
      cbn [final_outcome]. split; [reflexivity|]. split; [reflexivity|].
      exists restA, restB, t. split; [reflexivity|]. split; [reflexivity|].
      rewrite <- !app_assoc, <- !concat_app. clear - S1 S2 Hcat. subst csA csB.
      f_equal. exact Hcat.
  Qed.

  (* when the stream ends exactly where the head ends (nothing was sent after the head), the
     stage result is identical, including the unread oracle *)
  Lemma read_stage_seg_nojunk : forall csA csB buf pA bA pB bB t oA rA evA oB rB evB,
    (forall x n a, parse x = PComplete n a -> n <= blen x) ->
    (forall n a, parse (buf ++ concat csA) = PComplete n a -> n = blen (buf ++ concat csA)) ->
    nonempty_chunks csA -> nonempty_chunks csB -> concat csA = concat csB ->
    read_stage parse buf pA bA (map RdData csA ++ t) = (oA, rA, evA) ->
    read_stage parse buf pB bB (map RdData csB ++ t) = (oB, rB, evB) ->
    oA <> SFail HEAttack -> oB <> SFail HEAttack ->
    oA = oB /\ ((forall e, oA <> SFail e) -> rA = rB).
  Proof.
    intros csA csB buf pA bA pB bB t oA rA evA oB rB evB Hwithin Hnojunk HA HB Hcat EA EB HnA HnB.
    apply (read_stage_free _ parse Hnoattack) in EA; [|exact HnA].
    apply (read_stage_free _ parse Hnoattack) in EB; [|exact HnB].
    destruct (read_free_seg csA csB buf t HA HB Hcat)
      as [(o & r & ev & F1 & F2)|(preA & restA & preB & restB & S1 & S2 & S3 & S4 & S5 & F1 & F2)].
    - rewrite F1 in EA. rewrite F2 in EB.
      assert (oA = o /\ rA = r) by (split; congruence).
      assert (oB = o /\ rB = r) by (split; congruence).
      destruct H as [-> ->]. destruct H0 as [-> ->]. split; reflexivity.
    - rewrite F1 in EA. rewrite F2 in EB.
      assert (oA = final_outcome (parse (buf ++ concat csA)) (buf ++ concat preA) /\
              rA = map RdData restA ++ t) by (split; congruence).
      assert (oB = final_outcome (parse (buf ++ concat csA)) (buf ++ concat preB) /\
              rB = map RdData restB ++ t) by (split; congruence).
      destruct H as [-> ->]. destruct H0 as [-> ->].
      destruct (parse (buf ++ concat csA)) as [|n a|e] eqn:EP; [congruence| |].
      + specialize (Hnojunk n a eq_refl).
        pose proof (Hwithin _ _ _ S4) as WA. pose proof (Hwithin _ _ _ S5) as WB.
        assert (HrA : restA = []).
        { apply concat_nonempty_nil.
          - unfold nonempty_chunks in *. rewrite S1 in HA. apply Forall_app in HA. tauto.
          - apply blen_zero_nil. rewrite S1, concat_app, !blen_app in Hnojunk.
            rewrite blen_app in WA. lia. }
        assert (HrB : restB = []).
        { apply concat_nonempty_nil.
          - unfold nonempty_chunks in *. rewrite S2 in HB. apply Forall_app in HB. tauto.
          - apply blen_zero_nil. rewrite Hcat, S2, concat_app, !blen_app in Hnojunk.
            rewrite blen_app in WB. lia. }
        subst restA restB. rewrite app_nil_r in S1, S2. subst preA preB.
        rewrite Hcat. split; reflexivity.
      + cbn [final_outcome]. split; [reflexivity|]. intros Hc. exfalso. apply (Hc e). reflexivity.
  Qed.
End Segmentation.

Lemma parse_req_complete : forall oreq x n req,
  parse_req oreq x = PComplete n req -> exists raw, oreq x = OComplete n raw.
Proof.
  unfold parse_req, try_parse_request. intros oreq x n req H.
  destruct (oreq x) as [|n0 r| |]; try discriminate.
  destruct (negb (bytes_eqb (rq_method r) _)); [discriminate|].
  destruct (rq_version r <? 1); [discriminate|].
  destruct (negb (rq_fmt_ok r)); [discriminate|].
  exists r. congruence.
Qed.

Lemma parse_resp_complete : forall oresp x n resp,
  parse_resp oresp x = PComplete n resp -> exists raw, oresp x = OComplete n raw.
Proof.
  unfold parse_resp, try_parse_response. intros oresp x n resp H.
  destruct (oresp x) as [|n0 r| |]; try discriminate.
  destruct (rs_version r <? 1); [discriminate|].
  destruct (negb (rs_fmt_ok r)); [discriminate|].
  exists r. congruence.
Qed.

Lemma parse_req_no_attack : forall oreq x, parse_req oreq x <> PFail HEAttack.
Proof.
  unfold parse_req, try_parse_request. intros oreq x.
  destruct (oreq x) as [|n0 r| |]; try discriminate.
  destruct (negb (bytes_eqb (rq_method r) _)); [discriminate|].
  destruct (rq_version r <? 1); [discriminate|].
  destruct (negb (rq_fmt_ok r)); discriminate.
Qed.

Lemma parse_resp_no_attack : forall oresp x, parse_resp oresp x <> PFail HEAttack.
Proof.
  unfold parse_resp, try_parse_response. intros oresp x.
  destruct (oresp x) as [|n0 r| |]; try discriminate.
  destruct (rs_version r <? 1); [discriminate|].
  destruct (negb (rs_fmt_ok r)); discriminate.
Qed.

Lemma server_write_flush_log : forall pend out w hlog,
  server_write_flush pend out w hlog =
  let '(res, w', log) := server_write_flush pend out w [] in (res, w', hlog ++ log).
Proof.
  intros pend out w hlog. unfold server_write_flush.
  destruct (write_stage out (w_wrs w)) as [[o2 r2] ev2].
  destruct (flush_stage (w_fls w)) as [[o3 r3] ev3].
  destruct o2 as [u|e|]; [destruct o3 as [u3|e3|]; [destruct pend as [[s b]|]|..]|..]; reflexivity.
Qed.

Lemma server_write_flush_world : forall pend out w hlog,
  w_rds (hs_world (server_write_flush pend out w hlog)) = w_rds w.
Proof.
  intros pend out w hlog. unfold server_write_flush.
  destruct (write_stage out (w_wrs w)) as [[o2 r2] ev2].
  destruct (flush_stage (w_fls w)) as [[o3 r3] ev3].
  destruct o2 as [u|e|]; [destruct o3 as [u3|e3|]; [destruct pend as [[s b]|]|..]|..]; reflexivity.
Qed.

(* the part of the world a write/flush run does not look at *)
Lemma server_write_flush_rds : forall pend out w hlog r,
  server_write_flush pend out (w_set_rds w r) hlog =
  let '(res, w', log) := server_write_flush pend out w hlog in (res, w_set_rds w' r, log).
Proof.
  intros pend out w hlog r. unfold server_write_flush. cbn [w_set_rds w_wrs w_fls].
  destruct (write_stage out (w_wrs w)) as [[o2 r2] ev2].
  destruct (flush_stage (w_fls w)) as [[o3 r3] ev3].
  destruct o2 as [u|e|]; [destruct o3 as [u3|e3|]; [destruct pend as [[s b]|]|..]|..]; reflexivity.
Qed.

Lemma reads_only_no_wire : forall ev, Forall is_read_ev ev -> hs_wire ev = [].
Proof.
  induction ev as [|e t IH]; intros H; [reflexivity|].
  inversion H as [|e0 t0 He Ht]; subst.
  destruct e as [[r| | | | |]|]; cbn [is_read_ev] in He; try contradiction; cbn [hs_wire]; auto.
Qed.

(* what two runs on two segmentations of the same bytes agree on: the result, the bytes written,
   the unused write/flush oracles, the whole final world after success, and the whole log except
   for the chunking of the reading stage *)
Definition seg_agree (xA xB : hs_result * world * list hs_event) : Prop :=
  hs_res xA = hs_res xB /\
  hs_wire (hs_log xA) = hs_wire (hs_log xB) /\
  w_wrs (hs_world xA) = w_wrs (hs_world xB) /\
  w_fls (hs_world xA) = w_fls (hs_world xB) /\
  (forall r tail, hs_res xA = HsDone r tail -> hs_world xA = hs_world xB) /\
  exists pre evA evB rest,
    hs_log xA = pre ++ evA ++ rest /\ hs_log xB = pre ++ evB ++ rest /\
    Forall is_read_ev evA /\ Forall is_read_ev evB.

Lemma seg_agree_intro : forall res wA wB pre evA evB rest,
  w_wrs wA = w_wrs wB -> w_fls wA = w_fls wB ->
  ((forall r tail, res <> HsDone r tail) \/ wA = wB) ->
  Forall is_read_ev evA -> Forall is_read_ev evB ->
  seg_agree (res, wA, pre ++ evA ++ rest) (res, wB, pre ++ evB ++ rest).
Proof.
  intros res wA wB pre evA evB rest Hw Hf Hd HA HB.
  unfold seg_agree. cbn [hs_res hs_world hs_log fst snd].
  split; [reflexivity|].
  split; [rewrite !hs_wire_app, (reads_only_no_wire evA HA), (reads_only_no_wire evB HB);
          reflexivity|].
  split; [exact Hw|]. split; [exact Hf|]. split.
  - intros r tail Hc. destruct Hd as [Hd|Hd]; [exfalso; exact (Hd r tail Hc)|exact Hd].
  - exists pre, evA, evB, rest. repeat split; assumption.
Qed.

Lemma w_set_rds_twice : forall w a b, w_set_rds (w_set_rds w a) b = w_set_rds w b.
Proof. reflexivity. Qed.

Section SegTop.
  Variable oreq : bytes -> oracle_out raw_req.
  Variable oresp : bytes -> oracle_out raw_resp.

  Theorem server_segmentation : forall cb w csA csB t,
    seq_scan oreq ->
    nonempty_chunks csA -> nonempty_chunks csB -> concat csA = concat csB ->
    (forall n x, oreq (concat csA) = OComplete n x -> n = blen (concat csA)) ->
    let xA := server_handshake oreq oresp cb (w_set_rds w (map RdData csA ++ t)) in
    let xB := server_handshake oreq oresp cb (w_set_rds w (map RdData csB ++ t)) in
    hs_res xA <> HsFail HEAttack -> hs_res xB <> HsFail HEAttack ->
    seg_agree xA xB.
  Proof.
    intros cb w csA csB t Hscan HA HB Hcat Hnojunk xA xB HnA HnB.
    subst xA xB. rewrite !server_handshake_spec in *. unfold server_spec in *.
    cbn [w_set_rds w_rds] in *.
    pose proof (read_stage_reads_only _ (parse_req oreq) (map RdData csA ++ t) [] 0 0) as ROA.
    pose proof (read_stage_reads_only _ (parse_req oreq) (map RdData csB ++ t) [] 0 0) as ROB.
    destruct (read_stage (parse_req oreq) [] 0 0 (map RdData csA ++ t)) as [[oA rA] evA] eqn:EA.
    destruct (read_stage (parse_req oreq) [] 0 0 (map RdData csB ++ t)) as [[oB rB] evB] eqn:EB.
    cbn [snd] in ROA, ROB.
    assert (HoA : oA <> SFail HEAttack) by (intros ->; apply HnA; reflexivity).
    assert (HoB : oB <> SFail HEAttack) by (intros ->; apply HnB; reflexivity).
    destruct (read_stage_seg_nojunk (parse_req oreq) (seq_scan_stable_req _ Hscan)
                (parse_req_no_attack oreq) csA csB [] 0 0 0 0 t oA rA evA oB rB evB) as [Ho Hr];
      try assumption.
    { intros x n a Hx. apply parse_req_complete in Hx. destruct Hx as [raw Hx].
      destruct Hscan as (Hc & _). destruct (Hc _ _ _ Hx) as (H1 & _). exact H1. }
    { cbn [app]. intros n a Hx. apply parse_req_complete in Hx. destruct Hx as [raw Hx].
      eapply Hnojunk; eauto. }
    subst oB. clear HnA HnB.
    destruct oA as [[[n req] buf']|e|].
    - assert (rA = rB) by (apply Hr; intros e; discriminate). subst rB.
      rewrite !w_set_rds_twice.
      destruct (server_done_reading cb req (dropN n buf')) as [[out pend]|e].
      + rewrite (server_write_flush_log pend out _ evA), (server_write_flush_log pend out _ evB).
        match goal with |- context [server_write_flush pend out ?w0 []] =>
          destruct (server_write_flush pend out w0 []) as [[res w'] log] end.
        apply (seg_agree_intro res w' w' [] evA evB log); auto.
      + rewrite <- (app_nil_r evA), <- (app_nil_r evB).
        apply (seg_agree_intro _ _ _ [] evA evB []); auto; left; intros; discriminate.
    - rewrite <- (app_nil_r evA), <- (app_nil_r evB).
      apply (seg_agree_intro _ _ _ [] evA evB []); auto; left; intros; discriminate.
    - rewrite <- (app_nil_r evA), <- (app_nil_r evB).
      apply (seg_agree_intro _ _ _ [] evA evB []); auto; left; intros; discriminate.
  Qed.

  (* the same for the client, whose reading stage comes last; "nothing after the head" here means
     that the server did not yet send frames behind its response *)
  Theorem client_segmentation : forall scheme_ok path hs w csA csB t,
    seq_scan oresp ->
    nonempty_chunks csA -> nonempty_chunks csB -> concat csA = concat csB ->
    (forall n x, oresp (concat csA) = OComplete n x -> n = blen (concat csA)) ->
    let xA := client_handshake oreq oresp scheme_ok path hs (w_set_rds w (map RdData csA ++ t)) in
    let xB := client_handshake oreq oresp scheme_ok path hs (w_set_rds w (map RdData csB ++ t)) in
    hs_res xA <> HsFail HEAttack -> hs_res xB <> HsFail HEAttack ->
    seg_agree xA xB.
  Proof.
    intros scheme_ok path hs w csA csB t Hscan HA HB Hcat Hnojunk xA xB HnA HnB.
    subst xA xB. rewrite !client_handshake_spec in *. unfold client_spec in *.
    assert (Hrefl : forall res wA wB ev, (forall r tail, res <> HsDone r tail) ->
              w_wrs wA = w_wrs wB -> w_fls wA = w_fls wB ->
              seg_agree (res, wA, ev) (res, wB, ev)).
    { intros res wA wB ev Hnd Hw Hf.
      rewrite <- (app_nil_r ev).
      apply (seg_agree_intro res wA wB ev [] [] []); auto; constructor. }
    destruct (negb scheme_ok); [apply Hrefl; try reflexivity; intros; discriminate|].
    destruct (extract_subprotocols hs) as [subs|e];
      [|apply Hrefl; try reflexivity; intros; discriminate].
    destruct (generate_request path hs) as [[req key]|e];
      [|apply Hrefl; try reflexivity; intros; discriminate].
    unfold client_run in *. cbn [w_set_rds w_wrs w_fls] in *.
    destruct (write_stage req (w_wrs w)) as [[o2 r2] ev2].
    destruct o2 as [u|e|];
      [|apply Hrefl; try reflexivity; intros; discriminate
       |apply Hrefl; try reflexivity; intros; discriminate].
    destruct (flush_stage (w_fls w)) as [[o3 r3] ev3].
    destruct o3 as [u3|e3|];
      [|apply Hrefl; try reflexivity; intros; discriminate
       |apply Hrefl; try reflexivity; intros; discriminate].
    unfold client_read in *. cbn [w_set_rds w_set_wrs w_set_fls w_rds w_wrs w_fls w_keys w_log] in *.
    pose proof (read_stage_reads_only _ (parse_resp oresp) (map RdData csA ++ t) [] 0 0) as ROA.
    pose proof (read_stage_reads_only _ (parse_resp oresp) (map RdData csB ++ t) [] 0 0) as ROB.
    destruct (read_stage (parse_resp oresp) [] 0 0 (map RdData csA ++ t)) as [[oA rA] evA] eqn:EA.
    destruct (read_stage (parse_resp oresp) [] 0 0 (map RdData csB ++ t)) as [[oB rB] evB] eqn:EB.
    cbn [snd] in ROA, ROB.
    assert (HoA : oA <> SFail HEAttack) by (intros ->; apply HnA; reflexivity).
    assert (HoB : oB <> SFail HEAttack) by (intros ->; apply HnB; reflexivity).
    destruct (read_stage_seg_nojunk (parse_resp oresp) (seq_scan_stable_resp _ Hscan)
                (parse_resp_no_attack oresp) csA csB [] 0 0 0 0 t oA rA evA oB rB evB) as [Ho Hr];
      try assumption.
    { intros x n a Hx. apply parse_resp_complete in Hx. destruct Hx as [raw Hx].
      destruct Hscan as (Hc & _). destruct (Hc _ _ _ Hx) as (H1 & _). exact H1. }
    { cbn [app]. intros n a Hx. apply parse_resp_complete in Hx. destruct Hx as [raw Hx].
      eapply Hnojunk; eauto. }
    subst oB. clear HnA HnB.
    assert (Hfin : forall res, ((forall r tail, res <> HsDone r tail) \/ rA = rB) ->
      seg_agree (res, mkWorld rA r2 r3 (w_keys w) (w_log w), (ev2 ++ ev3) ++ evA)
                (res, mkWorld rB r2 r3 (w_keys w) (w_log w), (ev2 ++ ev3) ++ evB)).
    { intros res Hc.
      rewrite <- (app_nil_r evA), <- (app_nil_r evB).
      apply (seg_agree_intro res _ _ (ev2 ++ ev3) evA evB []); auto.
      destruct Hc as [Hc|Hc]; [left; exact Hc|right; congruence]. }
    destruct oA as [[[n resp] buf']|e|].
    - apply Hfin. right. apply Hr. intros e; discriminate.
    - apply Hfin. left. intros; discriminate.
    - apply Hfin. left. intros; discriminate.
  Qed.
End SegTop.


(* ------------------------------------------------------------------------------------------ *)
(** * J. amount of work: transport calls *)

Definition oracle_len (w : world) : nat :=
  (length (w_rds w) + length (w_wrs w) + length (w_fls w))%nat.

Lemma read_stage_work : forall A (parse : bytes -> parsed A) rds buf p b,
  (hs_calls (strip_ev (snd (read_stage parse buf p b rds)))
   <= length (rd_chunks (snd (read_stage parse buf p b rds))) + 1)%nat.
Proof.
  induction rds as [|a r IH]; intros buf p b; cbn [read_stage]; [cbn; lia|].
  destruct a as [bs| |k].
  - destruct bs as [|x bs]; [cbn; lia|].
    destruct (attack_check p b (blen (x :: bs))) as [[p' b']|]; [|cbn; lia].
    destruct (parse (buf ++ x :: bs)) as [|n a|e]; try (cbn; lia).
    specialize (IH (buf ++ x :: bs) p' b').
    destruct (read_stage parse (buf ++ x :: bs) p' b' r) as [[o r'] ev].
    cbn [snd] in *. unfold strip_ev in *. cbn [filter ev_is_wb negb hs_calls rd_chunks length]. lia.
  - cbn; lia.
  - destruct k; try (cbn; lia).
    specialize (IH buf p b).
    destruct (read_stage parse buf p b r) as [[o r'] ev].
    cbn [snd] in *. unfold strip_ev in *. cbn [filter ev_is_wb negb hs_calls rd_chunks length]. exact IH.
Qed.

Lemma write_stage_work : forall wrs rest,
  (hs_calls (strip_ev (snd (write_stage rest wrs)))
   <= length (hs_wire (snd (write_stage rest wrs))) + 1)%nat.
Proof.
  induction wrs as [|a r IH]; intros rest; cbn [write_stage]; [cbn; lia|].
  destruct a as [n|k].
  - destruct (N.min n (blen rest) =? 0) eqn:E0;
      [cbn [snd]; unfold strip_ev; cbn [filter ev_is_wb negb hs_calls hs_wire]; lia|].
    assert (Hlen : (1 <= length (takeN (N.min n (blen rest)) rest))%nat).
    { pose proof (blen_takeN _ (N.min n (blen rest)) rest) as Hl. unfold blen in *. lia. }
    destruct (dropN (N.min n (blen rest)) rest) as [|y rest'].
    + cbn [snd]. unfold strip_ev. cbn [filter ev_is_wb negb hs_calls hs_wire]. lia.
    + specialize (IH (y :: rest')).
      destruct (write_stage (y :: rest') r) as [[o r'] ev].
      cbn [snd] in *. unfold strip_ev in *. cbn [filter ev_is_wb negb hs_calls hs_wire].
      rewrite app_length. lia.
  - destruct k; try (cbn; lia).
    specialize (IH rest).
    destruct (write_stage rest r) as [[o r'] ev].
    cbn [snd] in *. unfold strip_ev in *. cbn [filter ev_is_wb negb hs_calls hs_wire]. exact IH.
Qed.

Lemma flush_stage_work : forall fls, (hs_calls (strip_ev (snd (flush_stage fls))) <= 1)%nat.
Proof.
  induction fls as [|a r IH]; cbn [flush_stage]; [cbn; lia|].
  destruct a as [|k]; [cbn; lia|].
  destruct k; try (cbn; lia).
  destruct (flush_stage r) as [[o r'] ev].
  cbn [snd] in *. unfold strip_ev in *. cbn [filter ev_is_wb negb hs_calls]. exact IH.
Qed.

Lemma strip_ev_calls_app : forall a b,
  (hs_calls (strip_ev (a ++ b)) = hs_calls (strip_ev a) + hs_calls (strip_ev b))%nat.
Proof. intros. rewrite strip_ev_app. apply hs_calls_app. Qed.

Section Work.
  Variable oreq : bytes -> oracle_out raw_req.
  Variable oresp : bytes -> oracle_out raw_resp.

  (* every loop iteration is one transport call that consumes one oracle entry *)
  Definition calls_accounted (w : world) (x : hs_result * world * list hs_event) : Prop :=
    (hs_calls (hs_log x) + oracle_len (hs_world x) = oracle_len w)%nat.

  (* calls not answered WouldBlock: at most 513 reads + 1, one per written byte + 1, one flush *)
  Definition work_bounded (x : hs_result * world * list hs_event) : Prop :=
    (hs_calls (strip_ev (hs_log x)) <= 516 + length (hs_wire (hs_log x)))%nat.

  Lemma server_write_flush_calls : forall pend out w hlog,
    let x := server_write_flush pend out w hlog in
    (hs_calls (hs_log x) + oracle_len (hs_world x) = hs_calls hlog + oracle_len w)%nat.
  Proof.
    intros pend out w hlog. unfold server_write_flush.
    destruct (write_stage out (w_wrs w)) as [[o2 r2] ev2] eqn:E2.
    destruct (flush_stage (w_fls w)) as [[o3 r3] ev3] eqn:E3.
    apply write_stage_calls in E2. destruct E2 as [u2 [E2a E2b]].
    apply flush_stage_calls in E3. destruct E3 as [u3 [E3a E3b]].
    apply (f_equal (@length _)) in E2a. apply (f_equal (@length _)) in E3a.
    rewrite app_length in E2a, E3a.
    destruct o2 as [u|e|]; [destruct o3 as [u3'|e3|]; [destruct pend as [[s b]|]|..]|..];
      cbn [hs_log hs_world fst snd]; unfold oracle_len;
      cbn [w_set_wrs w_set_fls w_rds w_wrs w_fls]; rewrite ?hs_calls_app; lia.
  Qed.

  Lemma server_write_flush_work : forall pend out w hlog,
    let x := server_write_flush pend out w hlog in
    (hs_calls (strip_ev (hs_log x)) + length (hs_wire hlog)
     <= hs_calls (strip_ev hlog) + length (hs_wire (hs_log x)) + 2)%nat.
  Proof.
    intros pend out w hlog. unfold server_write_flush.
    pose proof (write_stage_work (w_wrs w) out) as K2.
    pose proof (flush_stage_work (w_fls w)) as K3.
    pose proof (flush_stage_no_wire (w_fls w)) as W3.
    destruct (write_stage out (w_wrs w)) as [[o2 r2] ev2].
    destruct (flush_stage (w_fls w)) as [[o3 r3] ev3]. cbn [snd] in *.
    destruct o2 as [u|e|]; [destruct o3 as [u3'|e3|]; [destruct pend as [[s b]|]|..]|..];
      cbn [hs_log snd]; rewrite ?strip_ev_calls_app, ?hs_wire_app, ?app_length, ?W3; cbn [length]; lia.
  Qed.

  Theorem server_work : forall cb w,
    let x := server_handshake oreq oresp cb w in calls_accounted w x /\ work_bounded x.
  Proof.
    intros cb w. cbv zeta. rewrite server_handshake_spec. unfold server_spec.
    pose proof (read_stage_work _ (parse_req oreq) (w_rds w) [] 0 0) as K1.
    pose proof (read_stage_guard _ (parse_req oreq) (w_rds w) [] 0 0) as G1.
    pose proof (read_stage_no_wire _ (parse_req oreq) (w_rds w) [] 0 0) as W1.
    destruct (read_stage (parse_req oreq) [] 0 0 (w_rds w)) as [[o1 r1] ev1] eqn:E1. cbn [snd] in *.
    apply attack_consumed0 in G1. destruct G1 as [G1 _].
    unfold rd_sizes, blen in G1. rewrite map_length in G1. unfold bytes in *.
    apply read_stage_calls in E1. destruct E1 as [u1 [E1a E1b]].
    apply (f_equal (@length _)) in E1a. rewrite app_length in E1a.
    assert (Hbase : forall res,
      calls_accounted w (res, w_set_rds w r1, ev1) /\ work_bounded (res, w_set_rds w r1, ev1)).
    { intros res. unfold calls_accounted, work_bounded, oracle_len.
      cbn [hs_log hs_world fst snd w_set_rds w_rds w_wrs w_fls]. split; lia. }
    destruct o1 as [[[n req] buf']|e|]; try apply Hbase.
    destruct (server_done_reading cb req (dropN n buf')) as [[out pend]|e]; try apply Hbase.
    pose proof (server_write_flush_calls pend out (w_set_rds w r1) ev1) as C.
    pose proof (server_write_flush_work pend out (w_set_rds w r1) ev1) as Wk.
    cbv zeta in C, Wk. unfold calls_accounted, work_bounded.
    unfold oracle_len in *. cbn [w_set_rds w_rds w_wrs w_fls] in C. rewrite W1 in Wk. cbn [length] in Wk.
    split; lia.
  Qed.

  Lemma client_run_work : forall ak subs req w,
    let x := client_run oresp ak subs req w in calls_accounted w x /\ work_bounded x.
  Proof.
    intros ak subs req w. cbv zeta. unfold client_run.
    pose proof (write_stage_work (w_wrs w) req) as K2.
    pose proof (flush_stage_work (w_fls w)) as K3.
    pose proof (flush_stage_no_wire (w_fls w)) as W3.
    destruct (write_stage req (w_wrs w)) as [[o2 r2] ev2] eqn:E2.
    destruct (flush_stage (w_fls w)) as [[o3 r3] ev3] eqn:E3. cbn [snd] in *.
    apply write_stage_calls in E2. destruct E2 as [u2 [E2a E2b]].
    apply flush_stage_calls in E3. destruct E3 as [u3 [E3a E3b]].
    apply (f_equal (@length _)) in E2a. apply (f_equal (@length _)) in E3a.
    rewrite app_length in E2a, E3a.
    unfold calls_accounted, work_bounded, oracle_len.
    destruct o2 as [u|e|]; [destruct o3 as [u3'|e3|]|..];
      try (cbn [hs_log hs_world fst snd w_set_wrs w_set_fls w_rds w_wrs w_fls];
           rewrite ?strip_ev_calls_app, ?hs_calls_app, ?hs_wire_app, ?app_length, ?W3; cbn [length];
           split; lia).
    unfold client_read. cbn [w_set_wrs w_set_fls w_rds].
    pose proof (read_stage_work _ (parse_resp oresp) (w_rds w) [] 0 0) as K1.
    pose proof (read_stage_guard _ (parse_resp oresp) (w_rds w) [] 0 0) as G1.
    pose proof (read_stage_no_wire _ (parse_resp oresp) (w_rds w) [] 0 0) as W1.
    destruct (read_stage (parse_resp oresp) [] 0 0 (w_rds w)) as [[o1 r1] ev1] eqn:E1. cbn [snd] in *.
    apply attack_consumed0 in G1. destruct G1 as [G1 _].
    unfold rd_sizes, blen in G1. rewrite map_length in G1. unfold bytes in *.
    apply read_stage_calls in E1. destruct E1 as [u1 [E1a E1b]].
    apply (f_equal (@length _)) in E1a. rewrite app_length in E1a.
    destruct o1 as [[[n resp] buf']|e|];
      cbn [hs_log hs_world fst snd w_set_rds w_set_wrs w_set_fls w_rds w_wrs w_fls];
      rewrite ?strip_ev_calls_app, ?hs_calls_app, ?hs_wire_app, ?app_length, ?W3, ?W1; cbn [length];
      split; lia.
  Qed.

  Theorem client_work : forall scheme_ok path hs w,
    let x := client_handshake oreq oresp scheme_ok path hs w in
    calls_accounted w x /\ work_bounded x.
  Proof.
    intros scheme_ok path hs w. cbv zeta. rewrite client_handshake_spec. unfold client_spec.
    assert (Hbase : forall res, calls_accounted w (res, w, []) /\ work_bounded (res, w, [])).
    { intros res. unfold calls_accounted, work_bounded. cbn. split; lia. }
    destruct (negb scheme_ok); [apply Hbase|].
    destruct (extract_subprotocols hs) as [subs|e]; [|apply Hbase].
    destruct (generate_request path hs) as [[req key]|e]; [|apply Hbase].
    apply client_run_work.
  Qed.
End Work.

(* ------------------------------------------------------------------------------------------ *)
(** * I. a concrete sequential-scan parser (non-vacuity of seq_scan; witnesses) *)

(* the head ends at the first LF; the parsed head is a fixed object *)
Fixpoint scan_lf (buf : bytes) : option N :=
  match buf with
  | [] => None
  | b :: r => if b =? 10 then Some 1
              else match scan_lf r with Some n => Some (n + 1) | None => None end
  end.

Definition toy_oracle {A : Type} (x : A) (buf : bytes) : oracle_out A :=
  match scan_lf buf with Some n => OComplete n x | None => OPartial end.

Lemma takeN_0 : forall A (l : list A), takeN 0 l = [].
Proof. reflexivity. Qed.

Lemma takeN_cons : forall A k (b : A) r, 0 < k -> takeN k (b :: r) = b :: takeN (k - 1) r.
Proof.
  intros A k b r Hk. unfold takeN.
  replace (N.to_nat k) with (S (N.to_nat (k - 1))) by lia. reflexivity.
Qed.

Lemma scan_lf_app : forall a m n, scan_lf a = Some n -> scan_lf (a ++ m) = Some n.
Proof.
  induction a as [|b r IH]; intros m n H; cbn [scan_lf app] in *; [discriminate|].
  destruct (b =? 10); [exact H|].
  destruct (scan_lf r) as [n'|] eqn:E; [|discriminate].
  rewrite (IH m n' eq_refl). exact H.
Qed.

Lemma scan_lf_some : forall buf n, scan_lf buf = Some n ->
  1 <= n /\ n <= blen buf /\ scan_lf (takeN n buf) = Some n /\
  forall k, k < n -> scan_lf (takeN k buf) = None.
Proof.
  induction buf as [|b r IH]; intros n H; cbn [scan_lf] in H; [discriminate|].
  rewrite blen_cons.
  destruct (b =? 10) eqn:Eb.
  - apply opt_inj in H. subst n. split; [lia|]. split; [lia|]. split.
    + rewrite takeN_cons by lia. cbn [scan_lf]. rewrite Eb. reflexivity.
    + intros k Hk. assert (k = 0) by lia. subst k. reflexivity.
  - destruct (scan_lf r) as [n'|] eqn:E; [|discriminate].
    apply opt_inj in H. subst n.
    destruct (IH n' eq_refl) as (H1 & H2 & H3 & H4).
    split; [lia|]. split; [lia|]. split.
    + rewrite takeN_cons by lia. cbn [scan_lf]. rewrite Eb.
      replace (n' + 1 - 1) with n' by lia. rewrite H3. reflexivity.
    + intros k Hk. destruct (N.eq_dec k 0) as [->|Hk0]; [reflexivity|].
      rewrite takeN_cons by lia. cbn [scan_lf]. rewrite Eb.
      rewrite (H4 (k - 1)) by lia. reflexivity.
Qed.

Lemma toy_oracle_seq_scan : forall A (x : A), seq_scan (toy_oracle x).
Proof.
  intros A x. unfold seq_scan, toy_oracle. split; [|split].
  - intros buf n y H.
    destruct (scan_lf buf) as [n'|] eqn:E; [|discriminate].
    assert (n' = n /\ x = y) by (split; congruence). destruct H0 as [-> ->].
    destruct (scan_lf_some _ _ E) as (H1 & H2 & H3 & H4).
    split; [exact H2|]. split.
    + intros buf' Ht Hl.
      rewrite <- (takeN_dropN _ n buf'), Ht.
      rewrite (scan_lf_app _ _ _ H3). reflexivity.
    + intros k Hk. rewrite (H4 k Hk). reflexivity.
  - intros buf more H. destruct (scan_lf buf); discriminate.
  - intros buf more H. destruct (scan_lf buf); discriminate.
Qed.

Module HsWitness.
Import Coq.Strings.String.

(* a well-formed upgrade request head, as the parser would deliver it *)
Definition good_raw : raw_req :=
  mkRawReq (ascii_bytes "GET"%string) 1 (ascii_bytes "/"%string) true
    [(ascii_bytes "host"%string, ascii_bytes "h"%string);
     (ascii_bytes "connection"%string, ascii_bytes "Upgrade"%string);
     (ascii_bytes "upgrade"%string, ascii_bytes "websocket"%string);
     (ascii_bytes "sec-websocket-version"%string, ascii_bytes "13"%string);
     (ascii_bytes "sec-websocket-key"%string, ascii_bytes "dGhlIHNhbXBsZSBub25jZQ=="%string)].

Definition toy_req : bytes -> oracle_out raw_req := toy_oracle good_raw.
Definition no_resp : bytes -> oracle_out raw_resp := fun _ => OPartial.
Definition toy_world (rds : list rd_out) : world :=
  mkWorld rds [WrAccept 7; WrErr WouldBlock; WrAccept 100000] [FlErr WouldBlock; FlOk] [] [].

(* "G\n" delivered in one or in two reads: accepted both ways *)
Example seg_example_ok :
  hs_res (server_handshake toy_req no_resp CbNone (toy_world [RdData [71; 10]])) = HsDone Server [] /\
  hs_res (server_handshake toy_req no_resp CbNone (toy_world [RdData [71]; RdData [10]])) = HsDone Server [].
Proof. vm_compute. split; reflexivity. Qed.

(* a byte sent behind the head: the outcome depends on whether it arrives in the same read *)
Lemma segmentation_junk_witness :
  hs_res (server_handshake toy_req no_resp CbNone (toy_world [RdData [71; 10]; RdData [0]]))
    = HsDone Server [] /\
  hs_res (server_handshake toy_req no_resp CbNone (toy_world [RdData [71; 10; 0]]))
    = HsFail (HEProto JunkAfterRequest).
Proof. vm_compute. split; reflexivity. Qed.

(* 65 bytes and LF: one read is accepted, 66 one-byte reads trip the guard at read 65 *)
Lemma segmentation_guard_witness :
  let head := repeat 97 65 ++ [10] in
  hs_res (server_handshake toy_req no_resp CbNone (toy_world [RdData head])) = HsDone Server [] /\
  hs_res (server_handshake toy_req no_resp CbNone (toy_world (map (fun b => RdData [b]) head)))
    = HsFail HEAttack /\
  List.length (rd_sizes (hs_log (server_handshake toy_req no_resp CbNone
                              (toy_world (map (fun b => RdData [b]) head))))) = 65%nat.
Proof. vm_compute. repeat split; reflexivity. Qed.
End HsWitness.

(* ------------------------------------------------------------------------------------------ *)
(** * K. packaged statements for props/C17.v and props/C07hs.v *)

Theorem handshake_bounded_full : forall oreq oresp,
  (forall cb w,
     let x := server_handshake oreq oresp cb w in
     let sizes := rd_sizes (hs_log x) in
     hs_res x <> HsOutOfFuel /\
     attack_fold 0 0 (removelast sizes) <> None /\
     blen sizes <= 513 /\ sumN sizes <= 65536 + last sizes 0) /\
  (forall scheme_ok path hs w,
     let x := client_handshake oreq oresp scheme_ok path hs w in
     let sizes := rd_sizes (hs_log x) in
     hs_res x <> HsOutOfFuel /\
     attack_fold 0 0 (removelast sizes) <> None /\
     blen sizes <= 513 /\ sumN sizes <= 65536 + last sizes 0).
Proof.
  intros oreq oresp.
  destruct (handshake_bounded oreq oresp) as [Hs Hc].
  destruct (no_panic_handshake oreq oresp) as [Ns Nc].
  split.
  - intros cb w. cbv zeta. split; [apply Ns|apply Hs].
  - intros scheme_ok path hs w. cbv zeta. split; [apply Nc|apply Hc].
Qed.

Theorem write_stage_exact : forall rest wrs o r' ev,
  write_stage rest wrs = (o, r', ev) ->
  writes_ok rest ev /\
  (exists remaining, rest = hs_wire ev ++ remaining) /\
  (forall u, o = SDone u -> hs_wire ev = rest) /\
  (forall e, o = SFail e -> exists k, e = HEIo k /\ k <> WouldBlock) /\
  (o = SBlocked -> r' = []) /\
  (exists used, wrs = used ++ r' /\ hs_calls ev = length used).
Proof.
  intros rest wrs o r' ev H.
  pose proof (write_stage_ok wrs rest) as K. rewrite H in K. cbn [snd] in K.
  split; [exact K|]. split; [apply writes_ok_wire; exact K|].
  split; [intros u ->; eapply write_stage_done_wire; eauto|].
  split; [intros e ->; eapply write_stage_fail; eauto|].
  split; [intros ->; eapply write_stage_blocked; eauto|].
  eapply write_stage_calls; eauto.
Qed.

Theorem flush_stage_exact : forall fls o r' ev,
  flush_stage fls = (o, r', ev) ->
  (exists k, ev = concat (repeat flush_wb k) ++ flush_final o) /\
  (forall e, o = SFail e -> exists k, e = HEIo k /\ k <> WouldBlock) /\
  (o = SBlocked -> r' = []) /\
  (exists used, fls = used ++ r' /\ hs_calls ev = length used).
Proof.
  intros fls o r' ev H.
  destruct (flush_stage_shape _ _ _ _ H) as [H1 H2].
  split; [exact H1|]. split; [exact H2|].
  split; [intros ->; eapply flush_stage_blocked; eauto|].
  eapply flush_stage_calls; eauto.
Qed.

Theorem strip_ev_bytes : forall ev,
  hs_wire (strip_ev ev) = hs_wire ev /\ rd_chunks (strip_ev ev) = rd_chunks ev.
Proof. intros ev. split; [apply strip_ev_wire|apply strip_ev_chunks]. Qed.

Theorem seq_scan_stable : forall oreq oresp,
  (seq_scan oreq -> stable (parse_req oreq) /\ forall x, parse_req oreq x <> PFail HEAttack) /\
  (seq_scan oresp -> stable (parse_resp oresp) /\ forall x, parse_resp oresp x <> PFail HEAttack).
Proof.
  intros oreq oresp. split; intros H.
  - split; [apply seq_scan_stable_req; exact H|apply parse_req_no_attack].
  - split; [apply seq_scan_stable_resp; exact H|apply parse_resp_no_attack].
Qed.

Lemma create_parts_err_proto : forall m v hs e,
  create_parts m v hs = HErr e -> exists p, e = HEProto p.
Proof.
  unfold create_parts. intros m v hs e H.
  repeat match type of H with
  | (if ?c then _ else _) = _ => destruct c; [eexists; apply hres_err_inj in H; symmetry; exact H|]
  end.
  destruct (hget _ hs); [discriminate|]. eexists. apply hres_err_inj in H. symmetry. exact H.
Qed.

Lemma server_done_reading_err_kind : forall cb req tail e,
  server_done_reading cb req tail = HErr e -> (exists p, e = HEProto p) \/ e = HEUtf8.
Proof.
  unfold server_done_reading. intros cb req tail e H.
  destruct tail; [|left; eexists; apply hres_err_inj in H; symmetry; exact H].
  destruct (create_parts true true (req_headers req)) as [hs|e0] eqn:EC.
  - destruct cb as [|extra|status hs' body].
    + destruct (write_response 101 hs); [discriminate|right; congruence].
    + destruct (write_response 101 (hs ++ extra)); [discriminate|right; congruence].
    + destruct ((200 <=? status) && (status <? 300));
        [left; eexists; apply hres_err_inj in H; symmetry; exact H|].
      destruct (write_response status hs'); [discriminate|right; congruence].
  - apply create_parts_err_proto in EC. left. destruct EC as [p0 ->]. exists p0. congruence.
Qed.

(* the guard tripped iff the result is the Attack error *)
Theorem attack_result_iff : forall oreq oresp cb w,
  let x := server_handshake oreq oresp cb w in
  hs_res x = HsFail HEAttack <-> attack_fold 0 0 (rd_sizes (hs_log x)) = None.
Proof.
  intros oreq oresp cb w. cbv zeta. rewrite server_handshake_spec.
  unfold rd_sizes. rewrite server_spec_reads. unfold server_spec.
  assert (G : forall rds buf p b,
    let y := read_stage (parse_req oreq) buf p b rds in
    (fst (fst y) = SFail HEAttack <-> attack_fold p b (map (@blen N) (rd_chunks (snd y))) = None)).
  { induction rds as [|a r IH]; intros buf p b; cbn [read_stage].
    - cbn. split; discriminate.
    - destruct a as [bs| |k].
      + destruct bs as [|x bs]; [cbn; split; discriminate|].
        destruct (attack_check p b (blen (x :: bs))) as [[p' b']|] eqn:EA.
        * pose proof (parse_req_no_attack oreq (buf ++ x :: bs)) as Hna.
          destruct (parse_req oreq (buf ++ x :: bs)) as [|n a|e] eqn:EP.
          -- specialize (IH (buf ++ x :: bs) p' b').
             destruct (read_stage (parse_req oreq) (buf ++ x :: bs) p' b' r) as [[o r'] ev].
             cbn [fst snd rd_chunks map attack_fold] in *. rewrite EA. exact IH.
          -- cbn [fst snd rd_chunks map attack_fold]. rewrite EA. cbn. split; discriminate.
          -- cbn [fst snd rd_chunks map attack_fold]. rewrite EA. cbn. split; [|discriminate].
             intros Hc. exfalso. apply Hna. congruence.
        * cbn [fst snd rd_chunks map attack_fold]. rewrite EA. split; reflexivity.
      + cbn. split; discriminate.
      + destruct k; try (cbn; split; discriminate).
        specialize (IH buf p b).
        destruct (read_stage (parse_req oreq) buf p b r) as [[o r'] ev].
        cbn [fst snd rd_chunks] in *. exact IH. }
  specialize (G (w_rds w) [] 0 0). cbv zeta in G.
  destruct (read_stage (parse_req oreq) [] 0 0 (w_rds w)) as [[o1 r1] ev1]. cbn [fst snd] in *.
  rewrite <- G. clear G.
  destruct o1 as [[[n req] buf']|e|].
  - split; [|discriminate]. intros Hc. exfalso.
    destruct (server_done_reading cb req (dropN n buf')) as [[out pend]|e] eqn:ED.
    + pose proof (server_write_flush_inv pend out (w_set_rds w r1) ev1) as Hi.
      destruct (server_write_flush pend out (w_set_rds w r1) ev1) as [[res w'] log].
      destruct (Hi _ _ _ eq_refl) as (evw & evf & rem & _ & _ & _ & _ & _ & _ & _ & _ & Hfin).
      cbn [hs_res fst] in Hc. subst res.
      destruct Hfin as [(_ & _ & F)|[F|[k F]]]; try discriminate.
      destruct pend as [[s b0]|]; discriminate.
    + cbn [hs_res fst] in Hc. apply server_done_reading_err_kind in ED.
      assert (e = HEAttack) by congruence. subst e.
      destruct ED as [[p0 ED]|ED]; discriminate.
  - cbn [hs_res fst]. split; congruence.
  - cbn [hs_res fst]. split; discriminate.
Qed.

Module HsWitness2.
Import HsWitness.

(* without "nothing was sent after the head", the server's outcome DOES depend on segmentation:
   a byte behind the head is rejected (JunkAfterRequest) only if it arrives in the same read *)
Lemma segmentation_junk_refuted :
  exists (oreq : bytes -> oracle_out raw_req) (oresp : bytes -> oracle_out raw_resp)
         cb w csA csB t,
    seq_scan oreq /\ nonempty_chunks csA /\ nonempty_chunks csB /\ concat csA = concat csB /\
    let xA := server_handshake oreq oresp cb (w_set_rds w (map RdData csA ++ t)) in
    let xB := server_handshake oreq oresp cb (w_set_rds w (map RdData csB ++ t)) in
    hs_res xA <> HsFail HEAttack /\ hs_res xB <> HsFail HEAttack /\
    hs_res xA = HsDone Server [] /\ hs_res xB = HsFail (HEProto JunkAfterRequest).
Proof.
  exists toy_req, no_resp, CbNone, (toy_world []), [[71; 10]; [0]], [[71; 10; 0]], [].
  split; [apply toy_oracle_seq_scan|].
  split; [repeat constructor; discriminate|].
  split; [repeat constructor; discriminate|].
  split; [reflexivity|].
  vm_compute. repeat split; discriminate.
Qed.

(* the guard hypothesis is needed: same head, nothing behind it, but 66 one-byte reads trip the
   small-packet guard at read 65 while a single read is accepted *)
Lemma segmentation_guard_refuted :
  exists (oreq : bytes -> oracle_out raw_req) (oresp : bytes -> oracle_out raw_resp)
         cb w csA csB t,
    seq_scan oreq /\ nonempty_chunks csA /\ nonempty_chunks csB /\ concat csA = concat csB /\
    (forall n x, oreq (concat csA) = OComplete n x -> n = blen (concat csA)) /\
    let xA := server_handshake oreq oresp cb (w_set_rds w (map RdData csA ++ t)) in
    let xB := server_handshake oreq oresp cb (w_set_rds w (map RdData csB ++ t)) in
    hs_res xA = HsFail HEAttack /\ hs_res xB = HsDone Server [].
Proof.
  exists toy_req, no_resp, CbNone, (toy_world []),
    (map (fun b => [b]) (repeat 97 65 ++ [10])), [repeat 97 65 ++ [10]], [].
  split; [apply toy_oracle_seq_scan|].
  split; [vm_compute; repeat constructor; discriminate|].
  split; [repeat constructor; vm_compute; discriminate|].
  split; [vm_compute; reflexivity|].
  split.
  - intros n x H. vm_compute in H. apply (f_equal (fun o => match o with OComplete k _ => k | _ => 0 end)) in H.
    rewrite <- H. vm_compute. reflexivity.
  - vm_compute. split; reflexivity.
Qed.

(* the hypotheses of server_segmentation are satisfiable, with a successful handshake *)
Lemma segmentation_example :
  exists (oreq : bytes -> oracle_out raw_req) (oresp : bytes -> oracle_out raw_resp)
         cb w csA csB t,
    seq_scan oreq /\ nonempty_chunks csA /\ nonempty_chunks csB /\ concat csA = concat csB /\
    csA <> csB /\
    (forall n x, oreq (concat csA) = OComplete n x -> n = blen (concat csA)) /\
    let xA := server_handshake oreq oresp cb (w_set_rds w (map RdData csA ++ t)) in
    let xB := server_handshake oreq oresp cb (w_set_rds w (map RdData csB ++ t)) in
    hs_res xA <> HsFail HEAttack /\ hs_res xB <> HsFail HEAttack /\ hs_res xA = HsDone Server [].
Proof.
  exists toy_req, no_resp, CbNone, (toy_world []), [[71]; [10]], [[71; 10]], [RdEof].
  split; [apply toy_oracle_seq_scan|].
  split; [repeat constructor; discriminate|].
  split; [repeat constructor; discriminate|].
  split; [reflexivity|]. split; [discriminate|].
  split.
  - intros n x H. vm_compute in H. apply (f_equal (fun o => match o with OComplete k _ => k | _ => 0 end)) in H.
    rewrite <- H. vm_compute. reflexivity.
  - vm_compute. repeat split; discriminate.
Qed.
End HsWitness2.


(* ------------------------------------------------------------------------------------------ *)
(** * L. segmentation and WouldBlock together *)

Lemma strip_run_res : forall x, hs_res (strip_run x) = hs_res x.
Proof. intros [[res w'] log]. reflexivity. Qed.

Lemma strip_run_wire : forall x, hs_wire (hs_log (strip_run x)) = hs_wire (hs_log x).
Proof. intros [[res w'] log]. cbn [strip_run hs_log snd]. apply strip_ev_wire. Qed.

(* two transports that, once their WouldBlocks are deleted, differ only in how the peer's handshake
   bytes are cut into reads *)
Theorem server_segmentation_wb : forall oreq oresp cb wA wB w0 csA csB t,
  seq_scan oreq ->
  nonempty_chunks csA -> nonempty_chunks csB -> concat csA = concat csB ->
  (forall n x, oreq (concat csA) = OComplete n x -> n = blen (concat csA)) ->
  strip_world wA = w_set_rds w0 (map RdData csA ++ t) ->
  strip_world wB = w_set_rds w0 (map RdData csB ++ t) ->
  let xA := server_handshake oreq oresp cb wA in
  let xB := server_handshake oreq oresp cb wB in
  hs_res xA <> HsFail HEAttack -> hs_res xB <> HsFail HEAttack ->
  hs_res xA = hs_res xB /\ hs_wire (hs_log xA) = hs_wire (hs_log xB).
Proof.
  intros oreq oresp cb wA wB w0 csA csB t Hscan HA HB Hcat Hnj EA EB xA xB HnA HnB.
  subst xA xB.
  pose proof (server_resume oreq oresp cb wA) as RA.
  pose proof (server_resume oreq oresp cb wB) as RB.
  rewrite EA in RA. rewrite EB in RB.
  pose proof (server_segmentation oreq oresp cb w0 csA csB t Hscan HA HB Hcat Hnj) as S.
  cbv zeta in S. unfold seg_agree in S. rewrite RA, RB in S.
  rewrite !strip_run_res, !strip_run_wire in S.
  destruct (S HnA HnB) as (S1 & S2 & _). split; assumption.
Qed.

Theorem client_segmentation_wb : forall oreq oresp scheme_ok path hs wA wB w0 csA csB t,
  seq_scan oresp ->
  nonempty_chunks csA -> nonempty_chunks csB -> concat csA = concat csB ->
  (forall n x, oresp (concat csA) = OComplete n x -> n = blen (concat csA)) ->
  strip_world wA = w_set_rds w0 (map RdData csA ++ t) ->
  strip_world wB = w_set_rds w0 (map RdData csB ++ t) ->
  let xA := client_handshake oreq oresp scheme_ok path hs wA in
  let xB := client_handshake oreq oresp scheme_ok path hs wB in
  hs_res xA <> HsFail HEAttack -> hs_res xB <> HsFail HEAttack ->
  hs_res xA = hs_res xB /\ hs_wire (hs_log xA) = hs_wire (hs_log xB).
Proof.
  intros oreq oresp scheme_ok path hs wA wB w0 csA csB t Hscan HA HB Hcat Hnj EA EB xA xB HnA HnB.
  subst xA xB.
  pose proof (client_resume oreq oresp scheme_ok path hs wA) as RA.
  pose proof (client_resume oreq oresp scheme_ok path hs wB) as RB.
  rewrite EA in RA. rewrite EB in RB.
  pose proof (client_segmentation oreq oresp scheme_ok path hs w0 csA csB t Hscan HA HB Hcat Hnj) as S.
  cbv zeta in S. unfold seg_agree in S. rewrite RA, RB in S.
  rewrite !strip_run_res, !strip_run_wire in S.
  destruct (S HnA HnB) as (S1 & S2 & _). split; assumption.
Qed.
