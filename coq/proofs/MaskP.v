(* proofs/MaskP.v — C19: the word-wise masking path equals the byte-wise specification, for every
   prefix length p (every alignment), every key and every buffer; pointwise characterisation,
   length / well-formedness preservation, involution, in-place behaviour of format_into_buf and of the
   server-side unmasking in read_frame. *)
From TungModel Require Import Base Coding Mask Header Frame World Message Codec Protocol.
From Coq Require Import ZArith Lia ZifyBool ZifyNat ZifyN.
Local Ltac Zify.zify_post_hook ::= Z.div_mod_to_equations.

Local Arguments N.add : simpl never.
Local Arguments N.mul : simpl never.
Local Arguments N.sub : simpl never.
Local Arguments N.modulo : simpl never.
Local Arguments N.div : simpl never.
Local Arguments N.lxor : simpl never.
Local Arguments N.lor : simpl never.
Local Arguments N.land : simpl never.
Local Arguments N.shiftl : simpl never.
Local Arguments N.shiftr : simpl never.
Local Arguments N.pow : simpl never.
Local Arguments N.ltb : simpl never.
Local Arguments N.leb : simpl never.
Local Arguments N.eqb : simpl never.
Local Arguments N.of_nat : simpl never.
Local Arguments N.to_nat : simpl never.
Local Arguments Nat.modulo : simpl never.
Local Arguments Nat.div : simpl never.

(* ------------------------------------------------------------------ *)
(** * Key rotation *)

(* rotn n k: the key after n bytes have been processed *)
Fixpoint rotn (n : nat) (k : key) : key :=
  match n with O => k | S n' => rotn n' (rot1 k) end.

Lemma rotn_add (a b : nat) (k : key) : rotn (a + b) k = rotn b (rotn a k).
Proof.
  revert k. induction a as [|a IH]; intros k.
  - reflexivity.
  - cbn [Nat.add rotn]. apply IH.
Qed.

Lemma rotn_4 (k : key) : rotn 4 k = k.
Proof. destruct k as [[[a b] c] d]. reflexivity. Qed.

Lemma rotn_mul4 (q : nat) (k : key) : rotn (4 * q) k = k.
Proof.
  induction q as [|q IH].
  - reflexivity.
  - replace (4 * S q)%nat with (4 + 4 * q)%nat by lia.
    rewrite rotn_add, rotn_4. exact IH.
Qed.

Lemma rotn_mod4 (n : nat) (k : key) : rotn n k = rotn (n mod 4) k.
Proof.
  rewrite (Nat.div_mod n 4) at 1 by lia.
  rewrite rotn_add, rotn_mul4. reflexivity.
Qed.

Lemma key0_nth (k : key) : key0 k = nth 0 (key_bytes k) 0.
Proof. destruct k as [[[a b] c] d]. reflexivity. Qed.

Lemma key_nth_rot1 (k : key) (j : nat) :
  (j < 4)%nat -> nth j (key_bytes (rot1 k)) 0 = nth (S j mod 4) (key_bytes k) 0.
Proof.
  intros Hj. destruct k as [[[a b] c] d].
  destruct j as [|[|[|[|j]]]]; try reflexivity. lia.
Qed.

(* ------------------------------------------------------------------ *)
(** * The specification xor_cyc *)

Lemma xor_cyc_length (bs : bytes) : forall k, length (xor_cyc k bs) = length bs.
Proof.
  induction bs as [|b r IH]; intros k.
  - reflexivity.
  - cbn [xor_cyc length]. rewrite IH. reflexivity.
Qed.

Lemma xor_cyc_blen (k : key) (bs : bytes) : blen (xor_cyc k bs) = blen bs.
Proof. unfold blen. rewrite xor_cyc_length. reflexivity. Qed.

Lemma xor_cyc_app (l1 : bytes) : forall k l2,
  xor_cyc k (l1 ++ l2) = xor_cyc k l1 ++ xor_cyc (rotn (length l1) k) l2.
Proof.
  induction l1 as [|b r IH]; intros k l2.
  - reflexivity.
  - cbn [app xor_cyc length rotn]. rewrite IH. reflexivity.
Qed.

(* pointwise: byte i becomes byte i XOR key[i mod 4] *)
Lemma xor_cyc_nth (bs : bytes) : forall k i, (i < length bs)%nat ->
  nth i (xor_cyc k bs) 0 = N.lxor (nth i bs 0) (nth (i mod 4) (key_bytes k) 0).
Proof.
  induction bs as [|b r IH]; intros k i Hi.
  - cbn [length] in Hi. lia.
  - destruct i as [|i].
    + cbn [xor_cyc nth]. rewrite key0_nth. reflexivity.
    + cbn [length] in Hi. cbn [xor_cyc nth].
      rewrite IH by lia.
      rewrite key_nth_rot1 by (apply Nat.mod_upper_bound; lia).
      f_equal. f_equal. lia.
Qed.

(* positions outside the payload do not exist in the result (it has the same length) *)
Lemma xor_cyc_nth_out (bs : bytes) (k : key) (i : nat) :
  (length bs <= i)%nat -> nth i (xor_cyc k bs) 0 = 0.
Proof. intros Hi. apply nth_overflow. rewrite xor_cyc_length. exact Hi. Qed.

(* the same with binary-natural indices *)
Lemma xor_cyc_nthN (bs : bytes) (k : key) (i : N) : i < blen bs ->
  nth (N.to_nat i) (xor_cyc k bs) 0
  = N.lxor (nth (N.to_nat i) bs 0) (nth (N.to_nat (i mod 4)) (key_bytes k) 0).
Proof.
  unfold blen. intros Hi. rewrite xor_cyc_nth by lia.
  f_equal. f_equal. lia.
Qed.

Lemma lxor_cancel (a b : N) : N.lxor (N.lxor a b) b = a.
Proof. rewrite N.lxor_assoc, N.lxor_nilpotent, N.lxor_0_r. reflexivity. Qed.

Lemma xor_cyc_involutive (bs : bytes) : forall k, xor_cyc k (xor_cyc k bs) = bs.
Proof.
  induction bs as [|b r IH]; intros k.
  - reflexivity.
  - cbn [xor_cyc]. rewrite lxor_cancel, IH. reflexivity.
Qed.

(* the zero key is the identity *)
Lemma xor_cyc_zero (bs : bytes) : xor_cyc (0, 0, 0, 0) bs = bs.
Proof.
  induction bs as [|b r IH].
  - reflexivity.
  - cbn [xor_cyc rot1 key0]. rewrite N.lxor_0_r, IH. reflexivity.
Qed.

(* ------------------------------------------------------------------ *)
(** * Bytes and bits *)

Lemma byte_high (a n : N) : a < 256 -> 8 <= n -> N.testbit a n = false.
Proof.
  intros Ha Hn. rewrite <- (N.mod_small a (2 ^ 8)) by exact Ha.
  apply N.mod_pow2_bits_high. exact Hn.
Qed.

Lemma lxor_byte (a b : N) : a < 256 -> b < 256 -> N.lxor a b < 256.
Proof.
  intros Ha Hb.
  assert (E : N.lxor a b mod 2 ^ 8 = N.lxor a b).
  { apply N.bits_inj. intros n. destruct (n <? 8) eqn:En.
    - rewrite N.mod_pow2_bits_low by lia. reflexivity.
    - rewrite N.mod_pow2_bits_high by lia.
      rewrite N.lxor_spec, (byte_high a), (byte_high b) by lia. reflexivity. }
  rewrite <- E. apply N.mod_lt. discriminate.
Qed.

Lemma wf_bytes_cons (b : N) (r : bytes) :
  wf_bytes (b :: r) = true <-> b < 256 /\ wf_bytes r = true.
Proof.
  unfold wf_bytes. cbn [forallb]. unfold wf_byte.
  rewrite andb_true_iff, N.ltb_lt. reflexivity.
Qed.

Lemma wf_bytes_app (l1 l2 : bytes) :
  wf_bytes (l1 ++ l2) = true <-> wf_bytes l1 = true /\ wf_bytes l2 = true.
Proof. unfold wf_bytes. rewrite forallb_app, andb_true_iff. reflexivity. Qed.

Lemma wf_bytes_Forall (bs : bytes) : wf_bytes bs = true <-> Forall (fun b => b < 256) bs.
Proof.
  unfold wf_bytes. rewrite forallb_forall, Forall_forall.
  split; intros H x Hx; specialize (H x Hx); unfold wf_byte in *; lia.
Qed.

Lemma wf_key_iff (a b c d : N) :
  wf_key (a, b, c, d) = true <-> a < 256 /\ b < 256 /\ c < 256 /\ d < 256.
Proof.
  unfold wf_key, key_bytes, wf_bytes, forallb, wf_byte. lia.
Qed.

Lemma wf_key_rot1 (k : key) : wf_key k = true -> wf_key (rot1 k) = true.
Proof.
  destruct k as [[[a b] c] d]. cbn [rot1]. rewrite !wf_key_iff. lia.
Qed.

Lemma wf_key0 (k : key) : wf_key k = true -> key0 k < 256.
Proof. destruct k as [[[a b] c] d]. cbn [key0]. rewrite wf_key_iff. lia. Qed.

Lemma xor_cyc_wf (bs : bytes) : forall k,
  wf_key k = true -> wf_bytes bs = true -> wf_bytes (xor_cyc k bs) = true.
Proof.
  induction bs as [|b r IH]; intros k Hk Hbs.
  - reflexivity.
  - cbn [xor_cyc]. apply wf_bytes_cons in Hbs. destruct Hbs as [Hb Hr].
    apply wf_bytes_cons. split.
    + apply lxor_byte; [exact Hb | apply wf_key0; exact Hk].
    + apply IH; [apply wf_key_rot1; exact Hk | exact Hr].
Qed.

(* byte i of a word (little-endian numbering) *)
Definition byte_at (x i : N) : N := N.shiftr x (8 * i) mod 256.

Lemma byte_at_bit (x i n : N) :
  N.testbit (byte_at x i) n = if n <? 8 then N.testbit x (n + 8 * i) else false.
Proof.
  unfold byte_at. change 256 with (2 ^ 8). destruct (n <? 8) eqn:En.
  - rewrite N.mod_pow2_bits_low by lia. apply N.shiftr_spec'.
  - apply N.mod_pow2_bits_high. lia.
Qed.

Lemma byte_at_lxor (x y i : N) : byte_at (N.lxor x y) i = N.lxor (byte_at x i) (byte_at y i).
Proof.
  apply N.bits_inj. intros n.
  rewrite N.lxor_spec, !byte_at_bit. destruct (n <? 8).
  - apply N.lxor_spec.
  - reflexivity.
Qed.

Lemma byte_at_lt (x i : N) : byte_at x i < 256.
Proof. unfold byte_at. apply N.mod_lt. discriminate. Qed.

Lemma u32_le_bytes_byte_at (m : N) :
  u32_le_bytes m = (byte_at m 0, byte_at m 1, byte_at m 2, byte_at m 3).
Proof. reflexivity. Qed.

Lemma wf_u32_le_bytes (m : N) : wf_key (u32_le_bytes m) = true.
Proof.
  rewrite u32_le_bytes_byte_at. apply wf_key_iff.
  repeat split; apply byte_at_lt.
Qed.

Ltac split_ifs :=
  repeat match goal with
  | |- context [if ?c then _ else _] => destruct c eqn:?; try lia
  end.

(* bits of a little-endian packed word *)
Lemma le32_bit (a b c d n : N) : a < 256 -> b < 256 -> c < 256 -> d < 256 ->
  N.testbit (le32 a b c d) n =
  if n <? 8 then N.testbit a n
  else if n <? 16 then N.testbit b (n - 8)
  else if n <? 24 then N.testbit c (n - 16)
  else N.testbit d (n - 24).
Proof.
  intros Ha Hb Hc Hd. unfold le32. rewrite !N.lor_spec.
  destruct (n <? 8) eqn:E1.
  { rewrite !N.shiftl_spec_low by lia. rewrite !orb_false_r. reflexivity. }
  rewrite (byte_high a) by lia.
  rewrite (N.shiftl_spec_high' b) by lia.
  destruct (n <? 16) eqn:E2.
  { rewrite !N.shiftl_spec_low by lia. cbn [orb]. rewrite !orb_false_r. reflexivity. }
  rewrite (byte_high b) by lia.
  rewrite (N.shiftl_spec_high' c) by lia.
  destruct (n <? 24) eqn:E3.
  { rewrite !N.shiftl_spec_low by lia. cbn [orb]. rewrite !orb_false_r. reflexivity. }
  rewrite (byte_high c) by lia.
  rewrite (N.shiftl_spec_high' d) by lia.
  reflexivity.
Qed.

Lemma le32_high (a b c d n : N) : a < 256 -> b < 256 -> c < 256 -> d < 256 ->
  32 <= n -> N.testbit (le32 a b c d) n = false.
Proof.
  intros Ha Hb Hc Hd Hn. rewrite le32_bit by assumption.
  split_ifs. apply byte_high; [exact Hd | lia].
Qed.

Section Le32Bytes.
  Variables a b c d : N.
  Hypothesis Ha : a < 256.
  Hypothesis Hb : b < 256.
  Hypothesis Hc : c < 256.
  Hypothesis Hd : d < 256.

  Lemma byte_at_le32_0 : byte_at (le32 a b c d) 0 = a.
  Proof.
    apply N.bits_inj. intros n. rewrite byte_at_bit, le32_bit by assumption.
    split_ifs.
    - f_equal. lia.
    - symmetry. apply byte_high; [assumption | lia].
  Qed.

  Lemma byte_at_le32_1 : byte_at (le32 a b c d) 1 = b.
  Proof.
    apply N.bits_inj. intros n. rewrite byte_at_bit, le32_bit by assumption.
    split_ifs.
    - f_equal. lia.
    - symmetry. apply byte_high; [assumption | lia].
  Qed.

  Lemma byte_at_le32_2 : byte_at (le32 a b c d) 2 = c.
  Proof.
    apply N.bits_inj. intros n. rewrite byte_at_bit, le32_bit by assumption.
    split_ifs.
    - f_equal. lia.
    - symmetry. apply byte_high; [assumption | lia].
  Qed.

  Lemma byte_at_le32_3 : byte_at (le32 a b c d) 3 = d.
  Proof.
    apply N.bits_inj. intros n. rewrite byte_at_bit, le32_bit by assumption.
    split_ifs.
    - f_equal. lia.
    - symmetry. apply byte_high; [assumption | lia].
  Qed.

  (* packing then unpacking a well-formed key gives the key back *)
  Lemma u32_le_bytes_le32 : u32_le_bytes (le32 a b c d) = (a, b, c, d).
  Proof.
    rewrite u32_le_bytes_byte_at, byte_at_le32_0, byte_at_le32_1, byte_at_le32_2, byte_at_le32_3.
    reflexivity.
  Qed.

  (* XORing a packed word with any mask word m XORs byte i with byte i of m *)
  Lemma xor_word_bytes (m : N) :
    u32_le_bytes (N.lxor (le32 a b c d) m)
    = (N.lxor a (byte_at m 0), N.lxor b (byte_at m 1), N.lxor c (byte_at m 2), N.lxor d (byte_at m 3)).
  Proof.
    rewrite u32_le_bytes_byte_at, !byte_at_lxor,
      byte_at_le32_0, byte_at_le32_1, byte_at_le32_2, byte_at_le32_3.
    reflexivity.
  Qed.
End Le32Bytes.

(* ------------------------------------------------------------------ *)
(** * rotate_right *)

Lemma rotr32_bit (x r n : N) :
  (forall m, 32 <= m -> N.testbit x m = false) ->
  0 < r < 32 -> n < 32 ->
  N.testbit (rotr32 x r) n = N.testbit x ((n + r) mod 32).
Proof.
  intros Hx Hr Hn. unfold rotr32. change two32 with (2 ^ 32).
  rewrite N.lor_spec, N.shiftr_spec', N.mod_pow2_bits_low by lia.
  destruct (n <? 32 - r) eqn:E.
  - rewrite N.shiftl_spec_low by lia. rewrite orb_false_r. f_equal. lia.
  - rewrite N.shiftl_spec_high' by lia. rewrite (Hx (n + r)) by lia.
    cbn [orb]. f_equal. lia.
Qed.

Lemma byte_at_rotr (x h i : N) :
  (forall m, 32 <= m -> N.testbit x m = false) ->
  0 < h < 4 -> i < 4 ->
  byte_at (rotr32 x (8 * h)) i = byte_at x ((i + h) mod 4).
Proof.
  intros Hx Hh Hi. apply N.bits_inj. intros n. rewrite !byte_at_bit.
  destruct (n <? 8) eqn:En; [|reflexivity].
  rewrite rotr32_bit by (try assumption; lia).
  f_equal. lia.
Qed.

(* unpacking the rotated key word gives the key rotated by h positions *)
Lemma u32_le_bytes_rotr (k : key) (h : N) : wf_key k = true -> 0 < h < 4 ->
  u32_le_bytes (rotr32 (key_u32 k) (8 * h)) = rotn (N.to_nat h) k.
Proof.
  destruct k as [[[a b] c] d]. intros Hk Hh. apply wf_key_iff in Hk.
  destruct Hk as [Ha [Hb [Hc Hd]]]. cbn [key_u32].
  assert (Hhi : forall m, 32 <= m -> N.testbit (le32 a b c d) m = false).
  { intros m Hm. apply le32_high; assumption. }
  rewrite u32_le_bytes_byte_at, !byte_at_rotr by (try assumption; lia).
  assert (Hcases : h = 1 \/ h = 2 \/ h = 3) by lia.
  destruct Hcases as [-> | [-> | ->]].
  - change ((0 + 1) mod 4) with 1. change ((1 + 1) mod 4) with 2.
    change ((2 + 1) mod 4) with 3. change ((3 + 1) mod 4) with 0.
    rewrite byte_at_le32_0, byte_at_le32_1, byte_at_le32_2, byte_at_le32_3 by assumption.
    reflexivity.
  - change ((0 + 2) mod 4) with 2. change ((1 + 2) mod 4) with 3.
    change ((2 + 2) mod 4) with 0. change ((3 + 2) mod 4) with 1.
    rewrite byte_at_le32_0, byte_at_le32_1, byte_at_le32_2, byte_at_le32_3 by assumption.
    reflexivity.
  - change ((0 + 3) mod 4) with 3. change ((1 + 3) mod 4) with 0.
    change ((2 + 3) mod 4) with 1. change ((3 + 3) mod 4) with 2.
    rewrite byte_at_le32_0, byte_at_le32_1, byte_at_le32_2, byte_at_le32_3 by assumption.
    reflexivity.
Qed.

Lemma u32_le_bytes_key_u32 (k : key) : wf_key k = true -> u32_le_bytes (key_u32 k) = k.
Proof.
  destruct k as [[[a b] c] d]. intros Hk. apply wf_key_iff in Hk.
  destruct Hk as [Ha [Hb [Hc Hd]]]. cbn [key_u32]. apply u32_le_bytes_le32; assumption.
Qed.

(* the mask word chosen by apply_mask_fast32 after a prefix of n bytes
   unpacks to the key rotated by n positions *)
Lemma mask_word_key (k : key) (n : nat) : wf_key k = true ->
  u32_le_bytes (if 0 <? N.land (N.of_nat n) 3
                then rotr32 (key_u32 k) (8 * N.land (N.of_nat n) 3) else key_u32 k)
  = rotn n k.
Proof.
  intros Hk. change 3 with (N.ones 2). rewrite N.land_ones. change (2 ^ 2) with 4.
  rewrite (rotn_mod4 n).
  assert (E : (n mod 4)%nat = N.to_nat (N.of_nat n mod 4)) by lia.
  rewrite E. destruct (0 <? N.of_nat n mod 4) eqn:Eh.
  - apply u32_le_bytes_rotr; [exact Hk | lia].
  - replace (N.of_nat n mod 4) with 0 by lia. cbn [N.to_nat rotn].
    apply u32_le_bytes_key_u32. exact Hk.
Qed.

(* ------------------------------------------------------------------ *)
(** * The word loop *)

Lemma list_ind4 (P : bytes -> Prop) :
  P [] -> (forall a, P [a]) -> (forall a b, P [a; b]) -> (forall a b c, P [a; b; c]) ->
  (forall a b c d r, P r -> P (a :: b :: c :: d :: r)) ->
  forall l, P l.
Proof.
  intros H0 H1 H2 H3 H4.
  refine (fix F (l : bytes) : P l :=
            match l with
            | [] => H0
            | [a] => H1 a
            | [a; b] => H2 a b
            | [a; b; c] => H3 a b c
            | a :: b :: c :: d :: r => H4 a b c d r (F r)
            end).
Qed.

Lemma xor_words_cons4 (m a b c d : N) (r : bytes) :
  xor_words m (a :: b :: c :: d :: r)
  = (let '(x0, x1, x2, x3) := u32_le_bytes (N.lxor (le32 a b c d) m) in
     (x0 :: x1 :: x2 :: x3 :: fst (xor_words m r), snd (xor_words m r))).
Proof.
  cbn [xor_words].
  destruct (u32_le_bytes (N.lxor (le32 a b c d) m)) as [[[x0 x1] x2] x3].
  destruct (xor_words m r) as [ws suf]. reflexivity.
Qed.

(* the processed words followed by the byte-wise suffix = the specification run with the
   unpacked mask word as key; m is arbitrary *)
Lemma xor_words_spec (m : N) (bs : bytes) : wf_bytes bs = true ->
  fst (xor_words m bs) ++ xor_cyc (u32_le_bytes m) (snd (xor_words m bs))
  = xor_cyc (u32_le_bytes m) bs.
Proof.
  induction bs as [|a|a b|a b c|a b c d r IH] using list_ind4; intros Hwf;
    try reflexivity.
  apply wf_bytes_cons in Hwf. destruct Hwf as [Ha Hwf].
  apply wf_bytes_cons in Hwf. destruct Hwf as [Hb Hwf].
  apply wf_bytes_cons in Hwf. destruct Hwf as [Hc Hwf].
  apply wf_bytes_cons in Hwf. destruct Hwf as [Hd Hwf].
  specialize (IH Hwf).
  rewrite xor_words_cons4, xor_word_bytes by assumption.
  cbn [fst snd app].
  rewrite u32_le_bytes_byte_at in *.
  cbn [xor_cyc rot1 key0]. rewrite IH. reflexivity.
Qed.

Lemma xor_words_length (m : N) (bs : bytes) :
  (length (fst (xor_words m bs)) + length (snd (xor_words m bs)) = length bs)%nat.
Proof.
  induction bs as [|a|a b|a b c|a b c d r IH] using list_ind4; try reflexivity.
  rewrite xor_words_cons4.
  destruct (u32_le_bytes (N.lxor (le32 a b c d) m)) as [[[x0 x1] x2] x3].
  cbn [fst snd length]. lia.
Qed.

(* the suffix left by the word loop is shorter than a word *)
Lemma xor_words_suffix_short (m : N) (bs : bytes) : (length (snd (xor_words m bs)) < 4)%nat.
Proof.
  induction bs as [|a|a b|a b c|a b c d r IH] using list_ind4;
    try (cbn [xor_words snd length]; lia).
  rewrite xor_words_cons4.
  destruct (u32_le_bytes (N.lxor (le32 a b c d) m)) as [[[x0 x1] x2] x3].
  cbn [snd]. exact IH.
Qed.

(* ------------------------------------------------------------------ *)
(** * Main theorem: the fast path is the specification, for every p *)

Lemma wf_bytes_takeN (p : N) (buf : bytes) : wf_bytes buf = true -> wf_bytes (takeN p buf) = true.
Proof.
  intros H. unfold takeN. rewrite <- (firstn_skipn (N.to_nat p) buf) in H.
  apply wf_bytes_app in H. apply H.
Qed.

Lemma wf_bytes_dropN (p : N) (buf : bytes) : wf_bytes buf = true -> wf_bytes (dropN p buf) = true.
Proof.
  intros H. unfold dropN. rewrite <- (firstn_skipn (N.to_nat p) buf) in H.
  apply wf_bytes_app in H. apply H.
Qed.

Theorem mask_fast32_spec (p : N) (k : key) (buf : bytes) :
  wf_key k = true -> wf_bytes buf = true -> mask_fast32 p k buf = xor_cyc k buf.
Proof.
  intros Hk Hbuf. unfold mask_fast32.
  assert (Hsplit : buf = takeN p buf ++ dropN p buf).
  { unfold takeN, dropN. symmetry. apply firstn_skipn. }
  set (prefix := takeN p buf) in *. set (rest := dropN p buf) in *.
  assert (Hrest : wf_bytes rest = true) by (apply wf_bytes_dropN; exact Hbuf).
  unfold blen.
  set (m := if 0 <? N.land (N.of_nat (length prefix)) 3
            then rotr32 (key_u32 k) (8 * N.land (N.of_nat (length prefix)) 3) else key_u32 k).
  assert (Hm : u32_le_bytes m = rotn (length prefix) k) by (apply mask_word_key; exact Hk).
  pose proof (xor_words_spec m rest Hrest) as Hw.
  destruct (xor_words m rest) as [ws suf]. cbn [fst snd] in Hw.
  rewrite Hw, Hm. rewrite Hsplit at 1. rewrite xor_cyc_app. reflexivity.
Qed.

(* apply_mask (what the rest of the model calls) is the fast path at every alignment *)
Corollary apply_mask_is_fast (p : N) (k : key) (buf : bytes) :
  wf_key k = true -> wf_bytes buf = true -> apply_mask k buf = mask_fast32 p k buf.
Proof. intros Hk Hb. unfold apply_mask. symmetry. apply mask_fast32_spec; assumption. Qed.

(* the result does not depend on the alignment *)
Corollary mask_fast32_align_indep (p q : N) (k : key) (buf : bytes) :
  wf_key k = true -> wf_bytes buf = true -> mask_fast32 p k buf = mask_fast32 q k buf.
Proof. intros Hk Hb. rewrite !mask_fast32_spec by assumption. reflexivity. Qed.

Corollary mask_fast32_length (p : N) (k : key) (buf : bytes) :
  wf_key k = true -> wf_bytes buf = true -> length (mask_fast32 p k buf) = length buf.
Proof. intros Hk Hb. rewrite mask_fast32_spec by assumption. apply xor_cyc_length. Qed.

Corollary mask_fast32_wf (p : N) (k : key) (buf : bytes) :
  wf_key k = true -> wf_bytes buf = true -> wf_bytes (mask_fast32 p k buf) = true.
Proof. intros Hk Hb. rewrite mask_fast32_spec by assumption. apply xor_cyc_wf; assumption. Qed.

Corollary mask_fast32_nth (p : N) (k : key) (buf : bytes) (i : nat) :
  wf_key k = true -> wf_bytes buf = true -> (i < length buf)%nat ->
  nth i (mask_fast32 p k buf) 0 = N.lxor (nth i buf 0) (nth (i mod 4) (key_bytes k) 0).
Proof. intros Hk Hb Hi. rewrite mask_fast32_spec by assumption. apply xor_cyc_nth. exact Hi. Qed.

(* masking twice, each time at an arbitrary alignment, restores the original *)
Corollary mask_fast32_involutive (p q : N) (k : key) (buf : bytes) :
  wf_key k = true -> wf_bytes buf = true ->
  mask_fast32 q k (mask_fast32 p k buf) = buf.
Proof.
  intros Hk Hb. rewrite (mask_fast32_spec p) by assumption.
  rewrite mask_fast32_spec by (try assumption; apply xor_cyc_wf; assumption).
  apply xor_cyc_involutive.
Qed.

(* the two hypotheses are needed: the word packing is only correct for bytes < 256 *)
Lemma mask_fast32_needs_wf_buf :
  exists p k buf, wf_key k = true /\ mask_fast32 p k buf <> xor_cyc k buf.
Proof. exists 0, (0, 0, 0, 0), [256; 0; 0; 0]. split; [reflexivity | discriminate]. Qed.

Lemma mask_fast32_needs_wf_key :
  exists p k buf, wf_bytes buf = true /\ mask_fast32 p k buf <> xor_cyc k buf.
Proof. exists 1, (256, 0, 0, 0), [0; 0; 0; 0; 0]. split; [reflexivity | discriminate]. Qed.

(* ------------------------------------------------------------------ *)
(** * In place: Frame::format_into_buf *)

Lemma takeN_blen_app {A} (l r : list A) : takeN (blen l) (l ++ r) = l.
Proof.
  unfold takeN, blen. rewrite Nat2N.id, firstn_app, Nat.sub_diag, firstn_all.
  cbn [firstn]. apply app_nil_r.
Qed.

Lemma dropN_blen_app {A} (l r : list A) : dropN (blen l) (l ++ r) = r.
Proof.
  unfold dropN, blen. rewrite Nat2N.id, skipn_app, Nat.sub_diag, skipn_all.
  reflexivity.
Qed.

Lemma format_into_buf_masked (pre : bytes) (f : frame) (k : key) :
  h_mask (f_hdr f) = Some k ->
  frame_format_into_buf pre f
  = pre ++ header_format (f_hdr f) (blen (f_payload f)) ++ xor_cyc k (f_payload f).
Proof.
  intros Hm. unfold frame_format_into_buf. rewrite Hm.
  rewrite takeN_blen_app, dropN_blen_app. unfold apply_mask.
  rewrite <- app_assoc. reflexivity.
Qed.

Lemma format_into_buf_unmasked (pre : bytes) (f : frame) :
  h_mask (f_hdr f) = None ->
  frame_format_into_buf pre f
  = pre ++ header_format (f_hdr f) (blen (f_payload f)) ++ f_payload f.
Proof.
  intros Hm. unfold frame_format_into_buf. rewrite Hm.
  rewrite <- app_assoc. reflexivity.
Qed.

(* format_into_buf appends exactly Frame::format *)
Lemma format_into_buf_format (pre : bytes) (f : frame) :
  frame_format_into_buf pre f = pre ++ frame_format f.
Proof.
  destruct (h_mask (f_hdr f)) as [k|] eqn:Hm.
  - rewrite (format_into_buf_masked pre f k Hm). unfold frame_format. rewrite Hm. reflexivity.
  - rewrite (format_into_buf_unmasked pre f Hm). unfold frame_format. rewrite Hm. reflexivity.
Qed.

(* bytes already in the buffer are untouched *)
Lemma format_into_buf_prefix (pre : bytes) (f : frame) :
  takeN (blen pre) (frame_format_into_buf pre f) = pre.
Proof. rewrite format_into_buf_format. apply takeN_blen_app. Qed.

(* with the word-wise path run in place on the appended range, at any alignment *)
Lemma format_into_buf_fast (p : N) (pre : bytes) (f : frame) (k : key) :
  h_mask (f_hdr f) = Some k -> wf_key k = true -> wf_bytes (f_payload f) = true ->
  let buf1 := pre ++ header_format (f_hdr f) (blen (f_payload f)) in
  let buf2 := buf1 ++ f_payload f in
  takeN (blen buf1) buf2 ++ mask_fast32 p k (dropN (blen buf1) buf2)
  = frame_format_into_buf pre f
  /\ frame_format_into_buf pre f
     = pre ++ header_format (f_hdr f) (blen (f_payload f)) ++ mask_fast32 p k (f_payload f).
Proof.
  intros Hm Hk Hp buf1 buf2. split.
  - unfold frame_format_into_buf. fold buf1. fold buf2. rewrite Hm.
    unfold buf2. rewrite dropN_blen_app. rewrite <- apply_mask_is_fast by assumption. reflexivity.
  - rewrite (format_into_buf_masked pre f k Hm). rewrite mask_fast32_spec by assumption. reflexivity.
Qed.

(* ------------------------------------------------------------------ *)
(** * In place: server-side unmasking in FrameCodec::read_frame *)

Lemma blen_takeN {A} (n : N) (l : list A) : n <= blen l -> blen (takeN n l) = n.
Proof. unfold blen, takeN. intros H. rewrite firstn_length. lia. Qed.

Lemma try_take_payload_len (ms : N) (c c' : codec) (h : header) (len : N) (p : bytes) :
  try_take ms c = TkPayload h len p c' -> blen p = len.
Proof.
  unfold try_take.
  destruct (match c_hdr c with
            | Some _ => ROk c
            | None => match header_parse (c_in c) with
                      | POk h0 len0 k => ROk (set_hdr (set_in c (dropN k (c_in c))) (Some (h0, len0)))
                      | PIncomplete => ROk c
                      | PErr i => RErr (EProtocol (InvalidOpcode i))
                      | PPanic => RPanic site_opcode_range
                      end
            end) as [c1|e|s|]; try discriminate.
  destruct (c_hdr c1) as [[h1 len1]|]; try discriminate.
  destruct (ms <? len1); try discriminate.
  destruct (len1 <=? blen (c_in c1)) eqn:E; try discriminate.
  intros H. injection H as _ <- <- _. apply blen_takeN. lia.
Qed.

Lemma read_frame_loop_payload_len (ms : N) (rds : list rd_out) :
  forall c log h len p c' rds' log',
  read_frame_loop ms rds c log = (ROk (Some (h, len, p)), c', rds', log') -> blen p = len.
Proof.
  induction rds as [|r rds IH]; intros c log h len p c' rds' log'; cbn [read_frame_loop];
    destruct (try_take ms c) as [h1 len1 p1 c1|n c1|e c1|s] eqn:Et; try discriminate.
  - intros H. injection H as <- <- <- _ _ _. eapply try_take_payload_len. exact Et.
  - intros H. injection H as <- <- <- _ _ _. eapply try_take_payload_len. exact Et.
  - destruct r as [[|b bs]| |k]; try discriminate. apply IH.
Qed.

Definition unmasked_header (h : header) : header :=
  mkHeader (h_fin h) (h_rsv1 h) (h_rsv2 h) (h_rsv3 h) (h_opcode h) None.

(* Whenever read_frame (with unmask = true, the server role) returns a frame, that frame is the
   header/payload the frame loop split off the input, with the payload XORed cyclically with the
   key in the header and nothing else changed. *)
Theorem read_frame_unmask (ms : option N) (acc : bool) (c c' : codec) (w w' : world) (f : frame) :
  read_frame ms true acc c w = (ROk (Some f), c', w') ->
  exists h p,
    read_frame_loop (limit_of ms) (w_rds w) c (w_log w)
      = (ROk (Some (h, blen p, p)), c', w_rds w', w_log w')
    /\ match h_mask h with
       | Some k => f = mkFrame (unmasked_header h) (xor_cyc k p)
       | None => acc = true /\ f = mkFrame h p
       end.
Proof.
  unfold read_frame.
  destruct (read_frame_loop (limit_of ms) (w_rds w) c (w_log w)) as [[[r c1] rds1] log1] eqn:El.
  destruct r as [[[[h len] p]|]|e|s|]; try discriminate.
  pose proof (read_frame_loop_payload_len _ _ _ _ _ _ _ _ _ _ El) as Hlen.
  rewrite Hlen, N.eqb_refl. cbn [negb].
  destruct (h_mask h) as [k|] eqn:Hm.
  - intros H. injection H as <- <- <-. exists h, p. cbn [w_rds w_log]. rewrite Hm, Hlen.
    split; reflexivity.
  - destruct acc; try discriminate.
    intros H. injection H as <- <- <-. exists h, p. cbn [w_rds w_log]. rewrite Hm, Hlen.
    repeat split; reflexivity.
Qed.

(* conversely: a masked frame split off by the loop is always delivered unmasked *)
Theorem read_frame_unmask_complete (ms : option N) (acc : bool) (c c' : codec) (w : world)
    (h : header) (len : N) (p : bytes) (k : key) (rds' : list rd_out) (log' : list event) :
  read_frame_loop (limit_of ms) (w_rds w) c (w_log w) = (ROk (Some (h, len, p)), c', rds', log') ->
  h_mask h = Some k ->
  read_frame ms true acc c w
  = (ROk (Some (mkFrame (unmasked_header h) (xor_cyc k p))), c',
     mkWorld rds' (w_wrs w) (w_fls w) (w_keys w) log').
Proof.
  intros El Hm. unfold read_frame. rewrite El.
  rewrite (read_frame_loop_payload_len _ _ _ _ _ _ _ _ _ _ El), N.eqb_refl. cbn [negb].
  rewrite Hm. reflexivity.
Qed.

(* ------------------------------------------------------------------ *)
(** * Where the payload handed to the unmasking step comes from: it is a contiguous slice of the
      byte stream (buffered bytes followed by the chunks read from the transport), starting right
      after the header bytes; everything after it stays in the read buffer untouched. *)

(* [frame_at hdr stream h len p rest]: reading [stream] with [hdr] the header already held (if any)
   yields header h, announced length len, payload p and leaves rest *)
Definition frame_at (hdr : option (header * N)) (stream : bytes)
    (h : header) (len : N) (p rest : bytes) : Prop :=
  match hdr with
  | Some (h0, l0) => h = h0 /\ len = l0 /\ stream = p ++ rest
  | None => exists k B more,
      stream = B ++ more /\ header_parse B = POk h len k /\ stream = takeN k B ++ p ++ rest
  end.

Lemma takeN_dropN {A} (n : N) (l : list A) : takeN n l ++ dropN n l = l.
Proof. apply firstn_skipn. Qed.

Lemma try_take_payload_stream (ms : N) (c c' : codec) (h : header) (len : N) (p : bytes) :
  try_take ms c = TkPayload h len p c' ->
  c_hdr c' = None /\ frame_at (c_hdr c) (c_in c) h len p (c_in c').
Proof.
  unfold try_take, frame_at. destruct (c_hdr c) as [[h0 l0]|] eqn:Eh.
  - cbv beta iota zeta. rewrite Eh.
    destruct (ms <? l0); try discriminate.
    destruct (l0 <=? blen (c_in c)); try discriminate.
    intros H. injection H as <- <- <- <-. cbn [c_hdr c_in set_hdr set_in].
    repeat split. symmetry. apply takeN_dropN.
  - destruct (header_parse (c_in c)) as [h1 l1 k| |i|] eqn:Ep; cbv beta iota zeta;
      try discriminate.
    + cbn [c_hdr c_in set_hdr set_in].
      destruct (ms <? l1); try discriminate.
      destruct (l1 <=? blen (dropN k (c_in c))); try discriminate.
      intros H. injection H as <- <- <- <-. cbn [c_hdr c_in set_hdr set_in].
      split; [reflexivity|]. exists k, (c_in c), []. rewrite app_nil_r.
      split; [reflexivity|]. split; [exact Ep|].
      rewrite takeN_dropN, takeN_dropN. reflexivity.
    + rewrite Eh. discriminate.
Qed.

Lemma try_take_needmore (ms : N) (c c1 : codec) (n : N) :
  try_take ms c = TkNeedMore n c1 ->
  c1 = c \/
  (c_hdr c = None /\ exists h len k, header_parse (c_in c) = POk h len k
     /\ c_hdr c1 = Some (h, len) /\ c_in c1 = dropN k (c_in c)).
Proof.
  unfold try_take. destruct (c_hdr c) as [[h0 l0]|] eqn:Eh.
  - cbv beta iota zeta. rewrite Eh.
    destruct (ms <? l0); try discriminate.
    destruct (l0 <=? blen (c_in c)); try discriminate.
    intros H. injection H as _ <-. left. reflexivity.
  - destruct (header_parse (c_in c)) as [h1 l1 k| |i|] eqn:Ep; cbv beta iota zeta;
      try discriminate.
    + cbn [c_hdr c_in set_hdr set_in].
      destruct (ms <? l1); try discriminate.
      destruct (l1 <=? blen (dropN k (c_in c))); try discriminate.
      intros H. injection H as _ <-. right. split; [reflexivity|].
      exists h1, l1, k. cbn [c_hdr c_in set_hdr set_in]. repeat split.
    + rewrite Eh. intros H. injection H as _ <-. left. reflexivity.
Qed.

(* feeding more bytes: a frame found after appending bs to the buffer of the state returned by
   try_take is a frame of the original state's stream extended by bs *)
Lemma frame_at_needmore (ms : N) (c c1 : codec) (n : N) (bs tl : bytes)
    (h : header) (len : N) (p rest : bytes) :
  try_take ms c = TkNeedMore n c1 ->
  frame_at (c_hdr c1) ((c_in c1 ++ bs) ++ tl) h len p rest ->
  frame_at (c_hdr c) (c_in c ++ bs ++ tl) h len p rest.
Proof.
  intros Et Hf. apply try_take_needmore in Et.
  destruct Et as [-> | [Eh [h1 [l1 [k [Ep [Eh1 Ein1]]]]]]].
  - rewrite <- app_assoc in Hf. exact Hf.
  - rewrite Eh1, Ein1 in Hf. unfold frame_at in Hf. destruct Hf as [-> [-> Hs]].
    unfold frame_at. rewrite Eh. exists k, (c_in c), (bs ++ tl).
    split; [reflexivity|]. split; [exact Ep|].
    rewrite <- Hs, <- !app_assoc, (app_assoc (takeN k (c_in c))), takeN_dropN. reflexivity.
Qed.

Definition rd_chunks (used : list bytes) : list rd_out := map RdData used.

Theorem read_frame_loop_stream (ms : N) (rds : list rd_out) :
  forall c log h len p c' rds' log',
  read_frame_loop ms rds c log = (ROk (Some (h, len, p)), c', rds', log') ->
  exists used,
    rds = rd_chunks used ++ rds'
    /\ c_hdr c' = None
    /\ frame_at (c_hdr c) (c_in c ++ concat used) h len p (c_in c').
Proof.
  induction rds as [|r rds IH]; intros c log h len p c' rds' log'; cbn [read_frame_loop];
    destruct (try_take ms c) as [h1 len1 p1 c1|n c1|e c1|s] eqn:Et; try discriminate.
  - intros H. injection H as <- <- <- <- <- _. exists []. cbn [rd_chunks map concat app].
    rewrite app_nil_r. split; [reflexivity|]. eapply try_take_payload_stream. exact Et.
  - intros H. injection H as <- <- <- <- <- _. exists []. cbn [rd_chunks map concat app].
    rewrite app_nil_r. split; [reflexivity|]. eapply try_take_payload_stream. exact Et.
  - destruct r as [[|b bs]| |k]; try discriminate.
    intros H. apply IH in H. destruct H as [used [Hr [Hh Hf]]].
    exists ((b :: bs) :: used). split.
    + cbn [rd_chunks map app]. f_equal. exact Hr.
    + split; [exact Hh|]. cbn [concat]. cbn [c_hdr c_in set_in] in Hf.
      eapply frame_at_needmore; [exact Et | exact Hf].
Qed.

(* Server-side read path, end to end over the transport oracle: the frame delivered by read_frame
   carries xor_cyc key of the wire payload p, where p is the slice of the byte stream
   (buffer ++ chunks read) that follows the header; |p| is the announced length; the bytes after
   the payload are left in the read buffer unchanged. *)
Theorem read_frame_unmask_stream (ms : option N) (acc : bool) (c c' : codec) (w w' : world) (f : frame) :
  read_frame ms true acc c w = (ROk (Some f), c', w') ->
  exists h p used,
    w_rds w = rd_chunks used ++ w_rds w'
    /\ c_hdr c' = None
    /\ frame_at (c_hdr c) (c_in c ++ concat used) h (blen p) p (c_in c')
    /\ match h_mask h with
       | Some k => f = mkFrame (unmasked_header h) (xor_cyc k p)
       | None => acc = true /\ f = mkFrame h p
       end.
Proof.
  intros H. apply read_frame_unmask in H. destruct H as [h [p [El Hf]]].
  apply read_frame_loop_stream in El. destruct El as [used [Hr [Hh Hs]]].
  exists h, p, used. repeat split; assumption.
Qed.

(* ------------------------------------------------------------------ *)
(** * In place: the write path (FrameCodec::buffer_frame, WebSocketContext::buffer_frame) *)

(* the key is transmitted verbatim as the last four header bytes *)
Lemma header_format_key (h : header) (n : N) (k : key) :
  h_mask h = Some k -> exists front, header_format h n = front ++ key_bytes k /\ length front = (length (header_format h n) - 4)%nat.
Proof.
  intros Hm. unfold header_format. rewrite Hm.
  eexists. split.
  - rewrite app_assoc. reflexivity.
  - destruct k as [[[a b] c] d]. rewrite !app_length. cbn [key_bytes length]. lia.
Qed.

(* out_buffer after FrameCodec::buffer_frame appended a masked frame: old contents, header, then the
   payload XORed with the key — before anything is handed to the transport *)
Definition out_after (c : codec) (f : frame) (k : key) : codec :=
  set_out c (c_out c ++ header_format (f_hdr f) (blen (f_payload f)) ++ xor_cyc k (f_payload f)).

Lemma codec_buffer_frame_masked (c : codec) (f : frame) (w : world) (k : key) :
  h_mask (f_hdr f) = Some k ->
  codec_buffer_frame c f w
  = if c_max_out c <? frame_len f + blen (c_out c) then (RErr (EWriteBufferFull f), c, w)
    else if c_write_len c <? blen (c_out (out_after c f k))
         then write_out_buffer (out_after c f k) (w_emit w (EvQueue f))
         else (ROk tt, out_after c f k, w_emit w (EvQueue f)).
Proof.
  intros Hm. unfold codec_buffer_frame, out_after.
  rewrite (format_into_buf_masked _ _ _ Hm). reflexivity.
Qed.

(* the frame a client actually queues: same header and payload, mask := next key of the oracle *)
Definition client_frame (f : frame) (k : key) : frame :=
  mkFrame (mkHeader (h_fin (f_hdr f)) (h_rsv1 (f_hdr f)) (h_rsv2 (f_hdr f)) (h_rsv3 (f_hdr f))
                    (h_opcode (f_hdr f)) (Some k)) (f_payload f).

Lemma buffer_frame_client (x : ctx) (f : frame) (w : world) :
  x_role x = Client ->
  buffer_frame x f w
  = let k := fst (w_next_key w) in
    let w' := snd (w_next_key w) in
    let f1 := client_frame f k in
    let c := x_codec x in
    let '(r, c', w2) :=
      if c_max_out c <? frame_len f1 + blen (c_out c) then (RErr (EWriteBufferFull f1), c, w')
      else if c_write_len c <? blen (c_out (out_after c f1 k))
           then write_out_buffer (out_after c f1 k) (w_emit w' (EvQueue f1))
           else (ROk tt, out_after c f1 k, w_emit w' (EvQueue f1)) in
    let '(r', s') := check_connection_reset r (x_state x) in
    (r', set_state (set_codec x c') s', w2).
Proof.
  intros Hr. unfold buffer_frame. rewrite Hr.
  destruct (w_next_key w) as [k w'] eqn:Ek. cbn [fst snd].
  fold (client_frame f k).
  rewrite (codec_buffer_frame_masked (x_codec x) (client_frame f k) w' k) by reflexivity.
  reflexivity.
Qed.

(* no write-through, buffer not full: the client's out_buffer grows by header ++ xor_cyc k payload *)
Lemma buffer_frame_client_queued (x : ctx) (f : frame) (w : world) :
  x_role x = Client ->
  let k := fst (w_next_key w) in
  let f1 := client_frame f k in
  let c := x_codec x in
  (c_max_out c <? frame_len f1 + blen (c_out c)) = false ->
  (c_write_len c <? blen (c_out (out_after c f1 k))) = false ->
  buffer_frame x f w
  = (ROk tt, set_state (set_codec x (out_after c f1 k)) (x_state x),
     w_emit (snd (w_next_key w)) (EvQueue f1)).
Proof.
  intros Hr k f1 c Hfull Hwl. rewrite (buffer_frame_client x f w Hr).
  cbv zeta. fold k. fold f1. fold c. rewrite Hfull, Hwl. reflexivity.
Qed.

(* ------------------------------------------------------------------ *)
(** * Masking a range of a larger buffer in place; packaged statements for props/C19.v *)

Lemma mask_range_in_place (p : N) (pre post : bytes) (k : key) (payload : bytes) :
  wf_key k = true -> wf_bytes payload = true ->
  let buf := pre ++ payload ++ post in
  let lo := blen pre in
  let n := blen payload in
  let buf' := takeN lo buf ++ mask_fast32 p k (takeN n (dropN lo buf)) ++ dropN n (dropN lo buf) in
  buf' = pre ++ xor_cyc k payload ++ post /\ blen buf' = blen buf.
Proof.
  intros Hk Hp buf lo n buf'. unfold buf', buf, lo, n.
  rewrite takeN_blen_app, dropN_blen_app, takeN_blen_app, dropN_blen_app.
  rewrite mask_fast32_spec by assumption. split; [reflexivity|].
  unfold blen. rewrite !app_length, xor_cyc_length. reflexivity.
Qed.

Lemma xor_cyc_pointwise_pack (k : key) (buf : bytes) :
  length (xor_cyc k buf) = length buf
  /\ (forall i : nat, (i < length buf)%nat ->
        nth i (xor_cyc k buf) 0 = N.lxor (nth i buf 0) (nth (i mod 4) (key_bytes k) 0))
  /\ (wf_key k = true -> wf_bytes buf = true -> wf_bytes (xor_cyc k buf) = true).
Proof.
  split; [apply xor_cyc_length|]. split; [intros i; apply xor_cyc_nth|]. apply xor_cyc_wf.
Qed.

Lemma mask_fast32_pointwise_pack (p : N) (k : key) (buf : bytes) :
  wf_key k = true -> wf_bytes buf = true ->
  length (mask_fast32 p k buf) = length buf
  /\ (forall i : nat, (i < length buf)%nat ->
        nth i (mask_fast32 p k buf) 0 = N.lxor (nth i buf 0) (nth (i mod 4) (key_bytes k) 0))
  /\ wf_bytes (mask_fast32 p k buf) = true.
Proof.
  intros Hk Hb. split; [apply mask_fast32_length; assumption|].
  split; [intros i; apply mask_fast32_nth; assumption | apply mask_fast32_wf; assumption].
Qed.

Lemma format_into_buf_pack (pre : bytes) (f : frame) :
  takeN (blen pre) (frame_format_into_buf pre f) = pre
  /\ frame_format_into_buf pre f = pre ++ frame_format f
  /\ match h_mask (f_hdr f) with
     | Some k =>
         frame_format_into_buf pre f
         = pre ++ header_format (f_hdr f) (blen (f_payload f)) ++ xor_cyc k (f_payload f)
     | None =>
         frame_format_into_buf pre f
         = pre ++ header_format (f_hdr f) (blen (f_payload f)) ++ f_payload f
     end.
Proof.
  split; [apply format_into_buf_prefix|]. split; [apply format_into_buf_format|].
  destruct (h_mask (f_hdr f)) as [k|] eqn:Hm;
    [apply format_into_buf_masked | apply format_into_buf_unmasked]; exact Hm.
Qed.
