(* proofs/WritePathP.v — the write path: out_buffer / transport log invariant (C10) and the
   write-buffer bound and batching threshold (C14). *)
From TungModel Require Import Base Coding Mask Header Frame Utf8 World Message Codec Protocol.
From Coq Require Import Arith Lia ZifyBool ZifyNat ZifyN.

Arguments N.add : simpl never.
Arguments N.mul : simpl never.
Arguments N.sub : simpl never.
Arguments N.div : simpl never.
Arguments N.modulo : simpl never.
Arguments N.ltb : simpl never.
Arguments N.leb : simpl never.
Arguments N.eqb : simpl never.
Arguments N.min : simpl never.
Arguments N.of_nat : simpl never.
Arguments N.to_nat : simpl never.

Ltac splits := repeat match goal with |- _ /\ _ => split end.

(* ------------------------------------------------------------------------------------------ *)
(** * 1. lengths, takeN/dropN, frame_len *)

Lemma blen_nil {A} : blen (@nil A) = 0.
Proof. reflexivity. Qed.

Lemma blen_app {A} (a b : list A) : blen (a ++ b) = blen a + blen b.
Proof. unfold blen. rewrite app_length. lia. Qed.

Lemma blen_cons {A} (a : A) (l : list A) : blen (a :: l) = 1 + blen l.
Proof. unfold blen. cbn [length]. lia. Qed.

Lemma blen_zero_nil {A} (l : list A) : blen l = 0 -> l = [].
Proof. destruct l; [reflexivity|]. rewrite blen_cons. lia. Qed.

Lemma takeN_dropN {A} (n : N) (l : list A) : takeN n l ++ dropN n l = l.
Proof. apply firstn_skipn. Qed.

Lemma takeN_app_blen {A} (a b : list A) : takeN (blen a) (a ++ b) = a.
Proof.
  unfold takeN, blen. rewrite Nat2N.id.
  rewrite firstn_app, Nat.sub_diag, firstn_all. cbn [firstn]. apply app_nil_r.
Qed.

Lemma dropN_app_blen {A} (a b : list A) : dropN (blen a) (a ++ b) = b.
Proof.
  unfold dropN, blen. rewrite Nat2N.id.
  rewrite skipn_app, Nat.sub_diag, skipn_all. reflexivity.
Qed.

Lemma blen_dropN_le {A} (n : N) (l : list A) : blen (dropN n l) <= blen l.
Proof. unfold blen, dropN. rewrite skipn_length. lia. Qed.

Lemma blen_dropN {A} (n : N) (l : list A) : blen (dropN n l) = blen l - n.
Proof. unfold blen, dropN. rewrite skipn_length. lia. Qed.

Lemma blen_takeN {A} (n : N) (l : list A) : blen (takeN n l) = N.min n (blen l).
Proof. unfold blen, takeN. rewrite firstn_length. lia. Qed.

Lemma xor_cyc_length (bs : bytes) : forall k, length (xor_cyc k bs) = length bs.
Proof. induction bs as [|b r IH]; intros k; cbn [xor_cyc length]; [reflexivity|]. now rewrite IH. Qed.

Lemma apply_mask_blen (k : key) (bs : bytes) : blen (apply_mask k bs) = blen bs.
Proof. unfold blen, apply_mask. now rewrite xor_cyc_length. Qed.

Lemma to_be_length (w : nat) : forall v, length (to_be w v) = w.
Proof.
  induction w as [|w IH]; intros v; cbn [to_be]; [reflexivity|].
  rewrite app_length, IH. cbn [length]. lia.
Qed.

Lemma key_bytes_length (k : key) : length (key_bytes k) = 4%nat.
Proof. destruct k as [[[a b] c] d]. reflexivity. Qed.

Lemma header_format_blen (h : header) (n : N) : blen (header_format h n) = header_len h n.
Proof.
  unfold header_format, header_len, blen.
  cbn [app length]. rewrite app_length.
  destruct (lf_for_length n) eqn:El; destruct (h_mask h) as [k|];
    cbn [lf_extra length]; rewrite ?to_be_length, ?key_bytes_length; cbn [length]; lia.
Qed.

(* C14_len_exact / C18: Frame::len is exactly the number of bytes Frame::format produces *)
Lemma frame_len_exact (f : frame) : frame_len f = blen (frame_format f).
Proof.
  unfold frame_len, frame_format. rewrite blen_app, header_format_blen.
  destruct (h_mask (f_hdr f)) as [k|]; rewrite ?apply_mask_blen; reflexivity.
Qed.

(* format_into_buf appends exactly frame_format f and leaves the existing bytes alone *)
Lemma frame_format_into_buf_eq (buf : bytes) (f : frame) :
  frame_format_into_buf buf f = buf ++ frame_format f.
Proof.
  unfold frame_format_into_buf, frame_format.
  destruct (h_mask (f_hdr f)) as [k|].
  - rewrite takeN_app_blen, dropN_app_blen. now rewrite <- app_assoc.
  - now rewrite <- app_assoc.
Qed.

Lemma frame_len_ge2 (f : frame) : 2 <= frame_len f.
Proof. unfold frame_len, header_len. lia. Qed.

Lemma frame_format_nonnil (f : frame) : frame_format f <> [].
Proof.
  intros H. pose proof (frame_len_ge2 f) as G. rewrite frame_len_exact, H in G.
  rewrite blen_nil in G. lia.
Qed.

(* frame_len does not depend on the value of the mask key, only on its presence *)
Lemma frame_len_mask_indep (h : header) (k k' : key) (p : bytes) :
  frame_len (mkFrame (mkHeader (h_fin h) (h_rsv1 h) (h_rsv2 h) (h_rsv3 h) (h_opcode h) (Some k)) p) =
  frame_len (mkFrame (mkHeader (h_fin h) (h_rsv1 h) (h_rsv2 h) (h_rsv3 h) (h_opcode h) (Some k')) p).
Proof. reflexivity. Qed.

(* ------------------------------------------------------------------------------------------ *)
(** * 2. the log projections *)

Lemma wire_app (a b : list event) : wire (a ++ b) = wire a ++ wire b.
Proof.
  induction a as [|e a IH]; [reflexivity|].
  destruct e; cbn [app wire]; rewrite IH; try reflexivity. now rewrite app_assoc.
Qed.

Lemma queued_app (a b : list event) : queued (a ++ b) = queued a ++ queued b.
Proof.
  induction a as [|e a IH]; [reflexivity|].
  destruct e; cbn [app queued]; rewrite IH; reflexivity.
Qed.

Definition enc (fs : list frame) : bytes := concat (map frame_format fs).

Lemma enc_app (a b : list frame) : enc (a ++ b) = enc a ++ enc b.
Proof. unfold enc. now rewrite map_app, concat_app. Qed.

(* transport write attempts *)
Definition is_wr_ev (e : event) : Prop :=
  match e with EvWrite _ _ | EvWriteErr _ _ => True | _ => False end.
(* any transport call on the write side *)
Definition is_transport_wr_ev (e : event) : Prop :=
  match e with EvWrite _ _ | EvWriteErr _ _ | EvFlush _ => True | _ => False end.
(* read-side events *)
Definition is_rd_ev (e : event) : Prop :=
  match e with EvRead _ | EvReserve _ => True | _ => False end.

Lemma queued_only_writes (evs : list event) : Forall is_wr_ev evs -> queued evs = [].
Proof.
  induction 1 as [|e evs He _ IH]; [reflexivity|].
  destruct e; cbn in He; try contradiction; cbn [queued]; exact IH.
Qed.

Lemma queued_only_reads (evs : list event) : Forall is_rd_ev evs -> queued evs = [].
Proof.
  induction 1 as [|e evs He _ IH]; [reflexivity|].
  destruct e; cbn in He; try contradiction; cbn [queued]; exact IH.
Qed.

Lemma wire_only_reads (evs : list event) : Forall is_rd_ev evs -> wire evs = [].
Proof.
  induction 1 as [|e evs He _ IH]; [reflexivity|].
  destruct e; cbn in He; try contradiction; cbn [wire]; exact IH.
Qed.

(* ------------------------------------------------------------------------------------------ *)
(** * 3. the monitor: [tracks out evs out'] — replaying the events [evs] on an out_buffer holding
      [out] is consistent at every single event (a queued frame is appended at the end; bytes the
      transport accepted are taken from the front, and the call offered the whole buffer) and
      leaves [out']. *)

Fixpoint tracks (out : bytes) (evs : list event) (out' : bytes) : Prop :=
  match evs with
  | [] => out' = out
  | EvQueue f :: r => tracks (out ++ frame_format f) r out'
  | EvWrite off acc :: r => off = blen out /\ exists rest, out = acc ++ rest /\ tracks rest r out'
  | EvWriteErr off _ :: r => off = blen out /\ tracks out r out'
  | _ :: r => tracks out r out'
  end.

Lemma tracks_refl (out : bytes) : tracks out [] out.
Proof. reflexivity. Qed.

Lemma tracks_app (a b : list event) : forall out o1 o2,
  tracks out a o1 -> tracks o1 b o2 -> tracks out (a ++ b) o2.
Proof.
  induction a as [|e a IH]; intros out o1 o2 H1 H2.
  - cbn in H1. subst o1. exact H2.
  - destruct e; cbn [app tracks] in *;
      try (eapply IH; eassumption).
    + destruct H1 as [Ho [rest [E H1]]]. split; [exact Ho|]. exists rest. split; [exact E|].
      eapply IH; eassumption.
    + destruct H1 as [Ho H1]. split; [exact Ho|]. eapply IH; eassumption.
Qed.

(* every prefix of a tracked event list is tracked *)
Lemma tracks_prefix (a b : list event) : forall out o2,
  tracks out (a ++ b) o2 -> exists o1, tracks out a o1 /\ tracks o1 b o2.
Proof.
  induction a as [|e a IH]; intros out o2 H.
  - exists out. split; [reflexivity|exact H].
  - destruct e; cbn [app tracks] in *; try (apply IH; exact H).
    + destruct H as [Ho [rest [E H]]]. destruct (IH _ _ H) as [o1 [Ha Hb]].
      exists o1. split; [|exact Hb]. split; [exact Ho|]. exists rest. split; assumption.
    + destruct H as [Ho H]. destruct (IH _ _ H) as [o1 [Ha Hb]].
      exists o1. split; [|exact Hb]. split; assumption.
Qed.

(* the byte-level balance: nothing lost, nothing duplicated, nothing reordered *)
Lemma tracks_balance (evs : list event) : forall out out',
  tracks out evs out' -> out ++ enc (queued evs) = wire evs ++ out'.
Proof.
  induction evs as [|e evs IH]; intros out out' H.
  - cbn in H. subst. cbn. apply app_nil_r.
  - destruct e; cbn [tracks queued wire] in *; try (apply IH; exact H).
    + destruct H as [_ [rest [E H]]]. subst out. rewrite <- !app_assoc. f_equal. apply IH. exact H.
    + destruct H as [_ H]. apply IH. exact H.
    + apply IH in H. unfold enc in *. cbn [map concat]. rewrite <- H. now rewrite <- app_assoc.
Qed.

Lemma tracks_only_reads (evs : list event) : Forall is_rd_ev evs -> forall out, tracks out evs out.
Proof.
  induction 1 as [|e evs He _ IH]; intros out; [reflexivity|].
  destruct e; cbn in He; try contradiction; cbn [tracks]; apply IH.
Qed.

(* the C10 invariant on (out_buffer, log) *)
Definition wp_inv (out : bytes) (log : list event) : Prop :=
  wire log ++ out = enc (queued log).

Lemma wp_inv_step (out out' : bytes) (log evs : list event) :
  wp_inv out log -> tracks out evs out' -> wp_inv out' (log ++ evs).
Proof.
  unfold wp_inv. intros Hi Ht. apply tracks_balance in Ht.
  rewrite wire_app, queued_app, enc_app, <- Hi, <- !app_assoc. f_equal. symmetry. exact Ht.
Qed.

(* the strong, per-event form: the whole log is tracked from the empty buffer *)
Lemma tracked_inv (log : list event) (out : bytes) : tracks [] log out -> wp_inv out log.
Proof. intros H. apply tracks_balance in H. unfold wp_inv. cbn in H. symmetry. exact H. Qed.

(* ------------------------------------------------------------------------------------------ *)
(** * 4. FrameCodec::write_out_buffer *)

Lemma write_out_loop_spec (wrs : list wr_out) : forall out log r out' wrs' log',
  write_out_loop wrs out log = (r, out', wrs', log') ->
  exists evs, log' = log ++ evs /\ tracks out evs out' /\ Forall is_wr_ev evs /\
    blen out' <= blen out /\
    (r = ROk tt /\ out' = [] \/ exists k, r = RErr (EIo k) /\ out' <> []) /\
    (out <> [] -> evs <> []).
Proof.
  induction wrs as [|o wrs IH]; intros out log r out' wrs' log' H.
  - destruct out as [|b out]; cbn in H; inversion H; subst; clear H.
    + exists []. rewrite app_nil_r. splits; auto; try lia; try (cbn; auto; fail); try (repeat constructor; fail).
    + exists [EvWriteErr (blen (b :: out)) WouldBlock].
      splits; auto; try lia; try (cbn; auto; fail); try (repeat constructor; fail).
      * right. exists WouldBlock. split; [reflexivity|discriminate].
      * discriminate.
  - destruct out as [|b out].
    + cbn in H. inversion H; subst; clear H.
      exists []. rewrite app_nil_r. splits; auto; try lia; try (cbn; auto; fail); try (repeat constructor; fail).
    + cbn [write_out_loop] in H. destruct o as [n|k].
      * set (o0 := b :: out) in *.
        destruct (N.min n (blen o0) =? 0) eqn:E0.
        -- inversion H; subst; clear H.
           exists [EvWrite (blen o0) []]. splits; auto; try lia; try (cbn; auto; fail); try (repeat constructor; fail).
           ++ cbn. split; [reflexivity|]. exists o0. split; reflexivity.
           ++ right. exists ConnReset. split; [reflexivity|discriminate].
           ++ discriminate.
        -- apply IH in H. destruct H as [evs [El [Ht [Hw [Hb [Hr _]]]]]].
           exists (EvWrite (blen o0) (takeN (N.min n (blen o0)) o0) :: evs).
           split; [rewrite El, <- app_assoc; reflexivity|].
           split; [cbn [tracks]; split; [reflexivity|];
                   exists (dropN (N.min n (blen o0)) o0); split;
                   [symmetry; apply takeN_dropN|exact Ht]|].
           split; [constructor; [exact I|exact Hw]|].
           split; [pose proof (blen_dropN_le (N.min n (blen o0)) o0); lia|].
           split; [exact Hr|discriminate].
      * inversion H; subst; clear H.
        exists [EvWriteErr (blen (b :: out)) k]. splits; auto; try lia; try (cbn; auto; fail); try (repeat constructor; fail).
        -- right. exists k. split; [reflexivity|discriminate].
        -- discriminate.
Qed.

(* ------------------------------------------------------------------------------------------ *)
(** * 5. codec-level steps *)

(* a generic, composable summary of what a call did to the write side *)
Definition cstep (c : codec) (log : list event) (c' : codec) (log' : list event) : Prop :=
  (exists evs, log' = log ++ evs /\ tracks (c_out c) evs (c_out c')) /\
  c_max_out c' = c_max_out c /\ c_write_len c' = c_write_len c /\
  blen (c_out c') <= N.max (blen (c_out c)) (c_max_out c).

Lemma cstep_refl (c : codec) (log : list event) : cstep c log c log.
Proof.
  unfold cstep. splits; auto; [|lia]. exists []. rewrite app_nil_r. split; reflexivity.
Qed.

Lemma cstep_trans (c0 c1 c2 : codec) (l0 l1 l2 : list event) :
  cstep c0 l0 c1 l1 -> cstep c1 l1 c2 l2 -> cstep c0 l0 c2 l2.
Proof.
  intros [[e1 [L1 T1]] [M1 [W1 B1]]] [[e2 [L2 T2]] [M2 [W2 B2]]].
  unfold cstep. splits.
  - exists (e1 ++ e2). split; [subst; now rewrite app_assoc|]. eapply tracks_app; eassumption.
  - congruence.
  - congruence.
  - rewrite M1 in B2. lia.
Qed.

Lemma cstep_reads (c c' : codec) (log evs : list event) :
  c_out c' = c_out c -> c_max_out c' = c_max_out c -> c_write_len c' = c_write_len c ->
  Forall is_rd_ev evs -> cstep c log c' (log ++ evs).
Proof.
  intros Ho Hm Hw Hr. unfold cstep. splits; auto.
  - exists evs. split; [reflexivity|]. rewrite Ho. now apply tracks_only_reads.
  - rewrite Ho. lia.
Qed.

Lemma write_out_buffer_spec (c : codec) (w : world) r c' w' :
  write_out_buffer c w = (r, c', w') ->
  exists evs, w_log w' = w_log w ++ evs /\ tracks (c_out c) evs (c_out c') /\
    Forall is_wr_ev evs /\
    blen (c_out c') <= blen (c_out c) /\
    (r = ROk tt /\ c_out c' = [] \/ exists k, r = RErr (EIo k) /\ c_out c' <> []) /\
    (c_out c <> [] -> evs <> []) /\
    c' = set_out c (c_out c') /\ w_keys w' = w_keys w.
Proof.
  unfold write_out_buffer.
  destruct (write_out_loop (w_wrs w) (c_out c) (w_log w)) as [[[r0 o] wrs] lg] eqn:E.
  intros H. inversion H; subst; clear H.
  apply write_out_loop_spec in E. destruct E as [evs [El [Ht [Hw [Hb [Hr Hn]]]]]].
  exists evs. cbn [w_log c_out set_out w_keys]. splits; auto.
Qed.

Lemma write_out_buffer_cstep (c : codec) (w : world) r c' w' :
  write_out_buffer c w = (r, c', w') -> cstep c (w_log w) c' (w_log w').
Proof.
  intros H. apply write_out_buffer_spec in H.
  destruct H as [evs [El [Ht [Hw [Hb [Hr [Hn [Hc Hk]]]]]]]].
  unfold cstep. splits.
  - exists evs. split; assumption.
  - rewrite Hc. reflexivity.
  - rewrite Hc. reflexivity.
  - lia.
Qed.

Lemma codec_buffer_frame_spec (c : codec) (f : frame) (w : world) r c' w' :
  codec_buffer_frame c f w = (r, c', w') ->
  (c_max_out c < frame_len f + blen (c_out c) /\ r = RErr (EWriteBufferFull f) /\ c' = c /\ w' = w)
  \/
  (frame_len f + blen (c_out c) <= c_max_out c /\
   exists evs, w_log w' = w_log w ++ EvQueue f :: evs /\
     tracks (c_out c ++ frame_format f) evs (c_out c') /\ Forall is_wr_ev evs /\
     blen (c_out c') <= blen (c_out c) + frame_len f /\
     c' = set_out c (c_out c') /\ w_keys w' = w_keys w /\
     (r = ROk tt /\ (c_write_len c < blen (c_out c) + frame_len f -> c_out c' = [])
      \/ exists k, r = RErr (EIo k) /\ c_out c' <> []) /\
     (c_write_len c < blen (c_out c) + frame_len f -> evs <> []) /\
     (blen (c_out c) + frame_len f <= c_write_len c -> evs = [] /\ r = ROk tt)).
Proof.
  unfold codec_buffer_frame.
  destruct (c_max_out c <? frame_len f + blen (c_out c)) eqn:E; intros H.
  - left. inversion H; subst. splits; auto. lia.
  - right. split; [lia|].
    rewrite frame_format_into_buf_eq in H. cbn [c_out set_out] in H.
    rewrite blen_app, <- frame_len_exact in H.
    destruct (c_write_len c <? blen (c_out c) + frame_len f) eqn:E2.
    + apply write_out_buffer_spec in H.
      destruct H as [evs [El [Ht [Hw [Hb [Hr [Hn [Hc Hk]]]]]]]].
      cbn [c_out set_out w_log w_emit w_keys] in *.
      rewrite blen_app, <- frame_len_exact in Hb.
      exists evs. splits; auto.
      * rewrite El, <- app_assoc. reflexivity.
      * destruct Hr as [[Hr Ho]|Hr]; [left|right; exact Hr]. split; auto.
      * intros _. apply Hn. intros Hnil. apply app_eq_nil in Hnil.
        destruct Hnil as [_ Hnil]. exact (frame_format_nonnil f Hnil).
      * intros Hle. lia.
    + inversion H; subst; clear H. exists [].
      cbn [c_out set_out w_log w_emit w_keys tracks]. splits; auto.
      * rewrite blen_app, <- frame_len_exact. lia.
      * left. split; [reflexivity|]. intros Hlt. lia.
      * intros Hlt. lia.
Qed.

Lemma codec_buffer_frame_cstep (c : codec) (f : frame) (w : world) r c' w' :
  codec_buffer_frame c f w = (r, c', w') -> cstep c (w_log w) c' (w_log w').
Proof.
  intros H. apply codec_buffer_frame_spec in H.
  destruct H as [[_ [_ [-> ->]]]|[Hfit [evs [El [Ht [_ [Hb [Hc _]]]]]]]].
  - apply cstep_refl.
  - unfold cstep. splits.
    + exists (EvQueue f :: evs). split; [exact El|exact Ht].
    + rewrite Hc. reflexivity.
    + rewrite Hc. reflexivity.
    + lia.
Qed.

(* ------------------------------------------------------------------------------------------ *)
(** * 6. protocol level: small facts *)

Ltac inv H := inversion H; subst; clear H.

(* destruct an innermost match scrutinee of the goal / of a hypothesis *)
Ltac dm_goal :=
  match goal with
  | |- context [match ?e with _ => _ end] =>
      lazymatch e with
      | context [match _ with _ => _ end] => fail
      | _ => destruct e eqn:?
      end
  end; cbv beta iota.
Ltac dm_in H :=
  match type of H with
  | context [match ?e with _ => _ end] =>
      lazymatch e with
      | context [match _ with _ => _ end] => fail
      | _ => destruct e eqn:?
      end
  end; cbv beta iota in H.

Lemma ctx_eta (x : ctx) : set_state (set_codec x (x_codec x)) (x_state x) = x.
Proof. destruct x; reflexivity. Qed.

Lemma x_codec_set_additional x a : x_codec (set_additional x a) = x_codec x.
Proof. unfold set_additional. repeat dm_goal; reflexivity. Qed.
Lemma x_cfg_set_additional x a : x_cfg (set_additional x a) = x_cfg x.
Proof. unfold set_additional. repeat dm_goal; reflexivity. Qed.
Lemma x_role_set_additional x a : x_role (set_additional x a) = x_role x.
Proof. unfold set_additional. repeat dm_goal; reflexivity. Qed.
Lemma x_state_set_additional x a : x_state (set_additional x a) = x_state x.
Proof. unfold set_additional. repeat dm_goal; reflexivity. Qed.
Lemma x_unflushed_set_additional x a : x_unflushed (set_additional x a) = x_unflushed x.
Proof. unfold set_additional. repeat dm_goal; reflexivity. Qed.

(* what the client's masking changes: only the mask field *)
Definition mask_with (k : key) (f : frame) : frame :=
  mkFrame (mkHeader (h_fin (f_hdr f)) (h_rsv1 (f_hdr f)) (h_rsv2 (f_hdr f)) (h_rsv3 (f_hdr f))
                    (h_opcode (f_hdr f)) (Some k)) (f_payload f).
(* the frame that buffer_frame actually hands to the codec *)
Definition sent_frame (r : role) (w : world) (f : frame) : frame :=
  match r with Server => f | Client => mask_with (fst (w_next_key w)) f end.
Definition after_key (r : role) (w : world) : world :=
  match r with Server => w | Client => snd (w_next_key w) end.

(* same opcode, flags and payload (the mask key may differ) *)
Definition content_eq (f f' : frame) : Prop :=
  f_payload f' = f_payload f /\ h_opcode (f_hdr f') = h_opcode (f_hdr f) /\
  h_fin (f_hdr f') = h_fin (f_hdr f) /\ h_rsv1 (f_hdr f') = h_rsv1 (f_hdr f) /\
  h_rsv2 (f_hdr f') = h_rsv2 (f_hdr f) /\ h_rsv3 (f_hdr f') = h_rsv3 (f_hdr f).

Lemma content_eq_refl f : content_eq f f.
Proof. unfold content_eq. splits; reflexivity. Qed.

Lemma content_eq_trans f g h : content_eq f g -> content_eq g h -> content_eq f h.
Proof. unfold content_eq. intros [? [? [? [? [? ?]]]]] [? [? [? [? [? ?]]]]]. splits; congruence. Qed.

Lemma sent_frame_content r w f : content_eq f (sent_frame r w f).
Proof. destruct r; [apply content_eq_refl|]. unfold content_eq; cbn. splits; reflexivity. Qed.

Lemma sent_frame_server w f : sent_frame Server w f = f.
Proof. reflexivity. Qed.

Lemma after_key_log r w : w_log (after_key r w) = w_log w.
Proof. destruct r; [reflexivity|]. unfold after_key, w_next_key. destruct (w_keys w); reflexivity. Qed.

Lemma buffer_frame_unfold x f w :
  buffer_frame x f w =
  let '(r, c', w2) := codec_buffer_frame (x_codec x) (sent_frame (x_role x) w f) (after_key (x_role x) w) in
  let '(r', s') := check_connection_reset r (x_state x) in
  (r', set_state (set_codec x c') s', w2).
Proof.
  unfold buffer_frame, sent_frame, after_key, mask_with.
  destruct (x_role x); [reflexivity|]. destruct (w_next_key w); reflexivity.
Qed.

Lemma check_reset_spec {A} (r : res A) s r' s' :
  check_connection_reset r s = (r', s') ->
  (r' = r /\ s' = s /\ (r = RErr (EIo ConnReset) -> closing_done s = false)) \/
  (r = RErr (EIo ConnReset) /\ closing_done s = true /\ r' = RErr EConnectionClosed /\ s' = Terminated).
Proof.
  unfold check_connection_reset. intros H.
  destruct r as [a|e|p|]; try (inv H; left; splits; auto; discriminate).
  destruct e; try (inv H; left; splits; auto; discriminate).
  destruct k; try (inv H; left; splits; auto; discriminate).
  destruct (closing_done s) eqn:E; inv H; [right|left]; splits; auto.
Qed.

Lemma w_flush_spec w r w' :
  w_flush w = (r, w') ->
  exists fr, w_log w' = w_log w ++ [EvFlush fr] /\ w_keys w' = w_keys w /\
    (r = ROk tt /\ fr = FlOk \/ exists k, r = RErr (EIo k) /\ fr = FlErr k).
Proof.
  unfold w_flush. intros H. destruct (w_fls w) as [|[|k] l]; inv H; cbn [w_log w_emit w_set_fls w_keys].
  - exists (FlErr WouldBlock). splits; auto. right. eexists. split; reflexivity.
  - exists FlOk. splits; auto.
  - exists (FlErr k). splits; auto. right. eexists. split; reflexivity.
Qed.

Lemma w_flush_cstep c w r w' : w_flush w = (r, w') -> cstep c (w_log w) c (w_log w').
Proof.
  intros H. apply w_flush_spec in H. destruct H as [fr [El _]]. rewrite El.
  unfold cstep. splits; auto; [|lia]. exists [EvFlush fr]. split; reflexivity.
Qed.

(* ------------------------------------------------------------------------------------------ *)
(** * 7. WebSocketContext::buffer_frame *)

Lemma buffer_frame_spec x f w r x' w' :
  buffer_frame x f w = (r, x', w') ->
  let f1 := sent_frame (x_role x) w f in
  let c := x_codec x in
  (c_max_out c < frame_len f1 + blen (c_out c) /\ r = RErr (EWriteBufferFull f1) /\ x' = x /\
   w' = after_key (x_role x) w)
  \/
  (frame_len f1 + blen (c_out c) <= c_max_out c /\
   exists evs, w_log w' = w_log w ++ EvQueue f1 :: evs /\
     tracks (c_out c ++ frame_format f1) evs (c_out (x_codec x')) /\ Forall is_wr_ev evs /\
     blen (c_out (x_codec x')) <= blen (c_out c) + frame_len f1 /\
     x' = set_state (set_codec x (set_out c (c_out (x_codec x')))) (x_state x') /\
     (r = ROk tt /\ x_state x' = x_state x /\
        (c_write_len c < blen (c_out c) + frame_len f1 -> c_out (x_codec x') = [])
      \/ (exists k, r = RErr (EIo k) /\ x_state x' = x_state x /\ c_out (x_codec x') <> [] /\
                    (k = ConnReset -> closing_done (x_state x) = false))
      \/ (r = RErr EConnectionClosed /\ x_state x' = Terminated /\ closing_done (x_state x) = true /\
          c_out (x_codec x') <> [])) /\
     (c_write_len c < blen (c_out c) + frame_len f1 -> evs <> []) /\
     (blen (c_out c) + frame_len f1 <= c_write_len c -> evs = [] /\ r = ROk tt)).
Proof.
  rewrite buffer_frame_unfold. cbv zeta.
  destruct (codec_buffer_frame (x_codec x) (sent_frame (x_role x) w f) (after_key (x_role x) w))
    as [[r0 c0] w0] eqn:EC.
  destruct (check_connection_reset r0 (x_state x)) as [r1 s1] eqn:ER.
  intros H. inv H.
  apply codec_buffer_frame_spec in EC. apply check_reset_spec in ER.
  destruct EC as [[Hfull [-> [-> ->]]]|[Hfit [evs [El [Ht [Hw [Hb [Hc [Hk [Hr [Hne He]]]]]]]]]]].
  - left. destruct ER as [[-> [-> _]]|[Hx _]]; [|discriminate Hx].
    splits; auto. apply ctx_eta.
  - right. split; [exact Hfit|]. exists evs. rewrite after_key_log in El.
    cbn [x_codec x_state set_state set_codec]. splits; auto.
    + rewrite <- Hc. reflexivity.
    + destruct ER as [[-> [-> Hcr]]|[-> [Hcd [-> ->]]]].
      * destruct Hr as [[-> Ho]|[k [-> Ho]]]; [left; splits; auto|].
        right; left. exists k. splits; auto. intros ->. apply Hcr. reflexivity.
      * destruct Hr as [[Hr _]|[k [Hr Ho]]]; [discriminate Hr|]. right; right. splits; auto.
    + intros Hle. destruct (He Hle) as [-> ->]. split; [reflexivity|].
      destruct ER as [[-> _]|[Hx _]]; [reflexivity|discriminate Hx].
Qed.

(* the generic protocol-level step summary *)
Definition pstep (x : ctx) (w : world) (x' : ctx) (w' : world) : Prop :=
  cstep (x_codec x) (w_log w) (x_codec x') (w_log w') /\ x_cfg x' = x_cfg x /\ x_role x' = x_role x.

Lemma pstep_refl x w : pstep x w x w.
Proof. unfold pstep. splits; auto. apply cstep_refl. Qed.

Lemma pstep_trans x0 w0 x1 w1 x2 w2 : pstep x0 w0 x1 w1 -> pstep x1 w1 x2 w2 -> pstep x0 w0 x2 w2.
Proof.
  intros [C1 [F1 R1]] [C2 [F2 R2]]. unfold pstep. splits; try congruence.
  eapply cstep_trans; eassumption.
Qed.

Lemma buffer_frame_pstep x f w r x' w' : buffer_frame x f w = (r, x', w') -> pstep x w x' w'.
Proof.
  rewrite buffer_frame_unfold. cbv zeta.
  destruct (codec_buffer_frame (x_codec x) (sent_frame (x_role x) w f) (after_key (x_role x) w))
    as [[r0 c0] w0] eqn:EC.
  destruct (check_connection_reset r0 (x_state x)) as [r1 s1] eqn:ER.
  intros H. inv H. apply codec_buffer_frame_cstep in EC. rewrite after_key_log in EC.
  unfold pstep. cbn. splits; auto.
Qed.

(* ------------------------------------------------------------------------------------------ *)
(** * 8. generic step summaries for _write, flush, close, write *)

Ltac to_steps :=
  repeat match goal with
  | H : buffer_frame _ _ _ = _ |- _ => apply buffer_frame_pstep in H
  | H : write_out_buffer _ _ = _ |- _ => apply write_out_buffer_cstep in H
  | H : w_flush _ = _ |- _ =>
      let H' := fresh "HF" in pose proof (fun c => w_flush_cstep c _ _ _ H) as H'; clear H
  | H : (_, _) = (_, _) |- _ => inv H
  end.

Ltac simp_proj :=
  unfold pstep in *;
  cbn [x_codec x_cfg x_role x_state x_additional x_unflushed
       set_codec set_state set_incomplete set_additional_raw set_unflushed] in *;
  rewrite ?x_codec_set_additional, ?x_cfg_set_additional, ?x_role_set_additional in *.

Ltac solve_step :=
  simp_proj;
  repeat match goal with H : _ /\ _ |- _ => destruct H end;
  splits; try congruence;
  eauto 6 using cstep_trans, cstep_refl.

Lemma write__pstep x data w r x' w' : write_ x data w = (r, x', w') -> pstep x w x' w'.
Proof.
  unfold write_. intros H.
  destruct data as [f|].
  - destruct (buffer_frame x f w) as [[r0 x0] w0] eqn:EB.
    repeat dm_in H; to_steps; solve_step.
  - repeat dm_in H; to_steps; solve_step.
Qed.

Ltac to_steps2 :=
  repeat match goal with
  | H : write_ _ _ _ = _ |- _ => apply write__pstep in H
  end; to_steps.

Lemma flush_pstep x w r x' w' : flush x w = (r, x', w') -> pstep x w x' w'.
Proof.
  unfold flush. intros H.
  destruct (write_ x None w) as [[r0 x0] w0] eqn:EW.
  repeat dm_in H; to_steps2; solve_step.
Qed.

Lemma close_pstep x code w r x' w' : close x code w = (r, x', w') -> pstep x w x' w'.
Proof.
  unfold close. intros H.
  destruct (x_state x); apply flush_pstep in H; solve_step.
Qed.

Ltac to_steps3 :=
  repeat match goal with
  | H : flush _ _ = _ |- _ => apply flush_pstep in H
  | H : close _ _ _ = _ |- _ => apply close_pstep in H
  end; to_steps2.

Lemma write_pstep x m w r x' w' : write x m w = (r, x', w') -> pstep x w x' w'.
Proof.
  unfold write. intros H.
  destruct (is_terminated (x_state x)); [inv H; apply pstep_refl|].
  destruct (negb (is_active (x_state x))); [inv H; apply pstep_refl|].
  destruct m; repeat dm_in H; to_steps3; solve_step.
Qed.

(* ------------------------------------------------------------------------------------------ *)
(** * 9. the read side never touches out_buffer, the limits, or the write-side log projections *)

Definition same_wr (c c' : codec) : Prop :=
  c_out c' = c_out c /\ c_max_out c' = c_max_out c /\ c_write_len c' = c_write_len c.

Lemma same_wr_refl c : same_wr c c.
Proof. unfold same_wr; auto. Qed.

Lemma same_wr_trans c0 c1 c2 : same_wr c0 c1 -> same_wr c1 c2 -> same_wr c0 c2.
Proof. unfold same_wr. intros [? [? ?]] [? [? ?]]. splits; congruence. Qed.

Lemma try_take_same ms c :
  match try_take ms c with
  | TkPayload _ _ _ c' | TkNeedMore _ c' | TkErr _ c' => same_wr c c'
  | TkPanic _ => True
  end.
Proof.
  unfold try_take.
  destruct (c_hdr c) as [[h len]|] eqn:Eh.
  - rewrite Eh. repeat dm_goal; unfold same_wr; cbn; auto.
  - destruct (header_parse (c_in c)) as [h len k| | |]; cbn [c_hdr set_hdr set_in]; rewrite ?Eh;
      repeat dm_goal; unfold same_wr; cbn; auto.
Qed.

Lemma read_frame_loop_spec ms (rds : list rd_out) : forall c log r c' rds' log',
  read_frame_loop ms rds c log = (r, c', rds', log') ->
  same_wr c c' /\ exists evs, log' = log ++ evs /\ Forall is_rd_ev evs.
Proof.
  induction rds as [|o rds IH]; intros c log r c' rds' log' H.
  - cbn [read_frame_loop] in H. pose proof (try_take_same ms c) as HT.
    destruct (try_take ms c); inv H; split; auto.
    + exists []. now rewrite app_nil_r.
    + exists [EvReserve reserve; EvRead (RdErr WouldBlock)]. rewrite <- app_assoc. split; [reflexivity|].
      repeat constructor.
    + exists []. now rewrite app_nil_r.
    + apply same_wr_refl.
    + exists []. now rewrite app_nil_r.
  - cbn [read_frame_loop] in H. pose proof (try_take_same ms c) as HT.
    destruct (try_take ms c) as [h len p c1|n c1|e c1|s].
    + inv H. split; auto. exists []. now rewrite app_nil_r.
    + destruct o as [[|b bs]| |k].
      * inv H. split; auto. exists [EvReserve n; EvRead RdEof]. rewrite <- app_assoc.
        split; [reflexivity|repeat constructor].
      * apply IH in H. destruct H as [Hs [evs [El Hr]]]. split.
        -- eapply same_wr_trans; [exact HT|]. eapply same_wr_trans; [|exact Hs].
           unfold same_wr; cbn; auto.
        -- exists (EvReserve n :: EvRead (RdData (b :: bs)) :: evs). rewrite El, <- !app_assoc.
           split; [reflexivity|repeat constructor; exact Hr].
      * inv H. split; auto. exists [EvReserve n; EvRead RdEof]. rewrite <- app_assoc.
        split; [reflexivity|repeat constructor].
      * inv H. split; auto. exists [EvReserve n; EvRead (RdErr k)]. rewrite <- app_assoc.
        split; [reflexivity|repeat constructor].
    + inv H. split; auto. exists []. now rewrite app_nil_r.
    + inv H. split; [apply same_wr_refl|]. exists []. now rewrite app_nil_r.
Qed.

Lemma read_frame_spec ms um au c w r c' w' :
  read_frame ms um au c w = (r, c', w') ->
  same_wr c c' /\ exists evs, w_log w' = w_log w ++ evs /\ Forall is_rd_ev evs.
Proof.
  unfold read_frame.
  destruct (read_frame_loop (limit_of ms) (w_rds w) c (w_log w)) as [[[r0 c0] rds0] log0] eqn:E.
  apply read_frame_loop_spec in E. intros H.
  repeat dm_in H; inv H; exact E.
Qed.

Lemma read_frame_cstep ms um au c w r c' w' :
  read_frame ms um au c w = (r, c', w') -> cstep c (w_log w) c' (w_log w').
Proof.
  intros H. apply read_frame_spec in H. destruct H as [[Ho [Hm Hw]] [evs [-> Hr]]].
  now apply cstep_reads.
Qed.

Lemma do_close_same x cl r x' :
  do_close x cl = (r, x') -> x_codec x' = x_codec x /\ x_cfg x' = x_cfg x /\ x_role x' = x_role x.
Proof.
  unfold do_close. intros H.
  destruct (x_state x); inv H; cbn; rewrite ?x_codec_set_additional, ?x_cfg_set_additional,
    ?x_role_set_additional; cbn; auto.
Qed.

Lemma read_message_frame_pstep x w r x' w' :
  read_message_frame x w = (r, x', w') -> pstep x w x' w'.
Proof.
  unfold read_message_frame. intros H.
  destruct (read_frame (cfg_max_frame_size (x_cfg x)) (role_eqb (x_role x) Server)
              (cfg_accept_unmasked (x_cfg x)) (x_codec x) w) as [[r0 c1] w1] eqn:ER.
  apply read_frame_cstep in ER.
  destruct (check_connection_reset r0 (x_state x)) as [r0' s1] eqn:EC.
  repeat dm_in H;
    repeat match goal with
    | E : do_close _ _ = _ |- _ => apply do_close_same in E; cbn [x_codec x_cfg x_role set_state set_codec] in E
    end;
    inv H; solve_step.
Qed.

Ltac to_steps4 :=
  repeat match goal with
  | H : read_message_frame _ _ = _ |- _ => apply read_message_frame_pstep in H
  end; to_steps3.

Lemma read_loop_pstep (fuel : nat) : forall x w r x' w',
  read_loop fuel x w = (r, x', w') -> pstep x w x' w'.
Proof.
  induction fuel as [|fuel IH]; intros x w r x' w' H.
  - cbn [read_loop] in H. inv H. apply pstep_refl.
  - cbn [read_loop] in H.
    repeat dm_in H;
      repeat match goal with
      | E : read_loop fuel _ _ = _ |- _ => apply IH in E
      end; to_steps4; solve_step.
Qed.

Lemma read_pstep x w r x' w' : read x w = (r, x', w') -> pstep x w x' w'.
Proof.
  unfold read. intros H. destruct (is_terminated (x_state x)); [inv H; apply pstep_refl|].
  eapply read_loop_pstep; exact H.
Qed.

(* ------------------------------------------------------------------------------------------ *)
(** * 10. run_op / run_ops: the invariants *)

(* strong form of the C10 invariant: the whole log replays event by event from the empty buffer *)
Definition tracked (x : ctx) (w : world) : Prop := tracks [] (w_log w) (c_out (x_codec x)).

(* the codec limits are the configured ones and the configuration is valid *)
Definition cfg_ok (x : ctx) : Prop :=
  c_max_out (x_codec x) = cfg_max_write_buffer_size (x_cfg x) /\
  c_write_len (x_codec x) = cfg_write_buffer_size (x_cfg x) /\
  config_valid (x_cfg x) = true.

Definition out_bounded (x : ctx) : Prop := blen (c_out (x_codec x)) <= c_max_out (x_codec x).

Lemma pstep_tracked x w x' w' : pstep x w x' w' -> tracked x w -> tracked x' w'.
Proof.
  intros [[[evs [El Ht]] _] _] H. unfold tracked in *. rewrite El.
  eapply tracks_app; eassumption.
Qed.

Lemma pstep_cfg_ok x w x' w' : pstep x w x' w' -> cfg_ok x -> cfg_ok x'.
Proof.
  intros [[_ [Hm [Hw _]]] [Hc _]] [H1 [H2 H3]]. unfold cfg_ok. rewrite Hc. splits; congruence.
Qed.

Lemma pstep_bounded x w x' w' : pstep x w x' w' -> out_bounded x -> out_bounded x'.
Proof.
  intros [[_ [Hm [_ Hb]]] _] H. unfold out_bounded in *. rewrite Hm. lia.
Qed.

(* out_buffer never grows beyond max(what it held, the limit): also after a shrinking set_config *)
Lemma pstep_bounded_by x w x' w' (M : N) :
  pstep x w x' w' -> blen (c_out (x_codec x)) <= M -> c_max_out (x_codec x) <= M ->
  blen (c_out (x_codec x')) <= M /\ c_max_out (x_codec x') <= M.
Proof.
  intros [[_ [Hm [_ Hb]]] _] H1 H2. rewrite Hm. lia.
Qed.

Definition is_setbuf (o : op) : bool := match o with OpSetBuf _ _ => true | _ => false end.

Lemma run_op_pstep x o w res x' w' :
  run_op x o w = (res, x', w') -> is_setbuf o = false -> pstep x w x' w'.
Proof.
  intros H Hs. destruct o; cbn [run_op] in H; try discriminate Hs.
  - destruct (read x w) as [[r x1] w1] eqn:E. inv H. eapply read_pstep; eassumption.
  - destruct (write x m w) as [[r x1] w1] eqn:E. inv H. eapply write_pstep; eassumption.
  - destruct (flush x w) as [[r x1] w1] eqn:E. inv H. eapply flush_pstep; eassumption.
  - destruct (close x c w) as [[r x1] w1] eqn:E. inv H. eapply close_pstep; eassumption.
  - inv H. apply pstep_refl.
  - inv H. apply pstep_refl.
Qed.

(* OpSetBuf: valid pair -> both sizes propagate and nothing else changes; invalid -> documented panic *)
Lemma run_op_setbuf x wbs max w :
  run_op x (OpSetBuf wbs max) w =
  if wbs <? max then
    (ResUnit (ROk tt),
     mkCtx (x_role x) (set_limits (x_codec x) max wbs) (x_state x) (x_incomplete x) (x_additional x)
           (x_unflushed x)
           (mkConfig wbs max (cfg_max_message_size (x_cfg x)) (cfg_max_frame_size (x_cfg x))
                     (cfg_accept_unmasked (x_cfg x))), w)
  else (ResUnit (RPanic site_config_invalid), x, w).
Proof. reflexivity. Qed.

Lemma run_op_tracked x o w res x' w' :
  run_op x o w = (res, x', w') -> tracked x w -> tracked x' w'.
Proof.
  intros H. destruct (is_setbuf o) eqn:Es.
  - destruct o; try discriminate Es. rewrite run_op_setbuf in H.
    destruct (wbs <? max); inv H; auto.
  - apply pstep_tracked. eapply run_op_pstep; eassumption.
Qed.

Lemma run_op_cfg_ok x o w res x' w' :
  run_op x o w = (res, x', w') -> cfg_ok x -> cfg_ok x'.
Proof.
  intros H. destruct (is_setbuf o) eqn:Es.
  - destruct o; try discriminate Es. rewrite run_op_setbuf in H.
    destruct (wbs <? max) eqn:E; inv H; auto.
    intros _. unfold cfg_ok, config_valid. cbn. auto.
  - eapply pstep_cfg_ok. eapply run_op_pstep; eassumption.
Qed.

(* an OpSetBuf that does not cut the limit below what the buffer currently holds *)
Definition setbuf_fits (x : ctx) (o : op) : Prop :=
  match o with
  | OpSetBuf wbs max => wbs < max -> blen (c_out (x_codec x)) <= max
  | _ => True
  end.

Lemma run_op_bounded x o w res x' w' :
  run_op x o w = (res, x', w') -> setbuf_fits x o -> out_bounded x -> out_bounded x'.
Proof.
  intros H Hf. destruct (is_setbuf o) eqn:Es.
  - destruct o; try discriminate Es. rewrite run_op_setbuf in H. cbn [setbuf_fits] in Hf.
    destruct (wbs <? max) eqn:E; inv H; auto.
    intros _. unfold out_bounded. cbn. apply Hf. lia.
  - eapply pstep_bounded. eapply run_op_pstep; eassumption.
Qed.

(* the largest limit ever configured *)
Fixpoint max_hist (m : N) (ops : list op) : N :=
  match ops with
  | [] => m
  | OpSetBuf wbs max :: r => max_hist (if wbs <? max then N.max m max else m) r
  | _ :: r => max_hist m r
  end.

Lemma max_hist_ge ops : forall m, m <= max_hist m ops.
Proof.
  induction ops as [|o ops IH]; intros m; cbn [max_hist]; [lia|].
  destruct o; try apply IH. destruct (wbs <? max); [|apply IH].
  specialize (IH (N.max m max)). lia.
Qed.

Lemma max_hist_mono ops : forall m m', m <= m' -> max_hist m ops <= max_hist m' ops.
Proof.
  induction ops as [|o ops IH]; intros m m' H; cbn [max_hist]; [lia|].
  destruct o; try (apply IH; exact H). destruct (wbs <? max); apply IH; lia.
Qed.

Lemma run_op_bounded_by x o w res x' w' (M : N) :
  run_op x o w = (res, x', w') ->
  (forall wbs max, o = OpSetBuf wbs max -> wbs < max -> max <= M) ->
  blen (c_out (x_codec x)) <= M -> c_max_out (x_codec x) <= M ->
  blen (c_out (x_codec x')) <= M /\ c_max_out (x_codec x') <= M.
Proof.
  intros H Hf H1 H2. destruct (is_setbuf o) eqn:Es.
  - destruct o; try discriminate Es. rewrite run_op_setbuf in H.
    destruct (wbs <? max) eqn:E; inv H; auto.
    cbn. split; [exact H1|]. eapply Hf; [reflexivity|lia].
  - eapply pstep_bounded_by; [|exact H1|exact H2]. eapply run_op_pstep; eassumption.
Qed.

Lemma run_ops_tracked ops : forall x w rs x' w',
  run_ops x ops w = (rs, x', w') -> tracked x w -> tracked x' w'.
Proof.
  induction ops as [|o ops IH]; intros x w rs x' w' H Ht; cbn [run_ops] in H.
  - inv H. exact Ht.
  - destruct (run_op x o w) as [[r1 x1] w1] eqn:E1.
    destruct (run_ops x1 ops w1) as [[rs2 x2] w2] eqn:E2. inv H.
    eapply IH; [exact E2|]. eapply run_op_tracked; eassumption.
Qed.

Lemma run_ops_cfg_ok ops : forall x w rs x' w',
  run_ops x ops w = (rs, x', w') -> cfg_ok x -> cfg_ok x'.
Proof.
  induction ops as [|o ops IH]; intros x w rs x' w' H Ht; cbn [run_ops] in H.
  - inv H. exact Ht.
  - destruct (run_op x o w) as [[r1 x1] w1] eqn:E1.
    destruct (run_ops x1 ops w1) as [[rs2 x2] w2] eqn:E2. inv H.
    eapply IH; [exact E2|]. eapply run_op_cfg_ok; eassumption.
Qed.

(* no OpSetBuf in the list lowers the limit (m = the limit in force) *)
Fixpoint setbuf_nondecreasing (m : N) (ops : list op) : Prop :=
  match ops with
  | [] => True
  | OpSetBuf wbs max :: r =>
      if wbs <? max then m <= max /\ setbuf_nondecreasing max r else setbuf_nondecreasing m r
  | _ :: r => setbuf_nondecreasing m r
  end.

Lemma run_ops_bounded ops : forall x w rs x' w',
  run_ops x ops w = (rs, x', w') -> setbuf_nondecreasing (c_max_out (x_codec x)) ops ->
  out_bounded x -> out_bounded x'.
Proof.
  induction ops as [|o ops IH]; intros x w rs x' w' H Hm Hb; cbn [run_ops] in H.
  - inv H. exact Hb.
  - destruct (run_op x o w) as [[r1 x1] w1] eqn:E1.
    destruct (run_ops x1 ops w1) as [[rs2 x2] w2] eqn:E2. inv H.
    destruct (is_setbuf o) eqn:Es.
    + destruct o; try discriminate Es. rewrite run_op_setbuf in E1. cbn [setbuf_nondecreasing] in Hm.
      destruct (wbs <? max) eqn:E; inv E1.
      * destruct Hm as [Hle Hm]. eapply IH; [exact E2|exact Hm|].
        unfold out_bounded in *. cbn. lia.
      * eapply IH; eassumption.
    + pose proof (run_op_pstep _ _ _ _ _ _ E1 Es) as P.
      eapply IH; [exact E2| |eapply pstep_bounded; eassumption].
      destruct P as [[_ [Hmx _]] _]. rewrite Hmx.
      destruct o; try discriminate Es; exact Hm.
Qed.

Lemma run_ops_bounded_hist ops : forall x w rs x' w' (M : N),
  run_ops x ops w = (rs, x', w') ->
  blen (c_out (x_codec x)) <= M -> c_max_out (x_codec x) <= M ->
  blen (c_out (x_codec x')) <= max_hist M ops.
Proof.
  induction ops as [|o ops IH]; intros x w rs x' w' M H H1 H2; cbn [run_ops] in H.
  - inv H. exact H1.
  - destruct (run_op x o w) as [[r1 x1] w1] eqn:E1.
    destruct (run_ops x1 ops w1) as [[rs2 x2] w2] eqn:E2. inv H.
    destruct (is_setbuf o) eqn:Es.
    + destruct o; try discriminate Es. rewrite run_op_setbuf in E1. cbn [max_hist].
      destruct (wbs <? max) eqn:E; inv E1.
      * eapply IH; [exact E2| |]; cbn; lia.
      * eapply IH; eassumption.
    + pose proof (run_op_pstep _ _ _ _ _ _ E1 Es) as P.
      destruct (pstep_bounded_by _ _ _ _ M P H1 H2) as [G1 G2].
      assert (Hh : max_hist M (o :: ops) = max_hist M ops)
        by (destruct o; try discriminate Es; reflexivity).
      rewrite Hh. eapply IH; eassumption.
Qed.

(* the initial state *)
Lemma ctx_new_spec r part cfg x :
  ctx_new r part cfg = Some x ->
  cfg_ok x /\ c_out (x_codec x) = [] /\ x_cfg x = cfg /\ x_role x = r /\ x_state x = Active /\
  x_additional x = None /\ x_unflushed x = false.
Proof.
  unfold ctx_new. destruct (config_valid cfg) eqn:E; [|discriminate]. intros H. inv H.
  unfold cfg_ok. cbn. splits; auto.
Qed.

Lemma ctx_new_none r part cfg :
  ctx_new r part cfg = None <-> cfg_max_write_buffer_size cfg <= cfg_write_buffer_size cfg.
Proof.
  unfold ctx_new, config_valid.
  destruct (cfg_write_buffer_size cfg <? cfg_max_write_buffer_size cfg) eqn:E; split; intros H;
    try discriminate; try reflexivity; lia.
Qed.

Lemma run_op_wp_inv x o w res x' w' :
  run_op x o w = (res, x', w') ->
  wp_inv (c_out (x_codec x)) (w_log w) -> wp_inv (c_out (x_codec x')) (w_log w').
Proof.
  intros H Hi. destruct (is_setbuf o) eqn:Es.
  - destruct o; try discriminate Es. rewrite run_op_setbuf in H.
    destruct (wbs <? max); inv H; auto.
  - destruct (run_op_pstep _ _ _ _ _ _ H Es) as [[[evs [El Ht]] _] _].
    rewrite El. eapply wp_inv_step; eassumption.
Qed.

Lemma run_ops_wp_inv ops : forall x w rs x' w',
  run_ops x ops w = (rs, x', w') ->
  wp_inv (c_out (x_codec x)) (w_log w) -> wp_inv (c_out (x_codec x')) (w_log w').
Proof.
  induction ops as [|o ops IH]; intros x w rs x' w' H Ht; cbn [run_ops] in H.
  - inv H. exact Ht.
  - destruct (run_op x o w) as [[r1 x1] w1] eqn:E1.
    destruct (run_ops x1 ops w1) as [[rs2 x2] w2] eqn:E2. inv H.
    eapply IH; [exact E2|]. eapply run_op_wp_inv; eassumption.
Qed.

(* reachable states: from the constructor with an empty log, through any op list *)
Lemma reach_tracked r part cfg x0 ops w0 rs x w :
  ctx_new r part cfg = Some x0 -> w_log w0 = [] -> run_ops x0 ops w0 = (rs, x, w) -> tracked x w.
Proof.
  intros Hn Hl Hr. eapply run_ops_tracked; [exact Hr|].
  apply ctx_new_spec in Hn. destruct Hn as [_ [Ho _]]. unfold tracked. rewrite Hl, Ho. reflexivity.
Qed.

Lemma reach_cfg_ok r part cfg x0 ops w0 rs x w :
  ctx_new r part cfg = Some x0 -> run_ops x0 ops w0 = (rs, x, w) -> cfg_ok x.
Proof.
  intros Hn Hr. eapply run_ops_cfg_ok; [exact Hr|]. apply ctx_new_spec in Hn. tauto.
Qed.

(* ------------------------------------------------------------------------------------------ *)
(** * 11. flush = Ok; zero-length writes *)

Lemma flush_ok x w u x' w' :
  flush x w = (ROk u, x', w') ->
  c_out (x_codec x') = [] /\ x_unflushed x' = false /\
  exists l, w_log w' = l ++ [EvFlush FlOk].
Proof.
  unfold flush. intros H.
  destruct (write_ x None w) as [[r0 x0] w0] eqn:EW.
  destruct r0 as [b|e|s|]; try discriminate H.
  destruct (write_out_buffer (x_codec x0) w0) as [[r1 c1] w1] eqn:EO.
  destruct r1 as [u1|e|s|]; try discriminate H.
  destruct (w_flush w1) as [r2 w2] eqn:EF.
  destruct r2 as [u2|e|s|]; try discriminate H. inv H.
  apply write_out_buffer_spec in EO. destruct EO as [evs [_ [_ [_ [_ [Hr _]]]]]].
  apply w_flush_spec in EF. destruct EF as [fr [El [_ Hf]]].
  cbn [x_codec x_unflushed set_unflushed set_codec]. splits; auto.
  - destruct Hr as [[_ Ho]|[k [Hx _]]]; [exact Ho|discriminate Hx].
  - destruct Hf as [[_ ->]|[k [Hx _]]]; [|discriminate Hx]. exists (w_log w1). exact El.
Qed.

Lemma codec_eta c : set_out c (c_out c) = c.
Proof. destruct c; reflexivity. Qed.

Lemma ctx_eta_codec x : set_codec x (x_codec x) = x.
Proof. destruct x; reflexivity. Qed.

(* Ok(0) from the transport with data pending: one call, ConnectionReset, buffer intact *)
Lemma write_out_zero c w n rest :
  c_out c <> [] -> w_wrs w = WrAccept n :: rest -> n = 0 ->
  write_out_buffer c w =
  (RErr (EIo ConnReset), c,
   mkWorld (w_rds w) rest (w_fls w) (w_keys w) (w_log w ++ [EvWrite (blen (c_out c)) []])).
Proof.
  intros Hne Hw ->. unfold write_out_buffer. rewrite Hw.
  destruct (c_out c) as [|b o] eqn:Eo; [contradiction|].
  cbn [write_out_loop]. replace (N.min 0 (blen (b :: o)) =? 0) with true by (symmetry; lia).
  rewrite <- Eo, codec_eta. reflexivity.
Qed.

Lemma after_key_wrs r w : w_wrs (after_key r w) = w_wrs w.
Proof. destruct r; [reflexivity|]. unfold after_key, w_next_key. destruct (w_keys w); reflexivity. Qed.

(* flush with nothing pending, data in the buffer and a transport that accepts 0 bytes *)
Lemma flush_zero_write x w rest :
  x_additional x = None -> c_out (x_codec x) <> [] -> w_wrs w = WrAccept 0 :: rest ->
  flush x w =
  (RErr (EIo ConnReset), x,
   mkWorld (w_rds w) rest (w_fls w) (w_keys w) (w_log w ++ [EvWrite (blen (c_out (x_codec x))) []])).
Proof.
  intros Ha Hne Hw. unfold flush, write_. cbv beta iota zeta. rewrite Ha. cbv beta iota. rewrite Ha.
  destruct (role_eqb (x_role x) Server && closing_done (x_state x) && true) eqn:E;
    cbv beta iota; rewrite (write_out_zero _ _ 0 rest Hne Hw eq_refl); cbv beta iota;
    rewrite ctx_eta_codec; reflexivity.
Qed.

(* buffering a frame that triggers a transport write which accepts 0 bytes *)
Lemma buffer_frame_zero_write x f w rest :
  let f1 := sent_frame (x_role x) w f in
  let c := x_codec x in
  frame_len f1 + blen (c_out c) <= c_max_out c ->
  c_write_len c < blen (c_out c) + frame_len f1 ->
  w_wrs w = WrAccept 0 :: rest ->
  exists x' w',
    buffer_frame x f w =
      (if closing_done (x_state x) then RErr EConnectionClosed else RErr (EIo ConnReset), x', w') /\
    c_out (x_codec x') = c_out c ++ frame_format f1 /\
    x_state x' = (if closing_done (x_state x) then Terminated else x_state x) /\
    w_wrs w' = rest /\
    w_log w' = w_log w ++ [EvQueue f1; EvWrite (blen (c_out c ++ frame_format f1)) []].
Proof.
  intros f1 c Hfit Htrig Hw. rewrite buffer_frame_unfold. fold f1. fold c.
  unfold codec_buffer_frame.
  replace (c_max_out c <? frame_len f1 + blen (c_out c)) with false by (symmetry; lia).
  rewrite frame_format_into_buf_eq. cbn [c_out set_out c_write_len].
  rewrite blen_app, <- frame_len_exact.
  replace (c_write_len c <? blen (c_out c) + frame_len f1) with true by (symmetry; lia).
  assert (Hne : c_out (set_out c (c_out c ++ frame_format f1)) <> []).
  { cbn. intros Hn. apply app_eq_nil in Hn. destruct Hn as [_ Hn]. exact (frame_format_nonnil f1 Hn). }
  assert (Hw' : w_wrs (w_emit (after_key (x_role x) w) (EvQueue f1)) = WrAccept 0 :: rest).
  { cbn. rewrite after_key_wrs. exact Hw. }
  rewrite (write_out_zero _ _ 0 rest Hne Hw' eq_refl).
  cbn [check_connection_reset].
  destruct (closing_done (x_state x)); eexists; eexists; (split; [reflexivity|]);
    cbn [x_codec x_state set_state set_codec c_out set_out w_wrs w_log w_emit];
    rewrite after_key_log, <- app_assoc, ?blen_app, <- ?frame_len_exact; splits; reflexivity.
Qed.

(* ------------------------------------------------------------------------------------------ *)
(** * 12. a data write in the Active state, case by case *)

Lemma head_wr (evs more : list event) :
  evs <> [] -> Forall is_wr_ev evs -> exists e rest, evs ++ more = e :: rest /\ is_wr_ev e.
Proof.
  intros Hne Hf. destruct evs as [|e evs]; [contradiction|].
  exists e, (evs ++ more). split; [reflexivity|]. now inversion Hf.
Qed.

Lemma closing_done_active_false s : s = Active -> closing_done s = false.
Proof. intros ->. reflexivity. Qed.

Lemma write__some_active x f w r x' w' :
  x_state x = Active -> write_ x (Some f) w = (r, x', w') ->
  let f1 := sent_frame (x_role x) w f in
  let c := x_codec x in
  (c_max_out c < frame_len f1 + blen (c_out c) /\ r = RErr (EWriteBufferFull f1) /\ x' = x /\
   w' = after_key (x_role x) w)
  \/
  (frame_len f1 + blen (c_out c) <= c_max_out c /\
   exists evs, w_log w' = w_log w ++ EvQueue f1 :: evs /\
     x_state x' = Active /\ x_role x' = x_role x /\
     ((exists b, r = ROk b /\ (b = true -> x_additional x' = None)) \/ (exists k, r = RErr (EIo k))) /\
     (queued evs = [] \/
      exists a a', x_additional x = Some a /\ content_eq a a' /\ queued evs = [a']) /\
     (x_additional x = None -> queued evs = []) /\
     (c_write_len c < blen (c_out c) + frame_len f1 -> exists e rest, evs = e :: rest /\ is_wr_ev e) /\
     (blen (c_out c) + frame_len f1 <= c_write_len c -> x_additional x = None ->
        evs = [] /\ r = ROk (x_unflushed x))).
Proof.
  intros Hact H f1 c. unfold write_ in H.
  destruct (buffer_frame x f w) as [[r0 x0] w0] eqn:EB.
  apply buffer_frame_spec in EB. fold f1 in EB. fold c in EB.
  destruct EB as [[Hfull [-> [-> ->]]]|[Hfit [evs0 [El [Ht [Hw [Hb [Hx [Hr [Hne He]]]]]]]]]].
  { left. inv H. splits; auto. }
  right. split; [exact Hfit|].
  assert (Hadd : x_additional x0 = x_additional x) by (rewrite Hx; reflexivity).
  assert (Hunf : x_unflushed x0 = x_unflushed x) by (rewrite Hx; reflexivity).
  assert (Hrole : x_role x0 = x_role x) by (rewrite Hx; reflexivity).
  destruct Hr as [[-> [Hst _]]|[[k [-> [Hst _]]]|[_ [_ [Hcd _]]]]].
  3:{ rewrite Hact in Hcd. discriminate Hcd. }
  2:{ inv H. exists evs0. rewrite Hst. splits; auto.
      - right. exists k. reflexivity.
      - left. now apply queued_only_writes.
      - intros _. now apply queued_only_writes.
      - intros Hlt. rewrite <- (app_nil_r evs0). apply head_wr; auto.
      - intros Hle _. destruct (He Hle) as [_ Hx0]. discriminate Hx0. }
  rewrite Hact in Hst.
  destruct (x_additional x0) as [a|] eqn:Ea.
  - (* a pending automatic frame goes out after the data frame *)
    destruct (buffer_frame (set_additional_raw x0 None) a w0) as [[rb xb] wb] eqn:EB2.
    apply buffer_frame_spec in EB2.
    cbn [x_role x_codec x_state set_additional_raw] in EB2.
    destruct EB2 as [[Hfull2 [-> [-> ->]]]|[Hfit2 [evs1 [El1 [Ht1 [Hw1 [Hb1 [Hx1 [Hr1 [Hne1 He1]]]]]]]]]].
    + (* no room for it: back into the slot *)
      rewrite x_state_set_additional in H. cbn [x_state set_additional_raw] in H.
      rewrite Hst in H. cbn [closing_done] in H. rewrite Bool.andb_false_r in H. cbn [andb] in H.
      inv H. exists evs0. rewrite x_state_set_additional, x_role_set_additional.
      cbn [x_state x_role set_additional_raw]. rewrite after_key_log. splits; auto.
      * left. exists false. split; [reflexivity|discriminate].
      * left. now apply queued_only_writes.
      * intros _. now apply queued_only_writes.
      * intros Hlt. rewrite <- (app_nil_r evs0). apply head_wr; auto.
      * intros _ Hn. congruence.
    + assert (Hroleb : x_role xb = x_role x) by (rewrite Hx1; cbn; exact Hrole).
      assert (Haddb : x_additional xb = None) by (rewrite Hx1; reflexivity).
      assert (Hq : queued (evs0 ++ EvQueue (sent_frame (x_role x0) w0 a) :: evs1) =
                   [sent_frame (x_role x0) w0 a]).
      { rewrite queued_app. cbn [queued]. rewrite !queued_only_writes by assumption. reflexivity. }
      assert (Hlog : w_log wb = w_log w ++ EvQueue f1 :: evs0 ++ EvQueue (sent_frame (x_role x0) w0 a) :: evs1).
      { rewrite El1, El, <- app_assoc. reflexivity. }
      destruct Hr1 as [[-> [Hstb _]]|[[k [-> [Hstb _]]]|[_ [_ [Hcd _]]]]].
      3:{ rewrite Hst in Hcd. discriminate Hcd. }
      * cbn [x_state set_unflushed] in H.
        rewrite Hstb in H. cbn [x_state set_additional_raw] in H. rewrite Hst in H.
        cbn [closing_done] in H. rewrite Bool.andb_false_r in H. cbn [andb] in H. inv H.
        eexists. split; [exact Hlog|]. cbn [x_state x_role x_additional set_unflushed].
        rewrite Hstb. cbn [x_state set_additional_raw].
        splits; auto.
        -- left. exists true. split; [reflexivity|]. intros _. exact Haddb.
        -- right. exists a, (sent_frame (x_role x0) w0 a). splits; auto.
           apply sent_frame_content.
        -- intros Hn. congruence.
        -- intros Hlt. apply head_wr; auto.
        -- intros _ Hn. congruence.
      * inv H. eexists. split; [exact Hlog|]. cbn [x_state x_role x_additional set_unflushed].
        rewrite Hstb. cbn [x_state set_additional_raw].
        splits; auto.
        -- right. exists k. reflexivity.
        -- right. exists a, (sent_frame (x_role x0) w0 a). splits; auto.
           apply sent_frame_content.
        -- intros Hn. congruence.
        -- intros Hlt. apply head_wr; auto.
        -- intros _ Hn. congruence.
  - rewrite Hst in H. cbn [closing_done] in H. rewrite Bool.andb_false_r in H. cbn [andb] in H.
    inv H. exists evs0. splits; auto.
    + left. eexists. split; [reflexivity|]. intros _. exact Ea.
    + left. now apply queued_only_writes.
    + intros _. now apply queued_only_writes.
    + intros Hlt. rewrite <- (app_nil_r evs0). apply head_wr; auto.
    + intros Hle _. destruct (He Hle) as [-> _]. split; [reflexivity|]. now rewrite Hunf.
Qed.

Lemma queued_only_transport (evs : list event) : Forall is_transport_wr_ev evs -> queued evs = [].
Proof.
  induction 1 as [|e evs He _ IH]; [reflexivity|].
  destruct e; cbn in He; try contradiction; cbn [queued]; exact IH.
Qed.

Lemma wr_ev_transport e : is_wr_ev e -> is_transport_wr_ev e.
Proof. destruct e; cbn; auto. Qed.

Lemma flush_none_active x w r x' w' :
  x_additional x = None -> x_state x = Active -> flush x w = (r, x', w') ->
  exists evs, w_log w' = w_log w ++ evs /\ Forall is_transport_wr_ev evs /\
    (r = ROk tt \/ exists k, r = RErr (EIo k)).
Proof.
  intros Ha Hs H. unfold flush, write_ in H. cbv beta iota zeta in H. rewrite Ha in H.
  cbv beta iota in H. rewrite Hs in H. cbn [closing_done] in H. rewrite Bool.andb_false_r in H.
  cbn [andb] in H. cbv beta iota in H.
  destruct (write_out_buffer (x_codec x) w) as [[r1 c1] w1] eqn:EO.
  apply write_out_buffer_spec in EO. destruct EO as [evs [El [_ [Hw [_ [Hr _]]]]]].
  assert (Hw' : Forall is_transport_wr_ev evs).
  { eapply Forall_impl; [|exact Hw]. exact wr_ev_transport. }
  destruct Hr as [[-> _]|[k [-> _]]].
  - destruct (w_flush w1) as [r2 w2] eqn:EF. apply w_flush_spec in EF.
    destruct EF as [fr [El2 [_ Hf]]].
    exists (evs ++ [EvFlush fr]). rewrite app_assoc, <- El.
    assert (Hall : Forall is_transport_wr_ev (evs ++ [EvFlush fr])).
    { apply Forall_app. split; [exact Hw'|]. repeat constructor. }
    destruct Hf as [[-> _]|[k [-> _]]]; inv H; splits; auto. right. exists k. reflexivity.
  - inv H. exists evs. splits; auto. right. exists k. reflexivity.
Qed.

(* the `data` closure of WebSocketContext::write *)
Definition write_data (x : ctx) (f : frame) (w : world) : res unit * ctx * world :=
  let '(r, x1, w1) := write_ x (Some f) w in
  match r with
  | ROk true => flush x1 w1
  | ROk false => (ROk tt, x1, w1)
  | RErr e => (RErr e, x1, w1)
  | RPanic s => (RPanic s, x1, w1)
  | ROutOfFuel => (ROutOfFuel, x1, w1)
  end.

(* the frame a data message is turned into (None: Pong and Close go through the additional slot) *)
Definition data_frame (m : message) : option frame :=
  match m with
  | MText d => Some (frame_message d (OData Text) true)
  | MBinary d => Some (frame_message d (OData Binary) true)
  | MPing d => Some (frame_ping d)
  | MFrame f => Some f
  | MPong _ | MClose _ => None
  end.

Lemma write_data_eq x m f w :
  data_frame m = Some f ->
  write x m w =
  if is_terminated (x_state x) then (RErr EAlreadyClosed, x, w)
  else if negb (is_active (x_state x)) then (RErr (EProtocol SendAfterClosing), x, w)
  else write_data x f w.
Proof. intros H. destruct m; inv H; reflexivity. Qed.

Lemma write_data_spec x f w r x' w' :
  x_state x = Active -> write_data x f w = (r, x', w') ->
  let f1 := sent_frame (x_role x) w f in
  let c := x_codec x in
  (c_max_out c < frame_len f1 + blen (c_out c) /\ r = RErr (EWriteBufferFull f1) /\ x' = x /\
   w' = after_key (x_role x) w)
  \/
  (frame_len f1 + blen (c_out c) <= c_max_out c /\
   (r = ROk tt \/ exists k, r = RErr (EIo k)) /\
   exists evs, w_log w' = w_log w ++ EvQueue f1 :: evs /\
     (queued evs = [] \/
      exists a a', x_additional x = Some a /\ content_eq a a' /\ queued evs = [a']) /\
     (x_additional x = None -> queued evs = []) /\
     (c_write_len c < blen (c_out c) + frame_len f1 -> exists e rest, evs = e :: rest /\ is_wr_ev e) /\
     (blen (c_out c) + frame_len f1 <= c_write_len c -> x_additional x = None ->
      x_unflushed x = false -> evs = [] /\ r = ROk tt)).
Proof.
  intros Hact H f1 c. unfold write_data in H.
  destruct (write_ x (Some f) w) as [[r1 x1] w1] eqn:EW.
  apply (write__some_active _ _ _ _ _ _ Hact) in EW. fold f1 in EW. fold c in EW.
  destruct EW as [[Hfull [-> [-> ->]]]|[Hfit [evs [El [Hst [Hrole [Hr [Hq [Hqn [Hhd Hbt]]]]]]]]]].
  { left. inv H. splits; auto. }
  right. split; [exact Hfit|].
  destruct Hr as [[b [-> Hb]]|[k ->]].
  2:{ inv H. split; [right; exists k; reflexivity|]. exists evs. splits; auto.
      intros Hle Hn _. destruct (Hbt Hle Hn) as [_ Hx]. discriminate Hx. }
  destruct b.
  - apply (flush_none_active _ _ _ _ _ (Hb eq_refl) Hst) in H.
    destruct H as [evs2 [El2 [Hw2 Hr2]]]. split; [exact Hr2|].
    exists (evs ++ evs2). rewrite El2, El, <- app_assoc. cbn [app].
    pose proof (queued_only_transport _ Hw2) as Hq2.
    splits; auto.
    + rewrite queued_app, Hq2, app_nil_r. exact Hq.
    + intros Hn. rewrite queued_app, Hq2, app_nil_r. auto.
    + intros Hlt. destruct (Hhd Hlt) as [e [rest [-> He]]]. exists e, (rest ++ evs2). split; auto.
    + intros Hle Hn Hu. destruct (Hbt Hle Hn) as [_ Hx]. rewrite Hu in Hx. discriminate Hx.
  - inv H. split; [left; reflexivity|]. exists evs. splits; auto.
    intros Hle Hn Hu. destruct (Hbt Hle Hn) as [-> _]. auto.
Qed.

(* ------------------------------------------------------------------------------------------ *)
(** * 13. property-level statements (C10) *)

Lemma c10_inv r part cfg x0 ops w0 rs x w :
  ctx_new r part cfg = Some x0 -> w_log w0 = [] -> run_ops x0 ops w0 = (rs, x, w) ->
  wire (w_log w) ++ c_out (x_codec x) = concat (map frame_format (queued (w_log w))).
Proof. intros Hn Hl Hr. apply tracked_inv. eapply reach_tracked; eassumption. Qed.

(* the invariant is inductive: from any state that satisfies it, through any op list *)
Lemma c10_inv_preserved x ops w rs x' w' :
  run_ops x ops w = (rs, x', w') ->
  wire (w_log w) ++ c_out (x_codec x) = concat (map frame_format (queued (w_log w))) ->
  wire (w_log w') ++ c_out (x_codec x') = concat (map frame_format (queued (w_log w'))).
Proof. intros H Hi. exact (run_ops_wp_inv _ _ _ _ _ _ H Hi). Qed.

Lemma c10_prefix r part cfg x0 ops w0 rs x w :
  ctx_new r part cfg = Some x0 -> w_log w0 = [] -> run_ops x0 ops w0 = (rs, x, w) ->
  exists unsent, concat (map frame_format (queued (w_log w))) = wire (w_log w) ++ unsent.
Proof. intros Hn Hl Hr. exists (c_out (x_codec x)). symmetry. eapply c10_inv; eassumption. Qed.

(* at every instant, also in the middle of a call: cut the log anywhere *)
Lemma c10_prefix_always r part cfg x0 ops w0 rs x w l1 l2 :
  ctx_new r part cfg = Some x0 -> w_log w0 = [] -> run_ops x0 ops w0 = (rs, x, w) ->
  w_log w = l1 ++ l2 ->
  exists unsent, concat (map frame_format (queued l1)) = wire l1 ++ unsent.
Proof.
  intros Hn Hl Hr Hs. pose proof (reach_tracked _ _ _ _ _ _ _ _ _ Hn Hl Hr) as Ht.
  unfold tracked in Ht. rewrite Hs in Ht. apply tracks_prefix in Ht.
  destruct Ht as [o1 [Ht _]]. exists o1. symmetry. apply tracked_inv. exact Ht.
Qed.

(* every transport write was offered exactly the unsent bytes, and what it accepted (any k of the
   n offered) is their first k bytes *)
Lemma c10_write_events r part cfg x0 ops w0 rs x w l1 off acc l2 :
  ctx_new r part cfg = Some x0 -> w_log w0 = [] -> run_ops x0 ops w0 = (rs, x, w) ->
  w_log w = l1 ++ EvWrite off acc :: l2 ->
  exists unsent rest,
    wire l1 ++ unsent = concat (map frame_format (queued l1)) /\
    off = blen unsent /\ unsent = acc ++ rest.
Proof.
  intros Hn Hl Hr Hs. pose proof (reach_tracked _ _ _ _ _ _ _ _ _ Hn Hl Hr) as Ht.
  unfold tracked in Ht. rewrite Hs in Ht. apply tracks_prefix in Ht.
  destruct Ht as [o1 [Ht1 Ht2]]. cbn [tracks] in Ht2. destruct Ht2 as [Ho [rest [Hr2 _]]].
  exists o1, rest. splits; auto. apply tracked_inv. exact Ht1.
Qed.

Lemma c10_accept x m f w r x' w' :
  data_frame m = Some f -> write x m w = (r, x', w') ->
  let f1 := sent_frame (x_role x) w f in
  match r with
  | ROk _ | RErr (EIo _) =>
      exists evs, w_log w' = w_log w ++ EvQueue f1 :: evs /\
        (queued evs = [] \/
         exists a a', x_additional x = Some a /\ content_eq a a' /\ queued evs = [a'])
  | RErr (EWriteBufferFull f') => f' = f1 /\ x' = x /\ w_log w' = w_log w
  | RErr (EProtocol SendAfterClosing) =>
      x_state x <> Active /\ x_state x <> Terminated /\ x' = x /\ w' = w
  | RErr EAlreadyClosed => x_state x = Terminated /\ x' = x /\ w' = w
  | _ => False
  end.
Proof.
  intros Hd H f1. rewrite (write_data_eq _ _ _ _ Hd) in H.
  destruct (x_state x) eqn:Es; cbn [is_terminated is_active negb] in H;
    try (inv H; splits; auto; discriminate).
  apply write_data_spec in H; [|exact Es]. fold f1 in H.
  destruct H as [[_ [-> [-> ->]]]|[_ [Hr [evs [El [Hq _]]]]]].
  - splits; auto. apply after_key_log.
  - destruct Hr as [->|[k ->]]; exists evs; auto.
Qed.

(* in terms of the queued ghost list *)
Lemma c10_accept_queued x m f w r x' w' :
  data_frame m = Some f -> write x m w = (r, x', w') ->
  let f1 := sent_frame (x_role x) w f in
  match r with
  | ROk _ | RErr (EIo _) =>
      exists auto, queued (w_log w') = queued (w_log w) ++ f1 :: auto /\
        (auto = [] \/ exists a a', x_additional x = Some a /\ content_eq a a' /\ auto = [a'])
  | _ => queued (w_log w') = queued (w_log w)
  end.
Proof.
  intros Hd H f1. pose proof (c10_accept _ _ _ _ _ _ _ Hd H) as A. cbv zeta in A. fold f1 in A.
  destruct r as [u|e|s|]; try contradiction.
  - destruct A as [evs [El Hq]]. exists (queued evs). rewrite El, queued_app. split; [reflexivity|].
    destruct Hq as [->|[a [a' [Ha [Hc ->]]]]]; [left; reflexivity|right; exists a, a'; auto].
  - destruct e; try contradiction.
    + destruct A as [_ [-> ->]]. reflexivity.
    + destruct A as [evs [El Hq]]. exists (queued evs). rewrite El, queued_app. split; [reflexivity|].
      destruct Hq as [->|[a [a' [Ha [Hc ->]]]]]; [left; reflexivity|right; exists a, a'; auto].
    + destruct p; try contradiction. destruct A as [_ [_ [-> ->]]]. reflexivity.
    + destruct A as [_ [_ ->]]. reflexivity.
Qed.

Lemma c10_flush x w u x' w' :
  wire (w_log w) ++ c_out (x_codec x) = concat (map frame_format (queued (w_log w))) ->
  flush x w = (ROk u, x', w') ->
  c_out (x_codec x') = [] /\
  wire (w_log w') = concat (map frame_format (queued (w_log w'))) /\
  exists l, w_log w' = l ++ [EvFlush FlOk].
Proof.
  intros Hi H. pose proof (flush_pstep _ _ _ _ _ H) as [[[evs [El Ht]] _] _].
  apply flush_ok in H. destruct H as [Ho [_ Hl]]. splits; auto.
  pose proof (wp_inv_step _ _ _ _ Hi Ht) as Hi'. unfold wp_inv in Hi'.
  rewrite <- El, Ho, app_nil_r in Hi'. exact Hi'.
Qed.

Lemma pstep_log_ext x w x' w' : pstep x w x' w' -> exists evs, w_log w' = w_log w ++ evs.
Proof. intros [[[evs [El _]] _] _]. exists evs. exact El. Qed.

Lemma run_op_log_ext x o w res x' w' :
  run_op x o w = (res, x', w') -> exists evs, w_log w' = w_log w ++ evs.
Proof.
  intros H. destruct (is_setbuf o) eqn:Es.
  - destruct o; try discriminate Es. rewrite run_op_setbuf in H. exists [].
    destruct (wbs <? max); inv H; now rewrite app_nil_r.
  - eapply pstep_log_ext. eapply run_op_pstep; eassumption.
Qed.

Lemma run_ops_log_ext ops : forall x w rs x' w',
  run_ops x ops w = (rs, x', w') -> exists evs, w_log w' = w_log w ++ evs.
Proof.
  induction ops as [|o ops IH]; intros x w rs x' w' H; cbn [run_ops] in H.
  - inv H. exists []. now rewrite app_nil_r.
  - destruct (run_op x o w) as [[r1 x1] w1] eqn:E1.
    destruct (run_ops x1 ops w1) as [[rs2 x2] w2] eqn:E2. inv H.
    apply run_op_log_ext in E1. apply IH in E2. destruct E1 as [e1 L1]. destruct E2 as [e2 L2].
    exists (e1 ++ e2). rewrite L2, L1. now rewrite app_assoc.
Qed.

(* a data message whose write reported a transport error is queued, and once a later flush
   succeeds its encoding is on the wire, right after everything queued before it *)
Lemma c10_retry x m f w k x1 w1 ops rs x2 w2 u x3 w3 :
  wire (w_log w) ++ c_out (x_codec x) = concat (map frame_format (queued (w_log w))) ->
  data_frame m = Some f ->
  write x m w = (RErr (EIo k), x1, w1) ->
  run_ops x1 ops w1 = (rs, x2, w2) ->
  flush x2 w2 = (ROk u, x3, w3) ->
  exists later,
    wire (w_log w3) =
    concat (map frame_format (queued (w_log w))) ++ frame_format (sent_frame (x_role x) w f) ++ later.
Proof.
  intros Hi Hd Hw Hops Hf.
  pose proof (c10_accept_queued _ _ _ _ _ _ _ Hd Hw) as A. cbv zeta in A.
  destruct A as [auto [Hq _]].
  pose proof (write_pstep _ _ _ _ _ _ Hw) as [[[e1 [El1 Ht1]] _] _].
  pose proof (wp_inv_step _ _ _ _ Hi Ht1) as Hi1. rewrite <- El1 in Hi1.
  pose proof (run_ops_wp_inv _ _ _ _ _ _ Hops Hi1) as Hi2.
  destruct (c10_flush _ _ _ _ _ Hi2 Hf) as [_ [Hwire _]].
  apply run_ops_log_ext in Hops. destruct Hops as [e2 Hl2].
  apply flush_pstep, pstep_log_ext in Hf. destruct Hf as [e3 Hl3].
  rewrite Hwire, Hl3, Hl2, !queued_app, Hq.
  rewrite <- !app_assoc. cbn [app]. rewrite !map_app, !concat_app. cbn [map concat].
  rewrite <- ?app_assoc. eexists. reflexivity.
Qed.

(* ------------------------------------------------------------------------------------------ *)
(** * 14. property-level statements (C14) *)

Lemma c14_bound r part cfg x0 ops w0 rs x w :
  ctx_new r part cfg = Some x0 -> run_ops x0 ops w0 = (rs, x, w) ->
  setbuf_nondecreasing (cfg_max_write_buffer_size cfg) ops ->
  blen (c_out (x_codec x)) <= c_max_out (x_codec x) /\
  c_max_out (x_codec x) = cfg_max_write_buffer_size (x_cfg x).
Proof.
  intros Hn Hr Hm. pose proof (reach_cfg_ok _ _ _ _ _ _ _ _ _ Hn Hr) as [Hc _].
  split; [|exact Hc]. apply ctx_new_spec in Hn. destruct Hn as [[Hmx _] [Ho [Hcfg _]]].
  eapply run_ops_bounded; [exact Hr| |].
  - rewrite Hmx, Hcfg. exact Hm.
  - unfold out_bounded. rewrite Ho, blen_nil. lia.
Qed.

Lemma max_hist_no_setbuf ops : forall m, Forall (fun o => is_setbuf o = false) ops -> max_hist m ops = m.
Proof.
  induction ops as [|o ops IH]; intros m H; [reflexivity|]. inversion H as [|? ? Ho Hr]; subst.
  destruct o; try discriminate Ho; cbn [max_hist]; apply IH; exact Hr.
Qed.

Lemma c14_bound_hist r part cfg x0 ops w0 rs x w :
  ctx_new r part cfg = Some x0 -> run_ops x0 ops w0 = (rs, x, w) ->
  blen (c_out (x_codec x)) <= max_hist (cfg_max_write_buffer_size cfg) ops.
Proof.
  intros Hn Hr. apply ctx_new_spec in Hn. destruct Hn as [[Hmx _] [Ho [Hcfg _]]].
  eapply run_ops_bounded_hist; [exact Hr| |].
  - rewrite Ho, blen_nil. lia.
  - rewrite Hmx, Hcfg. lia.
Qed.

Lemma c14_bound_fixed_config r part cfg x0 ops w0 rs x w :
  ctx_new r part cfg = Some x0 -> run_ops x0 ops w0 = (rs, x, w) ->
  Forall (fun o => is_setbuf o = false) ops ->
  blen (c_out (x_codec x)) <= cfg_max_write_buffer_size cfg.
Proof.
  intros Hn Hr Hf. pose proof (c14_bound_hist _ _ _ _ _ _ _ _ _ Hn Hr) as H.
  rewrite (max_hist_no_setbuf _ _ Hf) in H. exact H.
Qed.

(* whatever state we are in (also above the limit after a shrinking set_config), no call other
   than set_config makes out_buffer larger than max(its current size, the limit) *)
Lemma c14_no_growth x o w res x' w' :
  run_op x o w = (res, x', w') -> is_setbuf o = false ->
  blen (c_out (x_codec x')) <= N.max (blen (c_out (x_codec x))) (c_max_out (x_codec x)).
Proof. intros H Hs. destruct (run_op_pstep _ _ _ _ _ _ H Hs) as [[_ [_ [_ Hb]]] _]. exact Hb. Qed.

(* the unrestricted statement is false: set_config may cut the limit below what is buffered *)
Lemma c14_bound_shrink_refuted :
  exists cfg x0 ops w0 rs x w,
    ctx_new Server [] cfg = Some x0 /\ run_ops x0 ops w0 = (rs, x, w) /\
    c_max_out (x_codec x) < blen (c_out (x_codec x)).
Proof.
  exists (mkConfig 100 200 None None false).
  eexists. exists [OpWrite (MBinary [1; 2; 3]); OpSetBuf 0 1], (mkWorld [] [] [] [] []).
  eexists. eexists. eexists.
  split; [reflexivity|]. split; [vm_compute; reflexivity|]. vm_compute. reflexivity.
Qed.

Lemma c14_full x m f w :
  data_frame m = Some f -> x_state x = Active ->
  let f1 := sent_frame (x_role x) w f in
  c_max_out (x_codec x) < frame_len f1 + blen (c_out (x_codec x)) ->
  write x m w = (RErr (EWriteBufferFull f1), x, after_key (x_role x) w).
Proof.
  intros Hd Hs f1 Hfull. destruct (write x m w) as [[r x'] w'] eqn:E.
  rewrite (write_data_eq _ _ _ _ Hd), Hs in E. cbn [is_terminated is_active negb] in E.
  apply write_data_spec in E; [|exact Hs]. fold f1 in E.
  destruct E as [[_ [-> [-> ->]]]|[Hfit _]]; [reflexivity|lia].
Qed.

Lemma c14_full_iff x m f w r x' w' :
  data_frame m = Some f -> x_state x = Active -> write x m w = (r, x', w') ->
  let f1 := sent_frame (x_role x) w f in
  (exists f', r = RErr (EWriteBufferFull f')) <->
  c_max_out (x_codec x) < frame_len f1 + blen (c_out (x_codec x)).
Proof.
  intros Hd Hs H f1. split.
  - intros [f' ->]. rewrite (write_data_eq _ _ _ _ Hd), Hs in H. cbn [is_terminated is_active negb] in H.
    apply write_data_spec in H; [|exact Hs]. fold f1 in H.
    destruct H as [[Hfull _]|[_ [[Hr|[k Hr]] _]]]; [exact Hfull|discriminate Hr|discriminate Hr].
  - intros Hfull. rewrite (c14_full _ _ _ _ Hd Hs Hfull) in H. inv H. eexists. reflexivity.
Qed.

Lemma c14_accept_when_room x m f w :
  data_frame m = Some f -> x_state x = Active ->
  let f1 := sent_frame (x_role x) w f in
  frame_len f1 + blen (c_out (x_codec x)) <= c_max_out (x_codec x) ->
  exists r x' w' evs,
    write x m w = (r, x', w') /\ (r = ROk tt \/ exists k, r = RErr (EIo k)) /\
    w_log w' = w_log w ++ EvQueue f1 :: evs.
Proof.
  intros Hd Hs f1 Hfit. destruct (write x m w) as [[r x'] w'] eqn:E.
  rewrite (write_data_eq _ _ _ _ Hd), Hs in E. cbn [is_terminated is_active negb] in E.
  apply write_data_spec in E; [|exact Hs]. fold f1 in E.
  destruct E as [[Hfull _]|[_ [Hr [evs [El _]]]]]; [lia|].
  exists r, x', w', evs. splits; auto.
Qed.

Lemma c14_batching x m f w :
  data_frame m = Some f -> x_state x = Active -> x_additional x = None -> x_unflushed x = false ->
  let f1 := sent_frame (x_role x) w f in
  blen (c_out (x_codec x)) + frame_len f1 <= c_write_len (x_codec x) ->
  c_write_len (x_codec x) <= c_max_out (x_codec x) ->
  exists x' w',
    write x m w = (ROk tt, x', w') /\ w_log w' = w_log w ++ [EvQueue f1] /\
    c_out (x_codec x') = c_out (x_codec x) ++ frame_format f1.
Proof.
  intros Hd Hs Ha Hu f1 Hle Hcfg. destruct (write x m w) as [[r x'] w'] eqn:E.
  pose proof (write_pstep _ _ _ _ _ _ E) as [[[evs' [El' Ht']] _] _].
  rewrite (write_data_eq _ _ _ _ Hd), Hs in E. cbn [is_terminated is_active negb] in E.
  apply write_data_spec in E; [|exact Hs]. fold f1 in E.
  destruct E as [[Hfull _]|[_ [_ [evs [El [_ [_ [_ Hb]]]]]]]]; [lia|].
  destruct (Hb Hle Ha Hu) as [-> ->]. exists x', w'. splits; auto.
  rewrite El in El'. apply app_inv_head in El'. subst evs'. cbn [tracks] in Ht'. exact Ht'.
Qed.

Definition wr_offered (e : event) : N :=
  match e with EvWrite o _ | EvWriteErr o _ => o | _ => 0 end.

Lemma c14_threshold x m f w :
  data_frame m = Some f -> x_state x = Active ->
  let f1 := sent_frame (x_role x) w f in
  frame_len f1 + blen (c_out (x_codec x)) <= c_max_out (x_codec x) ->
  c_write_len (x_codec x) < blen (c_out (x_codec x)) + frame_len f1 ->
  exists r x' w' e rest,
    write x m w = (r, x', w') /\ w_log w' = w_log w ++ EvQueue f1 :: e :: rest /\
    is_wr_ev e /\ wr_offered e = blen (c_out (x_codec x) ++ frame_format f1).
Proof.
  intros Hd Hs f1 Hfit Hlt. destruct (write x m w) as [[r x'] w'] eqn:E.
  pose proof (write_pstep _ _ _ _ _ _ E) as [[[evs' [El' Ht']] _] _].
  rewrite (write_data_eq _ _ _ _ Hd), Hs in E. cbn [is_terminated is_active negb] in E.
  apply write_data_spec in E; [|exact Hs]. fold f1 in E.
  destruct E as [[Hfull _]|[_ [_ [evs [El [_ [_ [Hh _]]]]]]]]; [lia|].
  destruct (Hh Hlt) as [e [rest [-> He]]]. exists r, x', w', e, rest. splits; auto.
  rewrite El in El'. apply app_inv_head in El'. subst evs'. cbn [tracks] in Ht'.
  destruct e; cbn in He; try contradiction; cbn [tracks wr_offered] in *; tauto.
Qed.

Lemma c14_eager x m f w :
  data_frame m = Some f -> x_state x = Active -> c_write_len (x_codec x) = 0 ->
  let f1 := sent_frame (x_role x) w f in
  frame_len f1 + blen (c_out (x_codec x)) <= c_max_out (x_codec x) ->
  exists r x' w' e rest,
    write x m w = (r, x', w') /\ w_log w' = w_log w ++ EvQueue f1 :: e :: rest /\
    is_wr_ev e /\ wr_offered e = blen (c_out (x_codec x) ++ frame_format f1).
Proof.
  intros Hd Hs Hz f1 Hfit. apply c14_threshold; auto. fold f1.
  pose proof (frame_len_ge2 f1). lia.
Qed.

Lemma c14_config_new r part cfg x :
  ctx_new r part cfg = Some x ->
  c_max_out (x_codec x) = cfg_max_write_buffer_size cfg /\
  c_write_len (x_codec x) = cfg_write_buffer_size cfg /\ x_cfg x = cfg /\
  cfg_write_buffer_size cfg < cfg_max_write_buffer_size cfg.
Proof.
  intros H. apply ctx_new_spec in H. destruct H as [[Hm [Hw Hv]] [_ [Hc _]]].
  rewrite Hc in *. splits; auto. unfold config_valid in Hv. lia.
Qed.

Lemma c14_config_set x wbs max w res x' w' :
  run_op x (OpSetBuf wbs max) w = (res, x', w') ->
  (wbs < max /\ res = ResUnit (ROk tt) /\ w' = w /\
   c_max_out (x_codec x') = max /\ c_write_len (x_codec x') = wbs /\
   cfg_max_write_buffer_size (x_cfg x') = max /\ cfg_write_buffer_size (x_cfg x') = wbs /\
   c_out (x_codec x') = c_out (x_codec x) /\ x_state x' = x_state x /\
   x_additional x' = x_additional x) \/
  (max <= wbs /\ res = ResUnit (RPanic site_config_invalid) /\ x' = x /\ w' = w).
Proof.
  rewrite run_op_setbuf. destruct (wbs <? max) eqn:E; intros H; inv H; [left|right]; cbn; splits; auto; lia.
Qed.

Lemma c14_config_inv r part cfg x0 ops w0 rs x w :
  ctx_new r part cfg = Some x0 -> run_ops x0 ops w0 = (rs, x, w) ->
  c_max_out (x_codec x) = cfg_max_write_buffer_size (x_cfg x) /\
  c_write_len (x_codec x) = cfg_write_buffer_size (x_cfg x) /\
  cfg_write_buffer_size (x_cfg x) < cfg_max_write_buffer_size (x_cfg x).
Proof.
  intros Hn Hr. pose proof (reach_cfg_ok _ _ _ _ _ _ _ _ _ Hn Hr) as [Hm [Hw Hv]].
  splits; auto. unfold config_valid in Hv. lia.
Qed.

(* ------------------------------------------------------------------------------------------ *)
(** * 15. the additional_send slot: Pong and Close travel through it and are never lost *)

(* what a call did with the frame pending in the slot: nothing pending -> nothing queued;
   pending a -> either nothing was queued and (a re-masked copy of) a is still pending, or exactly
   (a masked copy of) a was queued and the slot is empty *)
Definition slot_outcome (x : ctx) (evs : list event) (x' : ctx) : Prop :=
  match x_additional x with
  | None => queued evs = [] /\ x_additional x' = None
  | Some a =>
      (queued evs = [] /\ exists a', x_additional x' = Some a' /\ content_eq a a') \/
      (exists a', queued evs = [a'] /\ content_eq a a' /\ x_additional x' = None)
  end.

Lemma write__none_slot x w r x' w' :
  write_ x None w = (r, x', w') ->
  exists evs, w_log w' = w_log w ++ evs /\ slot_outcome x evs x'.
Proof.
  intros H. unfold write_ in H. cbv beta iota zeta in H. unfold slot_outcome.
  destruct (x_additional x) as [a|] eqn:Ea.
  - destruct (buffer_frame (set_additional_raw x None) a w) as [[rb xb] wb] eqn:EB.
    apply buffer_frame_spec in EB. cbn [x_role x_codec x_state set_additional_raw] in EB.
    destruct EB as [[Hfull [-> [-> ->]]]|[Hfit [evs1 [El1 [Ht1 [Hw1 [Hb1 [Hx1 [Hr1 _]]]]]]]]].
    + (* no room: back into the slot *)
      unfold set_additional in H. cbn [x_additional set_additional_raw x_role x_state] in H.
      rewrite Bool.andb_false_r in H. inv H.
      exists []. rewrite app_nil_r, after_key_log. split; [reflexivity|]. left.
      split; [reflexivity|]. eexists. split; [reflexivity|]. apply sent_frame_content.
    + assert (Haddb : x_additional xb = None) by (rewrite Hx1; reflexivity).
      assert (Hq : forall more, Forall is_wr_ev more ->
                 queued (EvQueue (sent_frame (x_role x) w a) :: evs1 ++ more) = [sent_frame (x_role x) w a]).
      { intros more Hm. cbn [queued]. rewrite queued_app, !queued_only_writes by assumption. reflexivity. }
      destruct Hr1 as [[-> _]|[[k [-> _]]|[-> _]]].
      * cbn [x_additional x_role x_state x_codec set_unflushed] in H. rewrite Haddb in H.
        destruct (role_eqb (x_role xb) Server && closing_done (x_state xb) && true).
        -- destruct (write_out_buffer (x_codec xb) wb) as [[rw c2] w2] eqn:EO.
           apply write_out_buffer_spec in EO. destruct EO as [evs2 [El2 [_ [Hw2 _]]]].
           assert (Hres : w' = w2 /\ x_additional x' = None)
             by (destruct rw; inv H; (split; [reflexivity|exact Haddb])).
           destruct Hres as [-> Hax].
           exists (EvQueue (sent_frame (x_role x) w a) :: evs1 ++ evs2).
           split; [rewrite El2, El1, <- app_assoc; reflexivity|]. right.
           exists (sent_frame (x_role x) w a). split; [apply Hq; exact Hw2|].
           split; [apply sent_frame_content|exact Hax].
        -- inv H. exists (EvQueue (sent_frame (x_role x) w a) :: evs1 ++ []).
           split; [rewrite app_nil_r; exact El1|]. right.
           exists (sent_frame (x_role x) w a). split; [apply Hq; constructor|].
           split; [apply sent_frame_content|exact Haddb].
      * inv H. exists (EvQueue (sent_frame (x_role x) w a) :: evs1 ++ []).
        split; [rewrite app_nil_r; exact El1|]. right.
        exists (sent_frame (x_role x) w a). split; [apply Hq; constructor|].
        split; [apply sent_frame_content|exact Haddb].
      * inv H. exists (EvQueue (sent_frame (x_role x) w a) :: evs1 ++ []).
        split; [rewrite app_nil_r; exact El1|]. right.
        exists (sent_frame (x_role x) w a). split; [apply Hq; constructor|].
        split; [apply sent_frame_content|exact Haddb].
  - rewrite Ea in H.
    destruct (role_eqb (x_role x) Server && closing_done (x_state x) && true).
    + destruct (write_out_buffer (x_codec x) w) as [[rw c2] w2] eqn:EO.
      apply write_out_buffer_spec in EO. destruct EO as [evs2 [El2 [_ [Hw2 _]]]].
      assert (Hres : w' = w2 /\ x_additional x' = None)
        by (destruct rw; inv H; (split; [reflexivity|exact Ea])).
      destruct Hres as [-> Hax].
      exists evs2. split; [exact El2|]. split; [now apply queued_only_writes|exact Hax].
    + inv H. exists []. rewrite app_nil_r. splits; auto.
Qed.

Lemma flush_slot x w r x' w' :
  flush x w = (r, x', w') ->
  exists evs, w_log w' = w_log w ++ evs /\ slot_outcome x evs x'.
Proof.
  intros H. unfold flush in H.
  destruct (write_ x None w) as [[r0 x0] w0] eqn:EW.
  apply write__none_slot in EW. destruct EW as [evs0 [El0 Hs0]].
  assert (Hext : forall more xx, Forall is_transport_wr_ev more -> x_additional xx = x_additional x0 ->
                 slot_outcome x (evs0 ++ more) xx).
  { intros more xx Hm Hxx. unfold slot_outcome in *. rewrite queued_app, (queued_only_transport _ Hm), app_nil_r, Hxx.
    exact Hs0. }
  destruct r0 as [b|e|s|];
    try (inv H; exists (evs0 ++ []); split; [rewrite app_nil_r; exact El0|apply Hext; [constructor|reflexivity]]).
  destruct (write_out_buffer (x_codec x0) w0) as [[r1 c1] w1] eqn:EO.
  apply write_out_buffer_spec in EO. destruct EO as [evs1 [El1 [_ [Hw1 _]]]].
  assert (Hw1' : Forall is_transport_wr_ev evs1).
  { eapply Forall_impl; [|exact Hw1]. exact wr_ev_transport. }
  destruct r1 as [u|e|s|];
    try (inv H; exists (evs0 ++ evs1); split; [rewrite El1, El0, app_assoc; reflexivity|apply Hext; [exact Hw1'|reflexivity]]).
  destruct (w_flush w1) as [r2 w2] eqn:EF. apply w_flush_spec in EF. destruct EF as [fr [El2 _]].
  assert (Hres : w' = w2 /\ x_additional x' = x_additional x0)
    by (destruct r2; inv H; (split; reflexivity)).
  destruct Hres as [-> Hax].
  exists (evs0 ++ evs1 ++ [EvFlush fr]).
  split; [rewrite El2, El1, El0, <- !app_assoc; reflexivity|].
  assert (Hall : Forall is_transport_wr_ev (evs1 ++ [EvFlush fr])).
  { apply Forall_app. split; [exact Hw1'|repeat constructor]. }
  apply Hext; auto.
Qed.

(* write(Pong d) on an active connection: the pong replaces an empty slot or a pending pong; the
   call never queues anything but the slot's frame, and leaves it pending otherwise *)
Lemma c10_accept_pong x d w r x' w' :
  x_state x = Active -> write x (MPong d) w = (r, x', w') ->
  exists evs, w_log w' = w_log w ++ evs /\ slot_outcome (set_additional x (frame_pong d)) evs x'.
Proof.
  intros Hs H. unfold write in H. rewrite Hs in H. cbn [is_terminated is_active negb] in H.
  destruct (write_ (set_additional x (frame_pong d)) None w) as [[r0 x0] w0] eqn:EW.
  apply write__none_slot in EW. destruct r0; inv H; exact EW.
Qed.

Lemma set_additional_pong_slot x d :
  (x_additional x = None \/
   exists a, x_additional x = Some a /\ h_opcode (f_hdr a) = OCtl Pong) ->
  x_additional (set_additional x (frame_pong d)) = Some (frame_pong d).
Proof.
  unfold set_additional. intros [Hn|[a [Ha Hp]]].
  - rewrite Hn. reflexivity.
  - rewrite Ha, Hp. reflexivity.
Qed.

(* close(code) on an active connection: the Close frame is put into the slot (overriding a pending
   pong) and is then either queued by this very call or still pending *)
Lemma c10_accept_close x code w r x' w' :
  x_state x = Active -> write x (MClose code) w = (r, x', w') ->
  exists evs, w_log w' = w_log w ++ evs /\
    ((queued evs = [] /\ exists a', x_additional x' = Some a' /\ content_eq (frame_close code) a') \/
     (exists a', queued evs = [a'] /\ content_eq (frame_close code) a' /\ x_additional x' = None)).
Proof.
  intros Hs H. unfold write in H. rewrite Hs in H. cbn [is_terminated is_active negb] in H.
  unfold close in H. rewrite Hs in H. apply flush_slot in H. exact H.
Qed.

(* the design's unrestricted C10_accept ("Ok => its frame was appended to queued") is false for
   Pong: when the buffer has no room the pong stays in the slot and the call still returns Ok *)
Lemma c10_accept_pong_refuted :
  exists x0 w0 x1 w1,
    ctx_new Server [] (mkConfig 0 3 None None false) = Some x0 /\
    write x0 (MPong [1; 2]) w0 = (ROk tt, x1, w1) /\
    queued (w_log w1) = queued (w_log w0) /\ x_additional x1 = Some (frame_pong [1; 2]).
Proof.
  eexists. exists (mkWorld [] [] [] [] []). eexists. eexists.
  split; [reflexivity|]. split; [vm_compute; reflexivity|]. split; vm_compute; reflexivity.
Qed.

(* ------------------------------------------------------------------------------------------ *)
(** * 16. the slot only ever holds one automatic control frame (a Pong or a Close) *)

Definition ctl_frame (a : frame) : Prop :=
  h_opcode (f_hdr a) = OCtl Pong \/ h_opcode (f_hdr a) = OCtl Close.

Definition slot_ctl (x : ctx) : Prop :=
  match x_additional x with None => True | Some a => ctl_frame a end.

Lemma ctl_frame_pong d : ctl_frame (frame_pong d).
Proof. left. reflexivity. Qed.
Lemma ctl_frame_close c : ctl_frame (frame_close c).
Proof. right. reflexivity. Qed.

Lemma ctl_frame_content a a' : content_eq a a' -> ctl_frame a -> ctl_frame a'.
Proof. intros [_ [Ho _]] H. unfold ctl_frame in *. rewrite Ho. exact H. Qed.

Lemma slot_ctl_ext x y : x_additional y = x_additional x -> slot_ctl x -> slot_ctl y.
Proof. unfold slot_ctl. intros ->. auto. Qed.

Lemma slot_ctl_set_state x s : slot_ctl x -> slot_ctl (set_state x s).
Proof. exact (fun H => H). Qed.
Lemma slot_ctl_set_codec x c : slot_ctl x -> slot_ctl (set_codec x c).
Proof. exact (fun H => H). Qed.
Lemma slot_ctl_set_incomplete x i : slot_ctl x -> slot_ctl (set_incomplete x i).
Proof. exact (fun H => H). Qed.
Lemma slot_ctl_set_unflushed x b : slot_ctl x -> slot_ctl (set_unflushed x b).
Proof. exact (fun H => H). Qed.
Lemma slot_ctl_set_raw_none x : slot_ctl (set_additional_raw x None).
Proof. exact I. Qed.
Lemma slot_ctl_set_raw_some x a : ctl_frame a -> slot_ctl (set_additional_raw x (Some a)).
Proof. exact (fun H => H). Qed.
Lemma slot_ctl_set_additional x a : slot_ctl x -> ctl_frame a -> slot_ctl (set_additional x a).
Proof.
  unfold set_additional. intros H Ha. destruct (x_additional x) as [f|] eqn:E.
  - destruct (opcode_eqb (h_opcode (f_hdr f)) (OCtl Pong)); [exact Ha|exact H].
  - exact Ha.
Qed.

Ltac slot_auto :=
  eauto 12 using slot_ctl_set_state, slot_ctl_set_codec, slot_ctl_set_incomplete, slot_ctl_set_unflushed,
    slot_ctl_set_raw_none, slot_ctl_set_raw_some, slot_ctl_set_additional, ctl_frame_pong, ctl_frame_close.

Lemma slot_outcome_ctl x evs x' : slot_outcome x evs x' -> slot_ctl x -> slot_ctl x'.
Proof.
  unfold slot_outcome, slot_ctl. destruct (x_additional x) as [a|].
  - intros [[_ [a' [-> Hc]]]|[a' [_ [_ ->]]]] H; [eapply ctl_frame_content; eassumption|exact I].
  - intros [_ ->] _. exact I.
Qed.

Lemma write__some_unfold x f w :
  write_ x (Some f) w =
  let '(r0, x0, w0) := buffer_frame x f w in
  match r0 with
  | ROk _ => write_ x0 None w0
  | RErr e => (RErr e, x0, w0)
  | RPanic s => (RPanic s, x0, w0)
  | ROutOfFuel => (ROutOfFuel, x0, w0)
  end.
Proof. unfold write_. destruct (buffer_frame x f w) as [[[u|e|s|] x0] w0]; reflexivity. Qed.

Lemma buffer_frame_slot x f w r x' w' :
  buffer_frame x f w = (r, x', w') -> x_additional x' = x_additional x.
Proof.
  rewrite buffer_frame_unfold. cbv zeta.
  destruct (codec_buffer_frame (x_codec x) (sent_frame (x_role x) w f) (after_key (x_role x) w))
    as [[r0 c0] w0].
  destruct (check_connection_reset r0 (x_state x)) as [r1 s1]. intros H. inv H. reflexivity.
Qed.

Lemma write__slot_ctl x data w r x' w' : write_ x data w = (r, x', w') -> slot_ctl x -> slot_ctl x'.
Proof.
  destruct data as [f|].
  - rewrite write__some_unfold. destruct (buffer_frame x f w) as [[r0 x0] w0] eqn:EB.
    apply buffer_frame_slot in EB. intros H Hs.
    assert (Hs0 : slot_ctl x0) by (eapply slot_ctl_ext; eassumption).
    destruct r0; try (inv H; exact Hs0).
    apply write__none_slot in H. destruct H as [evs [_ Ho]]. eapply slot_outcome_ctl; eassumption.
  - intros H. apply write__none_slot in H. destruct H as [evs [_ Ho]]. eapply slot_outcome_ctl; eassumption.
Qed.

Lemma flush_slot_ctl x w r x' w' : flush x w = (r, x', w') -> slot_ctl x -> slot_ctl x'.
Proof. intros H. apply flush_slot in H. destruct H as [evs [_ Ho]]. eapply slot_outcome_ctl; eassumption. Qed.

Lemma close_slot_ctl x code w r x' w' : close x code w = (r, x', w') -> slot_ctl x -> slot_ctl x'.
Proof.
  unfold close. intros H Hs.
  destruct (x_state x); apply flush_slot_ctl in H; auto. exact (ctl_frame_close code).
Qed.

Lemma write_slot_ctl x m w r x' w' : write x m w = (r, x', w') -> slot_ctl x -> slot_ctl x'.
Proof.
  unfold write. intros H Hs.
  destruct (is_terminated (x_state x)); [inv H; exact Hs|].
  destruct (negb (is_active (x_state x))); [inv H; exact Hs|].
  assert (Hdata : forall f, (let '(r, x1, w1) := write_ x (Some f) w in
                   match r with
                   | ROk true => flush x1 w1 | ROk false => (ROk tt, x1, w1)
                   | RErr e => (RErr e, x1, w1) | RPanic s => (RPanic s, x1, w1)
                   | ROutOfFuel => (ROutOfFuel, x1, w1) end) = (r, x', w') -> slot_ctl x').
  { intros f Hd. destruct (write_ x (Some f) w) as [[r1 x1] w1] eqn:EW.
    apply write__slot_ctl in EW; [|exact Hs].
    destruct r1 as [[|]|e|s|]; try (inv Hd; exact EW). eapply flush_slot_ctl; eassumption. }
  destruct m; try (eapply Hdata; exact H).
  - destruct (write_ (set_additional x (frame_pong b)) None w) as [[r1 x1] w1] eqn:EW.
    apply write__slot_ctl in EW; [|apply slot_ctl_set_additional; [exact Hs|apply ctl_frame_pong]].
    destruct r1; inv H; exact EW.
  - eapply close_slot_ctl; eassumption.
Qed.

Lemma do_close_slot_ctl x cl r x' : do_close x cl = (r, x') -> slot_ctl x -> slot_ctl x'.
Proof.
  unfold do_close. intros H Hs. destruct (x_state x); inv H; slot_auto.
Qed.

Lemma read_message_frame_slot_ctl x w r x' w' :
  read_message_frame x w = (r, x', w') -> slot_ctl x -> slot_ctl x'.
Proof.
  unfold read_message_frame. intros H Hs.
  destruct (read_frame (cfg_max_frame_size (x_cfg x)) (role_eqb (x_role x) Server)
              (cfg_accept_unmasked (x_cfg x)) (x_codec x) w) as [[r0 c1] w1] eqn:ER.
  destruct (check_connection_reset r0 (x_state x)) as [r0' s1] eqn:EC.
  assert (Hs1 : slot_ctl (set_state (set_codec x c1) s1)) by exact Hs.
  repeat dm_in H;
    repeat match goal with
    | E : do_close _ _ = _ |- _ => apply do_close_slot_ctl in E; [|exact Hs1]
    end;
    inv H; slot_auto.
Qed.

Lemma read_loop_slot_ctl (fuel : nat) : forall x w r x' w',
  read_loop fuel x w = (r, x', w') -> slot_ctl x -> slot_ctl x'.
Proof.
  induction fuel as [|fuel IH]; intros x w r x' w' H Hs.
  - cbn [read_loop] in H. inv H. exact Hs.
  - cbn [read_loop] in H.
    match type of H with
    | (match ?e with _ => _ end) = _ => destruct e as [[r0 x0] w0] eqn:E0
    end.
    assert (Hs0 : slot_ctl x0).
    { clear H. repeat dm_in E0;
        repeat match goal with
        | E : flush _ _ = _ |- _ => apply flush_slot_ctl in E; [|exact Hs]
        end;
        inv E0; slot_auto. }
    destruct r0 as [u|e|s|]; try (inv H; exact Hs0).
    destruct (read_message_frame x0 w0) as [[r1 x1] w1] eqn:E1.
    apply read_message_frame_slot_ctl in E1; [|exact Hs0].
    destruct r1 as [[m|]|e|s|]; try (inv H; exact E1).
    eapply IH; eassumption.
Qed.

Lemma read_slot_ctl x w r x' w' : read x w = (r, x', w') -> slot_ctl x -> slot_ctl x'.
Proof.
  unfold read. intros H Hs. destruct (is_terminated (x_state x)); [inv H; exact Hs|].
  eapply read_loop_slot_ctl; eassumption.
Qed.

Lemma run_op_slot_ctl x o w res x' w' : run_op x o w = (res, x', w') -> slot_ctl x -> slot_ctl x'.
Proof.
  intros H Hs. destruct o; cbn [run_op] in H.
  - destruct (read x w) as [[r x1] w1] eqn:E. inv H. eapply read_slot_ctl; eassumption.
  - destruct (write x m w) as [[r x1] w1] eqn:E. inv H. eapply write_slot_ctl; eassumption.
  - destruct (flush x w) as [[r x1] w1] eqn:E. inv H. eapply flush_slot_ctl; eassumption.
  - destruct (close x c w) as [[r x1] w1] eqn:E. inv H. eapply close_slot_ctl; eassumption.
  - inv H. exact Hs.
  - inv H. exact Hs.
  - destruct (config_valid _); inv H; exact Hs.
Qed.

Lemma run_ops_slot_ctl ops : forall x w rs x' w',
  run_ops x ops w = (rs, x', w') -> slot_ctl x -> slot_ctl x'.
Proof.
  induction ops as [|o ops IH]; intros x w rs x' w' H Ht; cbn [run_ops] in H.
  - inv H. exact Ht.
  - destruct (run_op x o w) as [[r1 x1] w1] eqn:E1.
    destruct (run_ops x1 ops w1) as [[rs2 x2] w2] eqn:E2. inv H.
    eapply IH; [exact E2|]. eapply run_op_slot_ctl; eassumption.
Qed.

(* in every reachable state the slot is empty or holds exactly one Pong or Close frame *)
Lemma c14_slot_ctl r part cfg x0 ops w0 rs x w :
  ctx_new r part cfg = Some x0 -> run_ops x0 ops w0 = (rs, x, w) ->
  match x_additional x with
  | None => True
  | Some a => h_opcode (f_hdr a) = OCtl Pong \/ h_opcode (f_hdr a) = OCtl Close
  end.
Proof.
  intros Hn Hr. apply ctx_new_spec in Hn. destruct Hn as [_ [_ [_ [_ [_ [Ha _]]]]]].
  apply (run_ops_slot_ctl _ _ _ _ _ _ Hr). unfold slot_ctl. rewrite Ha. exact I.
Qed.

(* expanded forms for the property files *)
Lemma c10_accept_pong_std x d w r x' w' :
  x_state x = Active ->
  (x_additional x = None \/ exists a, x_additional x = Some a /\ h_opcode (f_hdr a) = OCtl Pong) ->
  write x (MPong d) w = (r, x', w') ->
  exists evs, w_log w' = w_log w ++ evs /\
    ((queued evs = [] /\ exists a', x_additional x' = Some a' /\ content_eq (frame_pong d) a') \/
     (exists a', queued evs = [a'] /\ content_eq (frame_pong d) a' /\ x_additional x' = None)).
Proof.
  intros Hs Hslot H. apply (c10_accept_pong _ _ _ _ _ _ Hs) in H. destruct H as [evs [El Ho]].
  exists evs. split; [exact El|]. unfold slot_outcome in Ho.
  rewrite (set_additional_pong_slot _ d Hslot) in Ho. exact Ho.
Qed.

Lemma c10_flush_slot x w r x' w' :
  flush x w = (r, x', w') ->
  exists evs, w_log w' = w_log w ++ evs /\
    match x_additional x with
    | None => queued evs = [] /\ x_additional x' = None
    | Some a =>
        (queued evs = [] /\ exists a', x_additional x' = Some a' /\ content_eq a a') \/
        (exists a', queued evs = [a'] /\ content_eq a a' /\ x_additional x' = None)
    end.
Proof. exact (flush_slot x w r x' w'). Qed.
