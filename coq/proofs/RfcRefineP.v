(* proofs/RfcRefineP.v — C02: Protocol.read refines the independent RFC 6455 specification SpecRfc.v.

   Contents
   A. framing: the whole-stream reference decoder of CodecReadP (built on header_parse) cuts a well-formed
      byte stream exactly as the declarative rfc_frames does
   B. one frame: post_frame + on_frame (= read_message_frame after read_frame_loop) is one rfc_step
   C. lifting: flush is invisible to the read side, read_loop, successive reads, run_ops
   D. corollaries per rule                                                                          *)
From TungModel Require Import Base Coding Mask Header Frame Utf8 World Message Codec Protocol.
From TungModel.proofs Require Import CodingP HeaderP MaskP Utf8P CodecReadP SpecRfc.
From Coq Require Import Arith Lia ZifyBool ZifyNat ZifyN.

Arguments N.add : simpl never.
Arguments N.sub : simpl never.
Arguments N.mul : simpl never.
Arguments N.div : simpl never.
Arguments N.modulo : simpl never.
Arguments N.leb : simpl never.
Arguments N.ltb : simpl never.
Arguments N.eqb : simpl never.
Arguments N.land : simpl never.
Arguments N.of_nat : simpl never.
Arguments N.to_nat : simpl never.

(* ------------------------------------------------------------------------------------------- *)
(** * A. Framing *)

(** ** A.1 bytes *)

Lemma land15_mod b : N.land b 15 = b mod 16.
Proof. change 15 with (N.ones 4). rewrite N.land_ones. reflexivity. Qed.

Lemma land127_mod b : N.land b 127 = b mod 128.
Proof. change 127 with (N.ones 7). rewrite N.land_ones. reflexivity. Qed.

Definition bits_check (b : N) : bool :=
  Bool.eqb (bit b 128) (bitset b 128) && Bool.eqb (bit b 64) (bitset b 64) &&
  Bool.eqb (bit b 32) (bitset b 32) && Bool.eqb (bit b 16) (bitset b 16) &&
  Bool.eqb (bit b 128) (128 <=? b).

Lemma bits_check_all : forallb bits_check all_bytes = true.
Proof. vm_compute. reflexivity. Qed.

Lemma bits_agree b : b < 256 ->
  bit b 128 = bitset b 128 /\ bit b 64 = bitset b 64 /\ bit b 32 = bitset b 32 /\ bit b 16 = bitset b 16 /\
  bit b 128 = (128 <=? b).
Proof.
  intros Hb. pose proof (byte_sweep _ bits_check_all b Hb) as H. unfold bits_check in H.
  rewrite !andb_true_iff in H. destruct H as [[[[H1 H2] H3] H4] H5].
  apply eqb_prop in H1, H2, H3, H4, H5. auto.
Qed.

(** ** A.2 one header *)

Definition opc_of (n : N) : opcode := match opcode_of_u8 n with Some o => o | None => OCtl Close end.

Definition hdr_of (h : raw_header) : header :=
  mkHeader (rh_fin h) (rh_rsv1 h) (rh_rsv2 h) (rh_rsv3 h) (opc_of (rh_opcode h)) (rh_key h).

Lemma reserved_opcode_iff n o : opcode_of_u8 n = Some o -> is_reserved o = reserved_opcode n.
Proof.
  intros H. pose proof (opcode_of_u8_lt _ _ H) as Hn.
  pose proof (opcode_reserved_iff _ _ H) as [H1 H2]. unfold reserved_nibble in *.
  unfold reserved_opcode. destruct (is_reserved o).
  - specialize (H1 eq_refl). lia.
  - destruct (((3 <=? n) && (n <=? 7)) || (11 <=? n)) eqn:E; [|reflexivity].
    assert (X : false = true) by (apply H2; lia). discriminate X.
Qed.

Lemma skipn_dropN {A} (n : nat) (l : list A) : skipn n l = dropN (N.of_nat n) l.
Proof. unfold dropN. rewrite Nat2N.id. reflexivity. Qed.

Lemma firstn_takeN {A} (n : nat) (l : list A) : firstn n l = takeN (N.of_nat n) l.
Proof. unfold takeN. rewrite Nat2N.id. reflexivity. Qed.

(* header_parse in terms of the declarative header *)
Definition hp_of (bs : bytes) (h : raw_header) (rest : bytes) : Prop :=
  rh_opcode h < 16 /\
  exists k, 2 <= k <= blen bs /\ rest = dropN k bs /\
    header_parse bs = if reserved_opcode (rh_opcode h) then PErr (rh_opcode h)
                      else POk (hdr_of h) (rh_len h) k.

Lemma dropN_cons2 {A} (a b : A) (l : list A) n : dropN (2 + n) (a :: b :: l) = dropN n l.
Proof. unfold dropN. replace (N.to_nat (2 + n)) with (S (S (N.to_nat n))) by lia. reflexivity. Qed.

Lemma skipn_skipn' {A} (n : nat) : forall (m : nat) (l : list A), skipn m (skipn n l) = skipn (n + m) l.
Proof.
  induction n as [|n IH]; intros m l; [reflexivity|].
  destruct l as [|x l]; [rewrite !skipn_nil; reflexivity|]. cbn [skipn Nat.add]. apply IH.
Qed.

Lemma dropN_dropN {A} (l : list A) n m : dropN m (dropN n l) = dropN (n + m) l.
Proof. unfold dropN. rewrite skipn_skipn'. f_equal. lia. Qed.

Lemma dropN_4 {A} (a b c d : A) (l : list A) : dropN 4 (a :: b :: c :: d :: l) = l.
Proof. reflexivity. Qed.

Section OneHeader.
Variables (b0 b1 : N) (r : bytes) (opc : opcode).
Hypothesis Eo : opcode_of_u8 (b0 mod 16) = Some opc.
Let bs := b0 :: b1 :: r.
Let mk (k : option key) (len : N) :=
  mkRawHeader (bitset b0 128) (bitset b0 64) (bitset b0 32) (bitset b0 16) (b0 mod 16) k len.

Lemma hp_of_unmasked ll len :
  header_parse bs = (if is_reserved opc then PErr (b0 mod 16)
                     else POk (mkHeader (bitset b0 128) (bitset b0 64) (bitset b0 32) (bitset b0 16) opc None)
                              len (2 + ll)) ->
  ll <= blen r ->
  hp_of bs (mk None len) (dropN ll r).
Proof.
  intros Hp Hl. split; [cbn [rh_opcode mk]; apply N.mod_lt; discriminate|].
  exists (2 + ll). split; [unfold bs; rewrite !HeaderP.blen_cons; lia|].
  split; [unfold bs; rewrite dropN_cons2; reflexivity|].
  rewrite Hp. cbn [mk rh_opcode rh_len]. rewrite (reserved_opcode_iff _ _ Eo).
  destruct (reserved_opcode (b0 mod 16)); [reflexivity|].
  unfold hdr_of, opc_of, mk. cbn [rh_fin rh_rsv1 rh_rsv2 rh_rsv3 rh_opcode rh_key]. rewrite Eo. reflexivity.
Qed.

Lemma hp_of_masked ll len a b c d r2 :
  header_parse bs = (if is_reserved opc then PErr (b0 mod 16)
                     else POk (mkHeader (bitset b0 128) (bitset b0 64) (bitset b0 32) (bitset b0 16) opc
                                        (Some (a, b, c, d))) len (2 + ll + 4)) ->
  dropN ll r = a :: b :: c :: d :: r2 ->
  hp_of bs (mk (Some (a, b, c, d)) len) r2.
Proof.
  intros Hp Hd. split; [cbn [rh_opcode mk]; apply N.mod_lt; discriminate|].
  pose proof (HeaderP.blen_dropN ll r) as Hb. rewrite Hd, !HeaderP.blen_cons in Hb.
  exists (2 + ll + 4). split; [unfold bs; rewrite !HeaderP.blen_cons; lia|].
  split.
  { unfold bs. rewrite <- N.add_assoc, dropN_cons2, <- dropN_dropN, Hd. reflexivity. }
  rewrite Hp. cbn [mk rh_opcode rh_len]. rewrite (reserved_opcode_iff _ _ Eo).
  destruct (reserved_opcode (b0 mod 16)); [reflexivity|].
  unfold hdr_of, opc_of, mk. cbn [rh_fin rh_rsv1 rh_rsv2 rh_rsv3 rh_opcode rh_key]. rewrite Eo. reflexivity.
Qed.
End OneHeader.

Lemma ltb_blen {A} (l : list A) (n : nat) : Nat.ltb (length l) n = (blen l <? N.of_nat n).
Proof. unfold blen. destruct (Nat.ltb (length l) n) eqn:E; [apply Nat.ltb_lt in E|apply Nat.ltb_ge in E]; lia. Qed.

Lemma ltb_false_le a b : (a <? b) = false -> b <= a.
Proof. lia. Qed.

Lemma header_parse_rfc bs : wf_bytes bs = true ->
  match rfc_header bs with
  | None => header_parse bs = PIncomplete
  | Some (h, rest) => hp_of bs h rest
  end.
Proof.
  destruct bs as [|b0 [|b1 r]]; [reflexivity | reflexivity |].
  intros Hwf. apply wf_bytes_cons in Hwf. destruct Hwf as [H0 Hwf].
  apply wf_bytes_cons in Hwf. destruct Hwf as [H1 _].
  destruct (bits_agree b0 H0) as [F1 [F2 [F3 [F4 _]]]].
  destruct (bits_agree b1 H1) as [_ [_ [_ [_ Fm]]]].
  assert (Hop : b0 mod 16 < 16) by (apply N.mod_lt; discriminate).
  destruct (opcode_of_u8 (b0 mod 16)) as [opc|] eqn:Eo.
  2:{ exfalso. exact (opcode_of_u8_total _ Hop Eo). }
  pose proof (hp_of_unmasked b0 b1 r opc Eo) as HU.
  pose proof (hp_of_masked b0 b1 r opc Eo) as HM.
  pose proof (header_parse_eq b0 b1 r) as HP.
  rewrite hdr_ll_eq, land127_mod, land15_mod, F1, F2, F3, F4, Fm, Eo in HP. cbv zeta in HP.
  unfold rfc_header.
  rewrite ltb_blen.
  destruct (b1 mod 128 =? 126) eqn:E126; [|destruct (b1 mod 128 =? 127) eqn:E127].
  - change (8 <? 2) with false in HP. change (0 <? 2) with true in HP. cbv iota in HP.
    change (N.of_nat 2) with 2.
    destruct (blen r <? 2) eqn:El; [exact HP|]. apply ltb_false_le in El.
    rewrite skipn_dropN, firstn_takeN. change (N.of_nat 2) with 2.
    destruct (128 <=? b1).
    + destruct (dropN 2 r) as [|a [|b [|c [|d r2]]]] eqn:Ed; try exact HP.
      exact (HM 2 _ a b c d r2 HP Ed).
    + exact (HU 2 _ HP El).
  - change (8 <? 8) with false in HP. change (0 <? 8) with true in HP. cbv iota in HP.
    change (N.of_nat 8) with 8.
    destruct (blen r <? 8) eqn:El; [exact HP|]. apply ltb_false_le in El.
    rewrite skipn_dropN, firstn_takeN. change (N.of_nat 8) with 8.
    destruct (128 <=? b1).
    + destruct (dropN 8 r) as [|a [|b [|c [|d r2]]]] eqn:Ed; try exact HP.
      exact (HM 8 _ a b c d r2 HP Ed).
    + exact (HU 8 _ HP El).
  - change (8 <? 0) with false in HP. change (0 <? 0) with false in HP. cbv iota in HP.
    change (N.of_nat 0) with 0.
    destruct (blen r <? 0) eqn:El; [exact HP|]. apply ltb_false_le in El.
    rewrite skipn_dropN. change (N.of_nat 0) with 0.
    destruct (128 <=? b1).
    + destruct (dropN 0 r) as [|a [|b [|c [|d r2]]]] eqn:Ed; try exact HP.
      exact (HM 0 _ a b c d r2 HP Ed).
    + exact (HU 0 _ HP El).
Qed.

(** ** A.3 the stream of frames *)

Lemma rfc_header_facts bs h rest : rfc_header bs = Some (h, rest) ->
  (length rest + 2 <= length bs)%nat /\ rh_opcode h < 16.
Proof.
  destruct bs as [|b0 [|b1 r]]; try discriminate. unfold rfc_header.
  set (ext := if b1 mod 128 =? 126 then 2%nat else if b1 mod 128 =? 127 then 8%nat else 0%nat).
  assert (Hop : b0 mod 16 < 16) by (apply N.mod_lt; discriminate).
  destruct (Nat.ltb (length r) ext); [discriminate|].
  pose proof (skipn_length ext r) as Hs.
  destruct (128 <=? b1).
  - destruct (skipn ext r) as [|a [|b [|c [|d r2]]]]; try discriminate.
    intros H. injection H as <- <-. cbn [length rh_opcode] in *. split; [lia|exact Hop].
  - intros H. injection H as <- <-. cbn [length rh_opcode]. split; [lia|exact Hop].
Qed.

Lemma rfc_frames_fuel_enough f1 : forall f2 bs, (length bs <= f1)%nat -> (length bs <= f2)%nat ->
  rfc_frames_fuel f1 bs = rfc_frames_fuel f2 bs.
Proof.
  induction f1 as [|f1 IH]; intros f2 bs H1 H2.
  - destruct bs; [|cbn [length] in H1; lia]. destruct f2; reflexivity.
  - destruct f2 as [|f2].
    + destruct bs; [|cbn [length] in H2; lia]. reflexivity.
    + cbn [rfc_frames_fuel]. destruct (rfc_header bs) as [[h rest]|] eqn:Eh; [|reflexivity].
      destruct (rfc_header_facts _ _ _ Eh) as [Hl _].
      destruct (rh_len h <=? blen rest); [|reflexivity].
      pose proof (length_dropN (rh_len h) rest) as Hd.
      rewrite (IH f2); [reflexivity| lia | lia].
Qed.

Lemma rfc_frames_eq bs :
  rfc_frames bs =
  match rfc_header bs with
  | None => ([], TBytes bs)
  | Some (h, rest) =>
      if rh_len h <=? blen rest then
        let '(fs, t) := rfc_frames (dropN (rh_len h) rest) in
        (mkRaw h (takeN (rh_len h) rest) :: fs, t)
      else ([], THeader h rest)
  end.
Proof.
  unfold rfc_frames at 1. destruct (rfc_header bs) as [[h rest]|] eqn:Eh.
  - destruct (rfc_header_facts _ _ _ Eh) as [Hl _].
    destruct (length bs) as [|n] eqn:En; [lia|].
    cbn [rfc_frames_fuel]. rewrite Eh.
    destruct (rh_len h <=? blen rest); [|reflexivity].
    pose proof (length_dropN (rh_len h) rest) as Hd.
    unfold rfc_frames. rewrite (rfc_frames_fuel_enough n (length (dropN (rh_len h) rest))); [reflexivity|lia|lia].
  - destruct (length bs); cbn [rfc_frames_fuel]; rewrite ?Eh; reflexivity.
Qed.

(* the model's view of the spec's frames: the raw results the reference decoder produces, up to the first
   header-level error; the stream ends with end-of-file *)
Definition raw_of_check (max : N) (h : raw_header) : option raw :=
  if reserved_opcode (rh_opcode h) then Some (RErr (EProtocol (InvalidOpcode (rh_opcode h))))
  else if max <? rh_len h then Some (RErr (ECapacity (rh_len h) max))
  else None.

Fixpoint raw_view (max : N) (fs : list raw_frame) (t : tail) : list raw :=
  match fs with
  | [] =>
      match t with
      | TBytes _ => [ROk None]
      | THeader h _ => match raw_of_check max h with Some e => [e] | None => [ROk None] end
      end
  | f :: rest =>
      match raw_of_check max (rf_hdr f) with
      | Some e => [e]
      | None => ROk (Some (hdr_of (rf_hdr f), rh_len (rf_hdr f), rf_payload f)) :: raw_view max rest t
      end
  end.

Lemma ref_all_rfc_aux max : forall n bs, (length bs <= n)%nat -> wf_bytes bs = true ->
  ref_all max bs [ROk None] = let '(fs, t) := rfc_frames bs in raw_view max fs t.
Proof.
  induction n as [|n IH]; intros bs Hn Hwf.
  - destruct bs; [|cbn [length] in Hn; lia]. reflexivity.
  - rewrite ref_all_eq, rfc_frames_eq. unfold ref_step.
    pose proof (header_parse_rfc bs Hwf) as Hh.
    destruct (rfc_header bs) as [[h rest]|] eqn:Eh.
    + destruct (rfc_header_facts _ _ _ Eh) as [Hl _].
      destruct Hh as [_ [k [Hk [Hrest Hp]]]]. rewrite Hp. clear Hp.
      destruct (reserved_opcode (rh_opcode h)) eqn:Er.
      * destruct (rh_len h <=? blen rest).
        -- destruct (rfc_frames (dropN (rh_len h) rest)) as [fs t].
           cbn [raw_view rf_hdr]. unfold raw_of_check. rewrite Er. reflexivity.
        -- cbn [raw_view]. unfold raw_of_check. rewrite Er. reflexivity.
      * unfold ref_body. rewrite <- Hrest.
        destruct (max <? rh_len h) eqn:Em.
        -- destruct (rh_len h <=? blen rest).
           ++ destruct (rfc_frames (dropN (rh_len h) rest)) as [fs t].
              cbn [raw_view rf_hdr]. unfold raw_of_check. rewrite Er, Em. reflexivity.
           ++ cbn [raw_view]. unfold raw_of_check. rewrite Er, Em. reflexivity.
        -- destruct (rh_len h <=? blen rest) eqn:El.
           ++ assert (Hwf' : wf_bytes (dropN (rh_len h) rest) = true).
              { rewrite Hrest. apply wf_bytes_dropN, wf_bytes_dropN. exact Hwf. }
              pose proof (length_dropN (rh_len h) rest) as Hd.
              rewrite (IH (dropN (rh_len h) rest)); [|lia|exact Hwf'].
              destruct (rfc_frames (dropN (rh_len h) rest)) as [fs t].
              cbn [raw_view rf_hdr rf_payload]. unfold raw_of_check. rewrite Er, Em. reflexivity.
           ++ cbn [raw_view]. unfold raw_of_check. rewrite Er, Em. reflexivity.
    + rewrite Hh. reflexivity.
Qed.

Theorem ref_all_rfc max bs : wf_bytes bs = true ->
  ref_all max bs [ROk None] = raw_view max (fst (rfc_frames bs)) (snd (rfc_frames bs)).
Proof.
  intros Hwf. rewrite (ref_all_rfc_aux max (length bs) bs (le_n _) Hwf).
  destruct (rfc_frames bs); reflexivity.
Qed.

(* facts about the frames the declarative framing produces *)
Definition frame_ok (f : raw_frame) : Prop :=
  rh_opcode (rf_hdr f) < 16 /\ blen (rf_payload f) = rh_len (rf_hdr f).

Fixpoint payload_total (fs : list raw_frame) : N :=
  match fs with [] => 0 | f :: r => blen (rf_payload f) + payload_total r end.

Lemma rfc_frames_facts_aux : forall n bs, (length bs <= n)%nat ->
  Forall frame_ok (fst (rfc_frames bs)) /\ payload_total (fst (rfc_frames bs)) <= blen bs.
Proof.
  induction n as [|n IH]; intros bs Hn.
  - destruct bs; [|cbn [length] in Hn; lia]. split; [constructor|cbn; lia].
  - rewrite rfc_frames_eq. destruct (rfc_header bs) as [[h rest]|] eqn:Eh.
    + destruct (rfc_header_facts _ _ _ Eh) as [Hl Hop].
      destruct (rh_len h <=? blen rest) eqn:El.
      * pose proof (length_dropN (rh_len h) rest) as Hd.
        destruct (IH (dropN (rh_len h) rest)) as [IH1 IH2]; [lia|].
        pose proof (CodecReadP.blen_dropN (rh_len h) rest) as Hbd.
        destruct (rfc_frames (dropN (rh_len h) rest)) as [fs t]. cbn [fst] in *.
        assert (Hbt : blen (takeN (rh_len h) rest) = rh_len h) by (apply CodecReadP.blen_takeN; lia).
        split.
        -- constructor; [|exact IH1]. split; [exact Hop|exact Hbt].
        -- cbn [payload_total rf_payload]. unfold blen in *. lia.
      * split; [constructor|cbn [fst payload_total]; lia].
    + split; [constructor|cbn [fst payload_total]; lia].
Qed.

Lemma rfc_frames_facts bs :
  Forall frame_ok (fst (rfc_frames bs)) /\ payload_total (fst (rfc_frames bs)) <= blen bs.
Proof. exact (rfc_frames_facts_aux (length bs) bs (le_n _)). Qed.

(* ------------------------------------------------------------------------------------------- *)
(** * B. One frame *)

(** ** B.1 leaf functions *)

Lemma rfc_unmask_from_rot bs : forall i k, rfc_unmask_from i k bs = xor_cyc (rotn i k) bs.
Proof.
  induction bs as [|b r IH]; intros i k; [reflexivity|].
  cbn [rfc_unmask_from xor_cyc]. f_equal.
  - f_equal. rewrite (rotn_mod4 i k).
    assert (Hi : (i mod 4 < 4)%nat) by (apply Nat.mod_upper_bound; lia).
    destruct k as [[[a b'] c] d].
    destruct (i mod 4)%nat as [|[|[|[|n]]]]; try reflexivity. lia.
  - rewrite IH. f_equal. replace (S i) with (i + 1)%nat by lia. rewrite rotn_add. reflexivity.
Qed.

Lemma rfc_unmask_apply k bs : rfc_unmask k bs = apply_mask k bs.
Proof. unfold rfc_unmask, apply_mask. rewrite rfc_unmask_from_rot. reflexivity. Qed.

Lemma utf8_valid_is bs : utf8_valid bs = is_utf8 bs.
Proof. reflexivity. Qed.

Lemma utf8_valid_iff bs : utf8_valid bs = true <-> valid_utf8 bs.
Proof. rewrite utf8_valid_is. apply is_utf8_iff. Qed.

(* utf8_prefix: the bytes can be completed to valid UTF-8 *)
Lemma utf8_prefix_iff bs : utf8_prefix bs = true <-> exists t, valid_utf8 (bs ++ t).
Proof.
  unfold utf8_prefix. destruct (from_utf8 bs) as [|v el] eqn:F.
  - split; [|reflexivity]. intros _. exists []. rewrite app_nil_r. apply from_utf8_ok_iff. exact F.
  - destruct (from_utf8_err_spec _ _ _ F) as [Hv [Vp [_ [Hnone Hsome]]]].
    destruct el as [l|].
    + split; [discriminate|]. intros [t Vt]. exfalso.
      destruct (Hsome l eq_refl) as [_ [_ [Hno _]]].
      rewrite <- (CodecReadP.takeN_dropN v bs), <- app_assoc in Vt.
      apply (valid_app_inv _ _ Vp) in Vt. exact (Hno t Vt).
    + split; [|reflexivity]. intros _.
      destruct (proj1 Hnone eq_refl) as [t [_ Vt]]. exists t.
      rewrite <- (CodecReadP.takeN_dropN v bs), <- app_assoc. apply valid_app; assumption.
Qed.

Lemma wire_code_ok_allowed c : wire_code_ok c = close_allowed (close_of_u16 c).
Proof.
  pose proof (close_allowed_iff c) as [H1 H2]. unfold allowed_range in *.
  destruct (close_allowed (close_of_u16 c)).
  - specialize (H1 eq_refl). unfold wire_code_ok. lia.
  - destruct (wire_code_ok c) eqn:E; [|reflexivity]. unfold wire_code_ok in E.
    assert (X : false = true) by (apply H2; lia). discriminate X.
Qed.

Lemma over_limit lim n : over lim n = (limit_of lim <? n).
Proof. destruct lim; reflexivity. Qed.

(** ** B.2 the reassembly state *)

Definition acc_rel (i : option incmsg) (a : partial) : Prop :=
  match i, a with
  | None, None => True
  | Some (IBin v), Some (KBinary, bs) => v = bs
  | Some (ITxt c), Some (KText, bs) => coll_wf c /\ coll_bytes c = bs
  | _, _ => False
  end.

Definition partial_len (a : partial) : N := match a with Some (_, bs) => blen bs | None => 0 end.

Lemma blen_app' {A} (a b : list A) : blen (a ++ b) = blen a + blen b.
Proof. unfold blen. rewrite app_length. lia. Qed.

(* IncompleteMessage::extend, binary *)
Lemma extend_bin v tl mms : blen v + blen tl < two64 ->
  incmsg_extend (IBin v) tl mms =
  if over mms (blen (v ++ tl)) then (RErr (ECapacity (blen v + blen tl) (limit_of mms)), IBin v)
  else (ROk tt, IBin (v ++ tl)).
Proof.
  intros Hb. unfold incmsg_extend. cbn [incmsg_len]. rewrite over_limit, blen_app'.
  destruct ((limit_of mms <? blen v) || (limit_of mms - blen v <? blen tl)) eqn:E.
  - destruct (two64 <=? blen v + blen tl) eqn:E2; [lia|].
    destruct (limit_of mms <? blen v + blen tl) eqn:E3; [reflexivity|lia].
  - destruct (limit_of mms <? blen v + blen tl) eqn:E3; [lia|reflexivity].
Qed.

(* IncompleteMessage::extend, text *)
Lemma extend_txt c tl mms : coll_wf c -> blen (coll_bytes c) + blen tl < two64 ->
  let all := coll_bytes c ++ tl in
  if over mms (blen all) then
    exists e, incmsg_extend (ITxt c) tl mms = (RErr e, ITxt c) /\ e = ECapacity (blen (coll_bytes c) + blen tl) (limit_of mms)
  else if utf8_prefix all then
    exists c', incmsg_extend (ITxt c) tl mms = (ROk tt, ITxt c') /\ coll_wf c' /\ coll_bytes c' = all
  else
    exists c', incmsg_extend (ITxt c) tl mms = (RErr EUtf8, ITxt c').
Proof.
  intros W Hb all. unfold incmsg_extend. cbn [incmsg_len]. rewrite collector_len_bytes.
  unfold all. rewrite over_limit, blen_app'.
  set (n := blen (coll_bytes c)) in *. set (m := blen tl) in *.
  destruct ((limit_of mms <? n) || (limit_of mms - n <? m)) eqn:E.
  - destruct (two64 <=? n + m) eqn:E2; [lia|].
    destruct (limit_of mms <? n + m) eqn:E3; [|lia]. eexists. split; reflexivity.
  - destruct (limit_of mms <? n + m) eqn:E3; [lia|].
    pose proof (collector_extend_spec c tl W) as X.
    destruct (collector_extend c tl) as [c'|c'|].
    + destruct X as [W' B'].
      assert (P : utf8_prefix (coll_bytes c ++ tl) = true).
      { apply utf8_prefix_iff. rewrite <- B'. apply coll_wf_completable. exact W'. }
      rewrite P. exists c'. auto.
    + destruct X as [W' B'].
      destruct (utf8_prefix (coll_bytes c ++ tl)) eqn:P.
      * apply utf8_prefix_iff in P. destruct P as [t Vt]. exfalso. apply (B' t).
        rewrite <- app_assoc in Vt. exact Vt.
      * exists c'. reflexivity.
    + exfalso. exact X.
Qed.

(* IncompleteMessage::complete, text *)
Lemma complete_txt c : coll_wf c ->
  incmsg_complete (ITxt c) = if utf8_valid (coll_bytes c) then ROk (MText (coll_bytes c)) else RErr EUtf8.
Proof.
  intros W. pose proof (coll_wf_valid_iff c W) as VI. cbn [incmsg_complete].
  unfold collector_into_string. unfold coll_bytes, inc_bytes in *.
  destruct (sc_inc c) as [i|].
  - destruct (utf8_valid (sc_data c ++ i)) eqn:U; [|reflexivity].
    apply utf8_valid_iff in U. apply VI in U. discriminate U.
  - rewrite app_nil_r in *. destruct (utf8_valid (sc_data c)) eqn:U; [reflexivity|].
    assert (V : valid_utf8 (sc_data c)) by (apply VI; reflexivity).
    apply utf8_valid_iff in V. congruence.
Qed.

Lemma check_max_size_over size mms : size < two64 ->
  check_max_size size mms = if over mms size then RErr (ECapacity size (limit_of mms)) else ROk tt.
Proof.
  intros Hs. unfold check_max_size, over. destruct mms as [m|]; [reflexivity|].
  destruct (18446744073709551615 <? size) eqn:E; [unfold two64 in Hs; lia|reflexivity].
Qed.

(** ** B.3 one step *)

Definition class_of (e : error) : option class :=
  match e with
  | ECapacity _ _ => Some KCapacity
  | EUtf8 => Some KUtf8
  | EProtocol p =>
      match p with
      | ResetWithoutClosingHandshake | SendAfterClosing | ReceivedAfterClosing => None
      | _ => Some KProtocol
      end
  | _ => None
  end.

(* the part of the context the read side depends on, apart from the reassembly state *)
Definition same_side (x1 x2 : ctx) : Prop :=
  x_state x2 = x_state x1 /\ x_role x2 = x_role x1 /\ x_cfg x2 = x_cfg x1 /\ x_codec x2 = x_codec x1.

Lemma same_side_refl x : same_side x x.
Proof. repeat split. Qed.

Lemma same_side_set_additional x f :
  same_side x (set_additional x f) /\ x_incomplete (set_additional x f) = x_incomplete x.
Proof.
  unfold set_additional. destruct (x_additional x) as [g|]; [|repeat split].
  destruct (opcode_eqb (h_opcode (f_hdr g)) (OCtl Pong)); repeat split.
Qed.

Definition step_ok (x1 : ctx) (v : verdict) (out : res (option message) * ctx) : Prop :=
  match v with
  | VNext a' => fst out = ROk None /\ same_side x1 (snd out) /\ acc_rel (x_incomplete (snd out)) a'
  | VDeliver m a' => fst out = ROk (Some m) /\ same_side x1 (snd out) /\ acc_rel (x_incomplete (snd out)) a'
  | VClose m => fst out = ROk (Some m)
  | VReject c => exists e, fst out = RErr e /\ class_of e = Some c
  end.

Lemma utf8_valid_prefix bs : utf8_valid bs = true -> utf8_prefix bs = true.
Proof. unfold utf8_valid, utf8_prefix. destruct (from_utf8 bs) as [|v [l|]]; try discriminate; reflexivity. Qed.

Ltac ss := unfold same_side; repeat split.

(* a Continue frame on a message in progress *)
Lemma frag_continue x1 msg k acc data fin :
  acc_rel (Some msg) (Some (k, acc)) -> blen acc + blen data < two64 ->
  step_ok x1 (rfc_fragment (cfg_max_message_size (x_cfg x1)) k (acc ++ data) fin)
    (let '(r, msg') := incmsg_extend msg data (cfg_max_message_size (x_cfg x1)) in
     let x2 := set_incomplete x1 (Some msg') in
     match r with
     | ROk _ =>
         if fin then
           match incmsg_complete msg' with
           | ROk m => (ROk (Some m), set_incomplete x2 None)
           | RErr e => (RErr e, set_incomplete x2 None)
           | RPanic s => (RPanic s, x2)
           | ROutOfFuel => (ROutOfFuel, x2)
           end
         else (ROk None, x2)
     | RErr e => (RErr e, x2)
     | RPanic s => (RPanic s, x2)
     | ROutOfFuel => (ROutOfFuel, x2)
     end).
Proof.
  intros Hacc Hb. set (mms := cfg_max_message_size (x_cfg x1)).
  destruct msg as [c|v]; destruct k; cbn [acc_rel] in Hacc; try contradiction.
  - (* text *)
    destruct Hacc as [W <-].
    pose proof (extend_txt c data mms W Hb) as X. cbv zeta in X. unfold rfc_fragment.
    destruct (over mms (blen (coll_bytes c ++ data))).
    { destruct X as [e [-> ->]]. cbn [step_ok fst]. eexists. split; reflexivity. }
    destruct (utf8_prefix (coll_bytes c ++ data)) eqn:P.
    + destruct X as [c' [-> [W' B']]]. destruct fin.
      * rewrite (complete_txt c' W'), B'.
        destruct (utf8_valid (coll_bytes c ++ data)).
        -- cbn [step_ok fst snd]. split; [reflexivity|]. split; [ss|exact I].
        -- cbn [step_ok fst]. eexists. split; reflexivity.
      * cbn [step_ok fst snd]. split; [reflexivity|]. split; [ss|].
        cbn [x_incomplete set_incomplete acc_rel]. split; assumption.
    + destruct X as [c' ->].
      assert (V : utf8_valid (coll_bytes c ++ data) = false).
      { destruct (utf8_valid (coll_bytes c ++ data)) eqn:V; [|reflexivity].
        apply utf8_valid_prefix in V. congruence. }
      rewrite V. destruct fin; cbn [step_ok fst]; eexists; split; reflexivity.
  - (* binary *)
    subst v. rewrite (extend_bin acc data mms Hb). unfold rfc_fragment.
    destruct (over mms (blen (acc ++ data))).
    { cbn [step_ok fst]. eexists. split; reflexivity. }
    destruct fin; cbn [incmsg_complete step_ok fst snd].
    + split; [reflexivity|]. split; [ss|exact I].
    + split; [reflexivity|]. split; [ss|reflexivity].
Qed.

(* a Text / Binary frame when no message is in progress *)
Lemma frag_first x1 (d : data_op) k data fin :
  (d = Text /\ k = KText) \/ (d = Binary /\ k = KBinary) -> blen data < two64 ->
  x_incomplete x1 = None ->
  step_ok x1 (rfc_fragment (cfg_max_message_size (x_cfg x1)) k data fin)
    (if fin then
       match check_max_size (blen data) (cfg_max_message_size (x_cfg x1)) with
       | ROk _ =>
           match d with
           | Text => if is_utf8 data then (ROk (Some (MText data)), x1) else (RErr EUtf8, x1)
           | _ => (ROk (Some (MBinary data)), x1)
           end
       | RErr e => (RErr e, x1)
       | RPanic s => (RPanic s, x1)
       | ROutOfFuel => (ROutOfFuel, x1)
       end
     else
       let inc0 := match d with Text => ITxt collector_new | _ => IBin [] end in
       let '(r, inc1) := incmsg_extend inc0 data (cfg_max_message_size (x_cfg x1)) in
       match r with
       | ROk _ => (ROk None, set_incomplete x1 (Some inc1))
       | RErr e => (RErr e, x1)
       | RPanic s => (RPanic s, x1)
       | ROutOfFuel => (ROutOfFuel, x1)
       end).
Proof.
  intros Hk Hb Hinc. set (mms := cfg_max_message_size (x_cfg x1)).
  unfold rfc_fragment. destruct fin.
  - rewrite (check_max_size_over _ mms Hb).
    destruct (over mms (blen data)). { cbn [step_ok fst]. eexists. split; reflexivity. }
    destruct Hk as [[-> ->]|[-> ->]].
    + rewrite utf8_valid_is. destruct (is_utf8 data).
      * cbn [step_ok fst snd]. split; [reflexivity|]. split; [ss|]. rewrite Hinc. exact I.
      * cbn [step_ok fst]. eexists. split; reflexivity.
    + cbn [step_ok fst snd]. split; [reflexivity|]. split; [ss|]. rewrite Hinc. exact I.
  - destruct Hk as [[-> ->]|[-> ->]]; cbv zeta.
    + assert (Hb' : blen (coll_bytes collector_new) + blen data < two64) by (cbn; exact Hb).
      pose proof (extend_txt collector_new data mms coll_wf_new Hb') as X. cbv zeta in X.
      change (coll_bytes collector_new ++ data) with data in X.
      destruct (over mms (blen data)).
      { destruct X as [e [-> ->]]. cbn [step_ok fst]. eexists. split; reflexivity. }
      destruct (utf8_prefix data).
      * destruct X as [c' [-> [W' B']]]. cbn [step_ok fst snd]. split; [reflexivity|].
        split; [ss|]. cbn [x_incomplete set_incomplete acc_rel]. split; assumption.
      * destruct X as [c' ->]. cbn [step_ok fst]. eexists. split; reflexivity.
    + assert (Hb' : blen (@nil N) + blen data < two64) by (cbn; exact Hb).
      rewrite (extend_bin [] data mms Hb'). cbn [app].
      destruct (over mms (blen data)). { cbn [step_ok fst]. eexists. split; reflexivity. }
      cbn [step_ok fst snd]. split; [reflexivity|]. split; [ss|reflexivity].
Qed.

(* what the model does with one frame of the declarative framing: the header-level checks of the codec,
   read_frame's post-processing (payload length assertion, unmasking, server-side mask rule), then the body
   of read_message_frame *)
Definition model_frame (max : N) (x1 : ctx) (f : raw_frame) : res (option message) * ctx :=
  match raw_of_check max (rf_hdr f) with
  | Some r => (match r with RErr e => RErr e | _ => RPanic 0 end, x1)
  | None =>
      match post_frame (role_eqb (x_role x1) Server) (cfg_accept_unmasked (x_cfg x1))
                       (ROk (Some (hdr_of (rf_hdr f), rh_len (rf_hdr f), rf_payload f))) with
      | ROk (Some fr) => on_frame x1 fr
      | ROk None => (ROk None, x1)
      | RErr e => (RErr e, x1)
      | RPanic s => (RPanic s, x1)
      | ROutOfFuel => (ROutOfFuel, x1)
      end
  end.

Lemma opcode_cases op : op < 16 -> reserved_opcode op = false ->
  op = 0 \/ op = 1 \/ op = 2 \/ op = 8 \/ op = 9 \/ op = 10.
Proof. unfold reserved_opcode. lia. Qed.

Lemma close_step x1 data : x_state x1 = Active ->
  step_ok x1 (rfc_close data)
    (match frame_into_close data with
     | ROk cl =>
         let '(r, x2) := do_close x1 cl in
         match r with
         | ROk (Some c) => (ROk (Some (MClose c)), x2)
         | ROk None => (ROk None, x2)
         | RErr e => (RErr e, x2)
         | RPanic s => (RPanic s, x2)
         | ROutOfFuel => (ROutOfFuel, x2)
         end
     | RErr e => (RErr e, x1)
     | RPanic s => (RPanic s, x1)
     | ROutOfFuel => (ROutOfFuel, x1)
     end).
Proof.
  intros Hst. unfold rfc_close, do_close. destruct data as [|a [|b reason]]; cbn [frame_into_close].
  - rewrite Hst. reflexivity.
  - cbn [step_ok fst]. eexists. split; reflexivity.
  - rewrite utf8_valid_is. destruct (is_utf8 reason).
    + rewrite Hst. cbn [step_ok fst]. rewrite wire_code_ok_allowed.
      replace (from_be [a; b]) with (a * 256 + b) by (unfold from_be; cbn [fold_left]; lia).
      destruct (close_allowed (close_of_u16 (a * 256 + b))); reflexivity.
    + cbn [step_ok fst]. eexists. split; reflexivity.
Qed.

Theorem step_refines mfs x1 f a :
  frame_ok f -> x_state x1 = Active -> acc_rel (x_incomplete x1) a ->
  partial_len a + blen (rf_payload f) < two64 ->
  step_ok x1
    (rfc_step (x_role x1) (cfg_accept_unmasked (x_cfg x1)) mfs (cfg_max_message_size (x_cfg x1)) a f)
    (model_frame (limit_of mfs) x1 f).
Proof.
  destruct f as [[fin r1 r2 r3 op key len] payload]. intros [Hop Hlen] Hst Hacc Hb.
  cbn [rf_hdr rf_payload rh_opcode rh_len] in Hop, Hlen, Hb. subst len.
  unfold rfc_step, model_frame, rfc_header_check, raw_of_check.
  cbn [rf_hdr rf_payload rh_fin rh_rsv1 rh_rsv2 rh_rsv3 rh_opcode rh_key rh_len].
  destruct (reserved_opcode op) eqn:Er. { cbn [step_ok fst]. eexists. split; reflexivity. }
  rewrite over_limit. destruct (limit_of mfs <? blen payload). { cbn [step_ok fst]. eexists. split; reflexivity. }
  cbn [post_frame]. rewrite N.eqb_refl. cbn [negb].
  unfold hdr_of. cbn [rh_fin rh_rsv1 rh_rsv2 rh_rsv3 rh_opcode rh_key h_mask h_fin h_rsv1 h_rsv2 h_rsv3 h_opcode].
  set (au := cfg_accept_unmasked (x_cfg x1)).
  (* the mask rule; afterwards the frame carries no key and the unmasked payload *)
  assert (Hgoal : forall data, blen data = blen payload ->
    data = match key with Some k => rfc_unmask k payload | None => payload end ->
    step_ok x1
      (if r1 || r2 || r3 then VReject KProtocol
       else if 8 <=? op
         then if negb fin || (125 <? blen data) then VReject KProtocol
              else if op =? 9 then VDeliver (MPing data) a
              else if op =? 10 then VDeliver (MPong data) a else rfc_close data
         else if op =? 0
           then match a with
                | Some (k, acc) => rfc_fragment (cfg_max_message_size (x_cfg x1)) k (acc ++ data) fin
                | None => VReject KProtocol
                end
           else match a with
                | Some _ => VReject KProtocol
                | None => rfc_fragment (cfg_max_message_size (x_cfg x1)) (if op =? 1 then KText else KBinary) data fin
                end)
      (on_frame x1 (mkFrame (mkHeader fin r1 r2 r3 (opc_of op) None) data))).
  { intros data Hdl _. unfold on_frame.
    cbn [f_hdr f_payload h_mask h_fin h_rsv1 h_rsv2 h_rsv3 h_opcode]. rewrite Hst. cbn [can_read negb].
    destruct (r1 || r2 || r3). { cbn [step_ok fst]. eexists. split; reflexivity. }
    rewrite andb_false_r.
    destruct (opcode_cases op Hop Er) as [E|[E|[E|[E|[E|E]]]]]; subst op.
    - (* Continue *)
      change (opc_of 0) with (OData Continue). change (8 <=? 0) with false. change (0 =? 0) with true. cbv iota.
      destruct (x_incomplete x1) as [msg|] eqn:Ei.
      + destruct a as [[k acc]|]; [|destruct msg; contradiction].
        apply frag_continue; [exact Hacc|]. cbn [partial_len] in Hb. rewrite Hdl. exact Hb.
      + destruct a as [[k acc]|]; [contradiction|]. cbn [step_ok fst]. eexists. split; reflexivity.
    - (* Text *)
      change (opc_of 1) with (OData Text). change (8 <=? 1) with false. change (1 =? 0) with false.
      change (1 =? 1) with true. cbv iota.
      destruct (x_incomplete x1) as [msg|] eqn:Ei.
      + destruct a as [[k acc]|]; [|destruct msg; contradiction]. cbn [step_ok fst]. eexists. split; reflexivity.
      + destruct a as [[k acc]|]; [contradiction|].
        apply (frag_first x1 Text KText data fin); [left; auto| |exact Ei]. rewrite Hdl. cbn [partial_len] in Hb. lia.
    - (* Binary *)
      change (opc_of 2) with (OData Binary). change (8 <=? 2) with false. change (2 =? 0) with false.
      change (2 =? 1) with false. cbv iota.
      destruct (x_incomplete x1) as [msg|] eqn:Ei.
      + destruct a as [[k acc]|]; [|destruct msg; contradiction]. cbn [step_ok fst]. eexists. split; reflexivity.
      + destruct a as [[k acc]|]; [contradiction|].
        apply (frag_first x1 Binary KBinary data fin); [right; auto| |exact Ei]. rewrite Hdl. cbn [partial_len] in Hb. lia.
    - (* Close *)
      change (opc_of 8) with (OCtl Close). change (8 <=? 8) with true. change (8 =? 9) with false.
      change (8 =? 10) with false. cbv iota.
      destruct (negb fin). { cbn [orb step_ok fst]. eexists. split; reflexivity. }
      cbn [orb]. destruct (125 <? blen data). { cbn [step_ok fst]. eexists. split; reflexivity. }
      apply close_step. exact Hst.
    - (* Ping *)
      change (opc_of 9) with (OCtl Ping). change (8 <=? 9) with true. change (9 =? 9) with true. cbv iota.
      destruct (negb fin). { cbn [orb step_ok fst]. eexists. split; reflexivity. }
      cbn [orb]. destruct (125 <? blen data). { cbn [step_ok fst]. eexists. split; reflexivity. }
      cbn [is_active step_ok fst snd].
      destruct (same_side_set_additional x1 (frame_pong data)) as [S1 S2].
      split; [reflexivity|]. split; [exact S1|]. rewrite S2. exact Hacc.
    - (* Pong *)
      change (opc_of 10) with (OCtl Pong). change (8 <=? 10) with true. change (10 =? 9) with false.
      change (10 =? 10) with true. cbv iota.
      destruct (negb fin). { cbn [orb step_ok fst]. eexists. split; reflexivity. }
      cbn [orb]. destruct (125 <? blen data). { cbn [step_ok fst]. eexists. split; reflexivity. }
      cbn [step_ok fst snd]. split; [reflexivity|]. split; [ss|exact Hacc]. }
  destruct (x_role x1) eqn:Hr; cbn [role_eqb mask_direction_ok].
  - (* server *)
    destruct key as [k|]; cbn [negb].
    + rewrite <- rfc_unmask_apply. apply Hgoal; [|reflexivity]. rewrite rfc_unmask_apply. apply HeaderP.apply_mask_blen.
    + destruct au; cbn [negb].
      * apply Hgoal; reflexivity.
      * cbn [step_ok fst]. eexists. split; reflexivity.
  - (* client *)
    destruct key as [k|]; cbn [negb].
    + unfold on_frame. cbn [f_hdr f_payload h_mask h_fin h_rsv1 h_rsv2 h_rsv3 h_opcode]. rewrite Hst, Hr.
      cbn [can_read negb role_eqb andb].
      destruct (r1 || r2 || r3); cbn [step_ok fst]; eexists; split; reflexivity.
    + apply Hgoal; reflexivity.
Qed.
