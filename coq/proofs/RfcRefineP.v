(* proofs/RfcRefineP.v — C02: Protocol.read refines the independent RFC 6455 specification SpecRfc.v.

   Contents
   A. framing: the whole-stream reference decoder of CodecReadP (built on header_parse) cuts a well-formed
      byte stream exactly as the declarative rfc_frames does
   B. one frame: post_frame + Utf8P.on_frame (= read_message_frame after read_frame_loop) is one rfc_step
   C. lifting: flush is invisible to the read side, read_loop, successive reads, run_ops
   D. corollaries per rule                                                                          *)
From TungModel Require Import Base Coding Mask Header Frame Utf8 World Message Codec Protocol.
From TungModel.proofs Require Import CodingP HeaderP MaskP Utf8P CodecReadP SpecRfc.
From Coq Require Import Arith Lia ZifyBool ZifyNat ZifyN.

Arguments N.add : simpl never.
Arguments N.sub : simpl never.
Arguments N.mul : simpl never.
Arguments N.div : simpl never.
Arguments N.modulo : simpl never.
Arguments N.leb : simpl never.
Arguments N.ltb : simpl never.
Arguments N.eqb : simpl never.
Arguments N.land : simpl never.
Arguments N.of_nat : simpl never.
Arguments N.to_nat : simpl never.

(* ------------------------------------------------------------------------------------------- *)
(** * A. Framing *)

(** ** A.1 bytes *)

Lemma land15_mod b : N.land b 15 = b mod 16.
Proof. change 15 with (N.ones 4). rewrite N.land_ones. reflexivity. Qed.

Lemma land127_mod b : N.land b 127 = b mod 128.
Proof. change 127 with (N.ones 7). rewrite N.land_ones. reflexivity. Qed.

Definition bits_check (b : N) : bool :=
  Bool.eqb (bit b 128) (bitset b 128) && Bool.eqb (bit b 64) (bitset b 64) &&
  Bool.eqb (bit b 32) (bitset b 32) && Bool.eqb (bit b 16) (bitset b 16) &&
  Bool.eqb (bit b 128) (128 <=? b).

Lemma bits_check_all : forallb bits_check all_bytes = true.
Proof. vm_compute. reflexivity. Qed.

Lemma bits_agree b : b < 256 ->
  bit b 128 = bitset b 128 /\ bit b 64 = bitset b 64 /\ bit b 32 = bitset b 32 /\ bit b 16 = bitset b 16 /\
  bit b 128 = (128 <=? b).
Proof.
  intros Hb. pose proof (byte_sweep _ bits_check_all b Hb) as H. unfold bits_check in H.
  rewrite !andb_true_iff in H. destruct H as [[[[H1 H2] H3] H4] H5].
  apply eqb_prop in H1, H2, H3, H4, H5. auto.
Qed.

(** ** A.2 one header *)

Definition opc_of (n : N) : opcode := match opcode_of_u8 n with Some o => o | None => OCtl Close end.

Definition hdr_of (h : raw_header) : header :=
  mkHeader (rh_fin h) (rh_rsv1 h) (rh_rsv2 h) (rh_rsv3 h) (opc_of (rh_opcode h)) (rh_key h).

Lemma reserved_opcode_iff n o : opcode_of_u8 n = Some o -> is_reserved o = reserved_opcode n.
Proof.
  intros H. pose proof (opcode_of_u8_lt _ _ H) as Hn.
  pose proof (opcode_reserved_iff _ _ H) as [H1 H2]. unfold reserved_nibble in *.
  unfold reserved_opcode. destruct (is_reserved o).
  - specialize (H1 eq_refl). lia.
  - destruct (((3 <=? n) && (n <=? 7)) || (11 <=? n)) eqn:E; [|reflexivity].
    assert (X : false = true) by (apply H2; lia). discriminate X.
Qed.

Lemma skipn_dropN {A} (n : nat) (l : list A) : skipn n l = dropN (N.of_nat n) l.
Proof. unfold dropN. rewrite Nat2N.id. reflexivity. Qed.

Lemma firstn_takeN {A} (n : nat) (l : list A) : firstn n l = takeN (N.of_nat n) l.
Proof. unfold takeN. rewrite Nat2N.id. reflexivity. Qed.

(* header_parse in terms of the declarative header *)
Definition hp_of (bs : bytes) (h : raw_header) (rest : bytes) : Prop :=
  rh_opcode h < 16 /\
  exists k, 2 <= k <= blen bs /\ rest = dropN k bs /\
    header_parse bs = if reserved_opcode (rh_opcode h) then PErr (rh_opcode h)
                      else POk (hdr_of h) (rh_len h) k.

Lemma dropN_cons2 {A} (a b : A) (l : list A) n : dropN (2 + n) (a :: b :: l) = dropN n l.
Proof. unfold dropN. replace (N.to_nat (2 + n)) with (S (S (N.to_nat n))) by lia. reflexivity. Qed.

Lemma skipn_skipn' {A} (n : nat) : forall (m : nat) (l : list A), skipn m (skipn n l) = skipn (n + m) l.
Proof.
  induction n as [|n IH]; intros m l; [reflexivity|].
  destruct l as [|x l]; [rewrite !skipn_nil; reflexivity|]. cbn [skipn Nat.add]. apply IH.
Qed.

Lemma dropN_dropN {A} (l : list A) n m : dropN m (dropN n l) = dropN (n + m) l.
Proof. unfold dropN. rewrite skipn_skipn'. f_equal. lia. Qed.

Lemma dropN_4 {A} (a b c d : A) (l : list A) : dropN 4 (a :: b :: c :: d :: l) = l.
Proof. reflexivity. Qed.

Section OneHeader.
Context (b0 b1 : N) (r : bytes) (opc : opcode) (Eo : opcode_of_u8 (b0 mod 16) = Some opc).
Let bs := b0 :: b1 :: r.
Let mk (k : option key) (len : N) :=
  mkRawHeader (bitset b0 128) (bitset b0 64) (bitset b0 32) (bitset b0 16) (b0 mod 16) k len.

Lemma hp_of_unmasked ll len :
  header_parse bs = (if is_reserved opc then PErr (b0 mod 16)
                     else POk (mkHeader (bitset b0 128) (bitset b0 64) (bitset b0 32) (bitset b0 16) opc None)
                              len (2 + ll)) ->
  ll <= blen r ->
  hp_of bs (mk None len) (dropN ll r).
Proof.
  intros Hp Hl. split; [cbn [rh_opcode mk]; apply N.mod_lt; discriminate|].
  exists (2 + ll). split; [unfold bs; rewrite !HeaderP.blen_cons; lia|].
  split; [unfold bs; rewrite dropN_cons2; reflexivity|].
  rewrite Hp. cbn [mk rh_opcode rh_len]. rewrite (reserved_opcode_iff _ _ Eo).
  destruct (reserved_opcode (b0 mod 16)); [reflexivity|].
  unfold hdr_of, opc_of, mk. cbn [rh_fin rh_rsv1 rh_rsv2 rh_rsv3 rh_opcode rh_key]. rewrite Eo. reflexivity.
Qed.

Lemma hp_of_masked ll len a b c d r2 :
  header_parse bs = (if is_reserved opc then PErr (b0 mod 16)
                     else POk (mkHeader (bitset b0 128) (bitset b0 64) (bitset b0 32) (bitset b0 16) opc
                                        (Some (a, b, c, d))) len (2 + ll + 4)) ->
  dropN ll r = a :: b :: c :: d :: r2 ->
  hp_of bs (mk (Some (a, b, c, d)) len) r2.
Proof.
  intros Hp Hd. split; [cbn [rh_opcode mk]; apply N.mod_lt; discriminate|].
  pose proof (HeaderP.blen_dropN ll r) as Hb. rewrite Hd, !HeaderP.blen_cons in Hb.
  exists (2 + ll + 4). split; [unfold bs; rewrite !HeaderP.blen_cons; lia|].
  split.
  { unfold bs. rewrite <- N.add_assoc, dropN_cons2, <- dropN_dropN, Hd. reflexivity. }
  rewrite Hp. cbn [mk rh_opcode rh_len]. rewrite (reserved_opcode_iff _ _ Eo).
  destruct (reserved_opcode (b0 mod 16)); [reflexivity|].
  unfold hdr_of, opc_of, mk. cbn [rh_fin rh_rsv1 rh_rsv2 rh_rsv3 rh_opcode rh_key]. rewrite Eo. reflexivity.
Qed.
End OneHeader.

Lemma ltb_blen {A} (l : list A) (n : nat) : Nat.ltb (length l) n = (blen l <? N.of_nat n).
Proof. unfold blen. destruct (Nat.ltb (length l) n) eqn:E; [apply Nat.ltb_lt in E|apply Nat.ltb_ge in E]; lia. Qed.

Lemma ltb_false_le a b : (a <? b) = false -> b <= a.
Proof. lia. Qed.

Lemma header_parse_rfc bs : wf_bytes bs = true ->
  match rfc_header bs with
  | None => header_parse bs = PIncomplete
  | Some (h, rest) => hp_of bs h rest
  end.
Proof.
  destruct bs as [|b0 [|b1 r]]; [reflexivity | reflexivity |].
  intros Hwf. apply wf_bytes_cons in Hwf. destruct Hwf as [H0 Hwf].
  apply wf_bytes_cons in Hwf. destruct Hwf as [H1 _].
  destruct (bits_agree b0 H0) as [F1 [F2 [F3 [F4 _]]]].
  destruct (bits_agree b1 H1) as [_ [_ [_ [_ Fm]]]].
  assert (Hop : b0 mod 16 < 16) by (apply N.mod_lt; discriminate).
  destruct (opcode_of_u8 (b0 mod 16)) as [opc|] eqn:Eo.
  2:{ exfalso. exact (opcode_of_u8_total _ Hop Eo). }
  pose proof (hp_of_unmasked b0 b1 r opc Eo) as HU.
  pose proof (hp_of_masked b0 b1 r opc Eo) as HM.
  pose proof (header_parse_eq b0 b1 r) as HP.
  rewrite hdr_ll_eq, land127_mod, land15_mod, F1, F2, F3, F4, Fm, Eo in HP. cbv zeta in HP.
  unfold rfc_header.
  rewrite ltb_blen.
  destruct (b1 mod 128 =? 126) eqn:E126; [|destruct (b1 mod 128 =? 127) eqn:E127].
  - change (8 <? 2) with false in HP. change (0 <? 2) with true in HP. cbv iota in HP.
    change (N.of_nat 2) with 2.
    destruct (blen r <? 2) eqn:El; [exact HP|]. apply ltb_false_le in El.
    rewrite skipn_dropN, firstn_takeN. change (N.of_nat 2) with 2.
    destruct (128 <=? b1).
    + destruct (dropN 2 r) as [|a [|b [|c [|d r2]]]] eqn:Ed; try exact HP.
      exact (HM 2 _ a b c d r2 HP Ed).
    + exact (HU 2 _ HP El).
  - change (8 <? 8) with false in HP. change (0 <? 8) with true in HP. cbv iota in HP.
    change (N.of_nat 8) with 8.
    destruct (blen r <? 8) eqn:El; [exact HP|]. apply ltb_false_le in El.
    rewrite skipn_dropN, firstn_takeN. change (N.of_nat 8) with 8.
    destruct (128 <=? b1).
    + destruct (dropN 8 r) as [|a [|b [|c [|d r2]]]] eqn:Ed; try exact HP.
      exact (HM 8 _ a b c d r2 HP Ed).
    + exact (HU 8 _ HP El).
  - change (8 <? 0) with false in HP. change (0 <? 0) with false in HP. cbv iota in HP.
    change (N.of_nat 0) with 0.
    destruct (blen r <? 0) eqn:El; [exact HP|]. apply ltb_false_le in El.
    rewrite skipn_dropN. change (N.of_nat 0) with 0.
    destruct (128 <=? b1).
    + destruct (dropN 0 r) as [|a [|b [|c [|d r2]]]] eqn:Ed; try exact HP.
      exact (HM 0 _ a b c d r2 HP Ed).
    + exact (HU 0 _ HP El).
Qed.

(** ** A.3 the stream of frames *)

Lemma rfc_header_facts bs h rest : rfc_header bs = Some (h, rest) ->
  (length rest + 2 <= length bs)%nat /\ rh_opcode h < 16.
Proof.
  destruct bs as [|b0 [|b1 r]]; try discriminate. unfold rfc_header.
  set (ext := if b1 mod 128 =? 126 then 2%nat else if b1 mod 128 =? 127 then 8%nat else 0%nat).
  assert (Hop : b0 mod 16 < 16) by (apply N.mod_lt; discriminate).
  destruct (Nat.ltb (length r) ext); [discriminate|].
  pose proof (skipn_length ext r) as Hs.
  destruct (128 <=? b1).
  - destruct (skipn ext r) as [|a [|b [|c [|d r2]]]]; try discriminate.
    intros H. injection H as <- <-. cbn [length rh_opcode] in *. split; [lia|exact Hop].
  - intros H. injection H as <- <-. cbn [length rh_opcode]. split; [lia|exact Hop].
Qed.

Lemma rfc_frames_fuel_enough f1 : forall f2 bs, (length bs <= f1)%nat -> (length bs <= f2)%nat ->
  rfc_frames_fuel f1 bs = rfc_frames_fuel f2 bs.
Proof.
  induction f1 as [|f1 IH]; intros f2 bs H1 H2.
  - destruct bs; [|cbn [length] in H1; lia]. destruct f2; reflexivity.
  - destruct f2 as [|f2].
    + destruct bs; [|cbn [length] in H2; lia]. reflexivity.
    + cbn [rfc_frames_fuel]. destruct (rfc_header bs) as [[h rest]|] eqn:Eh; [|reflexivity].
      destruct (rfc_header_facts _ _ _ Eh) as [Hl _].
      destruct (rh_len h <=? blen rest); [|reflexivity].
      pose proof (length_dropN (rh_len h) rest) as Hd.
      rewrite (IH f2); [reflexivity| lia | lia].
Qed.

Lemma rfc_frames_eq bs :
  rfc_frames bs =
  match rfc_header bs with
  | None => ([], TBytes bs)
  | Some (h, rest) =>
      if rh_len h <=? blen rest then
        let '(fs, t) := rfc_frames (dropN (rh_len h) rest) in
        (mkRaw h (takeN (rh_len h) rest) :: fs, t)
      else ([], THeader h rest)
  end.
Proof.
  unfold rfc_frames at 1. destruct (rfc_header bs) as [[h rest]|] eqn:Eh.
  - destruct (rfc_header_facts _ _ _ Eh) as [Hl _].
    destruct (length bs) as [|n] eqn:En; [lia|].
    cbn [rfc_frames_fuel]. rewrite Eh.
    destruct (rh_len h <=? blen rest); [|reflexivity].
    pose proof (length_dropN (rh_len h) rest) as Hd.
    unfold rfc_frames. rewrite (rfc_frames_fuel_enough n (length (dropN (rh_len h) rest))); [reflexivity|lia|lia].
  - destruct (length bs); cbn [rfc_frames_fuel]; rewrite ?Eh; reflexivity.
Qed.

(* the model's view of the spec's frames: the raw results the reference decoder produces, up to the first
   header-level error; the stream ends with end-of-file *)
Definition raw_of_check (max : N) (h : raw_header) : option raw :=
  if reserved_opcode (rh_opcode h) then Some (RErr (EProtocol (InvalidOpcode (rh_opcode h))))
  else if max <? rh_len h then Some (RErr (ECapacity (rh_len h) max))
  else None.

Fixpoint raw_view (max : N) (fs : list raw_frame) (t : tail) : list raw :=
  match fs with
  | [] =>
      match t with
      | TBytes _ => [ROk None]
      | THeader h _ => match raw_of_check max h with Some e => [e] | None => [ROk None] end
      end
  | f :: rest =>
      match raw_of_check max (rf_hdr f) with
      | Some e => [e]
      | None => ROk (Some (hdr_of (rf_hdr f), rh_len (rf_hdr f), rf_payload f)) :: raw_view max rest t
      end
  end.

Lemma ref_all_rfc_aux max : forall n bs, (length bs <= n)%nat -> wf_bytes bs = true ->
  ref_all max bs [ROk None] = let '(fs, t) := rfc_frames bs in raw_view max fs t.
Proof.
  induction n as [|n IH]; intros bs Hn Hwf.
  - destruct bs; [|cbn [length] in Hn; lia]. reflexivity.
  - rewrite ref_all_eq, rfc_frames_eq. unfold ref_step.
    pose proof (header_parse_rfc bs Hwf) as Hh.
    destruct (rfc_header bs) as [[h rest]|] eqn:Eh.
    + destruct (rfc_header_facts _ _ _ Eh) as [Hl _].
      destruct Hh as [_ [k [Hk [Hrest Hp]]]]. rewrite Hp. clear Hp.
      destruct (reserved_opcode (rh_opcode h)) eqn:Er.
      * destruct (rh_len h <=? blen rest).
        -- destruct (rfc_frames (dropN (rh_len h) rest)) as [fs t].
           cbn [raw_view rf_hdr]. unfold raw_of_check. rewrite Er. reflexivity.
        -- cbn [raw_view]. unfold raw_of_check. rewrite Er. reflexivity.
      * unfold ref_body. rewrite <- Hrest.
        destruct (max <? rh_len h) eqn:Em.
        -- destruct (rh_len h <=? blen rest).
           ++ destruct (rfc_frames (dropN (rh_len h) rest)) as [fs t].
              cbn [raw_view rf_hdr]. unfold raw_of_check. rewrite Er, Em. reflexivity.
           ++ cbn [raw_view]. unfold raw_of_check. rewrite Er, Em. reflexivity.
        -- destruct (rh_len h <=? blen rest) eqn:El.
           ++ assert (Hwf' : wf_bytes (dropN (rh_len h) rest) = true).
              { rewrite Hrest. apply wf_bytes_dropN, wf_bytes_dropN. exact Hwf. }
              pose proof (length_dropN (rh_len h) rest) as Hd.
              rewrite (IH (dropN (rh_len h) rest)); [|lia|exact Hwf'].
              destruct (rfc_frames (dropN (rh_len h) rest)) as [fs t].
              cbn [raw_view rf_hdr rf_payload]. unfold raw_of_check. rewrite Er, Em. reflexivity.
           ++ cbn [raw_view]. unfold raw_of_check. rewrite Er, Em. reflexivity.
    + rewrite Hh. reflexivity.
Qed.

Theorem ref_all_rfc max bs : wf_bytes bs = true ->
  ref_all max bs [ROk None] = raw_view max (fst (rfc_frames bs)) (snd (rfc_frames bs)).
Proof.
  intros Hwf. rewrite (ref_all_rfc_aux max (length bs) bs (le_n _) Hwf).
  destruct (rfc_frames bs); reflexivity.
Qed.

(* facts about the frames the declarative framing produces *)
Definition frame_ok (f : raw_frame) : Prop :=
  rh_opcode (rf_hdr f) < 16 /\ blen (rf_payload f) = rh_len (rf_hdr f).

Fixpoint payload_total (fs : list raw_frame) : N :=
  match fs with [] => 0 | f :: r => blen (rf_payload f) + payload_total r end.

Lemma rfc_frames_facts_aux : forall n bs, (length bs <= n)%nat ->
  Forall frame_ok (fst (rfc_frames bs)) /\ payload_total (fst (rfc_frames bs)) <= blen bs.
Proof.
  induction n as [|n IH]; intros bs Hn.
  - destruct bs; [|cbn [length] in Hn; lia]. split; [constructor|cbn; lia].
  - rewrite rfc_frames_eq. destruct (rfc_header bs) as [[h rest]|] eqn:Eh.
    + destruct (rfc_header_facts _ _ _ Eh) as [Hl Hop].
      destruct (rh_len h <=? blen rest) eqn:El.
      * pose proof (length_dropN (rh_len h) rest) as Hd.
        destruct (IH (dropN (rh_len h) rest)) as [IH1 IH2]; [lia|].
        pose proof (CodecReadP.blen_dropN (rh_len h) rest) as Hbd.
        destruct (rfc_frames (dropN (rh_len h) rest)) as [fs t]. cbn [fst] in *.
        assert (Hbt : blen (takeN (rh_len h) rest) = rh_len h) by (apply CodecReadP.blen_takeN; lia).
        split.
        -- constructor; [|exact IH1]. split; [exact Hop|exact Hbt].
        -- cbn [payload_total rf_payload]. unfold blen in *. lia.
      * split; [constructor|cbn [fst payload_total]; lia].
    + split; [constructor|cbn [fst payload_total]; lia].
Qed.

Lemma rfc_frames_facts bs :
  Forall frame_ok (fst (rfc_frames bs)) /\ payload_total (fst (rfc_frames bs)) <= blen bs.
Proof. exact (rfc_frames_facts_aux (length bs) bs (le_n _)). Qed.

(* ------------------------------------------------------------------------------------------- *)
(** * B. One frame *)

(** ** B.1 leaf functions *)

Lemma rfc_unmask_from_rot bs : forall i k, rfc_unmask_from i k bs = xor_cyc (rotn i k) bs.
Proof.
  induction bs as [|b r IH]; intros i k; [reflexivity|].
  cbn [rfc_unmask_from xor_cyc]. f_equal.
  - f_equal. rewrite (rotn_mod4 i k).
    assert (Hi : (i mod 4 < 4)%nat) by (apply Nat.mod_upper_bound; lia).
    destruct k as [[[a b'] c] d].
    destruct (i mod 4)%nat as [|[|[|[|n]]]]; try reflexivity. lia.
  - rewrite IH. f_equal. replace (S i) with (i + 1)%nat by lia. rewrite rotn_add. reflexivity.
Qed.

Lemma rfc_unmask_apply k bs : rfc_unmask k bs = apply_mask k bs.
Proof. unfold rfc_unmask, apply_mask. rewrite rfc_unmask_from_rot. reflexivity. Qed.

Lemma utf8_valid_is bs : utf8_valid bs = is_utf8 bs.
Proof. reflexivity. Qed.

Lemma utf8_valid_iff bs : utf8_valid bs = true <-> valid_utf8 bs.
Proof. rewrite utf8_valid_is. apply is_utf8_iff. Qed.

(* utf8_prefix: the bytes can be completed to valid UTF-8 *)
Lemma utf8_prefix_iff bs : utf8_prefix bs = true <-> exists t, valid_utf8 (bs ++ t).
Proof.
  unfold utf8_prefix. destruct (from_utf8 bs) as [|v el] eqn:F.
  - split; [|reflexivity]. intros _. exists []. rewrite app_nil_r. apply from_utf8_ok_iff. exact F.
  - destruct (from_utf8_err_spec _ _ _ F) as [Hv [Vp [_ [Hnone Hsome]]]].
    destruct el as [l|].
    + split; [discriminate|]. intros [t Vt]. exfalso.
      destruct (Hsome l eq_refl) as [_ [_ [Hno _]]].
      rewrite <- (CodecReadP.takeN_dropN v bs), <- app_assoc in Vt.
      apply (valid_app_inv _ _ Vp) in Vt. exact (Hno t Vt).
    + split; [|reflexivity]. intros _.
      destruct (proj1 Hnone eq_refl) as [t [_ Vt]]. exists t.
      rewrite <- (CodecReadP.takeN_dropN v bs), <- app_assoc. apply valid_app; assumption.
Qed.

Lemma wire_code_ok_allowed c : wire_code_ok c = close_allowed (close_of_u16 c).
Proof.
  pose proof (close_allowed_iff c) as [H1 H2]. unfold allowed_range in *.
  destruct (close_allowed (close_of_u16 c)).
  - specialize (H1 eq_refl). unfold wire_code_ok. lia.
  - destruct (wire_code_ok c) eqn:E; [|reflexivity]. unfold wire_code_ok in E.
    assert (X : false = true) by (apply H2; lia). discriminate X.
Qed.

Lemma over_limit lim n : over lim n = (limit_of lim <? n).
Proof. destruct lim; reflexivity. Qed.

(** ** B.2 the reassembly state *)

Definition acc_rel (i : option incmsg) (a : partial) : Prop :=
  match i, a with
  | None, None => True
  | Some (IBin v), Some (KBinary, bs) => v = bs
  | Some (ITxt c), Some (KText, bs) => coll_wf c /\ coll_bytes c = bs
  | _, _ => False
  end.

Definition partial_len (a : partial) : N := match a with Some (_, bs) => blen bs | None => 0 end.

Lemma blen_app' {A} (a b : list A) : blen (a ++ b) = blen a + blen b.
Proof. unfold blen. rewrite app_length. lia. Qed.

(* IncompleteMessage::extend, binary *)
Lemma extend_bin v tl mms : blen v + blen tl < two64 ->
  incmsg_extend (IBin v) tl mms =
  if over mms (blen (v ++ tl)) then (RErr (ECapacity (blen v + blen tl) (limit_of mms)), IBin v)
  else (ROk tt, IBin (v ++ tl)).
Proof.
  intros Hb. unfold incmsg_extend. cbn [incmsg_len]. rewrite over_limit, blen_app'.
  destruct ((limit_of mms <? blen v) || (limit_of mms - blen v <? blen tl)) eqn:E.
  - destruct (two64 <=? blen v + blen tl) eqn:E2; [lia|].
    destruct (limit_of mms <? blen v + blen tl) eqn:E3; [reflexivity|lia].
  - destruct (limit_of mms <? blen v + blen tl) eqn:E3; [lia|reflexivity].
Qed.

(* IncompleteMessage::extend, text *)
Lemma extend_txt c tl mms : coll_wf c -> blen (coll_bytes c) + blen tl < two64 ->
  let all := coll_bytes c ++ tl in
  if over mms (blen all) then
    exists e, incmsg_extend (ITxt c) tl mms = (RErr e, ITxt c) /\ e = ECapacity (blen (coll_bytes c) + blen tl) (limit_of mms)
  else if utf8_prefix all then
    exists c', incmsg_extend (ITxt c) tl mms = (ROk tt, ITxt c') /\ coll_wf c' /\ coll_bytes c' = all
  else
    exists c', incmsg_extend (ITxt c) tl mms = (RErr EUtf8, ITxt c').
Proof.
  intros W Hb all. unfold incmsg_extend. cbn [incmsg_len]. rewrite collector_len_bytes.
  unfold all. rewrite over_limit, blen_app'.
  set (n := blen (coll_bytes c)) in *. set (m := blen tl) in *.
  destruct ((limit_of mms <? n) || (limit_of mms - n <? m)) eqn:E.
  - destruct (two64 <=? n + m) eqn:E2; [lia|].
    destruct (limit_of mms <? n + m) eqn:E3; [|lia]. eexists. split; reflexivity.
  - destruct (limit_of mms <? n + m) eqn:E3; [lia|].
    pose proof (collector_extend_spec c tl W) as X.
    destruct (collector_extend c tl) as [c'|c'|].
    + destruct X as [W' B'].
      assert (P : utf8_prefix (coll_bytes c ++ tl) = true).
      { apply utf8_prefix_iff. rewrite <- B'. apply coll_wf_completable. exact W'. }
      rewrite P. exists c'. auto.
    + destruct X as [W' B'].
      destruct (utf8_prefix (coll_bytes c ++ tl)) eqn:P.
      * apply utf8_prefix_iff in P. destruct P as [t Vt]. exfalso. apply (B' t).
        rewrite <- app_assoc in Vt. exact Vt.
      * exists c'. reflexivity.
    + exfalso. exact X.
Qed.

(* IncompleteMessage::complete, text *)
Lemma complete_txt c : coll_wf c ->
  incmsg_complete (ITxt c) = if utf8_valid (coll_bytes c) then ROk (MText (coll_bytes c)) else RErr EUtf8.
Proof.
  intros W. pose proof (coll_wf_valid_iff c W) as VI. cbn [incmsg_complete].
  unfold collector_into_string. unfold coll_bytes, inc_bytes in *.
  destruct (sc_inc c) as [i|].
  - destruct (utf8_valid (sc_data c ++ i)) eqn:U; [|reflexivity].
    apply utf8_valid_iff in U. apply VI in U. discriminate U.
  - rewrite app_nil_r in *. destruct (utf8_valid (sc_data c)) eqn:U; [reflexivity|].
    assert (V : valid_utf8 (sc_data c)) by (apply VI; reflexivity).
    apply utf8_valid_iff in V. congruence.
Qed.

Lemma check_max_size_over size mms : size < two64 ->
  check_max_size size mms = if over mms size then RErr (ECapacity size (limit_of mms)) else ROk tt.
Proof.
  intros Hs. unfold check_max_size, over. destruct mms as [m|]; [reflexivity|].
  destruct (18446744073709551615 <? size) eqn:E; [unfold two64 in Hs; lia|reflexivity].
Qed.

(** ** B.3 one step *)

Definition class_of (e : error) : option class :=
  match e with
  | ECapacity _ _ => Some KCapacity
  | EUtf8 => Some KUtf8
  | EProtocol p =>
      match p with
      | ResetWithoutClosingHandshake | SendAfterClosing | ReceivedAfterClosing => None
      | _ => Some KProtocol
      end
  | _ => None
  end.

(* the part of the context the read side depends on, apart from the reassembly state *)
Definition same_side (x1 x2 : ctx) : Prop :=
  x_state x2 = x_state x1 /\ x_role x2 = x_role x1 /\ x_cfg x2 = x_cfg x1 /\ x_codec x2 = x_codec x1.

Lemma same_side_refl x : same_side x x.
Proof. repeat split. Qed.

Lemma same_side_set_additional x f :
  same_side x (set_additional x f) /\ x_incomplete (set_additional x f) = x_incomplete x.
Proof.
  unfold set_additional. destruct (x_additional x) as [g|]; [|repeat split].
  destruct (opcode_eqb (h_opcode (f_hdr g)) (OCtl Pong)); repeat split.
Qed.

Definition step_ok (x1 : ctx) (v : verdict) (out : res (option message) * ctx) : Prop :=
  match v with
  | VNext a' => fst out = ROk None /\ same_side x1 (snd out) /\ acc_rel (x_incomplete (snd out)) a'
  | VDeliver m a' => fst out = ROk (Some m) /\ same_side x1 (snd out) /\ acc_rel (x_incomplete (snd out)) a'
  | VClose m => fst out = ROk (Some m)
  | VReject c => exists e, fst out = RErr e /\ class_of e = Some c
  end.

Lemma utf8_valid_prefix bs : utf8_valid bs = true -> utf8_prefix bs = true.
Proof. unfold utf8_valid, utf8_prefix. destruct (from_utf8 bs) as [|v [l|]]; try discriminate; reflexivity. Qed.

Ltac ss := unfold same_side; repeat split.

(* a Continue frame on a message in progress *)
Lemma frag_continue x1 msg k acc data fin :
  acc_rel (Some msg) (Some (k, acc)) -> blen acc + blen data < two64 ->
  step_ok x1 (rfc_fragment (cfg_max_message_size (x_cfg x1)) k (acc ++ data) fin)
    (let '(r, msg') := incmsg_extend msg data (cfg_max_message_size (x_cfg x1)) in
     let x2 := set_incomplete x1 (Some msg') in
     match r with
     | ROk _ =>
         if fin then
           match incmsg_complete msg' with
           | ROk m => (ROk (Some m), set_incomplete x2 None)
           | RErr e => (RErr e, set_incomplete x2 None)
           | RPanic s => (RPanic s, x2)
           | ROutOfFuel => (ROutOfFuel, x2)
           end
         else (ROk None, x2)
     | RErr e => (RErr e, x2)
     | RPanic s => (RPanic s, x2)
     | ROutOfFuel => (ROutOfFuel, x2)
     end).
Proof.
  intros Hacc Hb. set (mms := cfg_max_message_size (x_cfg x1)).
  destruct msg as [c|v]; destruct k; cbn [acc_rel] in Hacc; try contradiction.
  - (* text *)
    destruct Hacc as [W <-].
    pose proof (extend_txt c data mms W Hb) as X. cbv zeta in X. unfold rfc_fragment.
    destruct (over mms (blen (coll_bytes c ++ data))).
    { destruct X as [e [-> ->]]. cbn [step_ok fst]. eexists. split; reflexivity. }
    destruct (utf8_prefix (coll_bytes c ++ data)) eqn:P.
    + destruct X as [c' [-> [W' B']]]. destruct fin.
      * rewrite (complete_txt c' W'), B'.
        destruct (utf8_valid (coll_bytes c ++ data)).
        -- cbn [step_ok fst snd]. split; [reflexivity|]. split; [ss|exact I].
        -- cbn [step_ok fst]. eexists. split; reflexivity.
      * cbn [step_ok fst snd]. split; [reflexivity|]. split; [ss|].
        cbn [x_incomplete set_incomplete acc_rel]. split; assumption.
    + destruct X as [c' ->].
      assert (V : utf8_valid (coll_bytes c ++ data) = false).
      { destruct (utf8_valid (coll_bytes c ++ data)) eqn:V; [|reflexivity].
        apply utf8_valid_prefix in V. congruence. }
      rewrite V. destruct fin; cbn [step_ok fst]; eexists; split; reflexivity.
  - (* binary *)
    subst v. rewrite (extend_bin acc data mms Hb). unfold rfc_fragment.
    destruct (over mms (blen (acc ++ data))).
    { cbn [step_ok fst]. eexists. split; reflexivity. }
    destruct fin; cbn [incmsg_complete step_ok fst snd].
    + split; [reflexivity|]. split; [ss|exact I].
    + split; [reflexivity|]. split; [ss|reflexivity].
Qed.

(* a Text / Binary frame when no message is in progress *)
Lemma frag_first x1 (d : data_op) k data fin :
  (d = Text /\ k = KText) \/ (d = Binary /\ k = KBinary) -> blen data < two64 ->
  x_incomplete x1 = None ->
  step_ok x1 (rfc_fragment (cfg_max_message_size (x_cfg x1)) k data fin)
    (if fin then
       match check_max_size (blen data) (cfg_max_message_size (x_cfg x1)) with
       | ROk _ =>
           match d with
           | Text => if is_utf8 data then (ROk (Some (MText data)), x1) else (RErr EUtf8, x1)
           | _ => (ROk (Some (MBinary data)), x1)
           end
       | RErr e => (RErr e, x1)
       | RPanic s => (RPanic s, x1)
       | ROutOfFuel => (ROutOfFuel, x1)
       end
     else
       let inc0 := match d with Text => ITxt collector_new | _ => IBin [] end in
       let '(r, inc1) := incmsg_extend inc0 data (cfg_max_message_size (x_cfg x1)) in
       match r with
       | ROk _ => (ROk None, set_incomplete x1 (Some inc1))
       | RErr e => (RErr e, x1)
       | RPanic s => (RPanic s, x1)
       | ROutOfFuel => (ROutOfFuel, x1)
       end).
Proof.
  intros Hk Hb Hinc. set (mms := cfg_max_message_size (x_cfg x1)).
  unfold rfc_fragment. destruct fin.
  - rewrite (check_max_size_over _ mms Hb).
    destruct (over mms (blen data)). { cbn [step_ok fst]. eexists. split; reflexivity. }
    destruct Hk as [[-> ->]|[-> ->]].
    + rewrite utf8_valid_is. destruct (is_utf8 data).
      * cbn [step_ok fst snd]. split; [reflexivity|]. split; [ss|]. rewrite Hinc. exact I.
      * cbn [step_ok fst]. eexists. split; reflexivity.
    + cbn [step_ok fst snd]. split; [reflexivity|]. split; [ss|]. rewrite Hinc. exact I.
  - destruct Hk as [[-> ->]|[-> ->]]; cbv zeta.
    + assert (Hb' : blen (coll_bytes collector_new) + blen data < two64) by (cbn; exact Hb).
      pose proof (extend_txt collector_new data mms coll_wf_new Hb') as X. cbv zeta in X.
      change (coll_bytes collector_new ++ data) with data in X.
      destruct (over mms (blen data)).
      { destruct X as [e [-> ->]]. cbn [step_ok fst]. eexists. split; reflexivity. }
      destruct (utf8_prefix data).
      * destruct X as [c' [-> [W' B']]]. cbn [step_ok fst snd]. split; [reflexivity|].
        split; [ss|]. cbn [x_incomplete set_incomplete acc_rel]. split; assumption.
      * destruct X as [c' ->]. cbn [step_ok fst]. eexists. split; reflexivity.
    + assert (Hb' : blen (@nil N) + blen data < two64) by (cbn; exact Hb).
      rewrite (extend_bin [] data mms Hb'). cbn [app].
      destruct (over mms (blen data)). { cbn [step_ok fst]. eexists. split; reflexivity. }
      cbn [step_ok fst snd]. split; [reflexivity|]. split; [ss|reflexivity].
Qed.

(* what the model does with one frame of the declarative framing: the header-level checks of the codec,
   read_frame's post-processing (payload length assertion, unmasking, server-side mask rule), then the body
   of read_message_frame *)
Definition model_frame (max : N) (x1 : ctx) (f : raw_frame) : res (option message) * ctx :=
  match raw_of_check max (rf_hdr f) with
  | Some r => (match r with RErr e => RErr e | _ => RPanic 0 end, x1)
  | None =>
      match post_frame (role_eqb (x_role x1) Server) (cfg_accept_unmasked (x_cfg x1))
                       (ROk (Some (hdr_of (rf_hdr f), rh_len (rf_hdr f), rf_payload f))) with
      | ROk (Some fr) => Utf8P.on_frame x1 fr
      | ROk None => (RErr (EProtocol ResetWithoutClosingHandshake), set_state x1 Terminated)
      | RErr e => (RErr e, x1)
      | RPanic s => (RPanic s, x1)
      | ROutOfFuel => (ROutOfFuel, x1)
      end
  end.

Lemma opcode_cases op : op < 16 -> reserved_opcode op = false ->
  op = 0 \/ op = 1 \/ op = 2 \/ op = 8 \/ op = 9 \/ op = 10.
Proof. unfold reserved_opcode. lia. Qed.

Lemma close_step x1 data : x_state x1 = Active ->
  step_ok x1 (rfc_close data)
    (match frame_into_close data with
     | ROk cl =>
         let '(r, x2) := do_close x1 cl in
         match r with
         | ROk (Some c) => (ROk (Some (MClose c)), x2)
         | ROk None => (ROk None, x2)
         | RErr e => (RErr e, x2)
         | RPanic s => (RPanic s, x2)
         | ROutOfFuel => (ROutOfFuel, x2)
         end
     | RErr e => (RErr e, x1)
     | RPanic s => (RPanic s, x1)
     | ROutOfFuel => (ROutOfFuel, x1)
     end).
Proof.
  intros Hst. unfold rfc_close, do_close. destruct data as [|a [|b reason]]; cbn [frame_into_close].
  - rewrite Hst. reflexivity.
  - cbn [step_ok fst]. eexists. split; reflexivity.
  - rewrite utf8_valid_is. destruct (is_utf8 reason).
    + rewrite Hst. cbn [step_ok fst]. rewrite wire_code_ok_allowed.
      replace (from_be [a; b]) with (a * 256 + b) by (unfold from_be; cbn [fold_left]; lia).
      destruct (close_allowed (close_of_u16 (a * 256 + b))); reflexivity.
    + cbn [step_ok fst]. eexists. split; reflexivity.
Qed.

Theorem step_refines mfs x1 f a :
  frame_ok f -> x_state x1 = Active -> acc_rel (x_incomplete x1) a ->
  partial_len a + blen (rf_payload f) < two64 ->
  step_ok x1
    (rfc_step (x_role x1) (cfg_accept_unmasked (x_cfg x1)) mfs (cfg_max_message_size (x_cfg x1)) a f)
    (model_frame (limit_of mfs) x1 f).
Proof.
  destruct f as [[fin r1 r2 r3 op key len] payload]. intros [Hop Hlen] Hst Hacc Hb.
  cbn [rf_hdr rf_payload rh_opcode rh_len] in Hop, Hlen, Hb. subst len.
  unfold rfc_step, model_frame, rfc_header_check, raw_of_check.
  cbn [rf_hdr rf_payload rh_fin rh_rsv1 rh_rsv2 rh_rsv3 rh_opcode rh_key rh_len].
  destruct (reserved_opcode op) eqn:Er. { cbn [step_ok fst]. eexists. split; reflexivity. }
  rewrite over_limit. destruct (limit_of mfs <? blen payload). { cbn [step_ok fst]. eexists. split; reflexivity. }
  cbn [post_frame]. rewrite N.eqb_refl. cbn [negb].
  unfold hdr_of. cbn [rh_fin rh_rsv1 rh_rsv2 rh_rsv3 rh_opcode rh_key h_mask h_fin h_rsv1 h_rsv2 h_rsv3 h_opcode].
  set (au := cfg_accept_unmasked (x_cfg x1)).
  (* the mask rule; afterwards the frame carries no key and the unmasked payload *)
  assert (Hgoal : forall data, blen data = blen payload ->
    data = match key with Some k => rfc_unmask k payload | None => payload end ->
    step_ok x1
      (if r1 || r2 || r3 then VReject KProtocol
       else if 8 <=? op
         then if negb fin || (125 <? blen data) then VReject KProtocol
              else if op =? 9 then VDeliver (MPing data) a
              else if op =? 10 then VDeliver (MPong data) a else rfc_close data
         else if op =? 0
           then match a with
                | Some (k, acc) => rfc_fragment (cfg_max_message_size (x_cfg x1)) k (acc ++ data) fin
                | None => VReject KProtocol
                end
           else match a with
                | Some _ => VReject KProtocol
                | None => rfc_fragment (cfg_max_message_size (x_cfg x1)) (if op =? 1 then KText else KBinary) data fin
                end)
      (Utf8P.on_frame x1 (mkFrame (mkHeader fin r1 r2 r3 (opc_of op) None) data))).
  { intros data Hdl _. unfold Utf8P.on_frame.
    cbn [f_hdr f_payload h_mask h_fin h_rsv1 h_rsv2 h_rsv3 h_opcode]. rewrite Hst. cbn [can_read negb].
    destruct (r1 || r2 || r3). { cbn [step_ok fst]. eexists. split; reflexivity. }
    rewrite andb_false_r.
    destruct (opcode_cases op Hop Er) as [E|[E|[E|[E|[E|E]]]]]; subst op.
    - (* Continue *)
      change (opc_of 0) with (OData Continue). change (8 <=? 0) with false. change (0 =? 0) with true. cbv iota.
      destruct (x_incomplete x1) as [msg|] eqn:Ei.
      + destruct a as [[k acc]|]; [|destruct msg; contradiction].
        apply frag_continue; [exact Hacc|]. cbn [partial_len] in Hb. rewrite Hdl. exact Hb.
      + destruct a as [[k acc]|]; [contradiction|]. cbn [step_ok fst]. eexists. split; reflexivity.
    - (* Text *)
      change (opc_of 1) with (OData Text). change (8 <=? 1) with false. change (1 =? 0) with false.
      change (1 =? 1) with true. cbv iota.
      destruct (x_incomplete x1) as [msg|] eqn:Ei.
      + destruct a as [[k acc]|]; [|destruct msg; contradiction]. cbn [step_ok fst]. eexists. split; reflexivity.
      + destruct a as [[k acc]|]; [contradiction|].
        apply (frag_first x1 Text KText data fin); [left; auto| |exact Ei]. rewrite Hdl. cbn [partial_len] in Hb. lia.
    - (* Binary *)
      change (opc_of 2) with (OData Binary). change (8 <=? 2) with false. change (2 =? 0) with false.
      change (2 =? 1) with false. cbv iota.
      destruct (x_incomplete x1) as [msg|] eqn:Ei.
      + destruct a as [[k acc]|]; [|destruct msg; contradiction]. cbn [step_ok fst]. eexists. split; reflexivity.
      + destruct a as [[k acc]|]; [contradiction|].
        apply (frag_first x1 Binary KBinary data fin); [right; auto| |exact Ei]. rewrite Hdl. cbn [partial_len] in Hb. lia.
    - (* Close *)
      change (opc_of 8) with (OCtl Close). change (8 <=? 8) with true. change (8 =? 9) with false.
      change (8 =? 10) with false. cbv iota.
      destruct (negb fin). { cbn [orb step_ok fst]. eexists. split; reflexivity. }
      cbn [orb]. destruct (125 <? blen data). { cbn [step_ok fst]. eexists. split; reflexivity. }
      apply close_step. exact Hst.
    - (* Ping *)
      change (opc_of 9) with (OCtl Ping). change (8 <=? 9) with true. change (9 =? 9) with true. cbv iota.
      destruct (negb fin). { cbn [orb step_ok fst]. eexists. split; reflexivity. }
      cbn [orb]. destruct (125 <? blen data). { cbn [step_ok fst]. eexists. split; reflexivity. }
      cbn [is_active step_ok fst snd].
      destruct (same_side_set_additional x1 (frame_pong data)) as [S1 S2].
      split; [reflexivity|]. split; [exact S1|]. rewrite S2. exact Hacc.
    - (* Pong *)
      change (opc_of 10) with (OCtl Pong). change (8 <=? 10) with true. change (10 =? 9) with false.
      change (10 =? 10) with true. cbv iota.
      destruct (negb fin). { cbn [orb step_ok fst]. eexists. split; reflexivity. }
      cbn [orb]. destruct (125 <? blen data). { cbn [step_ok fst]. eexists. split; reflexivity. }
      cbn [step_ok fst snd]. split; [reflexivity|]. split; [ss|exact Hacc]. }
  destruct (x_role x1) eqn:Hr; cbn [role_eqb mask_direction_ok].
  - (* server *)
    destruct key as [k|]; cbn [negb].
    + rewrite <- rfc_unmask_apply. apply Hgoal; [|reflexivity]. rewrite rfc_unmask_apply. apply HeaderP.apply_mask_blen.
    + destruct au; cbn [negb].
      * apply Hgoal; reflexivity.
      * cbn [step_ok fst]. eexists. split; reflexivity.
  - (* client *)
    destruct key as [k|]; cbn [negb].
    + unfold Utf8P.on_frame. cbn [f_hdr f_payload h_mask h_fin h_rsv1 h_rsv2 h_rsv3 h_opcode]. rewrite Hst, Hr.
      cbn [can_read negb role_eqb andb].
      destruct (r1 || r2 || r3); cbn [step_ok fst]; eexists; split; reflexivity.
    + apply Hgoal; reflexivity.
Qed.

(* spec-side shape facts *)
Definition is_close (m : message) : bool := match m with MClose _ => true | _ => false end.

Lemma rfc_fragment_shape mms k all fin :
  match rfc_fragment mms k all fin with
  | VDeliver m _ => is_close m = false
  | VClose _ => False
  | _ => True
  end.
Proof.
  unfold rfc_fragment. destruct (over mms (blen all)); [exact I|].
  destruct k; destruct fin; try exact I; try reflexivity.
  - destruct (utf8_valid all); [reflexivity|exact I].
  - destruct (utf8_prefix all); exact I.
Qed.

Lemma rfc_step_shape r au mfs mms a f :
  match rfc_step r au mfs mms a f with
  | VDeliver m _ => is_close m = false
  | VClose m => is_close m = true
  | _ => True
  end.
Proof.
  unfold rfc_step. destruct (rfc_header_check mfs (rf_hdr f)); [exact I|].
  destruct (negb _); [exact I|]. destruct (_ || _ || _); [exact I|].
  destruct (8 <=? _).
  - destruct (negb _ || _); [exact I|]. destruct (_ =? 9); [reflexivity|].
    destruct (_ =? 10); [reflexivity|]. unfold rfc_close.
    destruct (match rh_key (rf_hdr f) with Some k => _ | None => _ end) as [|c1 [|c2 reason]]; try exact I; try reflexivity.
    destruct (utf8_valid reason); [reflexivity|exact I].
  - destruct (_ =? 0).
    + destruct a as [[k acc]|]; [|exact I].
      pose proof (rfc_fragment_shape mms k (acc ++ match rh_key (rf_hdr f) with Some k0 => rfc_unmask k0 (rf_payload f) | None => rf_payload f end) (rh_fin (rf_hdr f))) as X.
      destruct (rfc_fragment _ _ _ _); try exact I; try exact X. contradiction.
    + destruct a as [[k acc]|]; [exact I|].
      pose proof (rfc_fragment_shape mms (if rh_opcode (rf_hdr f) =? 1 then KText else KBinary) (match rh_key (rf_hdr f) with Some k0 => rfc_unmask k0 (rf_payload f) | None => rf_payload f end) (rh_fin (rf_hdr f))) as X.
      destruct (rfc_fragment _ _ _ _); try exact I; try exact X. contradiction.
Qed.

(* ------------------------------------------------------------------------------------------- *)
(** * C. Lifting to read / run_ops *)

(** ** C.1 the write side is invisible to the read side

   A transport whose write side never fails hard: every write accepts at least one byte or answers
   WouldBlock, every flush succeeds or answers WouldBlock (an exhausted oracle answers WouldBlock).
   This covers "accepts everything" (WrAccept n with n >= offered, FlOk). *)
Definition wr_benign (o : wr_out) : Prop := match o with WrAccept n => 0 < n | WrErr k => k = WouldBlock end.
Definition fl_benign (o : fl_out) : Prop := match o with FlOk => True | FlErr k => k = WouldBlock end.
Definition benign (w : world) : Prop := Forall wr_benign (w_wrs w) /\ Forall fl_benign (w_fls w).

Definition soft {A} (r : res A) : Prop :=
  match r with ROk _ => True | RErr (EIo WouldBlock) => True | _ => False end.

Lemma write_out_loop_soft wrs : forall out log r out' wrs' log',
  Forall wr_benign wrs -> write_out_loop wrs out log = (r, out', wrs', log') ->
  soft r /\ Forall wr_benign wrs'.
Proof.
  induction wrs as [|o rest IH]; intros out log r out' wrs' log' Hb E; destruct out as [|b out0];
    cbn [write_out_loop] in E.
  - injection E as <- _ <- _. split; [exact I|exact Hb].
  - injection E as <- _ <- _. split; [exact I|constructor].
  - injection E as <- _ <- _. split; [exact I|exact Hb].
  - inversion Hb as [|? ? Ho Hrest]; subst. destruct o as [n|k].
    + cbn [wr_benign] in Ho.
      assert (Hn : N.min n (blen (b :: out0)) =? 0 = false).
      { unfold blen. cbn [length]. lia. }
      rewrite Hn in E. exact (IH _ _ _ _ _ _ Hrest E).
    + cbn [wr_benign] in Ho. subst k. injection E as <- _ <- _. split; [exact I|exact Hrest].
Qed.

(* what the read side sees of context and world *)
Definition rside (x : ctx) (w : world) (x' : ctx) (w' : world) : Prop :=
  x_state x' = x_state x /\ x_role x' = x_role x /\ x_cfg x' = x_cfg x /\ x_incomplete x' = x_incomplete x /\
  c_in (x_codec x') = c_in (x_codec x) /\ c_hdr (x_codec x') = c_hdr (x_codec x) /\
  w_rds w' = w_rds w /\ benign w'.

Lemma rside_refl x w : benign w -> rside x w x w.
Proof. intros H. unfold rside. auto 10. Qed.

Lemma rside_trans x0 w0 x1 w1 x2 w2 : rside x0 w0 x1 w1 -> rside x1 w1 x2 w2 -> rside x0 w0 x2 w2.
Proof.
  unfold rside. intros [A1 [A2 [A3 [A4 [A5 [A6 [A7 A8]]]]]]] [B1 [B2 [B3 [B4 [B5 [B6 [B7 B8]]]]]]].
  rewrite B1, B2, B3, B4, B5, B6, B7. auto 10.
Qed.

Lemma write_out_buffer_rside x w r c' w' : benign w ->
  write_out_buffer (x_codec x) w = (r, c', w') -> soft r /\ rside x w (set_codec x c') w'.
Proof.
  intros [Hw Hf]. unfold write_out_buffer.
  destruct (write_out_loop (w_wrs w) (c_out (x_codec x)) (w_log w)) as [[[r1 out'] wrs'] log'] eqn:E.
  intros H. injection H as <- <- <-.
  destruct (write_out_loop_soft _ _ _ _ _ _ _ Hw E) as [S1 S2].
  split; [exact S1|]. unfold rside, benign. cbn. auto 10.
Qed.

Lemma w_flush_rside x w r w' : benign w -> w_flush w = (r, w') -> soft r /\ rside x w x w'.
Proof.
  intros [Hw Hf]. unfold w_flush. destruct (w_fls w) as [|o rest] eqn:Ef.
  - intros H. injection H as <- <-. split; [exact I|]. unfold rside, benign. cbn. rewrite Ef. auto 10.
  - inversion Hf as [|? ? Ho Hrest]; subst. destruct o as [|k].
    + intros H. injection H as <- <-. split; [exact I|]. unfold rside, benign. cbn. auto 10.
    + cbn [fl_benign] in Ho. subst k. intros H. injection H as <- <-. split; [exact I|].
      unfold rside, benign. cbn. auto 10.
Qed.

Lemma codec_buffer_frame_rside x f w r c' w' : benign w ->
  codec_buffer_frame (x_codec x) f w = (r, c', w') ->
  (soft r \/ r = RErr (EWriteBufferFull f)) /\ rside x w (set_codec x c') w'.
Proof.
  intros Hb. unfold codec_buffer_frame.
  destruct (c_max_out (x_codec x) <? frame_len f + blen (c_out (x_codec x))).
  - intros H. injection H as <- <- <-. split; [right; reflexivity|].
    destruct Hb. unfold rside, benign. cbn. auto 10.
  - set (c1 := set_out (x_codec x) (frame_format_into_buf (c_out (x_codec x)) f)).
    set (w1 := w_emit w (EvQueue f)).
    assert (Hb1 : benign w1) by (destruct Hb; split; assumption).
    destruct (c_write_len (x_codec x) <? blen (c_out c1)).
    + intros H. change c1 with (x_codec (set_codec x c1)) in H.
      destruct (write_out_buffer_rside _ _ _ _ _ Hb1 H) as [S R]. split; [left; exact S|].
      unfold rside in *. cbn in *. exact R.
    + intros H. injection H as <- <- <-. split; [left; exact I|].
      destruct Hb1. unfold rside, benign. cbn. auto 10.
Qed.

Lemma check_reset_active {A} (r : res A) : check_connection_reset r Active = (r, Active).
Proof. destruct r as [a|[| |[]| | | |]|s|]; reflexivity. Qed.

Lemma buffer_frame_rside x f w r x' w' : x_state x = Active -> benign w ->
  buffer_frame x f w = (r, x', w') ->
  (soft r \/ exists f', r = RErr (EWriteBufferFull f')) /\ rside x w x' w' /\
  x_additional x' = x_additional x /\ x_unflushed x' = x_unflushed x.
Proof.
  intros Hst Hb. unfold buffer_frame.
  set (fw := match x_role x with Server => (f, w) | Client => _ end).
  assert (Hfw : benign (snd fw) /\ w_rds (snd fw) = w_rds w).
  { unfold fw. destruct (x_role x); [split; [exact Hb|reflexivity]|].
    unfold w_next_key. destruct (w_keys w); cbn [snd]; (split; [exact Hb|reflexivity]). }
  destruct fw as [f1 w1]. cbn [snd] in Hfw. destruct Hfw as [Hb1 Hr1].
  destruct (codec_buffer_frame (x_codec x) f1 w1) as [[r1 c'] w2] eqn:E.
  rewrite Hst, check_reset_active. intros H. injection H as <- <- <-.
  destruct (codec_buffer_frame_rside _ _ _ _ _ _ Hb1 E) as [S R].
  split; [destruct S as [S|S]; [left; exact S|right; eexists; exact S]|].
  split; [|split; reflexivity].
  unfold rside in *. cbn in *. rewrite <- Hr1, <- Hst. exact R.
Qed.

Lemma rside_set_additional x w f : benign w -> rside x w (set_additional x f) w.
Proof.
  intros Hb. destruct (same_side_set_additional x f) as [[S1 [S2 [S3 S4]]] S5].
  unfold rside. rewrite S1, S2, S3, S4, S5. auto 10.
Qed.

Lemma write__none_rside x w r x' w' : x_state x = Active -> benign w ->
  write_ x None w = (r, x', w') -> soft r /\ rside x w x' w'.
Proof.
  intros Hst Hb. unfold write_. destruct (x_additional x) as [msg|] eqn:Ea.
  - set (xa := set_additional_raw x None).
    assert (Hxa : rside x w xa w) by (unfold rside; cbn; auto 10).
    assert (Hsa : x_state xa = Active) by exact Hst.
    destruct (buffer_frame xa msg w) as [[rb xb] wb] eqn:Eb.
    destruct (buffer_frame_rside _ _ _ _ _ _ Hsa Hb Eb) as [S [R _]].
    assert (Hsb : x_state xb = Active) by (destruct R as [R1 _]; rewrite R1; exact Hsa).
    pose proof (rside_trans _ _ _ _ _ _ Hxa R) as R'.
    destruct rb as [u|e|s|].
    + change (x_state (set_unflushed xb true)) with (x_state xb).
      rewrite Hsb. cbn [closing_done]. rewrite andb_false_r. cbn [andb].
      intros H. injection H as <- <- <-. split; [exact I|].
      unfold rside in *. cbn in *. exact R'.
    + destruct S as [S|[f' S]].
      * destruct e as [| |k| | | |]; try contradiction. destruct k; try contradiction.
        intros H. injection H as <- <- <-. split; [exact I|].
        unfold rside in *. cbn in *. exact R'.
      * injection S as ->.
        assert (Hbb : benign wb) by (destruct R' as [_ [_ [_ [_ [_ [_ [_ X]]]]]]]; exact X).
        pose proof (rside_trans _ _ _ _ _ _ R' (rside_set_additional xb wb f' Hbb)) as R2.
        assert (Hs2 : x_state (set_additional xb f') = Active).
        { destruct (same_side_set_additional xb f') as [[S1 _] _]. rewrite S1. exact Hsb. }
        rewrite Hs2. cbn [closing_done]. rewrite andb_false_r. cbn [andb].
        intros H. injection H as <- <- <-. split; [exact I|exact R2].
    + destruct S as [S|[f' S]]; [contradiction|discriminate].
    + destruct S as [S|[f' S]]; [contradiction|discriminate].
  - rewrite Hst. cbn [closing_done]. rewrite andb_false_r. cbn [andb].
    intros H. injection H as <- <- <-. split; [exact I|apply rside_refl; exact Hb].
Qed.

Lemma rside_benign x w x' w' : rside x w x' w' -> benign w'.
Proof. intros [_ [_ [_ [_ [_ [_ [_ X]]]]]]]. exact X. Qed.

Lemma rside_state x w x' w' : rside x w x' w' -> x_state x' = x_state x.
Proof. intros [X _]. exact X. Qed.

Lemma flush_rside x w r x' w' : x_state x = Active -> benign w ->
  flush x w = (r, x', w') -> soft r /\ rside x w x' w'.
Proof.
  intros Hst Hb. unfold flush.
  destruct (write_ x None w) as [[r0 x0] w0] eqn:E0.
  destruct (write__none_rside _ _ _ _ _ Hst Hb E0) as [S0 R0].
  pose proof (rside_benign _ _ _ _ R0) as Hb0.
  destruct r0 as [u|e|s|]; try contradiction.
  - destruct (write_out_buffer (x_codec x0) w0) as [[r1 c1] w1] eqn:E1.
    destruct (write_out_buffer_rside _ _ _ _ _ Hb0 E1) as [S1 R1].
    pose proof (rside_trans _ _ _ _ _ _ R0 R1) as R01.
    pose proof (rside_benign _ _ _ _ R1) as Hb1.
    destruct r1 as [u1|e1|s1|]; try contradiction.
    + destruct (w_flush w1) as [r2 w2] eqn:E2.
      destruct (w_flush_rside (set_codec x0 c1) _ _ _ Hb1 E2) as [S2 R2].
      pose proof (rside_trans _ _ _ _ _ _ R01 R2) as R012.
      destruct r2 as [u2|e2|s2|]; try contradiction.
      * intros H. injection H as <- <- <-. split; [exact I|].
        unfold rside in *. cbn in *. exact R012.
      * intros H. injection H as <- <- <-. split; [exact S2|exact R012].
    + intros H. injection H as <- <- <-. split; [exact S1|exact R01].
  - intros H. injection H as <- <- <-. split; [exact S0|exact R0].
Qed.

(* the part of read's loop body that precedes read_message_frame *)
Definition pre_read (x : ctx) (w : world) : res unit * ctx * world :=
  if (match x_additional x with Some _ => true | None => false end) || x_unflushed x then
    let '(r, x', w') := flush x w in
    match r with
    | ROk _ => (ROk tt, x', w')
    | RErr (EIo WouldBlock) => (ROk tt, set_unflushed x' true, w')
    | _ => (r, x', w')
    end
  else if role_eqb (x_role x) Server && negb (can_read (x_state x)) then
    let '(rw, c', w') := write_out_buffer (x_codec x) w in
    match rw with
    | ROk _ => (RErr EConnectionClosed, set_state (set_codec x c') Terminated, w')
    | _ => (rw, set_codec x c', w')
    end
  else (ROk tt, x, w).

Lemma read_loop_eq fuel x w :
  read_loop (S fuel) x w =
  let '(r0, x0, w0) := pre_read x w in
  match r0 with
  | ROk _ =>
      let '(r1, x1, w1) := read_message_frame x0 w0 in
      match r1 with
      | ROk (Some m) => (ROk m, x1, w1)
      | ROk None => read_loop fuel x1 w1
      | RErr e => (RErr e, x1, w1)
      | RPanic s => (RPanic s, x1, w1)
      | ROutOfFuel => (ROutOfFuel, x1, w1)
      end
  | RErr e => (RErr e, x0, w0)
  | RPanic s => (RPanic s, x0, w0)
  | ROutOfFuel => (ROutOfFuel, x0, w0)
  end.
Proof. reflexivity. Qed.

Lemma pre_read_rside x w : x_state x = Active -> benign w ->
  exists x0 w0, pre_read x w = (ROk tt, x0, w0) /\ rside x w x0 w0.
Proof.
  intros Hst Hb. unfold pre_read.
  destruct ((match x_additional x with Some _ => true | None => false end) || x_unflushed x).
  - destruct (flush x w) as [[r x'] w'] eqn:E.
    destruct (flush_rside _ _ _ _ _ Hst Hb E) as [S R].
    destruct r as [u|e|s|]; try contradiction.
    + exists x', w'. split; [reflexivity|exact R].
    + destruct e as [| |k| | | |]; try contradiction. destruct k; try contradiction.
      exists (set_unflushed x' true), w'. split; [reflexivity|]. unfold rside in *. cbn in *. exact R.
  - rewrite Hst. cbn [can_read negb]. rewrite andb_false_r.
    exists x, w. split; [reflexivity|apply rside_refl; exact Hb].
Qed.

(** ** C.2 fuel: read's bound is enough

   [pot c + rd_bytes rds] strictly decreases with every frame read_frame_loop delivers; a held header
   counts only if it announces an empty payload, which never survives a call. *)
Definition pot (c : codec) : nat :=
  (length (c_in c) + match c_hdr c with Some (_, len) => if N.eqb len 0%N then 1 else 0 | None => 0 end)%nat.
Definition hdr_nz (c : codec) : Prop := match c_hdr c with Some (_, len) => len <> 0 | None => True end.

Lemma pot_nz c : hdr_nz c -> pot c = length (c_in c).
Proof.
  unfold hdr_nz, pot. destruct (c_hdr c) as [[h len]|]; [|lia].
  intros H. destruct (len =? 0) eqn:E; lia.
Qed.

Lemma held_pot max c h len : c_hdr c = Some (h, len) ->
  match held max c h len with
  | TkPayload _ _ _ c' => (pot c' < pot c)%nat /\ c_hdr c' = None
  | TkNeedMore _ c' => c' = c /\ len <> 0
  | _ => True
  end.
Proof.
  intros Hh. unfold held. destruct (max <? len); [exact I|].
  destruct (len <=? blen (c_in c)) eqn:El.
  - split; [|reflexivity]. unfold pot. cbn [c_in c_hdr set_in set_hdr]. rewrite Hh, length_dropN.
    unfold blen in El. destruct (len =? 0) eqn:E0; lia.
  - split; [reflexivity|]. unfold blen in El. lia.
Qed.

Lemma try_take_pot max c :
  match try_take max c with
  | TkPayload _ _ _ c' => (pot c' < pot c)%nat /\ c_hdr c' = None
  | TkNeedMore _ c' => (pot c' <= pot c)%nat /\ hdr_nz c'
  | _ => True
  end.
Proof.
  rewrite try_take_eq. destruct (c_hdr c) as [[h len]|] eqn:Hh.
  - pose proof (held_pot max c h len Hh) as X.
    destruct (held max c h len) as [h' len' p c'|n c'|e c'|s]; try exact I; [exact X|].
    destruct X as [-> Hn]. split; [lia|]. unfold hdr_nz. rewrite Hh. exact Hn.
  - destruct (header_parse (c_in c)) as [h len k| |i|] eqn:Hp; try exact I.
    + destruct (hp_ok _ _ _ _ Hp) as [Hk _].
      set (c1 := set_hdr (set_in c (dropN k (c_in c))) (Some (h, len))).
      assert (H1 : (pot c1 < pot c)%nat).
      { unfold pot, c1. cbn [c_in c_hdr set_in set_hdr]. rewrite Hh, length_dropN.
        unfold blen in Hk. destruct (len =? 0); lia. }
      pose proof (held_pot max c1 h len eq_refl) as X.
      destruct (held max c1 h len) as [h' len' p c'|n c'|e c'|s]; try exact I.
      * destruct X as [X1 X2]. split; [lia|exact X2].
      * destruct X as [-> Hn]. split; [lia|]. unfold hdr_nz, c1. cbn [c_hdr set_hdr]. exact Hn.
    + split; [lia|]. unfold hdr_nz. rewrite Hh. exact I.
Qed.

Lemma rfl_pot max : forall rds c r c' rds',
  rfl max rds c = (r, c', rds') ->
  match classify r with
  | KFrame => (pot c' + rd_bytes rds' < pot c + rd_bytes rds)%nat /\ c_hdr c' = None
  | KWB => (pot c' + rd_bytes rds' <= pot c + rd_bytes rds)%nat /\ hdr_nz c'
  | KStop => True
  end.
Proof.
  induction rds as [|o rest IH]; intros c r c' rds' E; rewrite rfl_eq in E;
    pose proof (try_take_pot max c) as Hp;
    destruct (try_take max c) as [h len p c1|n c1|e c1|s] eqn:Et.
  - injection E as <- <- <-. cbn [classify]. destruct Hp. split; [lia|assumption].
  - injection E as <- <- <-. cbn [classify rd_bytes]. destruct Hp. split; [lia|assumption].
  - injection E as <- <- <-. rewrite (classify_err_not_io e (try_take_err_not_io _ _ _ _ Et)). exact I.
  - injection E as <- <- <-. exact I.
  - injection E as <- <- <-. cbn [classify]. destruct Hp. split; [cbn [rd_bytes]; lia|assumption].
  - destruct Hp as [Hp1 Hp2]. destruct o as [[|b bs]| |k].
    + injection E as <- <- <-. exact I.
    + specialize (IH _ _ _ _ E).
      assert (Hc : pot (set_in c1 (c_in c1 ++ b :: bs)) = (pot c1 + length (b :: bs))%nat).
      { unfold pot. cbn [c_in c_hdr set_in]. rewrite app_length. lia. }
      cbn [rd_bytes]. destruct (classify r).
      * destruct IH as [I1 I2]. split; [lia|exact I2].
      * destruct IH as [I1 I2]. split; [lia|exact I2].
      * exact I.
    + injection E as <- <- <-. exact I.
    + injection E as <- <- <-. destruct k; cbn [classify]; try exact I.
      split; [cbn [rd_bytes]; lia|exact Hp2].
  - injection E as <- <- <-. rewrite (classify_err_not_io e (try_take_err_not_io _ _ _ _ Et)). exact I.
  - injection E as <- <- <-. exact I.
Qed.

(** ** C.3 read_message_frame on an Active context *)

Lemma rmf_active x w : x_state x = Active ->
  read_message_frame x w =
  let '(r, c', rds') := rfl (limit_of (cfg_max_frame_size (x_cfg x))) (w_rds w) (x_codec x) in
  let w1 := mkWorld rds' (w_wrs w) (w_fls w) (w_keys w)
                    (rfl_log (limit_of (cfg_max_frame_size (x_cfg x))) (w_rds w) (x_codec x) (w_log w)) in
  let x1 := set_state (set_codec x c') Active in
  match post_frame (role_eqb (x_role x) Server) (cfg_accept_unmasked (x_cfg x)) r with
  | ROk (Some f) => let '(r2, x2) := Utf8P.on_frame x1 f in (r2, x2, w1)
  | ROk None => (RErr (EProtocol ResetWithoutClosingHandshake), set_state x1 Terminated, w1)
  | RErr e => (RErr e, x1, w1)
  | RPanic s => (RPanic s, x1, w1)
  | ROutOfFuel => (ROutOfFuel, x1, w1)
  end.
Proof.
  intros Hst. rewrite Utf8P.rmf_unfold, read_frame_eq.
  destruct (rfl _ _ _) as [[r c'] rds']. rewrite Hst, check_reset_active.
  destruct (post_frame _ _ r) as [[f|]|e|s|]; reflexivity.
Qed.

(** ** C.4 raw_view inversions *)

Lemma raw_of_check_cases max h :
  raw_of_check max h = None \/ exists e, raw_of_check max h = Some (RErr e) /\ forall k, e <> EIo k.
Proof.
  unfold raw_of_check. destruct (reserved_opcode (rh_opcode h)).
  - right. eexists. split; [reflexivity|discriminate].
  - destruct (max <? rh_len h); [|left; reflexivity].
    right. eexists. split; [reflexivity|discriminate].
Qed.

Lemma raw_check_spec mfs h :
  match raw_of_check (limit_of mfs) h, rfc_header_check mfs h with
  | None, None => True
  | Some (RErr e), Some c => class_of e = Some c
  | _, _ => False
  end.
Proof.
  unfold raw_of_check, rfc_header_check. rewrite over_limit.
  destruct (reserved_opcode (rh_opcode h)); [reflexivity|].
  destruct (limit_of mfs <? rh_len h); [reflexivity|exact I].
Qed.

Lemma raw_view_nonempty max fs t : raw_view max fs t <> [].
Proof.
  destruct fs as [|f fs']; cbn [raw_view].
  - destruct t as [bs|h got]; [discriminate|]. destruct (raw_of_check max h); discriminate.
  - destruct (raw_of_check max (rf_hdr f)); discriminate.
Qed.

Lemma raw_view_frame max fs t r V' : raw_view max fs t = r :: V' -> classify r = KFrame ->
  exists f fs', fs = f :: fs' /\ raw_of_check max (rf_hdr f) = None /\
    r = ROk (Some (hdr_of (rf_hdr f), rh_len (rf_hdr f), rf_payload f)) /\ V' = raw_view max fs' t.
Proof.
  destruct fs as [|f fs']; cbn [raw_view].
  - destruct t as [bs|h got].
    + intros H. injection H as <- <-. discriminate.
    + destruct (raw_of_check_cases max h) as [->|[e [-> He]]]; intros H; injection H as <- <-; try discriminate.
      rewrite (classify_err_not_io e He). discriminate.
  - destruct (raw_of_check_cases max (rf_hdr f)) as [Hc|[e [Hc He]]]; rewrite Hc.
    + intros H _. injection H as <- <-. exists f, fs'. auto.
    + intros H. injection H as <- <-. rewrite (classify_err_not_io e He). discriminate.
Qed.

Lemma raw_view_stop max fs t r : raw_view max fs t = [r] -> classify r = KStop ->
  match fs with
  | [] => match t with
          | TBytes _ => r = ROk None
          | THeader h _ => match raw_of_check max h with Some e => r = e | None => r = ROk None end
          end
  | f :: _ => raw_of_check max (rf_hdr f) = Some r
  end.
Proof.
  destruct fs as [|f fs']; cbn [raw_view].
  - destruct t as [bs|h got].
    + intros H _. injection H as <-. reflexivity.
    + destruct (raw_of_check max h); intros H _; injection H as <-; reflexivity.
  - destruct (raw_of_check max (rf_hdr f)).
    + intros H _. injection H as <-. reflexivity.
    + intros H. injection H as <- _. discriminate.
Qed.

(** ** C.5 spec-side size bookkeeping *)

Lemma unmask_data_len (k : option key) (p : bytes) :
  blen (match k with Some k0 => rfc_unmask k0 p | None => p end) = blen p.
Proof. destruct k as [k0|]; [|reflexivity]. rewrite rfc_unmask_apply. apply HeaderP.apply_mask_blen. Qed.

Lemma rfc_fragment_len mms k all fin :
  match rfc_fragment mms k all fin with
  | VNext a' | VDeliver _ a' => partial_len a' <= blen all
  | _ => True
  end.
Proof.
  unfold rfc_fragment. destruct (over mms (blen all)); [exact I|].
  destruct k; destruct fin; cbn [partial_len]; try lia.
  - destruct (utf8_valid all); cbn [partial_len]; [lia|exact I].
  - destruct (utf8_prefix all); cbn [partial_len]; [lia|exact I].
Qed.

Lemma rfc_step_len r au mfs mms a f :
  match rfc_step r au mfs mms a f with
  | VNext a' | VDeliver _ a' => partial_len a' <= partial_len a + blen (rf_payload f)
  | _ => True
  end.
Proof.
  unfold rfc_step. cbv zeta. destruct (rfc_header_check mfs (rf_hdr f)); [exact I|].
  destruct (negb _); [exact I|]. destruct (_ || _ || _); [exact I|].
  remember (match rh_key (rf_hdr f) with Some k => rfc_unmask k (rf_payload f) | None => rf_payload f end) as data eqn:Edata.
  assert (Hd : blen data = blen (rf_payload f)) by (subst data; apply unmask_data_len).
  clear Edata.
  destruct (8 <=? _).
  - destruct (negb _ || _); [exact I|]. destruct (_ =? 9); [lia|]. destruct (_ =? 10); [lia|].
    unfold rfc_close. destruct data as [|c1 [|c2 reason]]; try exact I. destruct (utf8_valid reason); exact I.
  - destruct (_ =? 0).
    + destruct a as [[k acc]|]; [|exact I].
      pose proof (rfc_fragment_len mms k (acc ++ data) (rh_fin (rf_hdr f))) as X.
      rewrite blen_app' in X. cbn [partial_len].
      destruct (rfc_fragment _ _ _ _); try exact I; cbv beta iota in X; lia.
    + destruct a as [[k acc]|]; [exact I|].
      pose proof (rfc_fragment_len mms (if rh_opcode (rf_hdr f) =? 1 then KText else KBinary) data (rh_fin (rf_hdr f))) as X.
      cbn [partial_len]. destruct (rfc_fragment _ _ _ _); try exact I; cbv beta iota in X; lia.
Qed.

(** ** C.6 the simulation *)

Lemma sview_ext max c c' rds : c_in c' = c_in c -> c_hdr c' = c_hdr c -> sview max c' rds = sview max c rds.
Proof. intros H1 H2. unfold sview, view. rewrite H1, H2. reflexivity. Qed.

Lemma classify_wb {A} (r : res (option A)) : classify r = KWB -> r = RErr (EIo WouldBlock).
Proof. destruct r as [[a|]|[| |[]| | | |]|s|]; try discriminate. reflexivity. Qed.

Definition outcome_of (r : res message) : option outcome :=
  match r with
  | ROk m => Some (OMsg m)
  | RErr (EProtocol ResetWithoutClosingHandshake) => Some OEnd
  | RErr e => option_map OReject (class_of e)
  | _ => None
  end.

(* progress measures: P bounds the fuel of one read, M the number of reads *)
Definition Pm (x : ctx) (w : world) : nat := (pot (x_codec x) + rd_bytes (w_rds w))%nat.
Definition Mm (x : ctx) (w : world) : nat := mu (x_codec x) (w_rds w).

Section Sim.
Context (rl : role) (cfg : config).
Let mfs := cfg_max_frame_size cfg.
Let mms := cfg_max_message_size cfg.
Let au := cfg_accept_unmasked cfg.
Let max := limit_of mfs.
Let E := rfc_outcomes rl au mfs mms.

Definition Inv (x : ctx) (w : world) (a : partial) (fs : list raw_frame) (t : tail) : Prop :=
  x_state x = Active /\ x_role x = rl /\ x_cfg x = cfg /\ acc_rel (x_incomplete x) a /\
  sview max (x_codec x) (w_rds w) = raw_view max fs t /\ hdr_nz (x_codec x) /\ benign w /\
  Forall frame_ok fs /\ partial_len a + payload_total fs < two64.

Lemma Inv_rside x w x0 w0 a fs t : Inv x w a fs t -> rside x w x0 w0 ->
  Inv x0 w0 a fs t /\ Pm x0 w0 = Pm x w /\ Mm x0 w0 = Mm x w.
Proof.
  intros [Hst [Hr [Hc [Hacc [Hv [Hnz [Hb [Hok Hsz]]]]]]]] [R1 [R2 [R3 [R4 [R5 [R6 [R7 R8]]]]]]].
  split; [|split].
  - unfold Inv. rewrite R1, R2, R3, R4, R7, (sview_ext max _ _ _ R5 R6).
    repeat (split; [assumption|]). split; [|auto].
    unfold hdr_nz in *. rewrite R6. exact Hnz.
  - unfold Pm, pot. rewrite R5, R6, R7. reflexivity.
  - unfold Mm, mu, buffered, hdr_bit. rewrite R5, R6, R7. reflexivity.
Qed.

Definition frame_concl (x : ctx) (w : world) (rm : res (option message)) (x' : ctx) (w' : world)
           (a : partial) (fs : list raw_frame) (t : tail) : Prop :=
  match fs with
  | [] =>
      match rfc_tail mfs t with
      | None => rm = RErr (EProtocol ResetWithoutClosingHandshake)
      | Some c => exists e, rm = RErr e /\ class_of e = Some c
      end
  | f :: fs' =>
      match rfc_step rl au mfs mms a f with
      | VNext a' => rm = ROk None /\ Inv x' w' a' fs' t /\ (Pm x' w' < Pm x w)%nat /\ (Mm x' w' < Mm x w)%nat
      | VDeliver m a' =>
          rm = ROk (Some m) /\ Inv x' w' a' fs' t /\ (Pm x' w' < Pm x w)%nat /\ (Mm x' w' < Mm x w)%nat
      | VClose m => rm = ROk (Some m)
      | VReject c => exists e, rm = RErr e /\ class_of e = Some c
      end
  end.

Lemma rmf_sim x w a fs t rm x' w' : Inv x w a fs t -> read_message_frame x w = (rm, x', w') ->
  (rm = RErr (EIo WouldBlock) /\ Inv x' w' a fs t /\ (Mm x' w' < Mm x w)%nat) \/
  frame_concl x w rm x' w' a fs t.
Proof.
  intros [Hst [Hr [Hc [Hacc [Hv [Hnz [Hb [Hok Hsz]]]]]]]] Em.
  rewrite (rmf_active x w Hst), Hc, Hr in Em. fold mfs au max in Em.
  destruct (rfl max (w_rds w) (x_codec x)) as [[r c'] rds'] eqn:Er.
  pose proof (rfl_sview max _ _ _ _ _ Er) as Hs. pose proof (rfl_pot max _ _ _ _ _ Er) as Hp.
  set (w1 := mkWorld rds' (w_wrs w) (w_fls w) (w_keys w) (rfl_log max (w_rds w) (x_codec x) (w_log w))) in *.
  set (x1 := set_state (set_codec x c') Active) in *.
  assert (Hb1 : benign w1) by exact Hb.
  destruct (classify r) eqn:Ec.
  - (* a frame *)
    destruct Hs as [Hs HM]. destruct Hp as [HP Hh']. rewrite Hv in Hs.
    destruct (raw_view_frame _ _ _ _ _ Hs Ec) as [f [fs' [-> [Hck [-> Hv']]]]].
    right. cbn [frame_concl].
    pose proof (Forall_inv Hok) as Hf. pose proof (Forall_inv_tail Hok) as Hok'.
    assert (Hmf : model_frame max x1 f = (rm, x') /\ w' = w1).
    { unfold model_frame. rewrite Hck.
      change (x_role x1) with (x_role x). change (x_cfg x1) with (x_cfg x). rewrite Hr, Hc. fold au.
      cbv zeta in Em. destruct (post_frame (role_eqb rl Server) au _) as [[fr|]|e|s|].
      - destruct (Utf8P.on_frame x1 fr) as [r2 x2]. injection Em as <- <- <-. auto.
      - injection Em as <- <- <-. auto.
      - injection Em as <- <- <-. auto.
      - injection Em as <- <- <-. auto.
      - injection Em as <- <- <-. auto. }
    destruct Hmf as [Hmf ->].
    assert (Hsz1 : partial_len a + blen (rf_payload f) < two64).
    { cbn [payload_total] in Hsz. lia. }
    pose proof (step_refines mfs x1 f a Hf eq_refl Hacc Hsz1) as S.
    change (x_role x1) with (x_role x) in S. change (x_cfg x1) with (x_cfg x) in S.
    rewrite Hr, Hc in S. fold mms au max in S. rewrite Hmf in S.
    pose proof (rfc_step_len rl au mfs mms a f) as HL.
    assert (Hinv : forall a', same_side x1 x' -> acc_rel (x_incomplete x') a' ->
              partial_len a' <= partial_len a + blen (rf_payload f) ->
              Inv x' w1 a' fs' t /\ (Pm x' w1 < Pm x w)%nat /\ (Mm x' w1 < Mm x w)%nat).
    { intros a' [S1 [S2 [S3 S4]]] Ha' Hl.
      assert (Hcx : x_codec x' = c') by (rewrite S4; reflexivity).
      split; [|split].
      - unfold Inv. rewrite S1, S2, S3, Hcx.
        split; [reflexivity|]. split; [exact Hr|]. split; [exact Hc|]. split; [exact Ha'|].
        split; [exact Hv'|].
        split; [unfold hdr_nz; rewrite Hh'; exact I|]. split; [exact Hb1|]. split; [exact Hok'|].
        cbn [payload_total] in Hsz. lia.
      - unfold Pm. rewrite Hcx. exact HP.
      - unfold Mm. rewrite Hcx. exact HM. }
    destruct (rfc_step rl au mfs mms a f) as [a'|m a'|m|c]; cbn [step_ok fst snd] in S.
    + destruct S as [S0 [S1 S2]]. split; [exact S0|]. apply Hinv; assumption.
    + destruct S as [S0 [S1 S2]]. split; [exact S0|]. apply Hinv; assumption.
    + exact S.
    + exact S.
  - (* WouldBlock *)
    apply classify_wb in Ec. subst r. cbn [post_frame] in Em. injection Em as <- <- <-.
    destruct Hs as [Hs1 [Hs2 Hs3]]. destruct Hp as [HP Hnz'].
    left. split; [reflexivity|]. split.
    + unfold Inv. split; [reflexivity|]. split; [exact Hr|]. split; [exact Hc|]. split; [exact Hacc|].
      split; [change (sview max c' rds' = raw_view max fs t); rewrite <- Hs1; exact Hv|].
      split; [exact Hnz'|]. split; [exact Hb1|]. split; [exact Hok|exact Hsz].
    + change (mu c' rds' < mu (x_codec x) (w_rds w))%nat.
      apply Hs3. intros ->. specialize (Hs2 eq_refl). rewrite <- Hs1, Hv in Hs2.
      exact (raw_view_nonempty _ _ _ Hs2).
  - (* end of stream or header-level error *)
    destruct Hs as [Hs _]. rewrite Hv in Hs.
    pose proof (raw_view_stop _ _ _ _ Hs Ec) as X. right.
    destruct fs as [|f fs']; cbn [frame_concl].
    + destruct t as [bs|h got]; cbn [rfc_tail].
      * subst r. cbn [post_frame] in Em. injection Em as <- <- <-. reflexivity.
      * pose proof (raw_check_spec mfs h) as Y. fold max in Y.
        destruct (raw_of_check max h) as [e|].
        -- subst r. destruct (rfc_header_check mfs h) as [c|]; [|destruct e; contradiction].
           destruct e as [u|e|s|]; try contradiction. cbn [post_frame] in Em. injection Em as <- <- <-.
           exists e. auto.
        -- subst r. destruct (rfc_header_check mfs h) as [c|]; [contradiction|].
           cbn [post_frame] in Em. injection Em as <- <- <-. reflexivity.
    + pose proof (raw_check_spec mfs (rf_hdr f)) as Y. fold max in Y. rewrite X in Y.
      unfold rfc_step. destruct (rfc_header_check mfs (rf_hdr f)) as [c|]; [|destruct r; contradiction].
      destruct r as [u|e|s|]; try contradiction. cbn [post_frame] in Em. injection Em as <- <- <-.
      exists e. auto.
Qed.
End Sim.

(** ** C.7 one call of read *)

Lemma outcome_of_reject e c : class_of e = Some c -> outcome_of (RErr e) = Some (OReject c).
Proof.
  destruct e as [| |k| sz mx |p|fr|]; cbn [class_of]; try discriminate.
  - intros H. injection H as <-. reflexivity.
  - destruct p; try discriminate; intros H; injection H as <-; reflexivity.
  - intros H. injection H as <-. reflexivity.
Qed.

Definition spec_outcomes (rl : role) (cfg : config) : partial -> list raw_frame -> tail -> list outcome :=
  rfc_outcomes rl (cfg_accept_unmasked cfg) (cfg_max_frame_size cfg) (cfg_max_message_size cfg).

Definition loop_concl (rl : role) (cfg : config) (x : ctx) (w : world) (r : res message) (x' : ctx) (w' : world)
           (a : partial) (fs : list raw_frame) (t : tail) : Prop :=
  (r = RErr (EIo WouldBlock) /\
   exists a' fs', Inv rl cfg x' w' a' fs' t /\
     spec_outcomes rl cfg a fs t = spec_outcomes rl cfg a' fs' t /\ (Mm x' w' < Mm x w)%nat) \/
  (exists m, r = ROk m /\ is_close m = false /\
   exists a' fs', Inv rl cfg x' w' a' fs' t /\
     spec_outcomes rl cfg a fs t = OMsg m :: spec_outcomes rl cfg a' fs' t /\ (Mm x' w' < Mm x w)%nat) \/
  (exists o, outcome_of r = Some o /\ (forall m, r = ROk m -> is_close m = true) /\
     spec_outcomes rl cfg a fs t = [o]).

Lemma loop_concl_shift rl cfg x w x0 w0 r x' w' a fs t a0 fs0 :
  spec_outcomes rl cfg a fs t = spec_outcomes rl cfg a0 fs0 t -> (Mm x0 w0 <= Mm x w)%nat ->
  loop_concl rl cfg x0 w0 r x' w' a0 fs0 t -> loop_concl rl cfg x w r x' w' a fs t.
Proof.
  intros HE HM [[Hr [a' [fs' [Hi [He Hm]]]]]|[[m [Hr [Hc [a' [fs' [Hi [He Hm]]]]]]]|[o [Ho [Hc He]]]]].
  - left. split; [exact Hr|]. exists a', fs'. split; [exact Hi|]. split; [congruence|lia].
  - right; left. exists m. split; [exact Hr|]. split; [exact Hc|]. exists a', fs'.
    split; [exact Hi|]. split; [congruence|lia].
  - right; right. exists o. split; [exact Ho|]. split; [exact Hc|congruence].
Qed.

Lemma loop_sim rl cfg : forall fuel x w a fs t r x' w',
  Inv rl cfg x w a fs t -> (Pm x w < fuel)%nat -> read_loop fuel x w = (r, x', w') ->
  loop_concl rl cfg x w r x' w' a fs t.
Proof.
  induction fuel as [|fuel IH]; intros x w a fs t r x' w' HI HP EL; [lia|].
  rewrite read_loop_eq in EL.
  assert (Hst : x_state x = Active) by (destruct HI as [X _]; exact X).
  assert (Hb : benign w) by (destruct HI as [_ [_ [_ [_ [_ [_ [X _]]]]]]]; exact X).
  destruct (pre_read_rside x w Hst Hb) as [x0 [w0 [Ep R0]]]. rewrite Ep in EL.
  destruct (Inv_rside rl cfg _ _ _ _ _ _ _ HI R0) as [HI0 [HP0 HM0]].
  destruct (read_message_frame x0 w0) as [[rm x1] w1] eqn:Em.
  assert (HM0' : (Mm x0 w0 <= Mm x w)%nat) by lia.
  apply (loop_concl_shift rl cfg x w x0 w0 r x' w' a fs t a fs eq_refl HM0').
  destruct (rmf_sim rl cfg _ _ _ _ _ _ _ _ HI0 Em) as [[-> [HI1 HM1]]|HC].
  - injection EL as <- <- <-. left. split; [reflexivity|]. exists a, fs. auto.
  - unfold frame_concl in HC. destruct fs as [|f fs'].
    + right; right. unfold spec_outcomes. cbn [rfc_outcomes].
      destruct (rfc_tail (cfg_max_frame_size cfg) t) as [c|].
      * destruct HC as [e [-> Hc]]. injection EL as <- <- <-.
        exists (OReject c). split; [apply outcome_of_reject; exact Hc|]. split; [discriminate|reflexivity].
      * subst rm. injection EL as <- <- <-. exists OEnd. split; [reflexivity|]. split; [discriminate|reflexivity].
    + pose proof (rfc_step_shape rl (cfg_accept_unmasked cfg) (cfg_max_frame_size cfg) (cfg_max_message_size cfg) a f) as Sh.
      assert (HE : spec_outcomes rl cfg a (f :: fs') t =
                   match rfc_step rl (cfg_accept_unmasked cfg) (cfg_max_frame_size cfg) (cfg_max_message_size cfg) a f with
                   | VNext a' => spec_outcomes rl cfg a' fs' t
                   | VDeliver m a' => OMsg m :: spec_outcomes rl cfg a' fs' t
                   | VClose m => [OMsg m]
                   | VReject c => [OReject c]
                   end) by reflexivity.
      destruct (rfc_step rl (cfg_accept_unmasked cfg) (cfg_max_frame_size cfg) (cfg_max_message_size cfg) a f)
        as [a'|m a'|m|c].
      * destruct HC as [-> [HI1 [HP1 HM1]]].
        assert (HM1' : (Mm x1 w1 <= Mm x0 w0)%nat) by lia.
        apply (loop_concl_shift rl cfg x0 w0 x1 w1 r x' w' a (f :: fs') t a' fs' HE HM1').
        apply (IH x1 w1 a' fs' t r x' w' HI1); [lia|exact EL].
      * destruct HC as [-> [HI1 [HP1 HM1]]]. injection EL as <- <- <-.
        right; left. exists m. split; [reflexivity|]. split; [exact Sh|]. exists a', fs'. auto.
      * subst rm. injection EL as <- <- <-. right; right. exists (OMsg m). split; [reflexivity|].
        split; [|exact HE]. intros m' H. injection H as <-. exact Sh.
      * destruct HC as [e [-> Hc]]. injection EL as <- <- <-. right; right.
        exists (OReject c). split; [apply outcome_of_reject; exact Hc|]. split; [discriminate|exact HE].
Qed.

(** ** C.8 successive reads *)

(* the non-WouldBlock results of n successive reads, up to and including the first error or Close *)
Fixpoint reads (n : nat) (x : ctx) (w : world) : list (res message) :=
  match n with
  | O => []
  | S n' =>
      let '(r, x', w') := read x w in
      match r with
      | RErr (EIo WouldBlock) => reads n' x' w'
      | ROk m => ROk m :: (if is_close m then [] else reads n' x' w')
      | _ => [r]
      end
  end.

Theorem reads_sim rl cfg : forall n x w a fs t,
  Inv rl cfg x w a fs t -> (Mm x w < n)%nat ->
  map outcome_of (reads n x w) = map Some (spec_outcomes rl cfg a fs t).
Proof.
  induction n as [|n IH]; intros x w a fs t HI HM; [lia|].
  cbn [reads]. unfold read.
  assert (Hst : x_state x = Active) by (destruct HI as [X _]; exact X).
  assert (Hnz : hdr_nz (x_codec x)) by (destruct HI as [_ [_ [_ [_ [_ [X _]]]]]]; exact X).
  rewrite Hst. cbn [is_terminated].
  destruct (read_loop _ x w) as [[r x'] w'] eqn:EL.
  assert (HP : (Pm x w < S (length (c_in (x_codec x)) + rd_bytes (w_rds w)))%nat).
  { unfold Pm. rewrite (pot_nz _ Hnz). lia. }
  destruct (loop_sim rl cfg _ _ _ _ _ _ _ _ _ HI HP EL)
    as [[-> [a' [fs' [Hi [He Hm]]]]]|[[m [-> [Hc [a' [fs' [Hi [He Hm]]]]]]]|[o [Ho [Hc He]]]]].
  - rewrite He. apply IH; [exact Hi|lia].
  - rewrite Hc, He. cbn [map outcome_of]. f_equal. apply IH; [exact Hi|lia].
  - rewrite He. destruct r as [m|e|s|].
    + rewrite (Hc m eq_refl). cbn [map]. rewrite Ho. reflexivity.
    + destruct e as [| |k| sz mx |p|fr|]; try (cbn [map]; rewrite Ho; reflexivity).
      destruct k; try (cbn [map]; rewrite Ho; reflexivity). discriminate Ho.
    + discriminate Ho.
    + discriminate Ho.
Qed.

(* fewer reads than needed: what is observed is a prefix of what the specification prescribes *)
Theorem reads_prefix rl cfg : forall n x w a fs t,
  Inv rl cfg x w a fs t ->
  exists rest, map Some (spec_outcomes rl cfg a fs t) = map outcome_of (reads n x w) ++ rest.
Proof.
  induction n as [|n IH]; intros x w a fs t HI; [eexists; reflexivity|].
  cbn [reads]. unfold read.
  assert (Hst : x_state x = Active) by (destruct HI as [X _]; exact X).
  assert (Hnz : hdr_nz (x_codec x)) by (destruct HI as [_ [_ [_ [_ [_ [X _]]]]]]; exact X).
  rewrite Hst. cbn [is_terminated].
  destruct (read_loop _ x w) as [[r x'] w'] eqn:EL.
  assert (HP : (Pm x w < S (length (c_in (x_codec x)) + rd_bytes (w_rds w)))%nat).
  { unfold Pm. rewrite (pot_nz _ Hnz). lia. }
  destruct (loop_sim rl cfg _ _ _ _ _ _ _ _ _ HI HP EL)
    as [[-> [a' [fs' [Hi [He Hm]]]]]|[[m [-> [Hc [a' [fs' [Hi [He Hm]]]]]]]|[o [Ho [Hc He]]]]].
  - rewrite He. exact (IH _ _ _ _ _ Hi).
  - rewrite Hc, He. destruct (IH _ _ _ _ _ Hi) as [rest Hr]. exists rest.
    cbn [map outcome_of app]. rewrite Hr. reflexivity.
  - rewrite He. exists []. rewrite app_nil_r. destruct r as [m|e|s|].
    + rewrite (Hc m eq_refl). cbn [map]. rewrite Ho. reflexivity.
    + destruct e as [| |k| sz mx |p|fr|]; try (cbn [map]; rewrite Ho; reflexivity).
      destruct k; try (cbn [map]; rewrite Ho; reflexivity). discriminate Ho.
    + discriminate Ho.
    + discriminate Ho.
Qed.

(* the same through the operation interface *)
Fixpoint observe (rs : list op_result) : list (res message) :=
  match rs with
  | [] => []
  | ResMsg (RErr (EIo WouldBlock)) :: t => observe t
  | ResMsg (ROk m) :: t => ROk m :: (if is_close m then [] else observe t)
  | ResMsg r :: _ => [r]
  | _ :: t => observe t
  end.

Definition op_results (x : ctx) (ops : list op) (w : world) : list op_result :=
  map fst (fst (fst (run_ops x ops w))).

Lemma observe_reads : forall n x w, observe (op_results x (repeat OpRead n) w) = reads n x w.
Proof.
  induction n as [|n IH]; intros x w; [reflexivity|].
  unfold op_results. cbn [repeat run_ops run_op reads].
  destruct (read x w) as [[r x'] w'].
  specialize (IH x' w'). unfold op_results in IH.
  destruct (run_ops x' (repeat OpRead n) w') as [[rs x2] w2].
  cbn [fst map observe] in *.
  destruct r as [m|e|s|]; try reflexivity.
  - rewrite IH. reflexivity.
  - destruct e as [| |k| sz mx |p|fr|]; try reflexivity. destruct k; try reflexivity. exact IH.
Qed.

(** ** C.9 the main theorem *)

Lemma Inv_init rl cfg part x w :
  ctx_new rl part cfg = Some x -> benign w ->
  wf_bytes (part ++ sched_data (w_rds w)) = true -> sched_end (w_rds w) = TEof ->
  blen (part ++ sched_data (w_rds w)) < two64 ->
  Inv rl cfg x w None (fst (rfc_frames (part ++ sched_data (w_rds w))))
                      (snd (rfc_frames (part ++ sched_data (w_rds w)))) /\
  Mm x w = (length part + rd_bytes (w_rds w) + length (w_rds w))%nat.
Proof.
  unfold ctx_new. destruct (config_valid cfg); [|discriminate].
  intros H Hb Hwf Hend Hlen. injection H as <-.
  destruct (rfc_frames_facts (part ++ sched_data (w_rds w))) as [F1 F2].
  split.
  - unfold Inv. cbn [x_state x_role x_cfg x_incomplete x_codec acc_rel partial_len].
    split; [reflexivity|]. split; [reflexivity|]. split; [reflexivity|]. split; [exact I|].
    split.
    { unfold sview, view. cbn [c_hdr c_in set_limits codec_new ref_from].
      rewrite sched_term_end, Hend. cbn [term_res]. apply ref_all_rfc. exact Hwf. }
    split; [exact I|]. split; [exact Hb|]. split; [exact F1|]. lia.
  - unfold Mm, mu, buffered, hdr_bit. cbn [x_codec c_hdr c_in set_limits codec_new]. lia.
Qed.

Theorem read_refines_rfc rl cfg part x w n :
  ctx_new rl part cfg = Some x -> benign w ->
  wf_bytes (part ++ sched_data (w_rds w)) = true -> sched_end (w_rds w) = TEof ->
  blen (part ++ sched_data (w_rds w)) < two64 ->
  (length part + rd_bytes (w_rds w) + length (w_rds w) < n)%nat ->
  map outcome_of (observe (op_results x (repeat OpRead n) w)) =
  map Some (rfc_read rl (cfg_accept_unmasked cfg) (cfg_max_frame_size cfg) (cfg_max_message_size cfg)
                     (part ++ sched_data (w_rds w))).
Proof.
  intros Hx Hb Hwf Hend Hlen Hn.
  destruct (Inv_init rl cfg part x w Hx Hb Hwf Hend Hlen) as [HI HM].
  rewrite observe_reads, (reads_sim rl cfg n x w _ _ _ HI) by lia.
  unfold spec_outcomes, rfc_read. destruct (rfc_frames (part ++ sched_data (w_rds w))); reflexivity.
Qed.

(* any number of reads: a prefix *)
Theorem read_prefix_rfc rl cfg part x w n :
  ctx_new rl part cfg = Some x -> benign w ->
  wf_bytes (part ++ sched_data (w_rds w)) = true -> sched_end (w_rds w) = TEof ->
  blen (part ++ sched_data (w_rds w)) < two64 ->
  exists rest,
    map Some (rfc_read rl (cfg_accept_unmasked cfg) (cfg_max_frame_size cfg) (cfg_max_message_size cfg)
                       (part ++ sched_data (w_rds w))) =
    map outcome_of (observe (op_results x (repeat OpRead n) w)) ++ rest.
Proof.
  intros Hx Hb Hwf Hend Hlen.
  destruct (Inv_init rl cfg part x w Hx Hb Hwf Hend Hlen) as [HI _].
  destruct (reads_prefix rl cfg n x w _ _ _ HI) as [rest Hr]. exists rest.
  rewrite observe_reads, <- Hr.
  unfold spec_outcomes, rfc_read. destruct (rfc_frames (part ++ sched_data (w_rds w))); reflexivity.
Qed.

(* the main theorem phrased with rfc_assemble: the items, then — if neither a Reject nor a Close stopped the
   reading — a header-level rejection of the truncated last frame, or the end of the stream *)
Definition rfc_ending (mfs : option N) (t : tail) : outcome :=
  match rfc_tail mfs t with Some c => OReject c | None => OEnd end.

Theorem read_refines_assemble rl cfg part x w n :
  ctx_new rl part cfg = Some x -> benign w ->
  wf_bytes (part ++ sched_data (w_rds w)) = true -> sched_end (w_rds w) = TEof ->
  blen (part ++ sched_data (w_rds w)) < two64 ->
  (length part + rd_bytes (w_rds w) + length (w_rds w) < n)%nat ->
  let mfs := cfg_max_frame_size cfg in
  let fs := fst (rfc_frames (part ++ sched_data (w_rds w))) in
  let t := snd (rfc_frames (part ++ sched_data (w_rds w))) in
  let run := rfc_run rl (cfg_accept_unmasked cfg) mfs (cfg_max_message_size cfg) None fs in
  map outcome_of (observe (op_results x (repeat OpRead n) w)) =
  map Some (map item_outcome (rfc_assemble rl (cfg_accept_unmasked cfg) mfs (cfg_max_message_size cfg) fs)
            ++ match snd run with Some _ => [rfc_ending mfs t] | None => [] end).
Proof.
  intros Hx Hb Hwf Hend Hlen Hn mfs fs t run.
  rewrite (read_refines_rfc rl cfg part x w n Hx Hb Hwf Hend Hlen Hn). f_equal.
  unfold rfc_read, rfc_assemble. fold mfs.
  destruct (rfc_frames (part ++ sched_data (w_rds w))) as [fs0 t0] eqn:Ef.
  subst fs t run. cbn [fst snd]. rewrite rfc_outcomes_run. fold mfs.
  destruct (rfc_run rl (cfg_accept_unmasked cfg) mfs (cfg_max_message_size cfg) None fs0) as [is [e|]];
    cbn [fst snd]; [unfold rfc_ending; destruct (rfc_tail mfs t0); reflexivity|rewrite app_nil_r; reflexivity].
Qed.

(* ------------------------------------------------------------------------------------------- *)
(** * D. Corollaries *)

(** ** D.1 the setting of the main theorem, bundled *)

Definition stream_of (part : bytes) (w : world) : bytes := part ++ sched_data (w_rds w).

Definition read_setup (rl : role) (cfg : config) (part : bytes) (x : ctx) (w : world) (n : nat) : Prop :=
  ctx_new rl part cfg = Some x /\ benign w /\
  wf_bytes (stream_of part w) = true /\ sched_end (w_rds w) = TEof /\ blen (stream_of part w) < two64 /\
  (length part + rd_bytes (w_rds w) + length (w_rds w) < n)%nat.

Definition observed (x : ctx) (w : world) (n : nat) : list (option outcome) :=
  map outcome_of (observe (op_results x (repeat OpRead n) w)).

Definition spec_read (rl : role) (cfg : config) (bs : bytes) : list outcome :=
  rfc_read rl (cfg_accept_unmasked cfg) (cfg_max_frame_size cfg) (cfg_max_message_size cfg) bs.

Definition spec_step (rl : role) (cfg : config) : partial -> raw_frame -> verdict :=
  rfc_step rl (cfg_accept_unmasked cfg) (cfg_max_frame_size cfg) (cfg_max_message_size cfg).

Definition spec_run (rl : role) (cfg : config) : partial -> list raw_frame -> list item * option partial :=
  rfc_run rl (cfg_accept_unmasked cfg) (cfg_max_frame_size cfg) (cfg_max_message_size cfg).

Theorem read_refines_rfc_setup rl cfg part x w n :
  read_setup rl cfg part x w n -> observed x w n = map Some (spec_read rl cfg (stream_of part w)).
Proof.
  intros [H1 [H2 [H3 [H4 [H5 H6]]]]]. exact (read_refines_rfc rl cfg part x w n H1 H2 H3 H4 H5 H6).
Qed.

(** ** D.2 spec-level composition *)

Lemma rfc_outcomes_app r au mfs mms fs1 : forall a items a' fs2 t,
  rfc_run r au mfs mms a fs1 = (items, Some a') ->
  rfc_outcomes r au mfs mms a (fs1 ++ fs2) t = map item_outcome items ++ rfc_outcomes r au mfs mms a' fs2 t.
Proof.
  induction fs1 as [|f rest IH]; intros a items a' fs2 t H; cbn [rfc_run app rfc_outcomes] in *.
  - injection H as <- <-. reflexivity.
  - destruct (rfc_step r au mfs mms a f) as [a1|m a1|m|c]; try discriminate.
    + apply IH. exact H.
    + destruct (rfc_run r au mfs mms a1 rest) as [is e] eqn:Er. injection H as <- ->.
      cbn [map app item_outcome]. f_equal. apply IH. exact Er.
Qed.

Lemma rfc_run_app r au mfs mms fs1 : forall a items a' fs2,
  rfc_run r au mfs mms a fs1 = (items, Some a') ->
  rfc_run r au mfs mms a (fs1 ++ fs2) =
  (items ++ fst (rfc_run r au mfs mms a' fs2), snd (rfc_run r au mfs mms a' fs2)).
Proof.
  induction fs1 as [|f rest IH]; intros a items a' fs2 H; cbn [rfc_run app] in *.
  - injection H as <- <-. destruct (rfc_run r au mfs mms a fs2); reflexivity.
  - destruct (rfc_step r au mfs mms a f) as [a1|m a1|m|c]; try discriminate.
    + apply IH. exact H.
    + destruct (rfc_run r au mfs mms a1 rest) as [is e] eqn:Er. injection H as <- ->.
      rewrite (IH _ _ _ fs2 Er). reflexivity.
Qed.

(* a run that reaches the end delivered only messages, none of them a Close *)
Lemma rfc_run_clean r au mfs mms fs : forall a items a',
  rfc_run r au mfs mms a fs = (items, Some a') ->
  Forall (fun i => exists m, i = IMsg m /\ is_close m = false) items.
Proof.
  induction fs as [|f rest IH]; intros a items a' H; cbn [rfc_run] in H.
  - injection H as <- _. constructor.
  - pose proof (rfc_step_shape r au mfs mms a f) as Sh.
    destruct (rfc_step r au mfs mms a f) as [a1|m a1|m|c]; try discriminate.
    + exact (IH _ _ _ H).
    + destruct (rfc_run r au mfs mms a1 rest) as [is e] eqn:Er. injection H as <- ->.
      constructor; [exists m; auto|exact (IH _ _ _ Er)].
Qed.

Lemma violation_outcomes r au mfs mms fs1 f fs2 t items a c :
  rfc_run r au mfs mms None fs1 = (items, Some a) ->
  rfc_step r au mfs mms a f = VReject c ->
  rfc_outcomes r au mfs mms None (fs1 ++ f :: fs2) t = map item_outcome items ++ [OReject c].
Proof.
  intros H1 H2. rewrite (rfc_outcomes_app _ _ _ _ _ _ _ _ _ t H1). cbn [rfc_outcomes]. rewrite H2. reflexivity.
Qed.

(** ** D.3 a valid prefix, one offending frame, anything afterwards *)

Theorem violation_observed rl cfg part x w n fs1 f fs2 t items a c :
  read_setup rl cfg part x w n ->
  rfc_frames (stream_of part w) = (fs1 ++ f :: fs2, t) ->
  spec_run rl cfg None fs1 = (items, Some a) ->
  spec_step rl cfg a f = VReject c ->
  observed x w n = map Some (map item_outcome items ++ [OReject c]).
Proof.
  intros Hs Hf Hr Hv. rewrite (read_refines_rfc_setup _ _ _ _ _ _ Hs). f_equal.
  unfold spec_read, rfc_read. rewrite Hf. exact (violation_outcomes _ _ _ _ _ _ _ _ _ _ _ Hr Hv).
Qed.

(* the offending frame is rejected: with class Protocol unless a header-level rule fires first *)
Definition rejected (rl : role) (cfg : config) (a : partial) (f : raw_frame) : Prop :=
  exists c, spec_step rl cfg a f = VReject c /\
            (rfc_header_check (cfg_max_frame_size cfg) (rf_hdr f) = None -> c = KProtocol).

Definition frame_data (f : raw_frame) : bytes :=
  match rh_key (rf_hdr f) with Some k => rfc_unmask k (rf_payload f) | None => rf_payload f end.

Lemma rule_reserved_opcode rl cfg a f : reserved_opcode (rh_opcode (rf_hdr f)) = true -> rejected rl cfg a f.
Proof.
  intros H. exists KProtocol. split; [|reflexivity].
  unfold spec_step, rfc_step, rfc_header_check. rewrite H. reflexivity.
Qed.

Lemma rule_rsv rl cfg a f :
  rh_rsv1 (rf_hdr f) || rh_rsv2 (rf_hdr f) || rh_rsv3 (rf_hdr f) = true -> rejected rl cfg a f.
Proof.
  intros H. unfold rejected, spec_step, rfc_step. cbv zeta.
  destruct (rfc_header_check (cfg_max_frame_size cfg) (rf_hdr f)) as [c|].
  - exists c. split; [reflexivity|discriminate].
  - exists KProtocol. split; [|reflexivity]. destruct (negb _); [reflexivity|]. rewrite H. reflexivity.
Qed.

Lemma rule_mask_direction rl cfg a f :
  mask_direction_ok rl (cfg_accept_unmasked cfg) (rh_key (rf_hdr f)) = false -> rejected rl cfg a f.
Proof.
  intros H. unfold rejected, spec_step, rfc_step. cbv zeta.
  destruct (rfc_header_check (cfg_max_frame_size cfg) (rf_hdr f)) as [c|].
  - exists c. split; [reflexivity|discriminate].
  - exists KProtocol. split; [|reflexivity]. rewrite H. reflexivity.
Qed.

Lemma rule_control rl cfg a f :
  8 <= rh_opcode (rf_hdr f) -> rh_fin (rf_hdr f) = false \/ 125 < blen (rf_payload f) -> rejected rl cfg a f.
Proof.
  intros Hop H. unfold rejected, spec_step, rfc_step. cbv zeta.
  destruct (rfc_header_check (cfg_max_frame_size cfg) (rf_hdr f)) as [c|].
  - exists c. split; [reflexivity|discriminate].
  - exists KProtocol. split; [|reflexivity]. destruct (negb _); [reflexivity|].
    destruct (_ || _ || _); [reflexivity|].
    destruct (8 <=? rh_opcode (rf_hdr f)) eqn:E8; [|lia].
    pose proof (unmask_data_len (rh_key (rf_hdr f)) (rf_payload f)) as Hd.
    destruct (negb (rh_fin (rf_hdr f)) || _) eqn:E; [reflexivity|]. exfalso.
    apply orb_false_iff in E. destruct E as [E1 E2].
    assert (E3 : (125 <? blen (rf_payload f)) = false) by (rewrite <- Hd; exact E2).
    destruct H as [H|H]; [rewrite H in E1; discriminate|lia].
Qed.

Lemma rule_control_fin rl cfg a f :
  8 <= rh_opcode (rf_hdr f) -> rh_fin (rf_hdr f) = false -> rejected rl cfg a f.
Proof. intros H1 H2. apply rule_control; auto. Qed.

Lemma rule_control_size rl cfg a f :
  8 <= rh_opcode (rf_hdr f) -> 125 < blen (rf_payload f) -> rejected rl cfg a f.
Proof. intros H1 H2. apply rule_control; auto. Qed.

Lemma rule_orphan_continuation rl cfg f : rh_opcode (rf_hdr f) = 0 -> rejected rl cfg None f.
Proof.
  intros Hop. unfold rejected, spec_step, rfc_step. cbv zeta.
  destruct (rfc_header_check (cfg_max_frame_size cfg) (rf_hdr f)) as [c|].
  - exists c. split; [reflexivity|discriminate].
  - exists KProtocol. split; [|reflexivity]. destruct (negb _); [reflexivity|].
    destruct (_ || _ || _); [reflexivity|]. rewrite Hop. reflexivity.
Qed.

Lemma rule_nested_data rl cfg p f :
  rh_opcode (rf_hdr f) = 1 \/ rh_opcode (rf_hdr f) = 2 -> rejected rl cfg (Some p) f.
Proof.
  intros Hop. unfold rejected, spec_step, rfc_step. cbv zeta.
  destruct (rfc_header_check (cfg_max_frame_size cfg) (rf_hdr f)) as [c|].
  - exists c. split; [reflexivity|discriminate].
  - exists KProtocol. split; [|reflexivity]. destruct (negb _); [reflexivity|].
    destruct (_ || _ || _); [reflexivity|]. destruct Hop as [-> | ->]; reflexivity.
Qed.

(* a malformed close payload: one byte (Protocol), or a reason that is not UTF-8 (Utf8) — always an error *)
Lemma rule_close_payload rl cfg a f :
  rh_opcode (rf_hdr f) = 8 ->
  (blen (rf_payload f) = 1 \/ exists c1 c2 reason, frame_data f = c1 :: c2 :: reason /\ utf8_valid reason = false) ->
  exists c, spec_step rl cfg a f = VReject c.
Proof.
  intros Hop H. unfold spec_step, rfc_step. cbv zeta.
  destruct (rfc_header_check (cfg_max_frame_size cfg) (rf_hdr f)) as [c|]; [eexists; reflexivity|].
  destruct (negb _); [eexists; reflexivity|]. destruct (_ || _ || _); [eexists; reflexivity|].
  rewrite Hop. change (8 <=? 8) with true. change (8 =? 9) with false. change (8 =? 10) with false. cbv iota.
  destruct (negb _ || _); [eexists; reflexivity|].
  pose proof (unmask_data_len (rh_key (rf_hdr f)) (rf_payload f)) as Hd.
  change (blen (frame_data f) = blen (rf_payload f)) in Hd.
  change (exists c, rfc_close (frame_data f) = VReject c).
  unfold rfc_close. destruct H as [H|[c1 [c2 [reason [-> Hu]]]]].
  - rewrite H in Hd. destruct (frame_data f) as [|b [|b' r']]; unfold blen in Hd; cbn [length] in Hd; try lia.
    eexists; reflexivity.
  - rewrite Hu. eexists; reflexivity.
Qed.

(** ** D.4 control frames interleaved in a fragmented message *)

(* the frame breaks no header, mask or RSV rule *)
Definition passes (rl : role) (cfg : config) (f : raw_frame) : Prop :=
  rfc_header_check (cfg_max_frame_size cfg) (rf_hdr f) = None /\
  mask_direction_ok rl (cfg_accept_unmasked cfg) (rh_key (rf_hdr f)) = true /\
  rh_rsv1 (rf_hdr f) || rh_rsv2 (rf_hdr f) || rh_rsv3 (rf_hdr f) = false.

Lemma spec_step_passes rl cfg a f : passes rl cfg f ->
  spec_step rl cfg a f =
  let op := rh_opcode (rf_hdr f) in
  let data := frame_data f in
  let fin := rh_fin (rf_hdr f) in
  if 8 <=? op then
    if negb fin || (125 <? blen data) then VReject KProtocol
    else if op =? 9 then VDeliver (MPing data) a
    else if op =? 10 then VDeliver (MPong data) a
    else rfc_close data
  else if op =? 0 then
    match a with
    | None => VReject KProtocol
    | Some (k, acc) => rfc_fragment (cfg_max_message_size cfg) k (acc ++ data) fin
    end
  else
    match a with
    | Some _ => VReject KProtocol
    | None => rfc_fragment (cfg_max_message_size cfg) (if op =? 1 then KText else KBinary) data fin
    end.
Proof.
  intros [H1 [H2 H3]]. unfold spec_step, rfc_step. cbv zeta. rewrite H1, H2, H3. reflexivity.
Qed.

(* a Ping or Pong that is well-formed; a non-final continuation frame *)
Definition is_ctl (rl : role) (cfg : config) (f : raw_frame) : Prop :=
  passes rl cfg f /\ (rh_opcode (rf_hdr f) = 9 \/ rh_opcode (rf_hdr f) = 10) /\
  rh_fin (rf_hdr f) = true /\ blen (rf_payload f) <= 125.
Definition is_cont (rl : role) (cfg : config) (f : raw_frame) : Prop :=
  passes rl cfg f /\ rh_opcode (rf_hdr f) = 0 /\ rh_fin (rf_hdr f) = false.

Definition ctl_msg (f : raw_frame) : message :=
  if rh_opcode (rf_hdr f) =? 9 then MPing (frame_data f) else MPong (frame_data f).

(* the control messages, and the data, of a mix of control and continuation frames *)
Definition mid_msgs (mid : list raw_frame) : list item :=
  flat_map (fun f => if 8 <=? rh_opcode (rf_hdr f) then [IMsg (ctl_msg f)] else []) mid.
Definition mid_data (mid : list raw_frame) : bytes :=
  flat_map (fun f => if 8 <=? rh_opcode (rf_hdr f) then [] else frame_data f) mid.

Lemma frame_data_len f : blen (frame_data f) = blen (rf_payload f).
Proof. apply unmask_data_len. Qed.

Lemma over_mono lim n m : n <= m -> over lim m = false -> over lim n = false.
Proof. rewrite !over_limit. lia. Qed.

Lemma utf8_prefix_app p q : utf8_prefix (p ++ q) = true -> utf8_prefix p = true.
Proof.
  rewrite !utf8_prefix_iff. intros [t V]. exists (q ++ t). rewrite app_assoc. exact V.
Qed.

Definition acc_fits (cfg : config) (k : kind) (all : bytes) : Prop :=
  over (cfg_max_message_size cfg) (blen all) = false /\ (k = KText -> utf8_prefix all = true).

Lemma acc_fits_prefix cfg k (p q : bytes) : acc_fits cfg k (p ++ q) -> acc_fits cfg k p.
Proof.
  intros [H1 H2]. split.
  - apply (over_mono _ (blen p) (blen (p ++ q))); [rewrite blen_app'; lia|exact H1].
  - intros Hk. exact (utf8_prefix_app _ _ (H2 Hk)).
Qed.

Lemma fragment_more cfg k (all : bytes) : acc_fits cfg k all ->
  rfc_fragment (cfg_max_message_size cfg) k all false = VNext (Some (k, all)).
Proof.
  intros [H1 H2]. unfold rfc_fragment. rewrite H1. destruct k; [|reflexivity]. rewrite (H2 eq_refl). reflexivity.
Qed.

Lemma mid_cons f mid :
  mid_msgs (f :: mid) = (if 8 <=? rh_opcode (rf_hdr f) then [IMsg (ctl_msg f)] else []) ++ mid_msgs mid /\
  mid_data (f :: mid) = (if 8 <=? rh_opcode (rf_hdr f) then [] else frame_data f) ++ mid_data mid.
Proof. split; reflexivity. Qed.

Lemma run_mid rl cfg k mid : Forall (fun f => is_ctl rl cfg f \/ is_cont rl cfg f) mid ->
  forall acc : bytes, acc_fits cfg k (acc ++ mid_data mid) ->
  spec_run rl cfg (Some (k, acc)) mid = (mid_msgs mid, Some (Some (k, acc ++ mid_data mid))).
Proof.
  induction 1 as [|f mid Hf _ IH]; intros acc Hfit.
  - cbn. rewrite app_nil_r. reflexivity.
  - unfold spec_run in *. cbn [rfc_run]. fold (spec_step rl cfg (Some (k, acc)) f).
    destruct Hf as [[Hp [Hop [Hfin Hlen]]]|[Hp [Hop Hfin]]].
    + rewrite (spec_step_passes _ _ _ _ Hp). cbv zeta. rewrite Hfin, frame_data_len.
      assert (H8 : (8 <=? rh_opcode (rf_hdr f)) = true) by (destruct Hop as [-> | ->]; reflexivity).
      assert (H125 : (125 <? blen (rf_payload f)) = false) by lia.
      rewrite H8, H125. cbn [negb orb].
      assert (Hm : (if rh_opcode (rf_hdr f) =? 9 then VDeliver (MPing (frame_data f)) (Some (k, acc))
                    else if rh_opcode (rf_hdr f) =? 10 then VDeliver (MPong (frame_data f)) (Some (k, acc))
                    else rfc_close (frame_data f)) = VDeliver (ctl_msg f) (Some (k, acc))).
      { unfold ctl_msg. destruct Hop as [-> | ->]; reflexivity. }
      rewrite Hm. destruct (mid_cons f mid) as [M1 M2]. rewrite M1, M2 in *. rewrite H8 in M1, M2, Hfit |- *.
      cbn [app] in *. rewrite (IH acc Hfit). reflexivity.
    + rewrite (spec_step_passes _ _ _ _ Hp). cbv zeta. rewrite Hop, Hfin.
      change (8 <=? 0) with false. change (0 =? 0) with true. cbv iota.
      destruct (mid_cons f mid) as [M1 M2]. rewrite M1, M2 in *. rewrite Hop in M1, M2, Hfit |- *.
      change (8 <=? 0) with false in *. cbv iota in *. cbn [app]. rewrite app_assoc in Hfit.
      rewrite (fragment_more cfg k _ (acc_fits_prefix _ _ _ _ Hfit)).
      etransitivity; [exact (IH _ Hfit)|].
      f_equal. f_equal. f_equal. f_equal. symmetry. apply app_assoc.
Qed.

Definition kind_of_op (op : N) : kind := if op =? 1 then KText else KBinary.
Definition data_msg (k : kind) (all : bytes) : message :=
  match k with KText => MText all | KBinary => MBinary all end.

Theorem interleaved_run rl cfg first mid last :
  passes rl cfg first -> (rh_opcode (rf_hdr first) = 1 \/ rh_opcode (rf_hdr first) = 2) ->
  rh_fin (rf_hdr first) = false ->
  Forall (fun f => is_ctl rl cfg f \/ is_cont rl cfg f) mid ->
  passes rl cfg last -> rh_opcode (rf_hdr last) = 0 -> rh_fin (rf_hdr last) = true ->
  let k := kind_of_op (rh_opcode (rf_hdr first)) in
  let all := frame_data first ++ mid_data mid ++ frame_data last in
  over (cfg_max_message_size cfg) (blen all) = false ->
  (k = KText -> utf8_valid all = true) ->
  spec_run rl cfg None (first :: mid ++ [last]) = (mid_msgs mid ++ [IMsg (data_msg k all)], Some None).
Proof.
  intros Hp1 Hop1 Hfin1 Hmid Hp2 Hop2 Hfin2 k all Hov Hutf.
  assert (Hfit : acc_fits cfg k all).
  { split; [exact Hov|]. intros Hk. apply utf8_valid_prefix. exact (Hutf Hk). }
  unfold all in Hfit. rewrite app_assoc in Hfit.
  pose proof (acc_fits_prefix _ _ _ _ Hfit) as Hfit1.
  pose proof (acc_fits_prefix _ _ _ _ Hfit1) as Hfit0.
  unfold spec_run. cbn [rfc_run app]. fold (spec_step rl cfg None first).
  rewrite (spec_step_passes _ _ _ _ Hp1). cbv zeta. rewrite Hfin1.
  assert (H8 : (8 <=? rh_opcode (rf_hdr first)) = false) by (destruct Hop1 as [-> | ->]; reflexivity).
  assert (H0 : (rh_opcode (rf_hdr first) =? 0) = false) by (destruct Hop1 as [-> | ->]; reflexivity).
  rewrite H8, H0. fold (kind_of_op (rh_opcode (rf_hdr first))). fold k.
  rewrite (fragment_more cfg k _ Hfit0).
  fold (spec_run rl cfg (Some (k, frame_data first)) (mid ++ [last])).
  unfold spec_run. rewrite (rfc_run_app _ _ _ _ _ _ _ _ [last] (run_mid rl cfg k mid Hmid _ Hfit1)).
  cbn [rfc_run]. fold (spec_step rl cfg (Some (k, frame_data first ++ mid_data mid)) last).
  rewrite (spec_step_passes _ _ _ _ Hp2). cbv zeta. rewrite Hop2, Hfin2.
  change (8 <=? 0) with false. change (0 =? 0) with true. cbv iota.
  unfold rfc_fragment. rewrite <- app_assoc. fold all. rewrite Hov.
  destruct k eqn:Ek.
  - rewrite (Hutf eq_refl). reflexivity.
  - reflexivity.
Qed.

Theorem interleaved_observed rl cfg part x w n fs0 items0 first mid last fs2 t :
  read_setup rl cfg part x w n ->
  rfc_frames (stream_of part w) = (fs0 ++ (first :: mid ++ [last]) ++ fs2, t) ->
  spec_run rl cfg None fs0 = (items0, Some None) ->
  passes rl cfg first -> (rh_opcode (rf_hdr first) = 1 \/ rh_opcode (rf_hdr first) = 2) ->
  rh_fin (rf_hdr first) = false ->
  Forall (fun f => is_ctl rl cfg f \/ is_cont rl cfg f) mid ->
  passes rl cfg last -> rh_opcode (rf_hdr last) = 0 -> rh_fin (rf_hdr last) = true ->
  let k := kind_of_op (rh_opcode (rf_hdr first)) in
  let all := frame_data first ++ mid_data mid ++ frame_data last in
  over (cfg_max_message_size cfg) (blen all) = false ->
  (k = KText -> utf8_valid all = true) ->
  observed x w n =
  map Some (map item_outcome items0 ++ map item_outcome (mid_msgs mid) ++ [OMsg (data_msg k all)]
            ++ spec_outcomes rl cfg None fs2 t).
Proof.
  intros Hs Hf Hr0 Hp1 Hop1 Hfin1 Hmid Hp2 Hop2 Hfin2 k all Hov Hutf.
  rewrite (read_refines_rfc_setup _ _ _ _ _ _ Hs). f_equal.
  unfold spec_read, rfc_read. rewrite Hf.
  pose proof (interleaved_run rl cfg first mid last Hp1 Hop1 Hfin1 Hmid Hp2 Hop2 Hfin2 Hov Hutf) as Hrun.
  unfold spec_run in *.
  rewrite (rfc_outcomes_app _ _ _ _ _ _ _ _ _ t Hr0).
  rewrite (rfc_outcomes_app _ _ _ _ _ _ _ _ _ t Hrun).
  rewrite map_app. cbn [map item_outcome]. rewrite <- !app_assoc. reflexivity.
Qed.

(** ** D.5 the declarative framing composes: frames, then anything *)

Lemma rfc_header_app bs h rest more :
  rfc_header bs = Some (h, rest) -> rfc_header (bs ++ more) = Some (h, rest ++ more).
Proof.
  destruct bs as [|b0 [|b1 r]]; try discriminate. cbn [app]. unfold rfc_header.
  set (ext := if b1 mod 128 =? 126 then 2%nat else if b1 mod 128 =? 127 then 8%nat else 0%nat).
  destruct (Nat.ltb (length r) ext) eqn:El; [discriminate|]. apply Nat.ltb_ge in El.
  assert (El' : Nat.ltb (length (r ++ more)) ext = false) by (apply Nat.ltb_ge; rewrite app_length; lia).
  rewrite El'.
  assert (Hf : firstn ext (r ++ more) = firstn ext r).
  { rewrite firstn_app. replace (ext - length r)%nat with 0%nat by lia. cbn [firstn]. apply app_nil_r. }
  assert (Hs : skipn ext (r ++ more) = skipn ext r ++ more).
  { rewrite skipn_app. replace (ext - length r)%nat with 0%nat by lia. reflexivity. }
  rewrite Hf, Hs. destruct (128 <=? b1).
  - destruct (skipn ext r) as [|a [|b [|c [|d r2]]]]; try discriminate.
    intros H. injection H as <- <-. reflexivity.
  - intros H. injection H as <- <-. reflexivity.
Qed.

Lemma rfc_frames_app_aux : forall n bs1, (length bs1 <= n)%nat -> forall fs1 bs2,
  rfc_frames bs1 = (fs1, TBytes []) ->
  rfc_frames (bs1 ++ bs2) = (fs1 ++ fst (rfc_frames bs2), snd (rfc_frames bs2)).
Proof.
  induction n as [|n IH]; intros bs1 Hn fs1 bs2 H.
  - destruct bs1; [|cbn [length] in Hn; lia]. cbn in H. injection H as <-.
    cbn [app]. destruct (rfc_frames bs2); reflexivity.
  - rewrite rfc_frames_eq in H. destruct (rfc_header bs1) as [[h rest]|] eqn:Eh.
    + destruct (rfc_header_facts _ _ _ Eh) as [Hl _].
      destruct (rh_len h <=? blen rest) eqn:El; [|discriminate].
      destruct (rfc_frames (dropN (rh_len h) rest)) as [fs' t'] eqn:Er.
      injection H as <- ->.
      rewrite rfc_frames_eq, (rfc_header_app _ _ _ bs2 Eh).
      assert (El' : (rh_len h <=? blen (rest ++ bs2)) = true) by (rewrite blen_app'; lia).
      rewrite El', CodecReadP.dropN_app_le, CodecReadP.takeN_app_le by lia.
      pose proof (length_dropN (rh_len h) rest) as Hd.
      rewrite (IH (dropN (rh_len h) rest)) with (fs1 := fs'); [reflexivity|lia|exact Er].
    + injection H as <- ->. cbn [app]. destruct (rfc_frames bs2); reflexivity.
Qed.

Theorem rfc_frames_app bs1 bs2 fs1 :
  rfc_frames bs1 = (fs1, TBytes []) ->
  rfc_frames (bs1 ++ bs2) = (fs1 ++ fst (rfc_frames bs2), snd (rfc_frames bs2)).
Proof. exact (rfc_frames_app_aux (length bs1) bs1 (le_n _) fs1 bs2). Qed.

(* the byte-level form of D.3: a valid prefix, the bytes of one offending frame, then any bytes *)
Theorem violation_observed_bytes rl cfg part x w n bs1 bf rest fs1 f items a c :
  read_setup rl cfg part x w n ->
  stream_of part w = bs1 ++ bf ++ rest ->
  rfc_frames bs1 = (fs1, TBytes []) -> rfc_frames bf = ([f], TBytes []) ->
  spec_run rl cfg None fs1 = (items, Some a) ->
  spec_step rl cfg a f = VReject c ->
  observed x w n = map Some (map item_outcome items ++ [OReject c]).
Proof.
  intros Hs Hb H1 Hf Hr Hv.
  apply (violation_observed rl cfg part x w n fs1 f (fst (rfc_frames rest)) (snd (rfc_frames rest)) items a c Hs);
    [|exact Hr|exact Hv].
  rewrite Hb, (rfc_frames_app _ _ _ H1), (rfc_frames_app _ _ _ Hf). reflexivity.
Qed.

(** ** D.6 one read_message_frame step on a delivered frame *)

Theorem rmf_step_refines x w f c' rds' a rm x' w' :
  x_state x = Active ->
  rfl (limit_of (cfg_max_frame_size (x_cfg x))) (w_rds w) (x_codec x) =
    (ROk (Some (hdr_of (rf_hdr f), rh_len (rf_hdr f), rf_payload f)), c', rds') ->
  raw_of_check (limit_of (cfg_max_frame_size (x_cfg x))) (rf_hdr f) = None ->
  frame_ok f -> acc_rel (x_incomplete x) a -> partial_len a + blen (rf_payload f) < two64 ->
  read_message_frame x w = (rm, x', w') ->
  step_ok (set_codec x c')
    (rfc_step (x_role x) (cfg_accept_unmasked (x_cfg x)) (cfg_max_frame_size (x_cfg x))
              (cfg_max_message_size (x_cfg x)) a f)
    (rm, x') /\ w_rds w' = rds'.
Proof.
  intros Hst Er Hck Hf Hacc Hsz Em.
  rewrite (rmf_active x w Hst), Er in Em. cbv zeta in Em.
  set (x1 := set_state (set_codec x c') Active) in *.
  assert (Hx1 : x1 = set_codec x c') by (unfold x1, set_state, set_codec; cbn; rewrite Hst; reflexivity).
  pose proof (step_refines (cfg_max_frame_size (x_cfg x)) x1 f a Hf eq_refl Hacc Hsz) as S.
  change (x_role x1) with (x_role x) in S. change (x_cfg x1) with (x_cfg x) in S.
  unfold model_frame in S. rewrite Hck in S.
  change (x_role x1) with (x_role x) in S. change (x_cfg x1) with (x_cfg x) in S.
  rewrite <- Hx1.
  destruct (post_frame (role_eqb (x_role x) Server) (cfg_accept_unmasked (x_cfg x)) _) as [[fr|]|e|s|].
  - destruct (Utf8P.on_frame x1 fr) as [r2 x2]. injection Em as <- <- <-. split; [exact S|reflexivity].
  - injection Em as <- <- <-. split; [exact S|reflexivity].
  - injection Em as <- <- <-. split; [exact S|reflexivity].
  - injection Em as <- <- <-. split; [exact S|reflexivity].
  - injection Em as <- <- <-. split; [exact S|reflexivity].
Qed.

(** ** D.7 the per-rule corollaries, lifted *)

Theorem rejected_observed rl cfg part x w n fs1 f fs2 t items a :
  read_setup rl cfg part x w n ->
  rfc_frames (stream_of part w) = (fs1 ++ f :: fs2, t) ->
  spec_run rl cfg None fs1 = (items, Some a) ->
  rejected rl cfg a f ->
  exists c, observed x w n = map Some (map item_outcome items ++ [OReject c]) /\
            (rfc_header_check (cfg_max_frame_size cfg) (rf_hdr f) = None -> c = KProtocol).
Proof.
  intros Hs Hf Hr [c [Hv Hc]]. exists c. split; [|exact Hc].
  exact (violation_observed rl cfg part x w n fs1 f fs2 t items a c Hs Hf Hr Hv).
Qed.

Theorem rejected_observed_any rl cfg part x w n fs1 f fs2 t items a :
  read_setup rl cfg part x w n ->
  rfc_frames (stream_of part w) = (fs1 ++ f :: fs2, t) ->
  spec_run rl cfg None fs1 = (items, Some a) ->
  (exists c, spec_step rl cfg a f = VReject c) ->
  exists c, observed x w n = map Some (map item_outcome items ++ [OReject c]).
Proof.
  intros Hs Hf Hr [c Hv]. exists c.
  exact (violation_observed rl cfg part x w n fs1 f fs2 t items a c Hs Hf Hr Hv).
Qed.

(* the items of a valid prefix are messages, so what is observed is: messages, then one error *)
Lemma clean_items_outcomes items :
  Forall (fun i => exists m, i = IMsg m /\ is_close m = false) items ->
  Forall (fun o => exists m, o = OMsg m) (map item_outcome items).
Proof.
  induction 1 as [|i items [m [-> _]] _ IH]; cbn [map item_outcome]; constructor; [exists m; reflexivity|exact IH].
Qed.
