(* proofs/CodingP.v — close-code round trips and the is_allowed predicate (C20), opcode facts. *)
From TungModel Require Import Base Coding.
From Coq Require Import Lia ZifyBool ZifyN.

Lemma close_to_of (c : N) : close_to_u16 (close_of_u16 c) = c.
Proof.
  unfold close_of_u16.
  repeat match goal with
  | |- context [if ?b then _ else _] => destruct b eqn:?; [cbn [close_to_u16]; lia|]
  end.
  reflexivity.
Qed.

Lemma close_of_to_of (c : N) : close_of_u16 (close_to_u16 (close_of_u16 c)) = close_of_u16 c.
Proof. rewrite close_to_of. reflexivity. Qed.

Definition allowed_range (c : N) : Prop :=
  (1000 <= c <= 1003) \/ (1007 <= c <= 1013) \/ (3000 <= c <= 4999).

Lemma close_allowed_iff (c : N) : close_allowed (close_of_u16 c) = true <-> allowed_range c.
Proof.
  unfold close_of_u16, allowed_range.
  repeat match goal with
  | |- context [if ?b then _ else _] => destruct b eqn:?; [cbn [close_allowed]; split; [intros H; first [discriminate H | lia] | intros H; first [reflexivity | exfalso; lia]]|]
  end.
  cbn [close_allowed]. split; [discriminate | lia].
Qed.

(* every value the decoder can produce: v is in the image of close_of_u16 on 16-bit codes *)
Lemma close_roundtrip_image (v : close_code) :
  (exists c, c < 65536 /\ v = close_of_u16 c) -> close_of_u16 (close_to_u16 v) = v.
Proof. intros [c [_ ->]]. apply close_of_to_of. Qed.

(* opcode byte round trip on the 16 nibbles *)
Lemma opcode_of_to (b : N) : b < 16 -> exists o, opcode_of_u8 b = Some o /\ opcode_to_u8 o = b.
Proof.
  intros Hb. unfold opcode_of_u8.
  repeat match goal with
  | |- context [if ?c then _ else _] => destruct c eqn:?; [eexists; split; [reflexivity| cbn [opcode_to_u8]; lia]|]
  end.
  lia.
Qed.

Lemma opcode_to_of (o : opcode) : is_reserved o = false -> opcode_of_u8 (opcode_to_u8 o) = Some o.
Proof. destruct o as [[| | |i]|[| | |i]]; cbn; try reflexivity; discriminate. Qed.
