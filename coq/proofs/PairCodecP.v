(* proofs/PairCodecP.v — C04, part 1: the reading codec in front of a stream of well-formed frames.

   [codec_at c fut rem]: the bytes the codec [c] holds (a parsed header, in_buffer) followed by the
   bytes [fut] still to come are exactly the encoding of the frames [rem].  Under this invariant
   read_frame (any chunking of the transport reads, optionally ending in end-of-file) returns the
   first frame of [rem], or WouldBlock (nothing lost), or end-of-file (only when [rem] is empty). *)
From TungModel Require Import Base Coding Mask Header Frame Utf8 World Message Codec Protocol.
From TungModel.proofs Require Import HeaderP MaskP CodecReadP WritePathP.
From Coq Require Import Arith Lia ZifyBool ZifyNat ZifyN.

Arguments N.add : simpl never.
Arguments N.mul : simpl never.
Arguments N.sub : simpl never.
Arguments N.div : simpl never.
Arguments N.modulo : simpl never.
Arguments N.ltb : simpl never.
Arguments N.leb : simpl never.
Arguments N.eqb : simpl never.
Arguments N.min : simpl never.
Arguments N.of_nat : simpl never.
Arguments N.to_nat : simpl never.

Ltac inv H := inversion H; subst; clear H.
Ltac splits := repeat match goal with |- _ /\ _ => split end.

(* ------------------------------------------------------------------------------------------ *)
(** * 1. frames on the wire *)

(* the payload bytes as they travel *)
Definition wpayload (f : frame) : bytes :=
  match h_mask (f_hdr f) with Some k => apply_mask k (f_payload f) | None => f_payload f end.

Lemma wpayload_blen f : blen (wpayload f) = blen (f_payload f).
Proof. unfold wpayload. destruct (h_mask (f_hdr f)); [apply apply_mask_blen|reflexivity]. Qed.

Lemma frame_format_wp f : frame_format f = header_format (f_hdr f) (blen (f_payload f)) ++ wpayload f.
Proof. reflexivity. Qed.

(* what the decoder needs of a frame: a known opcode, a 64-bit length *)
Definition okr (f : frame) : Prop :=
  is_reserved (h_opcode (f_hdr f)) = false /\ blen (f_payload f) < two64.

(* the codec [c], followed by the bytes [fut], holds exactly the frames [rem] *)
Definition codec_at (c : codec) (fut : bytes) (rem : list frame) : Prop :=
  match c_hdr c with
  | None => c_in c ++ fut = enc rem
  | Some (h, len) =>
      exists f rem', rem = f :: rem' /\ h = f_hdr f /\ len = blen (f_payload f) /\
                     c_in c ++ fut = wpayload f ++ enc rem'
  end.

Lemma codec_at_new : codec_at (codec_new []) [] [].
Proof. reflexivity. Qed.

(* more frames are appended to the stream *)
Lemma codec_at_app c fut rem nf : codec_at c fut rem -> codec_at c (fut ++ enc nf) (rem ++ nf).
Proof.
  unfold codec_at. destruct (c_hdr c) as [[h len]|].
  - intros [f [rem' [-> [Hh [Hl He]]]]]. exists f, (rem' ++ nf). splits; auto.
    rewrite app_assoc, He, enc_app, app_assoc. reflexivity.
  - intros He. rewrite app_assoc, He, enc_app. reflexivity.
Qed.

(* the transport hands over the next bytes *)
Lemma codec_at_feed c bs fut rem :
  codec_at c (bs ++ fut) rem -> codec_at (set_in c (c_in c ++ bs)) fut rem.
Proof.
  unfold codec_at. cbn [c_hdr c_in set_in]. destruct (c_hdr c) as [[h len]|].
  - intros [f [rem' [-> [Hh [Hl He]]]]]. exists f, rem'. splits; auto. rewrite <- app_assoc. exact He.
  - intros He. rewrite <- app_assoc. exact He.
Qed.

(* only the reading fields matter *)
Lemma codec_at_ext c c' fut rem :
  c_in c' = c_in c -> c_hdr c' = c_hdr c -> codec_at c fut rem -> codec_at c' fut rem.
Proof. unfold codec_at. intros -> ->. exact (fun H => H). Qed.

Lemma codec_at_set_out c o fut rem : codec_at c fut rem -> codec_at (set_out c o) fut rem.
Proof. apply codec_at_ext; reflexivity. Qed.

Lemma enc_cons f fs : enc (f :: fs) = frame_format f ++ enc fs.
Proof. reflexivity. Qed.

Lemma enc_nil : enc [] = [].
Proof. reflexivity. Qed.

Lemma frame_format_len2 f : (2 <= length (frame_format f))%nat.
Proof.
  pose proof (frame_len_ge2 f) as H. rewrite frame_len_exact in H. unfold blen in H. lia.
Qed.

Lemma enc_length rem : (2 * length rem <= length (enc rem))%nat.
Proof.
  induction rem as [|f rem IH]; [cbn; lia|].
  rewrite enc_cons, app_length. pose proof (frame_format_len2 f). cbn [length]. lia.
Qed.

(* the number of frames is bounded by the number of bytes *)
Lemma codec_at_count c fut rem :
  codec_at c fut rem -> (length rem <= length (c_in c) + length fut + 1)%nat.
Proof.
  unfold codec_at. destruct (c_hdr c) as [[h len]|].
  - intros [f [rem' [-> [_ [_ He]]]]]. cbn [length].
    assert (X : (length (c_in c) + length fut = length (wpayload f) + length (enc rem'))%nat).
    { rewrite <- !app_length, He. reflexivity. }
    pose proof (enc_length rem'). lia.
  - intros He. assert (X : (length (c_in c) + length fut = length (enc rem))%nat).
    { rewrite <- app_length, He. reflexivity. }
    pose proof (enc_length rem). lia.
Qed.

(* ------------------------------------------------------------------------------------------ *)
(** * 2. try_take *)

Definition umax : N := limit_of None.

Lemma app_prefix_take {A} (a fut b rest : list A) n :
  a ++ fut = b ++ rest -> blen b = n -> n <= blen a ->
  takeN n a = b /\ dropN n a ++ fut = rest.
Proof.
  intros He Hb Hn.
  assert (Ht : takeN n (a ++ fut) = b) by (rewrite He; apply takeN_app_exact; exact Hb).
  assert (Hd : dropN n (a ++ fut) = rest) by (rewrite He; apply dropN_app_exact; exact Hb).
  rewrite CodecReadP.takeN_app_le in Ht by exact Hn.
  rewrite CodecReadP.dropN_app_le in Hd by exact Hn. split; assumption.
Qed.

(* a held header *)
Lemma held_at c h len fut rem :
  c_hdr c = Some (h, len) -> codec_at c fut rem -> Forall okr rem ->
  match held umax c h len with
  | TkPayload h' len' p c' =>
      exists f rem', rem = f :: rem' /\ h' = f_hdr f /\ len' = blen (f_payload f) /\ p = wpayload f /\
                     codec_at c' fut rem'
  | TkNeedMore _ c' => c' = c /\ fut <> []
  | _ => False
  end.
Proof.
  intros Hh Hat Hok. unfold codec_at in Hat. rewrite Hh in Hat.
  destruct Hat as [f [rem' [-> [-> [-> He]]]]].
  inversion Hok as [|? ? [_ H64] Hok']; subst.
  unfold held, umax, limit_of.
  replace (u64_max <? blen (f_payload f)) with false by (symmetry; unfold two64, u64_max in *; lia).
  destruct (blen (f_payload f) <=? blen (c_in c)) eqn:El.
  - destruct (app_prefix_take _ _ _ _ _ He (wpayload_blen f) ltac:(lia)) as [Ht Hd].
    exists f, rem'. splits; auto.
  - split; [reflexivity|]. intros ->. rewrite app_nil_r in He.
    assert (X : blen (c_in c) = blen (wpayload f) + blen (enc rem')) by (rewrite He; apply HeaderP.blen_app).
    rewrite wpayload_blen in X. lia.
Qed.

Lemma try_take_at c fut rem :
  codec_at c fut rem -> Forall okr rem ->
  match try_take umax c with
  | TkPayload h len p c' =>
      exists f rem', rem = f :: rem' /\ h = f_hdr f /\ len = blen (f_payload f) /\ p = wpayload f /\
                     codec_at c' fut rem'
  | TkNeedMore _ c' => codec_at c' fut rem /\ (rem = [] \/ fut <> [])
  | _ => False
  end.
Proof.
  intros Hat Hok. rewrite try_take_eq. destruct (c_hdr c) as [[h len]|] eqn:Hh.
  - pose proof (held_at c h len fut rem Hh Hat Hok) as H.
    destruct (held umax c h len) as [h' len' p c'|n c'|e c'|s]; try exact H.
    destruct H as [-> Hf]. split; [exact Hat|right; exact Hf].
  - unfold codec_at in Hat. rewrite Hh in Hat.
    destruct rem as [|f rem'].
    + rewrite enc_nil in Hat. apply app_eq_nil in Hat. destruct Hat as [Hi ->]. rewrite Hi.
      cbn [header_parse]. split; [|left; reflexivity]. unfold codec_at. rewrite Hh, Hi. reflexivity.
    + inversion Hok as [|? ? [Hr H64] Hok']; subst.
      rewrite enc_cons, frame_format_wp, <- app_assoc in Hat.
      pose proof (header_parse_format_nr (f_hdr f) (blen (f_payload f)) (wpayload f ++ enc rem') Hr H64) as Hfull.
      rewrite <- Hat in Hfull.
      destruct (header_parse (c_in c)) as [h len k| |i|] eqn:Hp.
      * destruct (hp_ok _ _ _ _ Hp) as [Hk Hext]. rewrite (Hext fut) in Hfull.
        injection Hfull as -> -> ->.
        set (c1 := set_hdr (set_in c (dropN (header_len (f_hdr f) (blen (f_payload f))) (c_in c)))
                           (Some (f_hdr f, blen (f_payload f)))).
        assert (Hat1 : codec_at c1 fut (f :: rem')).
        { unfold codec_at, c1. cbn [c_hdr c_in set_hdr set_in]. exists f, rem'. splits; auto.
          destruct (app_prefix_take _ _ _ _ _ Hat (HeaderP.header_format_blen _ _) ltac:(lia)) as [_ Hd].
          exact Hd. }
        pose proof (held_at c1 (f_hdr f) (blen (f_payload f)) fut (f :: rem') eq_refl Hat1 Hok) as H.
        destruct (held umax c1 (f_hdr f) (blen (f_payload f))) as [h' len' p c'|n c'|e c'|s]; try exact H.
        destruct H as [-> Hf]. split; [exact Hat1|right; exact Hf].
      * split; [unfold codec_at; rewrite Hh, enc_cons, frame_format_wp, <- app_assoc; exact Hat|].
        right. intros ->. rewrite app_nil_r in Hfull. rewrite Hp in Hfull. discriminate Hfull.
      * rewrite (hp_err _ _ Hp fut) in Hfull. discriminate Hfull.
      * exact (hp_no_panic _ Hp).
Qed.

(* ------------------------------------------------------------------------------------------ *)
(** * 3. read_frame_loop under any chunking *)

(* the schedules of the pair: non-empty chunks, possibly ended by end-of-file *)
Fixpoint grds (rds : list rd_out) : Prop :=
  match rds with
  | [] => True
  | RdData (_ :: _) :: r => grds r
  | [RdEof] => True
  | _ => False
  end.

Fixpoint rdata (rds : list rd_out) : bytes :=
  match rds with
  | [] => []
  | RdData bs :: r => bs ++ rdata r
  | _ :: r => rdata r
  end.

Lemma rdata_app a b : rdata (a ++ b) = rdata a ++ rdata b.
Proof.
  induction a as [|o a IH]; [reflexivity|]. destruct o; cbn [app rdata]; rewrite IH; try reflexivity.
  apply app_assoc.
Qed.

Inductive rfl_out (rds : list rd_out) (fut : bytes) (rem : list frame)
  : raw -> codec -> list rd_out -> Prop :=
| RO_frame f rem' c' rds' p :
    rem = f :: rem' -> rds = p ++ rds' -> grds rds' -> (In RdEof rds' -> In RdEof rds) ->
    codec_at c' (rdata rds' ++ fut) rem' ->
    rfl_out rds fut rem (ROk (Some (f_hdr f, blen (f_payload f), wpayload f))) c' rds'
| RO_block c' : ~ In RdEof rds -> codec_at c' fut rem -> (rem = [] \/ fut <> []) ->
    rfl_out rds fut rem (RErr (EIo WouldBlock)) c' []
| RO_eof c' : In RdEof rds -> rem = [] -> codec_at c' [] [] ->
    rfl_out rds fut rem (ROk None) c' [].

Lemma rfl_at : forall rds c fut rem r c' rds',
  grds rds -> codec_at c (rdata rds ++ fut) rem -> Forall okr rem ->
  (In RdEof rds -> fut = []) ->
  rfl umax rds c = (r, c', rds') ->
  rfl_out rds fut rem r c' rds'.
Proof.
  induction rds as [|o rest IH]; intros c fut rem r c' rds' Hg Hat Hok Heof E; rewrite rfl_eq in E;
    pose proof (try_take_at c _ rem Hat Hok) as HT;
    destruct (try_take umax c) as [h len p c1|n c1|e c1|s]; try contradiction.
  - destruct HT as [f [rem' [-> [-> [-> [-> Hat1]]]]]]. inv E.
    apply (RO_frame _ _ _ f rem' c' [] []); auto.
  - destruct HT as [Hat1 Hne]. inv E. apply RO_block; [intros []|exact Hat1|exact Hne].
  - destruct HT as [f [rem' [-> [-> [-> [-> Hat1]]]]]]. inv E.
    apply (RO_frame _ _ _ f rem' c' (o :: rest) []); auto.
  - destruct HT as [Hat1 Hne].
    destruct o as [[|b bs]| |k]; cbn [grds] in Hg; try contradiction.
    + cbn [rdata] in Hat1. rewrite <- app_assoc in Hat1. apply codec_at_feed in Hat1.
      assert (Heof' : In RdEof rest -> fut = []) by (intros X; apply Heof; right; exact X).
      specialize (IH _ _ _ _ _ _ Hg Hat1 Hok Heof' E).
      destruct IH as [f rem' c2 rds2 p Hrem Hp Hg2 He2 Hat2|c2 Hn Hat2 Hne2|c2 Hi Hrem Hat2].
      * apply (RO_frame _ _ _ f rem' c2 rds2 (RdData (b :: bs) :: p)); auto.
        -- rewrite Hp. reflexivity.
        -- intros X. right. exact (He2 X).
      * apply RO_block; [|exact Hat2|exact Hne2]. intros [X|X]; [discriminate X|exact (Hn X)].
      * apply RO_eof; auto. right. exact Hi.
    + destruct rest; [|contradiction]. inv E.
      assert (Hf : fut = []) by (apply Heof; left; reflexivity). subst fut.
      cbn [rdata app] in *. destruct Hne as [->|Hne]; [|contradiction].
      apply RO_eof; auto. left. reflexivity.
Qed.

(* try_take / read_frame_loop leave the write side of the codec alone *)
Lemma rfl_same : forall rds c r c' rds',
  rfl umax rds c = (r, c', rds') ->
  c_out c' = c_out c /\ c_max_out c' = c_max_out c /\ c_write_len c' = c_write_len c.
Proof.
  induction rds as [|o rest IH]; intros c r c' rds' E; rewrite rfl_eq in E;
    pose proof (try_take_same umax c) as HT;
    destruct (try_take umax c) as [h len p c1|n c1|e c1|s];
    try first [inv E; exact HT | inv E; splits; reflexivity].
  destruct o as [[|b bs]| |k]; try (inv E; exact HT).
  apply IH in E. cbn [c_out c_max_out c_write_len set_in] in E.
  destruct HT as [A [B C]]. destruct E as [A' [B' C']]. splits; congruence.
Qed.

(* ------------------------------------------------------------------------------------------ *)
(** * 4. read_frame: the frame as the protocol layer sees it *)

(* the frame without its masking key *)
Definition plain_of (f : frame) : frame :=
  mkFrame (mkHeader (h_fin (f_hdr f)) (h_rsv1 (f_hdr f)) (h_rsv2 (f_hdr f)) (h_rsv3 (f_hdr f))
                    (h_opcode (f_hdr f)) None) (f_payload f).

(* masked iff sent by a client *)
Definition mask_ok (sender : role) (f : frame) : Prop :=
  match sender with
  | Client => exists k, h_mask (f_hdr f) = Some k
  | Server => h_mask (f_hdr f) = None
  end.

Lemma post_frame_at (reader_is_server acc : bool) (f : frame) :
  mask_ok (if reader_is_server then Client else Server) f ->
  post_frame reader_is_server acc (ROk (Some (f_hdr f, blen (f_payload f), wpayload f))) = ROk (Some (plain_of f)).
Proof.
  intros Hm. unfold post_frame. rewrite wpayload_blen, N.eqb_refl. cbn [negb].
  destruct reader_is_server.
  - destruct Hm as [k Hk]. rewrite Hk. unfold wpayload. rewrite Hk. unfold apply_mask.
    rewrite xor_cyc_involutive. reflexivity.
  - cbn in Hm. unfold wpayload, plain_of. rewrite Hm. destruct f as [[fin r1 r2 r3 o m] p].
    cbn in *. subst m. reflexivity.
Qed.

Definition sender_of (reader : role) : role := match reader with Server => Client | Client => Server end.

Lemma sender_if reader : (if role_eqb reader Server then Client else Server) = sender_of reader.
Proof. destruct reader; reflexivity. Qed.

Inductive rf_out (reader : role) (rds : list rd_out) (fut : bytes) (rem : list frame)
  : res (option frame) -> codec -> list rd_out -> Prop :=
| RF_frame f rem' c' rds' p :
    rem = f :: rem' -> rds = p ++ rds' -> grds rds' -> (In RdEof rds' -> In RdEof rds) ->
    codec_at c' (rdata rds' ++ fut) rem' ->
    rf_out reader rds fut rem (ROk (Some (plain_of f))) c' rds'
| RF_block c' : ~ In RdEof rds -> codec_at c' fut rem -> (rem = [] \/ fut <> []) ->
    rf_out reader rds fut rem (RErr (EIo WouldBlock)) c' []
| RF_eof c' : In RdEof rds -> rem = [] -> codec_at c' [] [] ->
    rf_out reader rds fut rem (ROk None) c' [].

Lemma read_frame_at reader acc c w fut rem r c' w' :
  grds (w_rds w) -> codec_at c (rdata (w_rds w) ++ fut) rem ->
  Forall okr rem -> Forall (mask_ok (sender_of reader)) rem ->
  (In RdEof (w_rds w) -> fut = []) ->
  read_frame None (role_eqb reader Server) acc c w = (r, c', w') ->
  rf_out reader (w_rds w) fut rem r c' (w_rds w') /\
  w_wrs w' = w_wrs w /\ w_fls w' = w_fls w /\ w_keys w' = w_keys w /\
  (exists evs, w_log w' = w_log w ++ evs /\ Forall is_rd_ev evs) /\
  c_out c' = c_out c /\ c_max_out c' = c_max_out c /\ c_write_len c' = c_write_len c.
Proof.
  intros Hg Hat Hok Hm Heof H.
  pose proof (WritePathP.read_frame_spec _ _ _ _ _ _ _ _ H) as [_ Hlog].
  rewrite read_frame_eq in H. fold umax in H.
  destruct (rfl umax (w_rds w) c) as [[r0 c0] rds0] eqn:E. inv H.
  cbn [w_rds w_wrs w_fls w_keys w_log] in *.
  pose proof (rfl_same _ _ _ _ _ E) as [A [B C]].
  apply (rfl_at _ _ fut rem) in E; auto.
  splits; auto.
  destruct E as [f rem' c2 rds2 p Hrem Hp Hg2 He2 Hat2|c2 Hn Hat2 Hne2|c2 Hi Hrem Hat2].
  - subst rem. inversion Hm as [|? ? Hmf _]; subst.
    rewrite post_frame_at by (rewrite sender_if; exact Hmf).
    eapply RF_frame; eauto.
  - apply RF_block; assumption.
  - apply RF_eof; assumption.
Qed.
