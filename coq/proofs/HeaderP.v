(* proofs/HeaderP.v — frame header codec (C18): header_parse / header_format / header_len are exact
   inverses in canonical form; frame_len / frame_format / frame_format_into_buf agree.
   Reusable by other work packages: header_parse_app_ok, header_parse_app_err, header_parse_ok_bounds,
   header_parse_no_panic, header_parse_incomplete_iff, header_parse_ok_inv, header_parse_format. *)
From TungModel Require Import Base Coding Mask Header Frame.
From TungModel.proofs Require Import CodingP.
From Coq Require Import Arith Lia ZifyBool ZifyNat ZifyN.

Local Arguments N.add : simpl never.
Local Arguments N.mul : simpl never.
Local Arguments N.sub : simpl never.
Local Arguments N.div : simpl never.
Local Arguments N.modulo : simpl never.
Local Arguments N.land : simpl never.
Local Arguments N.lor : simpl never.
Local Arguments N.pow : simpl never.
Local Arguments N.ltb : simpl never.
Local Arguments N.eqb : simpl never.

(* ------------------------------------------------------------------ *)
(** * 1. List utilities on blen / takeN / dropN *)

Lemma blen_nil {A} : blen (@nil A) = 0.
Proof. reflexivity. Qed.

Lemma blen_cons {A} (x : A) (l : list A) : blen (x :: l) = 1 + blen l.
Proof. unfold blen. cbn [length]. lia. Qed.

Lemma blen_app {A} (l m : list A) : blen (l ++ m) = blen l + blen m.
Proof. unfold blen. rewrite app_length. lia. Qed.

Lemma blen_dropN {A} (n : N) (l : list A) : blen (dropN n l) = blen l - n.
Proof. unfold blen, dropN. rewrite skipn_length. lia. Qed.

Lemma takeN_app_exact {A} (n : N) (l m : list A) : blen l = n -> takeN n (l ++ m) = l.
Proof.
  intros H. unfold takeN.
  replace (N.to_nat n) with (length l + 0)%nat by (unfold blen in H; lia).
  rewrite firstn_app_2. cbn [firstn]. apply app_nil_r.
Qed.

Lemma dropN_app_exact {A} (n : N) (l m : list A) : blen l = n -> dropN n (l ++ m) = m.
Proof.
  intros H. unfold dropN.
  replace (N.to_nat n) with (length l) by (unfold blen in H; lia).
  rewrite skipn_app, skipn_all, Nat.sub_diag. reflexivity.
Qed.

Lemma takeN_exact {A} (n : N) (l : list A) : blen l = n -> takeN n l = l.
Proof. intros H. rewrite <- (app_nil_r l) at 1. apply takeN_app_exact, H. Qed.

Lemma split_at {A} (n : N) (l : list A) :
  n <= blen l -> exists a b, l = a ++ b /\ blen a = n.
Proof.
  intros H. exists (takeN n l), (dropN n l). split.
  - unfold takeN, dropN. symmetry. apply firstn_skipn.
  - unfold blen, takeN in *. rewrite firstn_length_le; lia.
Qed.

(* ------------------------------------------------------------------ *)
(** * 2. Finite sweeps over bytes *)

Lemma in_range_from (b : N) : forall (n : nat) (s : N),
  s <= b < s + N.of_nat n -> In b (range_from s n).
Proof.
  induction n as [|n IH]; intros s H.
  - lia.
  - cbn [range_from]. destruct (N.eq_dec s b) as [E|E].
    + left. exact E.
    + right. apply IH. lia.
Qed.

Lemma in_all_bytes (b : N) : b < 256 -> In b all_bytes.
Proof.
  intros H. unfold all_bytes. apply in_range_from.
  change (N.of_nat 256) with 256. lia.
Qed.

Lemma byte_sweep (P : N -> bool) :
  forallb P all_bytes = true -> forall b, b < 256 -> P b = true.
Proof.
  intros H b Hb. rewrite forallb_forall in H. apply H, in_all_bytes, Hb.
Qed.

(* ------------------------------------------------------------------ *)
(** * 3. Masking with 15 / 127 on arbitrary N *)

Lemma land15_lt (x : N) : N.land x 15 < 16.
Proof.
  change 15 with (N.ones 4). rewrite N.land_ones.
  change (2 ^ 4) with 16. apply N.mod_upper_bound. discriminate.
Qed.

Lemma land127_lt (x : N) : N.land x 127 < 128.
Proof.
  change 127 with (N.ones 7). rewrite N.land_ones.
  change (2 ^ 7) with 128. apply N.mod_upper_bound. discriminate.
Qed.

(* ------------------------------------------------------------------ *)
(** * 4. Opcode nibble facts *)

Lemma opcode_of_nibble (x : N) :
  exists opc, opcode_of_u8 (N.land x 15) = Some opc /\ opcode_to_u8 opc = N.land x 15.
Proof. apply opcode_of_to, land15_lt. Qed.

Definition reserved_nibble (c : N) : Prop := 3 <= c <= 7 \/ 11 <= c <= 15.

Lemma opcode_reserved_iff (b : N) (opc : opcode) :
  opcode_of_u8 b = Some opc -> (is_reserved opc = true <-> reserved_nibble b).
Proof.
  unfold opcode_of_u8, reserved_nibble.
  repeat match goal with
  | |- context [if ?c then _ else _] =>
      destruct c eqn:?;
      [intros H; injection H as <-; cbn [is_reserved]; split;
       [intros H; first [discriminate H | lia] | intros H; first [reflexivity | exfalso; lia]] |]
  end.
  intros H. discriminate H.
Qed.

Lemma opcode_of_u8_inj_to (b : N) (opc : opcode) :
  opcode_of_u8 b = Some opc -> opcode_to_u8 opc = b.
Proof.
  unfold opcode_of_u8.
  repeat match goal with
  | |- context [if ?c then _ else _] =>
      destruct c eqn:?; [intros H; injection H as <-; cbn [opcode_to_u8]; lia |]
  end.
  intros H. discriminate H.
Qed.

(* ------------------------------------------------------------------ *)
(** * 5. header_parse: characterisation *)

(* number of extended-length bytes announced by the second header byte *)
Definition hdr_ll (second : N) : N := lf_extra (lf_for_byte (N.land second 127)).

(* total header size announced by the first two bytes (2 when they are not there yet) *)
Definition announced_len (bs : bytes) : N :=
  match bs with
  | _ :: second :: _ => 2 + hdr_ll second + (if bit second 128 then 4 else 0)
  | _ => 2
  end.

Lemma hdr_ll_eq (s : N) :
  hdr_ll s = if N.land s 127 =? 126 then 2 else if N.land s 127 =? 127 then 8 else 0.
Proof.
  unfold hdr_ll, lf_for_byte.
  destruct (N.land s 127 =? 126); [reflexivity|].
  destruct (N.land s 127 =? 127); reflexivity.
Qed.

Lemma hdr_ll_cases (s : N) : hdr_ll s = 0 \/ hdr_ll s = 2 \/ hdr_ll s = 8.
Proof.
  rewrite hdr_ll_eq.
  destruct (N.land s 127 =? 126); [auto|].
  destruct (N.land s 127 =? 127); auto.
Qed.

Lemma hdr_ll_le8 (s : N) : hdr_ll s <= 8.
Proof. destruct (hdr_ll_cases s) as [H|[H|H]]; rewrite H; lia. Qed.

Lemma announced_len_bounds (bs : bytes) : 2 <= announced_len bs <= 14.
Proof.
  destruct bs as [|f [|s r]]; cbn [announced_len]; try lia.
  pose proof (hdr_ll_le8 s). destruct (bit s 128); lia.
Qed.

(* header_parse with the length-of-length named *)
Lemma header_parse_eq (first second : N) (r : bytes) :
  header_parse (first :: second :: r) =
  match opcode_of_u8 (N.land first 15) with
  | None => PPanic
  | Some opc =>
      let ll := hdr_ll second in
      if 8 <? ll then PPanic else
      if blen r <? ll then PIncomplete else
      let len := if 0 <? ll then from_be (takeN ll r) else N.land second 127 in
      let r1 := dropN ll r in
      if bit second 128 then
        match r1 with
        | a :: b :: c :: d :: _ =>
            if is_reserved opc then PErr (N.land first 15) else
            POk (mkHeader (bit first 128) (bit first 64) (bit first 32) (bit first 16) opc (Some (a, b, c, d)))
                len (2 + ll + 4)
        | _ => PIncomplete
        end
      else
        if is_reserved opc then PErr (N.land first 15) else
        POk (mkHeader (bit first 128) (bit first 64) (bit first 32) (bit first 16) opc None) len (2 + ll)
  end.
Proof. reflexivity. Qed.

(* (A) too short for the announced header: Incomplete *)
Lemma header_parse_short (bs : bytes) :
  blen bs < announced_len bs -> header_parse bs = PIncomplete.
Proof.
  destruct bs as [|f [|s r]]; [reflexivity | reflexivity |].
  cbn [announced_len]. rewrite !blen_cons. intros H.
  rewrite header_parse_eq.
  destruct (opcode_of_nibble f) as [opc [Ho _]]. rewrite Ho. cbv zeta.
  pose proof (hdr_ll_le8 s) as H8.
  destruct (8 <? hdr_ll s) eqn:E8; [lia|].
  destruct (blen r <? hdr_ll s) eqn:E1; [reflexivity|].
  destruct (bit s 128) eqn:Em; [|lia].
  pose proof (blen_dropN (hdr_ll s) r) as Hd.
  destruct (dropN (hdr_ll s) r) as [|a [|b [|c [|d t]]]]; try reflexivity.
  exfalso. rewrite !blen_cons in Hd. lia.
Qed.

(* shape of the optional key bytes after the length field *)
Definition key_shape (masked : bool) (kb : bytes) (mk : option key) : Prop :=
  match mk with
  | Some k => masked = true /\ kb = key_bytes k
  | None => masked = false /\ kb = []
  end.

Lemma key_shape_blen (m : bool) (kb : bytes) (mk : option key) :
  key_shape m kb mk -> blen kb = if m then 4 else 0.
Proof.
  destruct mk as [[[[a b] c] d]|]; cbn [key_shape key_bytes]; intros [-> ->]; reflexivity.
Qed.

(* (B) long enough: the bytes split as first, second, length field, key, rest *)
Lemma header_decomp (bs : bytes) :
  announced_len bs <= blen bs ->
  exists f s ext kb rest mk,
    bs = f :: s :: ext ++ kb ++ rest /\ blen ext = hdr_ll s /\ key_shape (bit s 128) kb mk.
Proof.
  destruct bs as [|f [|s r]]; cbn [announced_len]; rewrite ?blen_cons, ?blen_nil; try lia.
  intros H.
  destruct (split_at (hdr_ll s) r) as [ext [r1 [-> Hext]]].
  { destruct (bit s 128); lia. }
  rewrite blen_app in H.
  destruct (bit s 128) eqn:Em.
  - destruct (split_at 4 r1) as [kb [rest [-> Hkb]]]; [lia|].
    destruct kb as [|a [|b [|c [|d [|e t]]]]]; rewrite ?blen_cons, ?blen_nil in Hkb; try lia.
    exists f, s, ext, [a; b; c; d], rest, (Some (a, b, c, d)).
    rewrite Em. cbn [key_shape key_bytes]. auto.
  - exists f, s, ext, [], r1, None. rewrite Em. cbn [key_shape app]. auto.
Qed.

(* what parse returns on a well-split header *)
Definition parse_result (f s : N) (opc : opcode) (ext kb : bytes) (mk : option key) : pres :=
  if is_reserved opc then PErr (N.land f 15)
  else POk (mkHeader (bit f 128) (bit f 64) (bit f 32) (bit f 16) opc mk)
           (if 0 <? hdr_ll s then from_be ext else N.land s 127)
           (2 + hdr_ll s + blen kb).

(* (C) parse of a well-split header *)
Lemma header_parse_build (f s : N) (opc : opcode) (ext kb rest : bytes) (mk : option key) :
  opcode_of_u8 (N.land f 15) = Some opc ->
  blen ext = hdr_ll s ->
  key_shape (bit s 128) kb mk ->
  header_parse (f :: s :: ext ++ kb ++ rest) = parse_result f s opc ext kb mk.
Proof.
  intros Ho Hext Hk. rewrite header_parse_eq, Ho. cbv zeta.
  pose proof (hdr_ll_le8 s) as H8.
  destruct (8 <? hdr_ll s) eqn:E8; [lia|].
  rewrite blen_app.
  destruct (blen ext + blen (kb ++ rest) <? hdr_ll s) eqn:E1; [lia|].
  rewrite (takeN_app_exact _ _ _ Hext), (dropN_app_exact _ _ _ Hext).
  unfold parse_result.
  destruct mk as [[[[a b] c] d]|]; cbn [key_shape key_bytes] in Hk; destruct Hk as [Hm ->]; rewrite Hm.
  - cbn [app]. change (blen [a; b; c; d]) with 4. reflexivity.
  - cbn [app]. change (blen (@nil N)) with 0. rewrite N.add_0_r. reflexivity.
Qed.

(* every sufficiently long input parses to parse_result of its split *)
Lemma header_parse_long (bs : bytes) :
  announced_len bs <= blen bs ->
  exists f s opc ext kb rest mk,
    bs = f :: s :: ext ++ kb ++ rest /\ blen ext = hdr_ll s /\ key_shape (bit s 128) kb mk /\
    opcode_of_u8 (N.land f 15) = Some opc /\
    header_parse bs = parse_result f s opc ext kb mk.
Proof.
  intros H. destruct (header_decomp bs H) as [f [s [ext [kb [rest [mk [-> [Hext Hk]]]]]]]].
  destruct (opcode_of_nibble f) as [opc [Ho _]].
  exists f, s, opc, ext, kb, rest, mk. repeat split; try assumption.
  apply header_parse_build; assumption.
Qed.

Lemma parse_result_not_incomplete f s opc ext kb mk : parse_result f s opc ext kb mk <> PIncomplete.
Proof. unfold parse_result. destruct (is_reserved opc); discriminate. Qed.

Lemma parse_result_not_panic f s opc ext kb mk : parse_result f s opc ext kb mk <> PPanic.
Proof. unfold parse_result. destruct (is_reserved opc); discriminate. Qed.

(** ** Reusable corollaries *)

(* the two panics of the Rust code (OpCode::from out of range, the assert!) are unreachable *)
Lemma header_parse_no_panic (bs : bytes) : header_parse bs <> PPanic.
Proof.
  destruct (N.lt_ge_cases (blen bs) (announced_len bs)) as [H|H].
  - rewrite (header_parse_short bs H). discriminate.
  - destruct (header_parse_long bs H) as [f [s [opc [ext [kb [rest [mk [_ [_ [_ [_ ->]]]]]]]]]]].
    apply parse_result_not_panic.
Qed.

(* Incomplete exactly when the input is shorter than the header its first two bytes announce *)
Lemma header_parse_incomplete_iff (bs : bytes) :
  header_parse bs = PIncomplete <-> blen bs < announced_len bs.
Proof.
  split; [|apply header_parse_short].
  intros Hp. destruct (N.lt_ge_cases (blen bs) (announced_len bs)) as [H|H]; [exact H|].
  exfalso.
  destruct (header_parse_long bs H) as [f [s [opc [ext [kb [rest [mk [_ [_ [_ [_ E]]]]]]]]]]].
  rewrite E in Hp. exact (parse_result_not_incomplete _ _ _ _ _ _ Hp).
Qed.

(* inversion of a successful parse *)
Lemma header_parse_ok_inv (bs : bytes) (h : header) (n k : N) :
  header_parse bs = POk h n k ->
  exists f s ext kb rest,
    bs = f :: s :: ext ++ kb ++ rest /\
    blen ext = hdr_ll s /\
    key_shape (bit s 128) kb (h_mask h) /\
    opcode_of_u8 (N.land f 15) = Some (h_opcode h) /\
    is_reserved (h_opcode h) = false /\
    h = mkHeader (bit f 128) (bit f 64) (bit f 32) (bit f 16) (h_opcode h) (h_mask h) /\
    n = (if 0 <? hdr_ll s then from_be ext else N.land s 127) /\
    k = 2 + hdr_ll s + blen kb.
Proof.
  intros Hp.
  destruct (N.lt_ge_cases (blen bs) (announced_len bs)) as [H|H].
  { rewrite (header_parse_short bs H) in Hp. discriminate Hp. }
  destruct (header_parse_long bs H) as [f [s [opc [ext [kb [rest [mk [Hbs [Hext [Hk [Ho E]]]]]]]]]]].
  rewrite E in Hp. unfold parse_result in Hp.
  destruct (is_reserved opc) eqn:Er; [discriminate Hp|].
  injection Hp as <- <- <-.
  exists f, s, ext, kb, rest. cbn [h_opcode h_mask]. repeat split; assumption.
Qed.

(* inversion of a failed parse: only InvalidOpcode, only for the reserved nibbles *)
Lemma header_parse_err_inv (bs : bytes) (c : N) :
  header_parse bs = PErr c ->
  announced_len bs <= blen bs /\ reserved_nibble c /\
  exists f r, bs = f :: r /\ c = N.land f 15.
Proof.
  intros Hp.
  destruct (N.lt_ge_cases (blen bs) (announced_len bs)) as [H|H].
  { rewrite (header_parse_short bs H) in Hp. discriminate Hp. }
  split; [exact H|].
  destruct (header_parse_long bs H) as [f [s [opc [ext [kb [rest [mk [Hbs [Hext [Hk [Ho E]]]]]]]]]]].
  rewrite E in Hp. unfold parse_result in Hp.
  destruct (is_reserved opc) eqn:Er; [|discriminate Hp].
  injection Hp as <-. split.
  - apply (opcode_reserved_iff _ _ Ho). exact Er.
  - exists f, (s :: ext ++ kb ++ rest). split; [exact Hbs | reflexivity].
Qed.

(* complete headers are insensitive to what follows *)
Lemma header_parse_app (bs more : bytes) :
  announced_len bs <= blen bs -> header_parse (bs ++ more) = header_parse bs.
Proof.
  intros H.
  destruct (header_parse_long bs H) as [f [s [opc [ext [kb [rest [mk [Hbs [Hext [Hk [Ho E]]]]]]]]]]].
  rewrite E. subst bs. cbn [app]. rewrite <- !app_assoc.
  apply header_parse_build; assumption.
Qed.

Lemma header_parse_app_ok (bs more : bytes) (h : header) (n k : N) :
  header_parse bs = POk h n k -> header_parse (bs ++ more) = POk h n k.
Proof.
  intros Hp. rewrite header_parse_app; [exact Hp|].
  destruct (N.lt_ge_cases (blen bs) (announced_len bs)) as [H|H]; [|exact H].
  rewrite (header_parse_short bs H) in Hp. discriminate Hp.
Qed.

Lemma header_parse_app_err (bs more : bytes) (c : N) :
  header_parse bs = PErr c -> header_parse (bs ++ more) = PErr c.
Proof.
  intros Hp. rewrite header_parse_app; [exact Hp|].
  destruct (N.lt_ge_cases (blen bs) (announced_len bs)) as [H|H]; [|exact H].
  rewrite (header_parse_short bs H) in Hp. discriminate Hp.
Qed.

(* consumed count: exactly the announced header size, between 2 and 14, within the input *)
Lemma header_parse_ok_consumed (bs : bytes) (h : header) (n k : N) :
  header_parse bs = POk h n k -> k = announced_len bs.
Proof.
  intros Hp.
  destruct (header_parse_ok_inv _ _ _ _ Hp) as [f [s [ext [kb [rest [-> [_ [Hk [_ [_ [_ [_ ->]]]]]]]]]]]].
  cbn [announced_len]. rewrite (key_shape_blen _ _ _ Hk). reflexivity.
Qed.

Lemma header_parse_ok_bounds (bs : bytes) (h : header) (n k : N) :
  header_parse bs = POk h n k -> 2 <= k <= blen bs /\ k <= 14.
Proof.
  intros Hp. rewrite (header_parse_ok_consumed _ _ _ _ Hp).
  pose proof (announced_len_bounds bs) as Hb.
  destruct (N.lt_ge_cases (blen bs) (announced_len bs)) as [H|H]; [|lia].
  rewrite (header_parse_short bs H) in Hp. discriminate Hp.
Qed.

(* the result depends only on the k bytes consumed *)
Lemma header_parse_ok_takeN (bs : bytes) (h : header) (n k : N) :
  header_parse bs = POk h n k ->
  header_parse (takeN k bs) = POk h n k /\ blen (takeN k bs) = k /\
  exists rest, bs = takeN k bs ++ rest.
Proof.
  intros Hp.
  destruct (header_parse_ok_inv _ _ _ _ Hp)
    as [f [s [ext [kb [rest [Hbs [Hext [Hk [Ho [Hr [Hh [Hn Hkk]]]]]]]]]]]].
  assert (Hpre : bs = (f :: s :: ext ++ kb) ++ rest).
  { rewrite Hbs. cbn [app]. rewrite <- app_assoc. reflexivity. }
  assert (Hlen : blen (f :: s :: ext ++ kb) = k).
  { rewrite !blen_cons, blen_app, Hext, Hkk. lia. }
  assert (Ht : takeN k bs = f :: s :: ext ++ kb).
  { rewrite Hpre. apply takeN_app_exact, Hlen. }
  rewrite Ht. split; [|split; [exact Hlen | exists rest; exact Hpre]].
  rewrite <- (app_nil_r kb). rewrite (header_parse_build f s (h_opcode h) ext kb [] (h_mask h) Ho Hext Hk).
  unfold parse_result. rewrite Hr, <- Hn, <- Hkk, <- Hh. reflexivity.
Qed.

(* ------------------------------------------------------------------ *)
(** * 6. Big-endian packing: to_be / from_be are inverse for every width *)

Definition bytes_ok (bs : bytes) : Prop := Forall (fun b => b < 256) bs.

Lemma from_be_snoc (l : bytes) (b : N) : from_be (l ++ [b]) = from_be l * 256 + b.
Proof. unfold from_be. rewrite fold_left_app. reflexivity. Qed.

Lemma to_be_length (w : nat) : forall v, length (to_be w v) = w.
Proof.
  induction w as [|w IH]; intros v; cbn [to_be]; [reflexivity|].
  rewrite app_length, IH. cbn [length]. lia.
Qed.

Lemma to_be_blen (w : nat) (v : N) : blen (to_be w v) = N.of_nat w.
Proof. unfold blen. rewrite to_be_length. reflexivity. Qed.

Lemma to_be_bytes_ok (w : nat) : forall v, bytes_ok (to_be w v).
Proof.
  induction w as [|w IH]; intros v; cbn [to_be]; [constructor|].
  apply Forall_app. split; [apply IH|].
  constructor; [|constructor]. apply N.mod_upper_bound. discriminate.
Qed.

Lemma from_be_to_be (w : nat) : forall v, from_be (to_be w v) = v mod 256 ^ N.of_nat w.
Proof.
  induction w as [|w IH]; intros v.
  - cbn [to_be]. change (256 ^ N.of_nat 0) with 1. rewrite N.mod_1_r. reflexivity.
  - cbn [to_be]. rewrite from_be_snoc, IH.
    replace (N.of_nat (S w)) with (N.succ (N.of_nat w)) by lia.
    rewrite N.pow_succ_r'.
    rewrite (N.mod_mul_r v 256 (256 ^ N.of_nat w));
      [| discriminate | apply N.pow_nonzero; discriminate].
    rewrite N.add_comm, (N.mul_comm 256). reflexivity.
Qed.

Lemma from_be_to_be_small (w : nat) (v : N) : v < 256 ^ N.of_nat w -> from_be (to_be w v) = v.
Proof. intros H. rewrite from_be_to_be. apply N.mod_small, H. Qed.

Lemma from_be_bound (l : bytes) : bytes_ok l -> from_be l < 256 ^ blen l.
Proof.
  induction l as [|b l IH] using rev_ind; intros H.
  - cbn. lia.
  - apply Forall_app in H. destruct H as [Hl Hb]. inversion Hb as [|x y Hb256 _]; subst.
    rewrite from_be_snoc, blen_app. change (blen [b]) with 1.
    rewrite N.add_1_r, N.pow_succ_r'. specialize (IH Hl). lia.
Qed.

Lemma to_be_from_be (l : bytes) : bytes_ok l -> to_be (length l) (from_be l) = l.
Proof.
  induction l as [|b l IH] using rev_ind; intros H.
  - reflexivity.
  - apply Forall_app in H. destruct H as [Hl Hb]. inversion Hb as [|x y Hb256 _]; subst.
    rewrite app_length. cbn [length]. rewrite Nat.add_1_r. cbn [to_be].
    rewrite from_be_snoc.
    replace ((from_be l * 256 + b) / 256) with (from_be l)
      by (apply N.div_unique with b; lia).
    replace ((from_be l * 256 + b) mod 256) with b
      by (apply N.mod_unique with (from_be l); lia).
    rewrite (IH Hl). reflexivity.
Qed.

Lemma to_be_from_be_N (w : nat) (l : bytes) :
  blen l = N.of_nat w -> bytes_ok l -> to_be w (from_be l) = l.
Proof.
  intros Hw H. replace w with (length l) by (unfold blen in Hw; lia). apply to_be_from_be, H.
Qed.

(* ------------------------------------------------------------------ *)
(** * 7. Bit packing of the first two header bytes (finite sweeps) *)

Definition pack0 (fin r1 r2 r3 : bool) (code : N) : N :=
  N.lor (N.lor (N.lor (N.lor code (flag fin 128)) (flag r1 64)) (flag r2 32)) (flag r3 16).

Definition pack0_check (fin r1 r2 r3 : bool) (c : N) : bool :=
  (16 <=? c) ||
  let p := pack0 fin r1 r2 r3 c in
  ((N.land p 15 =? c) && Bool.eqb (bit p 128) fin && Bool.eqb (bit p 64) r1 &&
   Bool.eqb (bit p 32) r2 && Bool.eqb (bit p 16) r3 && (p <? 256)).

Lemma pack0_check_all fin r1 r2 r3 : forallb (pack0_check fin r1 r2 r3) all_bytes = true.
Proof. destruct fin, r1, r2, r3; vm_compute; reflexivity. Qed.

(* all 16 flag combinations x all 16 nibbles: the first byte unpacks to what was packed *)
Lemma pack0_decode fin r1 r2 r3 c : c < 16 ->
  let p := pack0 fin r1 r2 r3 c in
  N.land p 15 = c /\ bit p 128 = fin /\ bit p 64 = r1 /\ bit p 32 = r2 /\ bit p 16 = r3 /\ p < 256.
Proof.
  intros Hc p.
  pose proof (byte_sweep _ (pack0_check_all fin r1 r2 r3) c ltac:(lia)) as S.
  unfold pack0_check in S. cbv zeta in S. fold p in S.
  lia.
Qed.

(* all 256 first bytes: repacking the unpacked fields gives the byte back *)
Lemma pack0_reencode (b : N) : b < 256 ->
  pack0 (bit b 128) (bit b 64) (bit b 32) (bit b 16) (N.land b 15) = b.
Proof.
  intros Hb.
  pose proof (byte_sweep
    (fun b => pack0 (bit b 128) (bit b 64) (bit b 32) (bit b 16) (N.land b 15) =? b)
    ltac:(vm_compute; reflexivity) b Hb) as S.
  cbv beta in S. lia.
Qed.

Definition pack1 (lb : N) (masked : bool) : N := N.lor lb (flag masked 128).

Definition pack1_check (m : bool) (lb : N) : bool :=
  (128 <=? lb) ||
  let p := pack1 lb m in
  ((N.land p 127 =? lb) && Bool.eqb (bit p 128) m && (p <? 256)).

Lemma pack1_check_all m : forallb (pack1_check m) all_bytes = true.
Proof. destruct m; vm_compute; reflexivity. Qed.

(* both mask bits x all 128 length bytes *)
Lemma pack1_decode (lb : N) (m : bool) : lb < 128 ->
  let p := pack1 lb m in N.land p 127 = lb /\ bit p 128 = m /\ p < 256.
Proof.
  intros Hlb p.
  pose proof (byte_sweep _ (pack1_check_all m) lb ltac:(lia)) as S.
  unfold pack1_check in S. cbv zeta in S. fold p in S.
  lia.
Qed.

(* all 256 second bytes *)
Lemma pack1_reencode (s : N) : s < 256 -> pack1 (N.land s 127) (bit s 128) = s.
Proof.
  intros Hs.
  pose proof (byte_sweep (fun s => pack1 (N.land s 127) (bit s 128) =? s)
    ltac:(vm_compute; reflexivity) s Hs) as S.
  cbv beta in S. lia.
Qed.

(* ------------------------------------------------------------------ *)
(** * 8. header_format / header_len *)

Definition wf_header (h : header) : Prop :=
  is_reserved (h_opcode h) = false /\
  match h_mask h with Some k => wf_key k = true | None => True end.

Definition has_mask (h : header) : bool := match h_mask h with Some _ => true | None => false end.

Definition byte0 (h : header) : N :=
  pack0 (h_fin h) (h_rsv1 h) (h_rsv2 h) (h_rsv3 h) (opcode_to_u8 (h_opcode h)).
Definition byte1 (h : header) (n : N) : N :=
  pack1 (lf_length_byte (lf_for_length n)) (has_mask h).
Definition ext_bytes (n : N) : bytes :=
  match lf_for_length n with LU8 _ => [] | LU16 => to_be 2 (n mod 65536) | LU64 => to_be 8 n end.
Definition mask_bytes (h : header) : bytes :=
  match h_mask h with Some k => key_bytes k | None => [] end.

Lemma header_format_eq (h : header) (n : N) :
  header_format h n = byte0 h :: byte1 h n :: ext_bytes n ++ mask_bytes h.
Proof. reflexivity. Qed.

(* header_len in closed form: 2 / 4 / 10 by length class, +4 with a key *)
Lemma header_len_eq (h : header) (n : N) :
  header_len h n =
  (if n <? 126 then 2 else if n <? 65536 then 4 else 10) + (if has_mask h then 4 else 0).
Proof.
  unfold header_len, lf_for_length, has_mask.
  destruct (n <? 126); [|destruct (n <? 65536)]; cbn [lf_extra]; destruct (h_mask h); reflexivity.
Qed.

Lemma header_len_bounds (h : header) (n : N) : 2 <= header_len h n <= 14.
Proof.
  rewrite header_len_eq.
  destruct (n <? 126); [|destruct (n <? 65536)]; destruct (has_mask h); lia.
Qed.

Lemma lf_length_byte_lt (n : N) : lf_length_byte (lf_for_length n) < 128.
Proof.
  unfold lf_for_length.
  destruct (n <? 126) eqn:E1; [|destruct (n <? 65536)]; cbn [lf_length_byte]; lia.
Qed.

Lemma lf_for_byte_length_byte (n : N) : lf_for_byte (lf_length_byte (lf_for_length n)) = lf_for_length n.
Proof.
  unfold lf_for_length.
  destruct (n <? 126) eqn:E1; [|destruct (n <? 65536)]; cbn [lf_length_byte]; try reflexivity.
  unfold lf_for_byte.
  destruct (n =? 126) eqn:E2; [lia|]. destruct (n =? 127) eqn:E3; [lia|]. reflexivity.
Qed.

Lemma byte1_land (h : header) (n : N) : N.land (byte1 h n) 127 = lf_length_byte (lf_for_length n).
Proof. apply (pack1_decode _ (has_mask h) (lf_length_byte_lt n)). Qed.

Lemma byte1_bit (h : header) (n : N) : bit (byte1 h n) 128 = has_mask h.
Proof. apply (pack1_decode _ (has_mask h) (lf_length_byte_lt n)). Qed.

Lemma byte1_lt (h : header) (n : N) : byte1 h n < 256.
Proof. apply (pack1_decode _ (has_mask h) (lf_length_byte_lt n)). Qed.

Lemma byte1_hdr_ll (h : header) (n : N) : hdr_ll (byte1 h n) = lf_extra (lf_for_length n).
Proof. unfold hdr_ll. rewrite byte1_land, lf_for_byte_length_byte. reflexivity. Qed.

Lemma ext_bytes_blen (n : N) : blen (ext_bytes n) = lf_extra (lf_for_length n).
Proof.
  unfold ext_bytes. destruct (lf_for_length n); cbn [lf_extra]; [reflexivity | |]; apply to_be_blen.
Qed.

Lemma ext_bytes_ok (n : N) : bytes_ok (ext_bytes n).
Proof. unfold ext_bytes. destruct (lf_for_length n); [constructor | |]; apply to_be_bytes_ok. Qed.

Lemma mask_bytes_shape (h : header) (n : N) : key_shape (bit (byte1 h n) 128) (mask_bytes h) (h_mask h).
Proof.
  rewrite byte1_bit. unfold has_mask, mask_bytes, key_shape.
  destruct (h_mask h); split; reflexivity.
Qed.

Lemma mask_bytes_blen (h : header) : blen (mask_bytes h) = if has_mask h then 4 else 0.
Proof.
  unfold mask_bytes, has_mask. destruct (h_mask h) as [[[[a b] c] d]|]; reflexivity.
Qed.

(* the length value that parse reads back from the formatted length field *)
Lemma ext_bytes_value (h : header) (n : N) : n < two64 ->
  (if 0 <? hdr_ll (byte1 h n) then from_be (ext_bytes n) else N.land (byte1 h n) 127) = n.
Proof.
  intros Hn. rewrite byte1_hdr_ll, byte1_land. unfold ext_bytes, lf_for_length.
  destruct (n <? 126) eqn:E1; [reflexivity|].
  destruct (n <? 65536) eqn:E2; cbn [lf_extra lf_length_byte].
  - change (0 <? 2) with true. cbv iota.
    rewrite from_be_to_be_small.
    + apply N.mod_small. lia.
    + change (256 ^ N.of_nat 2) with 65536. apply N.mod_upper_bound. discriminate.
  - change (0 <? 8) with true. cbv iota.
    apply from_be_to_be_small. change (256 ^ N.of_nat 8) with two64. exact Hn.
Qed.

(* C18_format_len: the formatted header has exactly header_len bytes — for every h and n *)
Lemma header_format_blen (h : header) (n : N) : blen (header_format h n) = header_len h n.
Proof.
  rewrite header_format_eq, !blen_cons, blen_app, ext_bytes_blen, mask_bytes_blen.
  unfold header_len, has_mask. destruct (h_mask h); lia.
Qed.

Lemma header_format_length (h : header) (n : N) :
  length (header_format h n) = N.to_nat (header_len h n).
Proof. rewrite <- header_format_blen. unfold blen. lia. Qed.

Lemma opcode_to_u8_lt (o : opcode) : is_reserved o = false -> opcode_to_u8 o < 16.
Proof. destruct o as [[| | |i]|[| | |i]]; cbn [is_reserved opcode_to_u8]; intros H; try discriminate H; lia. Qed.

(* every emitted byte is a byte *)
Lemma header_format_bytes_ok (h : header) (n : N) : wf_header h -> bytes_ok (header_format h n).
Proof.
  intros [Hr Hk]. rewrite header_format_eq.
  constructor; [|constructor; [apply byte1_lt|]].
  - apply (pack0_decode _ _ _ _ _ (opcode_to_u8_lt _ Hr)).
  - apply Forall_app. split; [apply ext_bytes_ok|].
    unfold mask_bytes. destruct (h_mask h) as [k|]; [|constructor].
    unfold wf_key, wf_bytes in Hk. rewrite forallb_forall in Hk.
    apply Forall_forall. intros x Hx. specialize (Hk x Hx). unfold wf_byte in Hk. lia.
Qed.

Lemma opcode_of_u8_lt (b : N) (o : opcode) : opcode_of_u8 b = Some o -> b < 16.
Proof.
  unfold opcode_of_u8.
  repeat match goal with
  | |- context [if ?c then _ else _] => destruct c eqn:?; [intros _; lia |]
  end.
  intros H. discriminate H.
Qed.

(* general round trip, reserved opcodes included (they come back as InvalidOpcode);
   "canonical" opcode = one that OpCode::from can produce (Reserved(i) only for i in 3-7 / 11-15) *)
Lemma header_parse_format_gen (h : header) (n : N) (rest : bytes) :
  opcode_of_u8 (opcode_to_u8 (h_opcode h)) = Some (h_opcode h) -> n < two64 ->
  header_parse (header_format h n ++ rest) =
  if is_reserved (h_opcode h) then PErr (opcode_to_u8 (h_opcode h)) else POk h n (header_len h n).
Proof.
  intros Hcan Hn. pose proof (opcode_of_u8_lt _ _ Hcan) as Hc.
  rewrite header_format_eq. cbn [app]. rewrite <- app_assoc.
  destruct (pack0_decode (h_fin h) (h_rsv1 h) (h_rsv2 h) (h_rsv3 h) _ Hc)
    as [H15 [H128 [H64 [H32 [H16 _]]]]].
  fold (byte0 h) in H15, H128, H64, H32, H16.
  assert (Ho : opcode_of_u8 (N.land (byte0 h) 15) = Some (h_opcode h)).
  { rewrite H15. exact Hcan. }
  rewrite (header_parse_build _ _ _ _ _ rest _ Ho (eq_trans (ext_bytes_blen n) (eq_sym (byte1_hdr_ll h n)))
             (mask_bytes_shape h n)).
  unfold parse_result. rewrite H15, H128, H64, H32, H16, (ext_bytes_value h n Hn).
  destruct (is_reserved (h_opcode h)); [reflexivity|].
  f_equal.
  - destruct h; reflexivity.
  - rewrite byte1_hdr_ll, mask_bytes_blen. unfold header_len, has_mask. destruct (h_mask h); reflexivity.
Qed.

(* C18_parse_format *)
Lemma header_parse_format_nr (h : header) (n : N) (rest : bytes) :
  is_reserved (h_opcode h) = false -> n < two64 ->
  header_parse (header_format h n ++ rest) = POk h n (header_len h n).
Proof.
  intros Hr Hn. rewrite (header_parse_format_gen h n rest (opcode_to_of _ Hr) Hn), Hr. reflexivity.
Qed.

Lemma header_parse_format (h : header) (n : N) (rest : bytes) :
  wf_header h -> n < two64 ->
  header_parse (header_format h n ++ rest) = POk h n (header_len h n).
Proof. intros [Hr _]. apply header_parse_format_nr, Hr. Qed.

Lemma header_parse_format_exact (h : header) (n : N) :
  wf_header h -> n < two64 -> header_parse (header_format h n) = POk h n (header_len h n).
Proof. intros Hw Hn. rewrite <- (app_nil_r (header_format h n)). apply header_parse_format; assumption. Qed.

(* ------------------------------------------------------------------ *)
(** * 9. Decoded headers are well formed; re-encoding gives the canonical (shortest) form *)

Lemma key_shape_has_mask (h : header) (m : bool) (kb : bytes) :
  key_shape m kb (h_mask h) -> has_mask h = m /\ mask_bytes h = kb.
Proof.
  unfold has_mask, mask_bytes, key_shape. destruct (h_mask h); intros [-> ->]; split; reflexivity.
Qed.

Lemma bytes_ok_wf_key (k : key) : bytes_ok (key_bytes k) -> wf_key k = true.
Proof.
  intros H. unfold wf_key, wf_bytes. apply forallb_forall. intros x Hx.
  unfold bytes_ok in H. rewrite Forall_forall in H. specialize (H x Hx). unfold wf_byte. lia.
Qed.

Lemma lf_extra_for_length (n : N) :
  lf_extra (lf_for_length n) = if n <? 126 then 0 else if n <? 65536 then 2 else 8.
Proof. unfold lf_for_length. destruct (n <? 126); [|destruct (n <? 65536)]; reflexivity. Qed.

Lemma header_len_alt (h : header) (n : N) :
  header_len h n = 2 + lf_extra (lf_for_length n) + (if has_mask h then 4 else 0).
Proof. unfold header_len, has_mask. destruct (h_mask h); reflexivity. Qed.

(* value and size of a parsed length field *)
Lemma length_field_bounds (s : N) (ext : bytes) (n : N) :
  bytes_ok ext -> blen ext = hdr_ll s ->
  n = (if 0 <? hdr_ll s then from_be ext else N.land s 127) ->
  n < two64 /\ lf_extra (lf_for_length n) <= hdr_ll s.
Proof.
  intros Hok Hext Hn. pose proof (land127_lt s) as H127.
  pose proof (from_be_bound ext Hok) as Hb. rewrite Hext in Hb.
  rewrite lf_extra_for_length. rewrite hdr_ll_eq in *.
  destruct (N.land s 127 =? 126) eqn:E1; [|destruct (N.land s 127 =? 127) eqn:E2].
  - change (0 <? 2) with true in Hn. cbv iota in Hn. change (256 ^ 2) with 65536 in Hb.
    unfold two64. destruct (n <? 126); [lia|]. destruct (n <? 65536) eqn:E3; lia.
  - change (0 <? 8) with true in Hn. cbv iota in Hn. change (256 ^ 8) with two64 in Hb.
    split; [lia|]. destruct (n <? 126); [lia|]. destruct (n <? 65536); lia.
  - change (0 <? 0) with false in Hn. cbv iota in Hn. unfold two64.
    destruct (n <? 126) eqn:E3; lia.
Qed.

(* a minimal parsed length field is exactly what format emits *)
Lemma length_field_canonical (s : N) (ext : bytes) (n : N) :
  bytes_ok ext -> blen ext = hdr_ll s ->
  n = (if 0 <? hdr_ll s then from_be ext else N.land s 127) ->
  lf_extra (lf_for_length n) = hdr_ll s ->
  lf_length_byte (lf_for_length n) = N.land s 127 /\ ext_bytes n = ext.
Proof.
  intros Hok Hext Hn Hmin. pose proof (land127_lt s) as H127.
  pose proof (from_be_bound ext Hok) as Hb. rewrite Hext in Hb.
  rewrite lf_extra_for_length in Hmin. unfold ext_bytes, lf_for_length.
  rewrite hdr_ll_eq in *.
  destruct (N.land s 127 =? 126) eqn:E1; [|destruct (N.land s 127 =? 127) eqn:E2].
  - change (0 <? 2) with true in Hn. cbv iota in Hn. change (256 ^ 2) with 65536 in Hb.
    destruct (n <? 126) eqn:E3; [lia|]. destruct (n <? 65536) eqn:E4; [|lia].
    cbn [lf_length_byte]. split; [lia|].
    rewrite N.mod_small by lia. rewrite Hn. apply to_be_from_be_N; [exact Hext | exact Hok].
  - change (0 <? 8) with true in Hn. cbv iota in Hn.
    destruct (n <? 126) eqn:E3; [lia|]. destruct (n <? 65536) eqn:E4; [lia|].
    cbn [lf_length_byte]. split; [lia|].
    rewrite Hn. apply to_be_from_be_N; [exact Hext | exact Hok].
  - change (0 <? 0) with false in Hn. cbv iota in Hn.
    destruct (n <? 126) eqn:E3; [|destruct (n <? 65536); lia].
    cbn [lf_length_byte]. split; [lia|].
    destruct ext as [|x ext']; [reflexivity|]. rewrite blen_cons in Hext. lia.
Qed.

Lemma bytes_ok_cons (b : N) (l : bytes) : bytes_ok (b :: l) <-> b < 256 /\ bytes_ok l.
Proof. unfold bytes_ok. rewrite Forall_cons_iff. reflexivity. Qed.

Lemma bytes_ok_app (a b : bytes) : bytes_ok (a ++ b) <-> bytes_ok a /\ bytes_ok b.
Proof. apply Forall_app. Qed.

(* a header decoded from real bytes is well formed and its length fits u64 *)
Lemma header_parse_ok_wf (bs : bytes) (h : header) (n k : N) :
  bytes_ok bs -> header_parse bs = POk h n k -> wf_header h /\ n < two64.
Proof.
  intros Hok Hp.
  destruct (header_parse_ok_inv _ _ _ _ Hp)
    as [f [s [ext [kb [rest [Hbs [Hext [Hk [Ho [Hr [Hh [Hn Hkk]]]]]]]]]]]].
  subst bs. apply bytes_ok_cons in Hok. destruct Hok as [Hf Hok1].
  apply bytes_ok_cons in Hok1. destruct Hok1 as [Hs Hok2].
  apply bytes_ok_app in Hok2. destruct Hok2 as [Hoe Hok3].
  apply bytes_ok_app in Hok3. destruct Hok3 as [Hokb _].
  split; [split; [exact Hr|] | exact (proj1 (length_field_bounds s ext n Hoe Hext Hn))].
  unfold key_shape in Hk. destruct (h_mask h) as [k'|]; [|exact I].
  destruct Hk as [_ ->]. apply bytes_ok_wf_key, Hokb.
Qed.

(* C18_shortest: no byte string that decodes to (h, n) is shorter than format's encoding *)
Lemma header_parse_ok_shortest (bs : bytes) (h : header) (n k : N) :
  bytes_ok bs -> header_parse bs = POk h n k -> header_len h n <= k.
Proof.
  intros Hok Hp.
  destruct (header_parse_ok_inv _ _ _ _ Hp)
    as [f [s [ext [kb [rest [Hbs [Hext [Hk [Ho [Hr [Hh [Hn Hkk]]]]]]]]]]]].
  subst bs. apply bytes_ok_cons in Hok. destruct Hok as [Hf Hok1].
  apply bytes_ok_cons in Hok1. destruct Hok1 as [Hs Hok2].
  apply bytes_ok_app in Hok2. destruct Hok2 as [Hoe _].
  pose proof (proj2 (length_field_bounds s ext n Hoe Hext Hn)) as Hle.
  rewrite header_len_alt, Hkk, (key_shape_blen _ _ _ Hk).
  destruct (key_shape_has_mask _ _ _ Hk) as [-> _]. lia.
Qed.

(* C18_reencode, canonical-form part: format h n reproduces the consumed bytes exactly when they
   used the minimal length form *)
Lemma header_parse_ok_canonical (bs : bytes) (h : header) (n k : N) :
  bytes_ok bs -> header_parse bs = POk h n k ->
  (header_format h n = takeN k bs <-> k = header_len h n).
Proof.
  intros Hok Hp.
  destruct (header_parse_ok_takeN _ _ _ _ Hp) as [_ [Hlen _]].
  split.
  { intros E. rewrite <- header_format_blen, E, Hlen. reflexivity. }
  intros Hmin.
  destruct (header_parse_ok_inv _ _ _ _ Hp)
    as [f [s [ext [kb [rest [Hbs [Hext [Hk [Ho [Hr [Hh [Hn Hkk]]]]]]]]]]]].
  assert (Ht : takeN k bs = f :: s :: ext ++ kb).
  { rewrite Hbs. replace (f :: s :: ext ++ kb ++ rest) with ((f :: s :: ext ++ kb) ++ rest)
      by (cbn [app]; rewrite <- app_assoc; reflexivity).
    apply takeN_app_exact. rewrite !blen_cons, blen_app, Hext, Hkk. lia. }
  rewrite Ht. subst bs.
  apply bytes_ok_cons in Hok. destruct Hok as [Hf Hok1].
  apply bytes_ok_cons in Hok1. destruct Hok1 as [Hs Hok2].
  apply bytes_ok_app in Hok2. destruct Hok2 as [Hoe _].
  destruct (key_shape_has_mask _ _ _ Hk) as [Hm Hmb].
  assert (Hll : lf_extra (lf_for_length n) = hdr_ll s).
  { rewrite header_len_alt, Hm, Hkk, (key_shape_blen _ _ _ Hk) in Hmin. lia. }
  destruct (length_field_canonical s ext n Hoe Hext Hn Hll) as [Hlb Hext_eq].
  rewrite header_format_eq. f_equal; [|f_equal].
  - unfold byte0. rewrite Hh. cbn [h_fin h_rsv1 h_rsv2 h_rsv3 h_opcode].
    rewrite (opcode_of_u8_inj_to _ _ Ho). apply pack0_reencode, Hf.
  - unfold byte1. rewrite Hlb, Hm. apply pack1_reencode, Hs.
  - rewrite Hext_eq, Hmb. reflexivity.
Qed.

(* ------------------------------------------------------------------ *)
(** * 10. Frames: reported size = bytes emitted; both encoders agree *)

Lemma xor_cyc_length (bs : bytes) : forall k, length (xor_cyc k bs) = length bs.
Proof.
  induction bs as [|b r IH]; intros k; cbn [xor_cyc length]; [reflexivity|].
  rewrite IH. reflexivity.
Qed.

Lemma apply_mask_blen (k : key) (bs : bytes) : blen (apply_mask k bs) = blen bs.
Proof. unfold apply_mask, blen. rewrite xor_cyc_length. reflexivity. Qed.

Lemma frame_len_format (f : frame) : frame_len f = blen (frame_format f).
Proof.
  unfold frame_len, frame_format. rewrite blen_app, header_format_blen.
  destruct (h_mask (f_hdr f)); [rewrite apply_mask_blen|]; reflexivity.
Qed.

Lemma frame_encoders_agree (pre : bytes) (f : frame) :
  frame_format_into_buf pre f = pre ++ frame_format f.
Proof.
  unfold frame_format_into_buf, frame_format. cbv zeta.
  destruct (h_mask (f_hdr f)) as [k|].
  - rewrite takeN_app_exact by reflexivity. rewrite dropN_app_exact by reflexivity.
    rewrite <- app_assoc. reflexivity.
  - rewrite <- app_assoc. reflexivity.
Qed.

Lemma frame_len_into_buf (pre : bytes) (f : frame) :
  blen (frame_format_into_buf pre f) = blen pre + frame_len f.
Proof. rewrite frame_encoders_agree, blen_app, frame_len_format. reflexivity. Qed.

(* ------------------------------------------------------------------ *)
(** * 11. Trichotomy *)

Lemma header_parse_trichotomy (bs : bytes) :
  (exists h n k, header_parse bs = POk h n k) \/
  (exists c, header_parse bs = PErr c /\ reserved_nibble c) \/
  header_parse bs = PIncomplete.
Proof.
  destruct (header_parse bs) as [h n k| |c|] eqn:E.
  - left. exists h, n, k. reflexivity.
  - right. right. reflexivity.
  - right. left. exists c. split; [reflexivity|]. apply (header_parse_err_inv _ _ E).
  - exfalso. exact (header_parse_no_panic bs E).
Qed.

(* an error is reported exactly for complete headers whose opcode nibble is reserved *)
Lemma header_parse_err_iff (bs : bytes) (c : N) :
  header_parse bs = PErr c <->
  announced_len bs <= blen bs /\ reserved_nibble c /\ exists f r, bs = f :: r /\ c = N.land f 15.
Proof.
  split; [apply header_parse_err_inv|].
  intros [H [Hres [f0 [r0 [Hbs Hc]]]]].
  destruct (header_parse_long bs H) as [f [s [opc [ext [kb [rest [mk [Hbs' [Hext [Hk [Ho E]]]]]]]]]]].
  rewrite E. unfold parse_result.
  assert (f0 = f) by (rewrite Hbs in Hbs'; injection Hbs'; auto). subst f0.
  rewrite <- Hc in *.
  destruct (is_reserved opc) eqn:Er; [reflexivity|].
  exfalso. apply (opcode_reserved_iff _ _ Ho) in Hres. rewrite Hres in Er. discriminate Er.
Qed.

(* ------------------------------------------------------------------ *)
(** * 12. Bundled statements (the shapes used by props/C18.v) *)

Lemma header_format_len_all (h : header) (n : N) :
  blen (header_format h n) = header_len h n /\
  length (header_format h n) = N.to_nat (header_len h n) /\
  (wf_header h -> bytes_ok (header_format h n)).
Proof.
  split; [exact (header_format_blen h n)|].
  split; [exact (header_format_length h n) | exact (header_format_bytes_ok h n)].
Qed.

Lemma header_shortest_all (h : header) (n : N) :
  header_len h n =
    (if n <? 126 then 2 else if n <? 65536 then 4 else 10) + (if has_mask h then 4 else 0) /\
  forall (bs : bytes) (k : N),
    bytes_ok bs -> header_parse bs = POk h n k -> header_len h n <= k.
Proof.
  split; [exact (header_len_eq h n)|].
  intros bs k. exact (header_parse_ok_shortest bs h n k).
Qed.

Lemma header_parse_classify (bs : bytes) :
  ((exists h n k, header_parse bs = POk h n k) \/
   (exists c, header_parse bs = PErr c /\ reserved_nibble c) \/
   header_parse bs = PIncomplete) /\
  header_parse bs <> PPanic /\
  (header_parse bs = PIncomplete <-> blen bs < announced_len bs) /\
  (forall c, header_parse bs = PErr c <->
     announced_len bs <= blen bs /\ reserved_nibble c /\
     exists f r, bs = f :: r /\ c = N.land f 15).
Proof.
  split; [exact (header_parse_trichotomy bs)|].
  split; [exact (header_parse_no_panic bs)|].
  split; [exact (header_parse_incomplete_iff bs) | exact (header_parse_err_iff bs)].
Qed.

Lemma header_parse_ok_consumed_all (bs : bytes) (h : header) (n k : N) :
  header_parse bs = POk h n k ->
  k = announced_len bs /\ 2 <= k <= blen bs /\ k <= 14 /\
  header_parse (takeN k bs) = POk h n k /\ blen (takeN k bs) = k.
Proof.
  intros Hp.
  split; [exact (header_parse_ok_consumed bs h n k Hp)|].
  destruct (header_parse_ok_bounds bs h n k Hp) as [Hb H14].
  destruct (header_parse_ok_takeN bs h n k Hp) as [Ht [Hl _]]. auto.
Qed.

Lemma header_parse_prefix_stable (bs more : bytes) :
  (forall h n k, header_parse bs = POk h n k -> header_parse (bs ++ more) = POk h n k) /\
  (forall c, header_parse bs = PErr c -> header_parse (bs ++ more) = PErr c).
Proof.
  split.
  - intros h n k. exact (header_parse_app_ok bs more h n k).
  - intros c. exact (header_parse_app_err bs more c).
Qed.

Lemma header_parse_reencode (bs : bytes) (h : header) (n k : N) :
  bytes_ok bs -> header_parse bs = POk h n k ->
  wf_header h /\ n < two64 /\
  header_parse (header_format h n) = POk h n (header_len h n) /\
  header_len h n <= k /\
  (header_format h n = takeN k bs <-> k = header_len h n).
Proof.
  intros Hok Hp.
  destruct (header_parse_ok_wf bs h n k Hok Hp) as [Hw Hn].
  split; [exact Hw|]. split; [exact Hn|].
  split; [exact (header_parse_format_exact h n Hw Hn)|].
  split; [exact (header_parse_ok_shortest bs h n k Hok Hp)
         | exact (header_parse_ok_canonical bs h n k Hok Hp)].
Qed.

Lemma frame_len_all (f : frame) :
  frame_len f = blen (frame_format f) /\
  forall pre, blen (frame_format_into_buf pre f) = blen pre + frame_len f.
Proof. split; [exact (frame_len_format f) | intros pre; exact (frame_len_into_buf pre f)]. Qed.
